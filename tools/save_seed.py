#!/usr/bin/env python3
"""save_seed.py <id> <property> <patch> <demo> <needs> <caught_by> <ran>"""
import json, os, shutil, sys
sid, prop, patch, demo, needs, caught, ran = sys.argv[1:8]
d = os.path.join("/verif/seeded", sid)
os.makedirs(d, exist_ok=True)
shutil.copy(patch, os.path.join(d, "patch.diff"))
shutil.copy(demo, os.path.join(d, os.path.basename(demo)))
json.dump({"id": sid, "property": prop, "needs_to_manifest": needs, "detected_by": caught, "what_i_ran": ran,
           "demo": os.path.basename(demo)}, open(os.path.join(d, "meta.json"), "w"), indent=1)
print("saved", d)
