#!/bin/sh
# usage: tools/run_all.sh <quick|thorough> [ids...]   -- runs the registered checks one after the other, prints a summary
tier=${1:-quick}; shift
cd "$(dirname "$0")/.."
ids=${*:-C01 C02 C03 C04 C05 C06 C07 C08 C09 C10 C11 C12 C13 C14 C15 C16 C17 C18 C19 C20}
export GOFLAGS=-mod=mod GOPROXY=off GOSUMDB=off GOTOOLCHAIN=local
for p in $ids; do
  s=$(date +%s)
  ./check $p $tier > .work/run_all_$p.log 2>&1; rc=$?
  e=$(date +%s)
  echo "$p $tier exit=$rc $((e-s))s $(tail -1 .work/run_all_$p.log | cut -c1-160)"
  grep -h "VIOLATION\|KNOWN-FINDING" .work/run_all_$p.log | cut -c1-200
done
