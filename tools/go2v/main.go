// go2v: translator from a tiny subset of Go (pure byte/integer kernels of goom) to Gallina.
//
// It is re-run by every check; the generated files in coq/Gen are never committed.
// Semantics of the translation (this is part of the trusted base):
//   - every integer value is a Z inside the range of its Go type (sizes from go/types for the GOARCH
//     the file is built for); + - * << unary- and conversions wrap explicitly (wrapu/wraps n),
//     >> & | ^ comparisons do not need to;
//   - []byte is list Z; b[i] is nthZ (default 0: reads beyond the slice are NOT modelled as panics,
//     the functions translated here only index slices they have just built or whose length the caller fixes);
//   - statements are translated in continuation style (an if without return duplicates the continuation);
//   - a function containing panic(...) returns option (None = panic);
//   - syscall.Getpagesize() becomes an extra first parameter `pagesize`.
// Anything outside the subset makes the translation of that function fail; the failure is reported
// in the generated file's manifest (Gen/<file>.json) and handled by the verdict logic.
package main

import (
	"encoding/json"
	"flag"
	"fmt"
	"go/ast"
	"go/constant"
	"go/parser"
	"go/token"
	"go/types"
	"os"
	"path/filepath"
	"sort"
	"strings"

	"golang.org/x/tools/go/packages"
)

type spec struct {
	Out    string   // Gen module name
	Arch   string   // GOARCH
	Pkg    string   // package pattern relative to repo
	Funcs  []string // function names in dependency order ("Recv.Method" for methods)
	Tables []string // package-level map[const][]byte tables
	File   string   // if set: type-check this single file on its own (packages that do not build for Arch)
	Progs  []string // functions translated to the atomic-step IR of Model/StubSpace.v
	Cursor []string // methods translated to the cursor IR of Model/SeqConc.v
	Loops  []string // page loops (memory.mProtectCrossPage)
	Shapes []string // step order of memory.WriteTo
	SysProts []string // step order of a writer that calls mprotect through syscall.Syscall (memory.writeTo, the fallback)
	Orders map[string][]string // function -> callees whose call order is emitted
	Erro   bool                // emit the Traceable table of package erro
	Pure   map[string][]string // name -> root functions whose transitive package-local writes are emitted
	Lits   map[string][2][]string // function -> (watched callee names, watched variables): skeleton of its function literals
	Locks  map[string][]string    // name -> package-level variables whose access sites and their protection are emitted
	LockHelpers map[string]string // helper function -> lock it takes / releases
	LockIgnore  []string          // exported entry points that goom's own packages never call
	A64Table bool // emit the arm64 decode table
	X86Table bool // emit the x86 decoding program and the decodeOp numbering
	MethodCallers map[string][3]string // name -> (type's package suffix, type, method): functions of this package that call it
	Skeletons []string // functions whose control skeleton is emitted
}

var specs = []spec{
	{Out: "JumpAmd64", Arch: "amd64", Pkg: "./internal/patch", Funcs: []string{"relative", "jmpToFunctionValue", "jmpToOriginFunctionValue"}},
	{Out: "IfaceJmpAmd64", Arch: "amd64", Pkg: "./internal/iface", Funcs: []string{"jmpWithRdx"}},
	{Out: "JumpArm64", Arch: "arm64", Pkg: "./internal/patch", Funcs: []string{"movImm", "jmpToFunctionValue"}},
	{Out: "IfaceJmpArm64", Arch: "arm64", Pkg: "./internal/iface", Funcs: []string{"movImm", "jmpWithRdx", "jmpWithRdxAndCtx"}},
	{Out: "Jump386", Arch: "386", Pkg: "./internal/patch", File: "internal/patch/monkey_386.go", Funcs: []string{"jmpToFunctionValue"}},
	{Out: "Addr", Arch: "amd64", Pkg: "./internal/bytecode", Funcs: []string{"littleEndian.Int16", "littleEndian.Int32", "littleEndian.Int64", "isByteOverflow", "isInt16Overflow", "isInt32Overflow", "DecodeAddress"}, Tables: []string{"opExpand"}},
	{Out: "Holder", Arch: "amd64", Pkg: "./internal/bytecode/stub", Progs: []string{"acquireFromHolder"}},
	{Out: "Cursor", Arch: "amd64", Pkg: ".", Cursor: []string{"BaseMatcher.Result"}},
	{Out: "PatchOrder", Arch: "amd64", Pkg: "./internal/patch", Orders: map[string][]string{
		"patch.patchValue":           {"SignatureEquals", "unsafePatchValue"},
		"patch.replaceFunc":          {"unpatchValue", "genJumpData", "checkAndReadOriginBytes", "fixOrigin"},
		"fixOriginFuncToTrampoline": {"fixRelativeAddr", "WriteTo", "jmpToOriginFunctionValue"},
		"Guard.Apply":               {"WriteTo"},
	}},
	{Out: "MockerOrder", Arch: "amd64", Pkg: ".", Orders: map[string][]string{
		"baseMocker.applyByFunc":   {"Func", "Apply"},
		"baseMocker.applyByMethod": {"Method", "Apply"},
		"baseMocker.applyByName":   {"FuncName", "Apply"},
	}},
	{Out: "Erro", Arch: "amd64", Pkg: "./erro", Erro: true},
	{Out: "SigSkeleton", Arch: "amd64", Pkg: "./internal/patch", Skeletons: []string{"SignatureEquals"}},
	{Out: "ArgSkeleton", Arch: "amd64", Pkg: "./arg", Skeletons: []string{"I2V", "toValue", "V2I"}},
	{Out: "ProxySkeleton", Arch: "amd64", Pkg: "./internal/proxy", Skeletons: []string{"Interface", "checkInterfaceImp", "methodIndexOf"}},
	{Out: "MockerSkeleton", Arch: "amd64", Pkg: ".", Skeletons: []string{"DefMocker.Apply", "MethodMocker.Apply", "UnexportedMethodMocker.Apply",
		"UnexportedFuncMocker.Apply", "DefaultInterfaceMocker.Apply", "baseMocker.applyByName", "baseMocker.applyByFunc", "baseMocker.applyByMethod",
		"baseMocker.applyByIFaceMethod", "baseMocker.Cancel", "defaultVarMocker.Set", "defaultVarMocker.Apply", "defaultVarMocker.Cancel", "defaultVarMocker.doSet", "unExportedVarMocker.set"}},
	{Out: "ArgPurity", Arch: "amd64", Pkg: "./arg", Pure: map[string][]string{
		"arg_eval": {"*.Eval", "equal", "ExpandVariadic"},
	}},
	{Out: "DebugShape", Arch: "amd64", Pkg: ".", Lits: map[string][2][]string{
		"interceptDebugInfo": {{"originPFunc", "Call", "CallSlice", "IsVariadic", "originImp"}, {"results", "params"}},
	}},
	{Out: "LocksPatch", Arch: "amd64", Pkg: "./internal/patch", Locks: map[string][]string{"patch_globals": {"patches", "call:WriteTo"}},
		LockHelpers: map[string]string{"lock": "patchesLock", "unlock": "patchesLock"},
		LockIgnore: []string{"UnpatchAll", "Unpatch", "UnpatchInstanceMethod"}},
	{Out: "LocksBytecode", Arch: "amd64", Pkg: "./internal/bytecode", Locks: map[string][]string{"bytecode_globals": {"funcSizeCache"}}},
	{Out: "LocksUnexports", Arch: "amd64", Pkg: "./internal/unexports2", Locks: map[string][]string{"unexports_globals": {"funcAlignment", "varAlignment"}},
		LockIgnore: []string{"ExposeFunction"}},
	{Out: "LocksMemory", Arch: "amd64", Pkg: "./internal/bytecode/memory", Locks: map[string][]string{"memory_writes": {"call:mProtectCrossPage", "call:copy", "call:writeTo"}}},
	{Out: "UnpatchCallersRoot", Arch: "amd64", Pkg: ".", MethodCallers: map[string][3]string{"root_guard_unpatch": {"internal/patch", "Guard", "Unpatch"}}},
	{Out: "UnpatchCallersProxy", Arch: "amd64", Pkg: "./internal/proxy", MethodCallers: map[string][3]string{"proxy_guard_unpatch": {"internal/patch", "Guard", "Unpatch"}}},
	{Out: "X86Table", Arch: "amd64", Pkg: "./internal/arch/x86asm", X86Table: true},
	{Out: "A64Table", Arch: "amd64", Pkg: "./internal/arch/arm64asm", A64Table: true},
	{Out: "Page", Arch: "amd64", Pkg: "./internal/bytecode/memory", Funcs: []string{"PageStart"}, Loops: []string{"mProtectCrossPage"}, Shapes: []string{"WriteTo"}, SysProts: []string{"writeTo"}},
}

type result struct {
	Module string            `json:"module"`
	OK     []string          `json:"ok"`
	Failed map[string]string `json:"failed"`
}

func main() {
	repo := flag.String("repo", "/repo", "goom working tree")
	out := flag.String("out", "", "output directory (coq/Gen)")
	flag.Parse()
	if *out == "" {
		fmt.Fprintln(os.Stderr, "need -out")
		os.Exit(2)
	}
	all := []result{}
	for _, sp := range specs {
		r := runSpec(*repo, *out, sp)
		all = append(all, r)
	}
	b, _ := json.MarshalIndent(all, "", " ")
	if err := os.WriteFile(filepath.Join(*out, "go2v.json"), b, 0o644); err != nil {
		panic(err)
	}
}

func runSpec(repo, out string, sp spec) result {
	res := result{Module: sp.Out, Failed: map[string]string{}}
	cfg := &packages.Config{
		Mode: packages.NeedName | packages.NeedFiles | packages.NeedSyntax | packages.NeedTypes | packages.NeedTypesInfo | packages.NeedTypesSizes | packages.NeedImports | packages.NeedDeps,
		Dir:  repo,
		Env:  append(os.Environ(), "GOARCH="+sp.Arch, "GOOS=linux", "CGO_ENABLED=0", "GOFLAGS=-mod=mod", "GOPROXY=off", "GOSUMDB=off", "GOTOOLCHAIN=local"),
	}
	var pkgs []*packages.Package
	var err error
	if sp.File != "" {
		var p *packages.Package
		p, err = loadSingle(filepath.Join(repo, sp.File), sp.Arch)
		pkgs = []*packages.Package{p}
	} else {
		pkgs, err = packages.Load(cfg, sp.Pkg)
	}
	var sb strings.Builder
	fmt.Fprintf(&sb, "(* GENERATED by tools/go2v from %s (GOARCH=%s) -- do not edit, never committed *)\n", sp.Pkg, sp.Arch)
	sb.WriteString("From Goom Require Import Base.MachineInt.\n")
	if len(sp.Progs) > 0 {
		sb.WriteString("From Goom Require Import Model.StubSpace.\n")
	}
	if len(sp.Cursor) > 0 {
		sb.WriteString("From Goom Require Import Model.SeqConc.\n")
	}
	if len(sp.Shapes) > 0 || len(sp.SysProts) > 0 {
		sb.WriteString("From Goom Require Import Model.WriteTo.\n")
	}
	if len(sp.Orders) > 0 || sp.Erro || len(sp.Pure) > 0 || len(sp.Lits) > 0 || len(sp.Locks) > 0 || len(sp.MethodCallers) > 0 || sp.A64Table || sp.X86Table || len(sp.Skeletons) > 0 {
		sb.WriteString("From Coq Require Import String.\nOpen Scope string_scope.\n")
	}
	sb.WriteString("Open Scope Z_scope.\n\n")
	if err != nil || len(pkgs) != 1 {
		for _, f := range append(append(append([]string{}, sp.Funcs...), sp.Progs...), sp.Cursor...) {
			res.Failed[f] = fmt.Sprintf("load error: %v", err)
		}
		writeOut(out, sp.Out, sb.String())
		return res
	}
	pkg := pkgs[0]
	if len(pkg.Errors) > 0 {
		// a package that does not type-check cannot be translated
		for _, f := range append(append(append([]string{}, sp.Funcs...), sp.Progs...), sp.Cursor...) {
			res.Failed[f] = fmt.Sprintf("type errors: %v", pkg.Errors[0])
		}
		writeOut(out, sp.Out, sb.String())
		return res
	}
	for _, tn := range sp.Tables {
		s, err := trTable(pkg, tn)
		if err != nil {
			res.Failed[tn] = err.Error()
			continue
		}
		sb.WriteString(s)
		res.OK = append(res.OK, tn)
	}
	for _, fn := range sp.Progs {
		s, err := trAtomicProg(pkg, fn)
		if err != nil {
			res.Failed[fn] = err.Error()
			fmt.Fprintf(&sb, "(* go2v: %s not translated: %s *)\n\n", fn, strings.ReplaceAll(err.Error(), "*)", "* )"))
			continue
		}
		sb.WriteString(s)
		res.OK = append(res.OK, fn)
	}
	for _, fn := range sp.Cursor {
		s, err := trCursorProg(pkg, fn)
		if err != nil {
			res.Failed[fn] = err.Error()
			fmt.Fprintf(&sb, "(* go2v: %s not translated: %s *)\n\n", fn, strings.ReplaceAll(err.Error(), "*)", "* )"))
			continue
		}
		sb.WriteString(s)
		res.OK = append(res.OK, fn)
	}
	for _, fn := range sp.Funcs {
		s, err := trFuncByName(pkg, fn)
		if err != nil {
			res.Failed[fn] = err.Error()
			fmt.Fprintf(&sb, "(* go2v: %s not translated: %s *)\n\n", fn, strings.ReplaceAll(err.Error(), "*)", "* )"))
			continue
		}
		sb.WriteString(s)
		res.OK = append(res.OK, fn)
	}
	{
		var fns []string
		for fn := range sp.Orders {
			fns = append(fns, fn)
		}
		sort.Strings(fns)
		for _, fn := range fns {
			s, err := trCallOrder(pkg, fn, sp.Orders[fn])
			if err != nil {
				res.Failed[fn] = err.Error()
				continue
			}
			sb.WriteString(s)
			res.OK = append(res.OK, fn)
		}
		if sp.Erro {
			s, err := trErroTypes(pkg)
			if err != nil {
				res.Failed["erro"] = err.Error()
			} else {
				sb.WriteString(s)
				res.OK = append(res.OK, "erro")
			}
		}
	}
	{
		var ns []string
		for n := range sp.Pure {
			ns = append(ns, n)
		}
		sort.Strings(ns)
		for _, n := range ns {
			s, err := trPurity(pkg, n, sp.Pure[n])
			if err != nil {
				res.Failed[n] = err.Error()
				continue
			}
			sb.WriteString(s)
			res.OK = append(res.OK, n)
		}
	}
	{
		var ns []string
		for n := range sp.Lits {
			ns = append(ns, n)
		}
		sort.Strings(ns)
		for _, n := range ns {
			s, err := trLitTrace(pkg, n, sp.Lits[n][0], sp.Lits[n][1])
			if err != nil {
				res.Failed[n] = err.Error()
				continue
			}
			sb.WriteString(s)
			res.OK = append(res.OK, n)
		}
	}
	{
		var ns []string
		for n := range sp.Locks {
			ns = append(ns, n)
		}
		sort.Strings(ns)
		for _, n := range ns {
			s, err := trLocks(pkg, n, sp.Locks[n], sp.LockHelpers, sp.LockIgnore)
			if err != nil {
				res.Failed[n] = err.Error()
				continue
			}
			sb.WriteString(s)
			res.OK = append(res.OK, n)
		}
	}
	{
		var ns []string
		for n := range sp.MethodCallers {
			ns = append(ns, n)
		}
		sort.Strings(ns)
		for _, n := range ns {
			mc := sp.MethodCallers[n]
			s, err := trMethodCallers(pkg, n, mc[0], mc[1], mc[2])
			if err != nil {
				res.Failed[n] = err.Error()
				continue
			}
			sb.WriteString(s)
			res.OK = append(res.OK, n)
		}
	}
	for _, fn := range sp.Skeletons {
		s, err := trSkeleton(pkg, fn)
		if err != nil {
			res.Failed[fn] = err.Error()
			continue
		}
		sb.WriteString(s)
		res.OK = append(res.OK, fn)
	}
	if sp.X86Table {
		s, err := trX86Table(pkg)
		if err != nil {
			res.Failed["decoder"] = err.Error()
		} else {
			sb.WriteString(s)
			res.OK = append(res.OK, "decoder")
		}
		s, err = trX86Arms(pkg)
		if err != nil {
			res.Failed["decode1-arms"] = err.Error()
		} else {
			sb.WriteString(s)
			res.OK = append(res.OK, "decode1-arms")
		}
	}
	if sp.A64Table {
		s, err := trA64Table(pkg)
		if err != nil {
			res.Failed["instFormats"] = err.Error()
		} else {
			sb.WriteString(s)
			res.OK = append(res.OK, "instFormats")
		}
	}
	for _, fn := range sp.Loops {
		s, err := trPageLoop(pkg, fn)
		if err != nil {
			res.Failed[fn] = err.Error()
			fmt.Fprintf(&sb, "(* go2v: %s not translated: %s *)\n\n", fn, strings.ReplaceAll(err.Error(), "*)", "* )"))
			continue
		}
		sb.WriteString(s)
		res.OK = append(res.OK, fn)
	}
	for _, fn := range sp.Shapes {
		s, err := trWriteToShape(pkg, fn)
		if err != nil {
			res.Failed[fn] = err.Error()
			fmt.Fprintf(&sb, "(* go2v: %s not translated: %s *)\n\n", fn, strings.ReplaceAll(err.Error(), "*)", "* )"))
			continue
		}
		sb.WriteString(s)
		res.OK = append(res.OK, fn)
	}
	for _, fn := range sp.SysProts {
		s, err := trSyscallProtShape(pkg, fn)
		if err != nil {
			res.Failed[fn] = err.Error()
			fmt.Fprintf(&sb, "(* go2v: %s not translated: %s *)\n\n", fn, strings.ReplaceAll(err.Error(), "*)", "* )"))
			continue
		}
		sb.WriteString(s)
		res.OK = append(res.OK, fn)
	}
	writeOut(out, sp.Out, sb.String())
	return res
}

// loadSingle parses and type-checks one file in isolation (only "unsafe" may be imported).
func loadSingle(path, arch string) (*packages.Package, error) {
	fset := token.NewFileSet()
	f, err := parser.ParseFile(fset, path, nil, parser.ParseComments)
	if err != nil {
		return nil, err
	}
	info := &types.Info{
		Types:      map[ast.Expr]types.TypeAndValue{},
		Defs:       map[*ast.Ident]types.Object{},
		Uses:       map[*ast.Ident]types.Object{},
		Selections: map[*ast.SelectorExpr]*types.Selection{},
	}
	sizes := types.SizesFor("gc", arch)
	conf := types.Config{Sizes: sizes}
	tp, err := conf.Check(f.Name.Name, fset, []*ast.File{f}, info)
	if err != nil {
		return nil, err
	}
	return &packages.Package{Fset: fset, Syntax: []*ast.File{f}, Types: tp, TypesInfo: info, TypesSizes: sizes}, nil
}

func writeOut(out, mod, s string) {
	p := filepath.Join(out, mod+".v")
	old, err := os.ReadFile(p)
	if err == nil && string(old) == s {
		return // keep mtime: make stays incremental
	}
	if err := os.WriteFile(p, []byte(s), 0o644); err != nil {
		panic(err)
	}
}

// ---------------------------------------------------------------------------

type tr struct {
	pkg     *packages.Package
	partial bool // function may panic -> option result
	pagesz  bool // uses syscall.Getpagesize
	err     error
}

func (t *tr) fail(n ast.Node, format string, a ...interface{}) string {
	if t.err == nil {
		pos := t.pkg.Fset.Position(n.Pos())
		t.err = fmt.Errorf("%s:%d: %s", filepath.Base(pos.Filename), pos.Line, fmt.Sprintf(format, a...))
	}
	return "ERR"
}

func findFunc(pkg *packages.Package, name string) *ast.FuncDecl {
	recv := ""
	if i := strings.Index(name, "."); i >= 0 {
		recv, name = name[:i], name[i+1:]
	}
	for _, f := range pkg.Syntax {
		for _, d := range f.Decls {
			fd, ok := d.(*ast.FuncDecl)
			if !ok || fd.Name.Name != name {
				continue
			}
			if recv == "" && fd.Recv == nil {
				return fd
			}
			if recv != "" && fd.Recv != nil && len(fd.Recv.List) == 1 {
				rt := fd.Recv.List[0].Type
				if st, ok := rt.(*ast.StarExpr); ok {
					rt = st.X
				}
				if id, ok := rt.(*ast.Ident); ok && id.Name == recv {
					return fd
				}
			}
		}
	}
	return nil
}

func coqName(s string) string {
	s = strings.ReplaceAll(s, ".", "_")
	switch s {
	case "len", "val", "to", "from", "at", "in", "as", "end", "fix", "fun", "let", "match", "with", "then", "else", "if", "return", "Type", "Set", "Prop", "forall", "exists", "where", "using":
		return s + "_"
	}
	if strings.HasPrefix(s, "_") {
		return "u" + s
	}
	return s
}

func containsPanic(n ast.Node) bool {
	found := false
	ast.Inspect(n, func(x ast.Node) bool {
		if c, ok := x.(*ast.CallExpr); ok {
			if id, ok := c.Fun.(*ast.Ident); ok && id.Name == "panic" {
				found = true
			}
		}
		return true
	})
	return found
}

func containsPagesize(n ast.Node) bool {
	found := false
	ast.Inspect(n, func(x ast.Node) bool {
		if c, ok := x.(*ast.CallExpr); ok {
			if se, ok := c.Fun.(*ast.SelectorExpr); ok {
				if id, ok := se.X.(*ast.Ident); ok && id.Name == "syscall" && se.Sel.Name == "Getpagesize" {
					found = true
				}
			}
		}
		return true
	})
	return found
}

// functions that received the extra `pagesize` parameter (callers must pass it on)
var usesPagesize = map[string]bool{}

func trFuncByName(pkg *packages.Package, name string) (string, error) {
	fd := findFunc(pkg, name)
	if fd == nil || fd.Body == nil {
		return "", fmt.Errorf("function %s not found", name)
	}
	t := &tr{pkg: pkg}
	t.partial = containsPanic(fd.Body)
	t.pagesz = containsPagesize(fd.Body)
	var params []string
	if t.pagesz {
		params = append(params, "(pagesize : Z)")
		usesPagesize[name] = true
	}
	k := 0
	for _, fl := range fd.Type.Params.List {
		ty := t.coqType(fl.Type, pkg.TypesInfo.TypeOf(fl.Type))
		if len(fl.Names) == 0 {
			params = append(params, fmt.Sprintf("(u_anon%d : %s)", k, ty))
			k++
		}
		for _, n := range fl.Names {
			nm := coqName(n.Name)
			if n.Name == "_" {
				nm = fmt.Sprintf("u_anon%d", k)
				k++
			}
			params = append(params, fmt.Sprintf("(%s : %s)", nm, ty))
		}
	}
	if fd.Type.Results == nil || len(fd.Type.Results.List) != 1 || len(fd.Type.Results.List[0].Names) > 1 {
		return "", fmt.Errorf("%s: exactly one result required", name)
	}
	rt := t.coqType(fd.Type.Results.List[0].Type, pkg.TypesInfo.TypeOf(fd.Type.Results.List[0].Type))
	if t.partial {
		rt = "option (" + rt + ")"
	}
	body := t.stmts(fd.Body.List, nil)
	if t.err != nil {
		return "", t.err
	}
	return fmt.Sprintf("Definition %s %s : %s :=\n%s.\n\n", coqName(name), strings.Join(params, " "), rt, indent(body, 2)), nil
}

func indent(s string, n int) string {
	pad := strings.Repeat(" ", n)
	return pad + strings.ReplaceAll(s, "\n", "\n"+pad)
}

func (t *tr) coqType(n ast.Node, ty types.Type) string {
	switch u := ty.Underlying().(type) {
	case *types.Basic:
		if u.Info()&types.IsInteger != 0 {
			return "Z"
		}
		if u.Kind() == types.Bool {
			return "bool"
		}
	case *types.Slice:
		if b, ok := u.Elem().Underlying().(*types.Basic); ok && b.Info()&types.IsInteger != 0 {
			return "list Z"
		}
	}
	t.fail(n, "unsupported type %s", ty)
	return "ERR"
}

// wrap returns the Gallina wrapper for integer type ty applied to e.
func (t *tr) wrap(n ast.Node, ty types.Type, e string) string {
	b, ok := ty.Underlying().(*types.Basic)
	if !ok || b.Info()&types.IsInteger == 0 {
		return t.fail(n, "wrap of non-integer type %s", ty)
	}
	if b.Info()&types.IsUntyped != 0 {
		return e
	}
	bits := t.pkg.TypesSizes.Sizeof(ty) * 8
	if b.Info()&types.IsUnsigned != 0 {
		return fmt.Sprintf("(wrapu %d %s)", bits, e)
	}
	return fmt.Sprintf("(wraps %d %s)", bits, e)
}

func zlit(v constant.Value) (string, bool) {
	if v.Kind() != constant.Int {
		return "", false
	}
	s := v.ExactString()
	if strings.HasPrefix(s, "-") {
		return "(" + s + ")", true
	}
	return s, true
}

func (t *tr) expr(e ast.Expr) string {
	info := t.pkg.TypesInfo
	if tv, ok := info.Types[e]; ok && tv.Value != nil {
		switch tv.Value.Kind() {
		case constant.Int:
			s, _ := zlit(tv.Value)
			return s
		case constant.Bool:
			if constant.BoolVal(tv.Value) {
				return "true"
			}
			return "false"
		}
	}
	switch x := e.(type) {
	case *ast.ParenExpr:
		return t.expr(x.X)
	case *ast.Ident:
		switch x.Name {
		case "true", "false":
			return x.Name
		}
		if _, ok := info.Uses[x].(*types.Var); ok {
			return coqName(x.Name)
		}
		return t.fail(x, "unsupported identifier %s", x.Name)
	case *ast.BasicLit:
		return t.fail(x, "non-integer literal")
	case *ast.UnaryExpr:
		a := t.expr(x.X)
		ty := info.TypeOf(x)
		switch x.Op {
		case token.SUB:
			return t.wrap(x, ty, fmt.Sprintf("(- %s)", a))
		case token.XOR:
			return t.wrap(x, ty, fmt.Sprintf("(Z.lnot %s)", a))
		case token.NOT:
			return fmt.Sprintf("(negb %s)", a)
		case token.ADD:
			return a
		}
		return t.fail(x, "unsupported unary %s", x.Op)
	case *ast.BinaryExpr:
		a, b := t.expr(x.X), t.expr(x.Y)
		ty := info.TypeOf(x)
		switch x.Op {
		case token.ADD:
			return t.wrap(x, ty, fmt.Sprintf("(%s + %s)", a, b))
		case token.SUB:
			return t.wrap(x, ty, fmt.Sprintf("(%s - %s)", a, b))
		case token.MUL:
			return t.wrap(x, ty, fmt.Sprintf("(%s * %s)", a, b))
		case token.SHL:
			return t.wrap(x, ty, fmt.Sprintf("(Z.shiftl %s %s)", a, b))
		case token.SHR:
			return fmt.Sprintf("(Z.shiftr %s %s)", a, b)
		case token.AND:
			return fmt.Sprintf("(Z.land %s %s)", a, b)
		case token.OR:
			return fmt.Sprintf("(Z.lor %s %s)", a, b)
		case token.XOR:
			return fmt.Sprintf("(Z.lxor %s %s)", a, b)
		case token.AND_NOT:
			return fmt.Sprintf("(Z.land %s (Z.lnot %s))", a, b)
		case token.LSS:
			return fmt.Sprintf("(%s <? %s)", a, b)
		case token.LEQ:
			return fmt.Sprintf("(%s <=? %s)", a, b)
		case token.GTR:
			return fmt.Sprintf("(%s >? %s)", a, b)
		case token.GEQ:
			return fmt.Sprintf("(%s >=? %s)", a, b)
		case token.EQL:
			if t.isBool(x.X) {
				return fmt.Sprintf("(Bool.eqb %s %s)", a, b)
			}
			return fmt.Sprintf("(%s =? %s)", a, b)
		case token.NEQ:
			if t.isBool(x.X) {
				return fmt.Sprintf("(negb (Bool.eqb %s %s))", a, b)
			}
			return fmt.Sprintf("(negb (%s =? %s))", a, b)
		case token.LAND:
			return fmt.Sprintf("(%s && %s)%%bool", a, b)
		case token.LOR:
			return fmt.Sprintf("(%s || %s)%%bool", a, b)
		}
		return t.fail(x, "unsupported binary %s", x.Op)
	case *ast.IndexExpr:
		return fmt.Sprintf("(nthZ %s %s)", t.expr(x.X), t.expr(x.Index))
	case *ast.SliceExpr:
		if x.Slice3 {
			return t.fail(x, "3-index slice")
		}
		lo, hi := "0", ""
		if x.Low != nil {
			lo = t.expr(x.Low)
		}
		if x.High != nil {
			hi = t.expr(x.High)
		} else {
			hi = fmt.Sprintf("(lenZ %s)", t.expr(x.X))
		}
		return fmt.Sprintf("(sliceZ %s %s %s)", t.expr(x.X), lo, hi)
	case *ast.CompositeLit:
		if _, ok := info.TypeOf(x).Underlying().(*types.Slice); !ok {
			return t.fail(x, "unsupported composite literal")
		}
		var el []string
		for _, v := range x.Elts {
			if _, ok := v.(*ast.KeyValueExpr); ok {
				return t.fail(x, "keyed slice literal")
			}
			el = append(el, t.expr(v))
		}
		return "[" + strings.Join(el, "; ") + "]"
	case *ast.CallExpr:
		return t.call(x)
	}
	return t.fail(e, "unsupported expression %T", e)
}

func (t *tr) isBool(e ast.Expr) bool {
	b, ok := t.pkg.TypesInfo.TypeOf(e).Underlying().(*types.Basic)
	return ok && b.Info()&types.IsBoolean != 0
}

func (t *tr) call(x *ast.CallExpr) string {
	info := t.pkg.TypesInfo
	// conversion
	if tv, ok := info.Types[x.Fun]; ok && tv.IsType() {
		if len(x.Args) != 1 {
			return t.fail(x, "conversion arity")
		}
		to := tv.Type
		if _, ok := to.Underlying().(*types.Basic); ok {
			return t.wrap(x, to, t.expr(x.Args[0]))
		}
		return t.fail(x, "unsupported conversion to %s", to)
	}
	switch f := x.Fun.(type) {
	case *ast.Ident:
		switch f.Name {
		case "len":
			return fmt.Sprintf("(lenZ %s)", t.expr(x.Args[0]))
		case "append":
			base := t.expr(x.Args[0])
			if x.Ellipsis.IsValid() {
				if len(x.Args) != 2 {
					return t.fail(x, "append arity")
				}
				return fmt.Sprintf("(%s ++ %s)", base, t.expr(x.Args[1]))
			}
			var el []string
			for _, a := range x.Args[1:] {
				el = append(el, t.expr(a))
			}
			return fmt.Sprintf("(%s ++ [%s])", base, strings.Join(el, "; "))
		case "make":
			if _, ok := info.TypeOf(x).Underlying().(*types.Slice); !ok {
				return t.fail(x, "make of non-slice")
			}
			if len(x.Args) < 2 {
				return t.fail(x, "make without length")
			}
			return fmt.Sprintf("(repeat 0 (Z.to_nat %s))", t.expr(x.Args[1]))
		}
		if fn, ok := info.Uses[f].(*types.Func); ok && fn.Pkg() == t.pkg.Types {
			var as []string
			if usesPagesize[f.Name] {
				as = append(as, "pagesize")
			}
			for _, a := range x.Args {
				as = append(as, t.expr(a))
			}
			return fmt.Sprintf("(%s %s)", coqName(f.Name), strings.Join(as, " "))
		}
		return t.fail(x, "unsupported call %s", f.Name)
	case *ast.SelectorExpr:
		if id, ok := f.X.(*ast.Ident); ok && id.Name == "syscall" && f.Sel.Name == "Getpagesize" {
			return "pagesize"
		}
		if sel, ok := info.Selections[f]; ok && sel.Kind() == types.MethodVal {
			if fn, ok := sel.Obj().(*types.Func); ok && fn.Pkg() == t.pkg.Types {
				recv := sel.Recv()
				if p, ok := recv.(*types.Pointer); ok {
					recv = p.Elem()
				}
				if named, ok := recv.(*types.Named); ok {
					var as []string
					for _, a := range x.Args {
						as = append(as, t.expr(a))
					}
					return fmt.Sprintf("(%s_%s %s)", named.Obj().Name(), fn.Name(), strings.Join(as, " "))
				}
			}
		}
		return t.fail(x, "unsupported selector call")
	}
	return t.fail(x, "unsupported call form")
}

func (t *tr) ret(e string) string {
	if t.partial {
		return "Some " + e
	}
	return e
}

func endsInReturn(list []ast.Stmt) bool {
	if len(list) == 0 {
		return false
	}
	switch s := list[len(list)-1].(type) {
	case *ast.ReturnStmt:
		return true
	case *ast.ExprStmt:
		if c, ok := s.X.(*ast.CallExpr); ok {
			if id, ok := c.Fun.(*ast.Ident); ok && id.Name == "panic" {
				return true
			}
		}
	case *ast.IfStmt:
		if s.Else == nil {
			return false
		}
		eb, ok := s.Else.(*ast.BlockStmt)
		if !ok {
			if ei, ok := s.Else.(*ast.IfStmt); ok {
				return endsInReturn(s.Body.List) && endsInReturn([]ast.Stmt{ei})
			}
			return false
		}
		return endsInReturn(s.Body.List) && endsInReturn(eb.List)
	case *ast.SwitchStmt:
		hasDefault := false
		for _, c := range s.Body.List {
			cc := c.(*ast.CaseClause)
			if cc.List == nil {
				hasDefault = true
			}
			if !endsInReturn(cc.Body) {
				return false
			}
		}
		return hasDefault
	}
	return false
}

// stmts translates list followed by the continuation k.
func (t *tr) stmts(list []ast.Stmt, k []ast.Stmt) string {
	if len(list) == 0 {
		if len(k) == 0 {
			return t.fail(ast.NewIdent("_"), "control reaches end of function without return")
		}
		return t.stmts(k, nil)
	}
	s, rest := list[0], list[1:]
	info := t.pkg.TypesInfo
	switch x := s.(type) {
	case *ast.ReturnStmt:
		if len(x.Results) != 1 {
			return t.fail(x, "return arity")
		}
		return t.ret(t.expr(x.Results[0]))
	case *ast.ExprStmt:
		if c, ok := x.X.(*ast.CallExpr); ok {
			if id, ok := c.Fun.(*ast.Ident); ok && id.Name == "panic" {
				return "None"
			}
		}
		return t.fail(x, "unsupported expression statement")
	case *ast.DeclStmt:
		gd, ok := x.Decl.(*ast.GenDecl)
		if !ok || gd.Tok != token.VAR {
			return t.fail(x, "unsupported declaration")
		}
		out := ""
		for _, sp := range gd.Specs {
			vs := sp.(*ast.ValueSpec)
			for i, n := range vs.Names {
				val := "0"
				ty := info.TypeOf(n)
				if len(vs.Values) > i {
					val = t.expr(vs.Values[i])
				} else {
					switch u := ty.Underlying().(type) {
					case *types.Basic:
						if u.Info()&types.IsBoolean != 0 {
							val = "false"
						} else if u.Info()&types.IsInteger == 0 {
							return t.fail(x, "unsupported var type %s", ty)
						}
					case *types.Slice:
						val = "[]"
					default:
						return t.fail(x, "unsupported var type %s", ty)
					}
				}
				out += fmt.Sprintf("let %s := %s in\n", coqName(n.Name), val)
			}
		}
		return out + t.stmts(rest, k)
	case *ast.AssignStmt:
		if len(x.Lhs) != 1 || len(x.Rhs) != 1 {
			return t.fail(x, "multi-assignment")
		}
		// the little-endian store idiom  *(*uintN)(unsafe.Pointer(&res[i])) = m
		if st, ok := x.Lhs[0].(*ast.StarExpr); ok && x.Tok == token.ASSIGN {
			if name, off, n, ok := t.storeIdiom(st); ok {
				return fmt.Sprintf("let %s := put_le %d %s (Z.to_nat %s) %s in\n", name, n, t.expr(x.Rhs[0]), off, name) + t.stmts(rest, k)
			}
			return t.fail(x, "unsupported pointer store")
		}
		if ie, ok := x.Lhs[0].(*ast.IndexExpr); ok && x.Tok == token.ASSIGN {
			id, ok := ie.X.(*ast.Ident)
			if !ok {
				return t.fail(x, "unsupported indexed store")
			}
			nm := coqName(id.Name)
			return fmt.Sprintf("let %s := put_le 1 %s (Z.to_nat %s) %s in\n", nm, t.expr(x.Rhs[0]), t.expr(ie.Index), nm) + t.stmts(rest, k)
		}
		id, ok := x.Lhs[0].(*ast.Ident)
		if !ok {
			return t.fail(x, "unsupported assignment target")
		}
		if id.Name == "_" {
			return t.stmts(rest, k) // bounds-check hint `_ = b[1]`
		}
		nm := coqName(id.Name)
		rhs := t.expr(x.Rhs[0])
		ty := info.TypeOf(id)
		switch x.Tok {
		case token.DEFINE, token.ASSIGN:
		case token.OR_ASSIGN:
			rhs = fmt.Sprintf("(Z.lor %s %s)", nm, rhs)
		case token.AND_ASSIGN:
			rhs = fmt.Sprintf("(Z.land %s %s)", nm, rhs)
		case token.XOR_ASSIGN:
			rhs = fmt.Sprintf("(Z.lxor %s %s)", nm, rhs)
		case token.ADD_ASSIGN:
			rhs = t.wrap(x, ty, fmt.Sprintf("(%s + %s)", nm, rhs))
		case token.SUB_ASSIGN:
			rhs = t.wrap(x, ty, fmt.Sprintf("(%s - %s)", nm, rhs))
		case token.SHL_ASSIGN:
			rhs = t.wrap(x, ty, fmt.Sprintf("(Z.shiftl %s %s)", nm, rhs))
		case token.SHR_ASSIGN:
			rhs = fmt.Sprintf("(Z.shiftr %s %s)", nm, rhs)
		default:
			return t.fail(x, "unsupported assignment operator %s", x.Tok)
		}
		return fmt.Sprintf("let %s := %s in\n", nm, rhs) + t.stmts(rest, k)
	case *ast.IfStmt:
		if x.Init != nil {
			return t.fail(x, "if with init statement")
		}
		cond := t.expr(x.Cond)
		cont := append(append([]ast.Stmt{}, rest...), k...)
		var thenS, elseS string
		if endsInReturn(x.Body.List) {
			thenS = t.stmts(x.Body.List, nil)
		} else {
			thenS = t.stmts(x.Body.List, cont)
		}
		switch e := x.Else.(type) {
		case nil:
			elseS = t.stmts(cont, nil)
		case *ast.BlockStmt:
			if endsInReturn(e.List) {
				elseS = t.stmts(e.List, nil)
			} else {
				elseS = t.stmts(e.List, cont)
			}
		case *ast.IfStmt:
			if endsInReturn([]ast.Stmt{e}) {
				elseS = t.stmts([]ast.Stmt{e}, nil)
			} else {
				elseS = t.stmts([]ast.Stmt{e}, cont)
			}
		default:
			return t.fail(x, "unsupported else")
		}
		return fmt.Sprintf("if %s then\n%s\nelse\n%s", cond, indent(thenS, 2), indent(elseS, 2))
	case *ast.SwitchStmt:
		if x.Init != nil || x.Tag == nil {
			return t.fail(x, "unsupported switch form")
		}
		tag := t.expr(x.Tag)
		cont := append(append([]ast.Stmt{}, rest...), k...)
		var deflt []ast.Stmt
		hasDefault := false
		type arm struct {
			conds []string
			body  []ast.Stmt
		}
		var arms []arm
		for _, c := range x.Body.List {
			cc := c.(*ast.CaseClause)
			for _, st := range cc.Body {
				if br, ok := st.(*ast.BranchStmt); ok {
					return t.fail(br, "branch statement in switch")
				}
			}
			if cc.List == nil {
				deflt, hasDefault = cc.Body, true
				continue
			}
			var cs []string
			for _, ce := range cc.List {
				cs = append(cs, fmt.Sprintf("(%s =? %s)", tag, t.expr(ce)))
			}
			arms = append(arms, arm{cs, cc.Body})
		}
		body := func(b []ast.Stmt) string {
			if endsInReturn(b) {
				return t.stmts(b, nil)
			}
			return t.stmts(b, cont)
		}
		var out string
		if hasDefault {
			out = body(deflt)
		} else {
			out = t.stmts(cont, nil)
		}
		for i := len(arms) - 1; i >= 0; i-- {
			c := strings.Join(arms[i].conds, " || ")
			if len(arms[i].conds) > 1 {
				c = "(" + c + ")%bool"
			}
			out = fmt.Sprintf("if %s then\n%s\nelse\n%s", c, indent(body(arms[i].body), 2), indent(out, 2))
		}
		return out
	}
	return t.fail(s, "unsupported statement %T", s)
}

// storeIdiom recognises *(*uintN)(unsafe.Pointer(&name[off])).
func (t *tr) storeIdiom(st *ast.StarExpr) (name, off string, n int64, ok bool) {
	call, isCall := st.X.(*ast.CallExpr)
	if !isCall || len(call.Args) != 1 {
		return
	}
	tv, isT := t.pkg.TypesInfo.Types[call.Fun]
	if !isT || !tv.IsType() {
		return
	}
	pt, isP := tv.Type.Underlying().(*types.Pointer)
	if !isP {
		return
	}
	b, isB := pt.Elem().Underlying().(*types.Basic)
	if !isB || b.Info()&types.IsUnsigned == 0 {
		return
	}
	n = t.pkg.TypesSizes.Sizeof(pt.Elem())
	up, isCall := call.Args[0].(*ast.CallExpr)
	if !isCall || len(up.Args) != 1 {
		return
	}
	if se, isSel := up.Fun.(*ast.SelectorExpr); !isSel || se.Sel.Name != "Pointer" {
		return
	} else if id, isId := se.X.(*ast.Ident); !isId || id.Name != "unsafe" {
		return
	}
	ue, isU := up.Args[0].(*ast.UnaryExpr)
	if !isU || ue.Op != token.AND {
		return
	}
	ie, isI := ue.X.(*ast.IndexExpr)
	if !isI {
		return
	}
	id, isId := ie.X.(*ast.Ident)
	if !isId {
		return
	}
	return coqName(id.Name), t.expr(ie.Index), n, true
}

// trTable translates a package-level `var name = map[K][]byte{const: {...}}`.
func trTable(pkg *packages.Package, name string) (string, error) {
	for _, f := range pkg.Syntax {
		for _, d := range f.Decls {
			gd, ok := d.(*ast.GenDecl)
			if !ok || gd.Tok != token.VAR {
				continue
			}
			for _, sp := range gd.Specs {
				vs := sp.(*ast.ValueSpec)
				for i, n := range vs.Names {
					if n.Name != name || len(vs.Values) <= i {
						continue
					}
					cl, ok := vs.Values[i].(*ast.CompositeLit)
					if !ok {
						return "", fmt.Errorf("%s: not a composite literal", name)
					}
					type ent struct {
						k string
						v string
						n int64
					}
					var ents []ent
					for _, e := range cl.Elts {
						kv, ok := e.(*ast.KeyValueExpr)
						if !ok {
							return "", fmt.Errorf("%s: element without key", name)
						}
						ktv := pkg.TypesInfo.Types[kv.Key]
						if ktv.Value == nil {
							return "", fmt.Errorf("%s: non-constant key", name)
						}
						ks, _ := zlit(ktv.Value)
						kn, _ := constant.Int64Val(ktv.Value)
						vcl, ok := kv.Value.(*ast.CompositeLit)
						if !ok {
							return "", fmt.Errorf("%s: value not a literal", name)
						}
						var bs []string
						for _, b := range vcl.Elts {
							btv := pkg.TypesInfo.Types[b]
							if btv.Value == nil {
								return "", fmt.Errorf("%s: non-constant byte", name)
							}
							s, _ := zlit(btv.Value)
							bs = append(bs, s)
						}
						ents = append(ents, ent{ks, "[" + strings.Join(bs, "; ") + "]", kn})
					}
					sort.Slice(ents, func(a, b int) bool { return ents[a].n < ents[b].n })
					var parts []string
					for _, e := range ents {
						parts = append(parts, fmt.Sprintf("(%s, %s)", e.k, e.v))
					}
					return fmt.Sprintf("Definition %s : list (Z * list Z) :=\n  [%s].\n\n", coqName(name), strings.Join(parts, ";\n   ")), nil
				}
			}
		}
	}
	return "", fmt.Errorf("table %s not found", name)
}
