package main

import (
	"fmt"
	"go/ast"
	"go/token"
	"go/types"
	"strings"

	"golang.org/x/tools/go/packages"
)

// trX86Arms emits the shape of the argument-decoding switch of decode1 (internal/arch/x86asm/decode.go): for every case
// clause of the big `switch decodeOp(x)` inside the Decode loop
//     (labels, narg increments, PC-relative bookkeeping, mem overwritten?, failure guard)
// with
//   pcrel:  0 none | 1 `if mem.Base == RIP { inst.PCRel = displen; inst.PCRelOff = dispoff }`
//           | 2/3/4 `inst.PCRelOff = immcpos; inst.PCRel = 1/2/4` | 9 anything else that touches PCRel/PCRelOff
//   fails:  0 none | 1 `if !haveMem { inst.Op = 0; break Decode }` | 2 `if haveMem { inst.Op = 0; break Decode }` | 3 other
//     Definition x86_arms : list (list Z * Z * Z * bool * Z) := [...].
func trX86Arms(pkg *packages.Package) (string, error) {
	var fn *ast.FuncDecl
	for _, f := range pkg.Syntax {
		for _, d := range f.Decls {
			if fd, ok := d.(*ast.FuncDecl); ok && fd.Name.Name == "decode1" && fd.Recv == nil {
				fn = fd
			}
		}
	}
	if fn == nil {
		return "", fmt.Errorf("decode1 not found")
	}
	// the Decode: loop
	var loop *ast.ForStmt
	ast.Inspect(fn.Body, func(n ast.Node) bool {
		if ls, ok := n.(*ast.LabeledStmt); ok && ls.Label.Name == "Decode" {
			loop, _ = ls.Stmt.(*ast.ForStmt)
		}
		return true
	})
	if loop == nil {
		return "", fmt.Errorf("Decode loop not found")
	}
	// the switches on decodeOp(x) directly in the loop body; the argument switch is the one with an xArgRel8 clause
	var sw *ast.SwitchStmt
	for _, st := range loop.Body.List {
		s, ok := st.(*ast.SwitchStmt)
		if !ok || s.Tag == nil || types.ExprString(s.Tag) != "decodeOp(x)" {
			continue
		}
		for _, c := range s.Body.List {
			for _, e := range c.(*ast.CaseClause).List {
				if id, ok := e.(*ast.Ident); ok && id.Name == "xArgRel8" {
					sw = s
				}
			}
		}
	}
	if sw == nil {
		return "", fmt.Errorf("argument switch not found")
	}
	constVal := func(e ast.Expr) (string, bool) {
		tv, ok := pkg.TypesInfo.Types[e]
		if !ok || tv.Value == nil {
			return "", false
		}
		return tv.Value.ExactString(), true
	}
	var rows []string
	for _, c := range sw.Body.List {
		cc := c.(*ast.CaseClause)
		if cc.List == nil {
			continue // default: errInternal, modelled as such
		}
		var labels []string
		for _, e := range cc.List {
			v, ok := constVal(e)
			if !ok {
				return "", fmt.Errorf("case label %s is not a constant", types.ExprString(e))
			}
			labels = append(labels, v)
		}
		nargpp, pcrel, fails, memreset := 0, 0, 0, false
		var relSrc, offSrc []string
		ripGuarded := true
		body := &ast.BlockStmt{List: cc.Body}
		var walk func(n ast.Node, underRIP bool)
		walk = func(n ast.Node, underRIP bool) {
			switch s := n.(type) {
			case nil:
				return
			case *ast.BlockStmt:
				for _, x := range s.List {
					walk(x, underRIP)
				}
			case *ast.IfStmt:
				cond := types.ExprString(s.Cond)
				// failure guards
				if len(s.Body.List) == 2 {
					a, okA := s.Body.List[0].(*ast.AssignStmt)
					b, okB := s.Body.List[1].(*ast.BranchStmt)
					if okA && okB && len(a.Lhs) == 1 && types.ExprString(a.Lhs[0]) == "inst.Op" && types.ExprString(a.Rhs[0]) == "0" &&
						b.Tok == token.BREAK && b.Label != nil && b.Label.Name == "Decode" {
						switch cond {
						case "!haveMem":
							fails = 1
						case "haveMem":
							fails = 2
						default:
							fails = 3
						}
						if s.Else != nil {
							walk(s.Else, underRIP)
						}
						return
					}
				}
				walk(s.Body, underRIP || cond == "mem.Base == RIP")
				if s.Else != nil {
					walk(s.Else, underRIP)
				}
			case *ast.IncDecStmt:
				if types.ExprString(s.X) == "narg" && s.Tok == token.INC {
					nargpp++
				}
			case *ast.AssignStmt:
				for i, l := range s.Lhs {
					ls := types.ExprString(l)
					switch ls {
					case "narg":
						if s.Tok == token.ADD_ASSIGN {
							if v, ok := constVal(s.Rhs[0]); ok {
								var k int
								fmt.Sscan(v, &k)
								nargpp += k
							} else {
								nargpp += 99
							}
						} else {
							nargpp += 99
						}
					case "inst.PCRel":
						relSrc = append(relSrc, types.ExprString(s.Rhs[i]))
						ripGuarded = ripGuarded && underRIP
					case "inst.PCRelOff":
						offSrc = append(offSrc, types.ExprString(s.Rhs[i]))
						ripGuarded = ripGuarded && underRIP
					case "mem":
						if cl, ok := s.Rhs[i].(*ast.CompositeLit); ok {
							hasBase := false
							for _, el := range cl.Elts {
								if kv, ok := el.(*ast.KeyValueExpr); ok && types.ExprString(kv.Key) == "Base" {
									hasBase = true
								}
							}
							if !hasBase {
								memreset = true
							}
						}
					}
				}
			case *ast.SwitchStmt:
				walk(s.Body, underRIP)
			case *ast.CaseClause:
				for _, x := range s.Body {
					walk(x, underRIP)
				}
			case *ast.ForStmt:
				walk(s.Body, underRIP)
			case *ast.LabeledStmt:
				walk(s.Stmt, underRIP)
			}
		}
		walk(body, false)
		switch {
		case len(relSrc) == 0 && len(offSrc) == 0:
			pcrel = 0
		case len(relSrc) == 1 && len(offSrc) == 1 && relSrc[0] == "displen" && offSrc[0] == "dispoff" && ripGuarded:
			pcrel = 1
		case len(relSrc) == 1 && len(offSrc) == 1 && offSrc[0] == "immcpos" && !ripGuarded && relSrc[0] == "1":
			pcrel = 2
		case len(relSrc) == 1 && len(offSrc) == 1 && offSrc[0] == "immcpos" && !ripGuarded && relSrc[0] == "2":
			pcrel = 3
		case len(relSrc) == 1 && len(offSrc) == 1 && offSrc[0] == "immcpos" && !ripGuarded && relSrc[0] == "4":
			pcrel = 4
		default:
			pcrel = 9
		}
		mr := "false"
		if memreset {
			mr = "true"
		}
		rows = append(rows, fmt.Sprintf("  ([%s], %d, %d, %s, %d)", strings.Join(labels, "; "), nargpp, pcrel, mr, fails))
	}
	if len(rows) < 30 {
		return "", fmt.Errorf("only %d case clauses found in the argument switch", len(rows))
	}
	return "(* (labels, narg increments, pcrel kind, mem overwritten, failure guard) per case clause of decode1's switch *)\n" +
		"Definition x86_arms : list (list Z * Z * Z * bool * Z) := [\n" + strings.Join(rows, ";\n") + "\n].\n\n", nil
}
