package main

import (
	"fmt"
	"go/ast"
	"go/token"
	"strings"

	"golang.org/x/tools/go/packages"
)

// trPageLoop translates the loop of memory.mProtectCrossPage
//     for p := INIT; p < BOUND; p += STRIDE { page := RawAccess(p, pageSize); syscall.Mprotect(page, prot) ... }
// into three Gallina functions of (pagesize addr length): _init, _bound, _stride.
func trPageLoop(pkg *packages.Package, name string) (string, error) {
	fd := findFunc(pkg, name)
	if fd == nil || fd.Body == nil {
		return "", fmt.Errorf("function %s not found", name)
	}
	t := &tr{pkg: pkg, pagesz: true}
	var pre []string // local definitions before the loop (pageSize := syscall.Getpagesize())
	var loop *ast.ForStmt
	for _, st := range fd.Body.List {
		switch x := st.(type) {
		case *ast.AssignStmt:
			if len(x.Lhs) == 1 && len(x.Rhs) == 1 && x.Tok == token.DEFINE {
				if id, ok := x.Lhs[0].(*ast.Ident); ok {
					pre = append(pre, fmt.Sprintf("let %s := %s in", coqName(id.Name), t.expr(x.Rhs[0])))
					continue
				}
			}
			return "", fmt.Errorf("%s: unsupported statement before the loop", name)
		case *ast.ForStmt:
			if loop != nil {
				return "", fmt.Errorf("%s: more than one loop", name)
			}
			loop = x
		case *ast.ReturnStmt:
		default:
			return "", fmt.Errorf("%s: unsupported statement %T", name, st)
		}
	}
	if loop == nil {
		return "", fmt.Errorf("%s: no page loop found", name)
	}
	init, ok := loop.Init.(*ast.AssignStmt)
	if !ok || len(init.Lhs) != 1 || init.Tok != token.DEFINE {
		return "", fmt.Errorf("%s: unsupported loop init", name)
	}
	lv, ok := init.Lhs[0].(*ast.Ident)
	if !ok {
		return "", fmt.Errorf("%s: unsupported loop variable", name)
	}
	cond, ok := loop.Cond.(*ast.BinaryExpr)
	if !ok || cond.Op != token.LSS {
		return "", fmt.Errorf("%s: loop condition must be p < bound", name)
	}
	if id, ok := cond.X.(*ast.Ident); !ok || id.Name != lv.Name {
		return "", fmt.Errorf("%s: loop condition must test the loop variable", name)
	}
	post, ok := loop.Post.(*ast.AssignStmt)
	if !ok || post.Tok != token.ADD_ASSIGN || len(post.Lhs) != 1 {
		return "", fmt.Errorf("%s: loop post must be p += stride", name)
	}
	if id, ok := post.Lhs[0].(*ast.Ident); !ok || id.Name != lv.Name {
		return "", fmt.Errorf("%s: loop post must update the loop variable", name)
	}
	// the body must mprotect exactly [p, p+pageSize) with the caller's protection
	found := false
	ast.Inspect(loop.Body, func(n ast.Node) bool {
		c, ok := n.(*ast.CallExpr)
		if !ok {
			return true
		}
		se, ok := c.Fun.(*ast.SelectorExpr)
		if !ok || se.Sel.Name != "Mprotect" || len(c.Args) != 2 {
			return true
		}
		if id, ok := c.Args[1].(*ast.Ident); ok && id.Name == "prot" {
			found = true
		}
		return true
	})
	if !found {
		return "", fmt.Errorf("%s: loop body does not mprotect with the caller's protection", name)
	}
	rawOK := false
	ast.Inspect(loop.Body, func(n ast.Node) bool {
		c, ok := n.(*ast.CallExpr)
		if !ok {
			return true
		}
		if id, ok := c.Fun.(*ast.Ident); ok && id.Name == "RawAccess" && len(c.Args) == 2 {
			a0, ok0 := c.Args[0].(*ast.Ident)
			a1, ok1 := c.Args[1].(*ast.Ident)
			if ok0 && ok1 && a0.Name == lv.Name && a1.Name == "pageSize" {
				rawOK = true
			}
		}
		return true
	})
	if !rawOK {
		return "", fmt.Errorf("%s: loop body does not address the page [p, p+pageSize)", name)
	}
	ie, be, se := t.expr(init.Rhs[0]), t.expr(cond.Y), t.expr(post.Rhs[0])
	if t.err != nil {
		return "", t.err
	}
	hdr := "(pagesize addr length : Z) : Z :=\n  " + strings.Join(pre, "\n  ")
	nm := coqName(name)
	return fmt.Sprintf("Definition %s_init %s\n  %s.\n\nDefinition %s_bound %s\n  %s.\n\nDefinition %s_stride %s\n  %s.\n\n",
		nm, hdr, ie, nm, hdr, be, nm, hdr, se), nil
}

// trWriteToShape extracts the order of protection passes and the copy from memory.WriteTo.
func trWriteToShape(pkg *packages.Package, name string) (string, error) {
	fd := findFunc(pkg, name)
	if fd == nil || fd.Body == nil {
		return "", fmt.Errorf("function %s not found", name)
	}
	var shape []string
	var walk func(list []ast.Stmt) error
	protCall := func(e ast.Expr) (string, bool, error) {
		c, ok := e.(*ast.CallExpr)
		if !ok {
			return "", false, nil
		}
		id, ok := c.Fun.(*ast.Ident)
		if !ok || id.Name != "mProtectCrossPage" {
			return "", false, nil
		}
		if len(c.Args) != 3 {
			return "", true, fmt.Errorf("%s: mProtectCrossPage arity", name)
		}
		if a, ok := c.Args[0].(*ast.Ident); !ok || a.Name != "addr" {
			return "", true, fmt.Errorf("%s: protection pass must start at addr", name)
		}
		if l, ok := c.Args[1].(*ast.CallExpr); !ok || len(l.Args) != 1 {
			return "", true, fmt.Errorf("%s: protection pass must cover len(data)", name)
		} else if f, ok := l.Fun.(*ast.Ident); !ok || f.Name != "len" {
			return "", true, fmt.Errorf("%s: protection pass must cover len(data)", name)
		} else if d, ok := l.Args[0].(*ast.Ident); !ok || d.Name != "data" {
			return "", true, fmt.Errorf("%s: protection pass must cover len(data)", name)
		}
		tv := pkg.TypesInfo.Types[c.Args[2]]
		if tv.Value == nil {
			return "", true, fmt.Errorf("%s: non-constant protection", name)
		}
		s, _ := zlit(tv.Value)
		return "SProt " + s, true, nil
	}
	walk = func(list []ast.Stmt) error {
		for _, st := range list {
			switch x := st.(type) {
			case *ast.IfStmt:
				if as, ok := x.Init.(*ast.AssignStmt); ok && len(as.Rhs) == 1 {
					k, is, err := protCall(as.Rhs[0])
					if err != nil {
						return err
					}
					if is {
						shape = append(shape, k)
					}
				}
			case *ast.ExprStmt:
				if c, ok := x.X.(*ast.CallExpr); ok {
					if id, ok := c.Fun.(*ast.Ident); ok && id.Name == "copy" && len(c.Args) == 2 {
						if d, ok := c.Args[0].(*ast.Ident); !ok || d.Name != "f" {
							return fmt.Errorf("%s: copy destination must be the raw view f", name)
						}
						shape = append(shape, "SCopy")
					}
					if k, is, err := protCall(c); err != nil {
						return err
					} else if is {
						shape = append(shape, k)
					}
				}
			case *ast.AssignStmt:
				// f := RawAccess(addr, len(data)) must view exactly the destination
				if len(x.Lhs) == 1 && len(x.Rhs) == 1 {
					if id, ok := x.Lhs[0].(*ast.Ident); ok && id.Name == "f" {
						c, ok := x.Rhs[0].(*ast.CallExpr)
						okv := false
						if ok && len(c.Args) == 2 {
							if fn, ok := c.Fun.(*ast.Ident); ok && fn.Name == "RawAccess" {
								if a, ok := c.Args[0].(*ast.Ident); ok && a.Name == "addr" {
									okv = true
								}
							}
						}
						if !okv {
							return fmt.Errorf("%s: f must be RawAccess(addr, len(data))", name)
						}
					}
				}
			}
		}
		return nil
	}
	if err := walk(fd.Body.List); err != nil {
		return "", err
	}
	return fmt.Sprintf("Definition %s_shape : list wkind :=\n  [%s].\n\n", coqName(name), strings.Join(shape, "; ")), nil
}

// trSyscallProtShape: the order of protection passes and copies of a writer that changes page protections through
// syscall.Syscall(syscall.SYS_MPROTECT, page, size, PROT) directly (memory.writeTo, the fallback used when
// mprotect(RWX) is refused). Statements are visited in source order, loops included; every protection must be constant.
func trSyscallProtShape(pkg *packages.Package, name string) (string, error) {
	var fd *ast.FuncDecl
	for _, f := range pkg.Syntax {
		for _, d := range f.Decls {
			if x, ok := d.(*ast.FuncDecl); ok && x.Recv == nil && x.Name.Name == name {
				fd = x
			}
		}
	}
	if fd == nil {
		return "", fmt.Errorf("%s: not found", name)
	}
	var shape []string
	var ferr error
	ast.Inspect(fd.Body, func(n ast.Node) bool {
		c, ok := n.(*ast.CallExpr)
		if !ok {
			return true
		}
		if id, ok := c.Fun.(*ast.Ident); ok && id.Name == "copy" && len(c.Args) == 2 {
			shape = append(shape, "SCopy")
			return true
		}
		sel, ok := c.Fun.(*ast.SelectorExpr)
		if !ok || sel.Sel.Name != "Syscall" || len(c.Args) != 4 {
			return true
		}
		nr := pkg.TypesInfo.Types[c.Args[0]]
		if nr.Value == nil {
			return true
		}
		if a0, ok := c.Args[0].(*ast.SelectorExpr); !ok || a0.Sel.Name != "SYS_MPROTECT" {
			return true
		}
		tv := pkg.TypesInfo.Types[c.Args[3]]
		if tv.Value == nil {
			ferr = fmt.Errorf("%s: non-constant protection", name)
			return false
		}
		s, _ := zlit(tv.Value)
		shape = append(shape, "SProt "+s)
		return true
	})
	if ferr != nil {
		return "", ferr
	}
	if len(shape) == 0 {
		return "", fmt.Errorf("%s: no mprotect / copy step found", name)
	}
	return fmt.Sprintf("Definition %s_fallback_shape : list wkind :=\n  [%s].\n\n", coqName(name), strings.Join(shape, "; ")), nil
}
