package main

import (
	"fmt"
	"go/ast"
	"go/constant"
	"go/types"
	"sort"
	"strings"

	"golang.org/x/tools/go/packages"
)

// trX86Table emits the x86 decoding program of internal/arch/x86asm/tables.go and the numbering of the decoder's
// byte-code operations (decode.go):
//     Definition x86_decoder : list Z := [...].            (13 401 entries)
//     Definition x_<name> : Z := <value>.                  (one per decodeOp constant)
//     Definition x86_ops : list (string * Z) := [...].     (the same as an association list)
func trX86Table(pkg *packages.Package) (string, error) {
	var lit *ast.CompositeLit
	for _, f := range pkg.Syntax {
		for _, d := range f.Decls {
			gd, ok := d.(*ast.GenDecl)
			if !ok {
				continue
			}
			for _, sp := range gd.Specs {
				vs, ok := sp.(*ast.ValueSpec)
				if !ok || len(vs.Names) != 1 || vs.Names[0].Name != "decoder" || len(vs.Values) != 1 {
					continue
				}
				lit, _ = vs.Values[0].(*ast.CompositeLit)
			}
		}
	}
	if lit == nil {
		return "", fmt.Errorf("decoder table not found")
	}
	vals := make([]string, 0, len(lit.Elts))
	for i, e := range lit.Elts {
		tv, ok := pkg.TypesInfo.Types[e]
		if !ok || tv.Value == nil {
			return "", fmt.Errorf("decoder[%d] is not a constant", i)
		}
		v, _ := constant.Uint64Val(constant.ToInt(tv.Value))
		vals = append(vals, fmt.Sprint(v))
	}
	var sb strings.Builder
	sb.WriteString("Definition x86_decoder : list Z :=\n  [")
	for i, v := range vals {
		if i > 0 {
			sb.WriteString("; ")
			if i%24 == 0 {
				sb.WriteString("\n   ")
			}
		}
		sb.WriteString(v)
	}
	sb.WriteString("].\n\n")
	// decodeOp constants
	type kv struct {
		name string
		v    uint64
	}
	var ops []kv
	sc := pkg.Types.Scope()
	for _, n := range sc.Names() {
		c, ok := sc.Lookup(n).(*types.Const)
		if !ok {
			continue
		}
		if nt, ok := c.Type().(*types.Named); ok && nt.Obj().Name() == "decodeOp" {
			v, _ := constant.Uint64Val(constant.ToInt(c.Val()))
			ops = append(ops, kv{n, v})
		}
	}
	if len(ops) < 100 {
		return "", fmt.Errorf("only %d decodeOp constants found", len(ops))
	}
	sort.Slice(ops, func(i, j int) bool { return ops[i].v < ops[j].v })
	var al []string
	for _, o := range ops {
		fmt.Fprintf(&sb, "Definition x_%s : Z := %d.\n", o.name[1:], o.v)
		al = append(al, fmt.Sprintf("(%q, %d)", o.name, o.v))
	}
	fmt.Fprintf(&sb, "\nDefinition x86_ops : list (string * Z) :=\n  [%s].\n\n", strings.Join(al, "; "))
	return sb.String(), nil
}
