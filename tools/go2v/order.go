package main

import (
	"fmt"
	"go/ast"
	"go/types"
	"sort"
	"strings"

	"golang.org/x/tools/go/packages"
)

// trCallOrder emits the source order of the calls to the given callees inside function fn:
//     Definition <fn>_calls : list string := ["a"; "b"; ...].
// (every occurrence, in order of position; calls inside nested function literals are ignored)
func trCallOrder(pkg *packages.Package, fn string, callees []string) (string, error) {
	fd := findFunc(pkg, fn)
	if fd == nil || fd.Body == nil {
		return "", fmt.Errorf("function %s not found", fn)
	}
	want := map[string]bool{}
	for _, c := range callees {
		want[c] = true
	}
	type occ struct {
		pos  int
		name string
	}
	var occs []occ
	ast.Inspect(fd.Body, func(n ast.Node) bool {
		if _, ok := n.(*ast.FuncLit); ok {
			return false
		}
		c, ok := n.(*ast.CallExpr)
		if !ok {
			return true
		}
		name := ""
		switch f := c.Fun.(type) {
		case *ast.Ident:
			name = f.Name
		case *ast.SelectorExpr:
			name = f.Sel.Name
		}
		if want[name] {
			occs = append(occs, occ{int(c.Pos()), name})
		}
		return true
	})
	sort.Slice(occs, func(i, j int) bool { return occs[i].pos < occs[j].pos })
	var names []string
	for _, o := range occs {
		names = append(names, fmt.Sprintf("%q", o.name))
	}
	return fmt.Sprintf("Definition %s_calls : list string :=\n  [%s].\n\n", coqName(strings.ReplaceAll(fn, ".", "_")), strings.Join(names, "; ")), nil
}

// trErroTypes emits, for package erro: which error types implement Traceable (Cause + StackTrace) and which type
// each New* constructor returns.
func trErroTypes(pkg *packages.Package) (string, error) {
	scope := pkg.Types.Scope()
	tr, ok := scope.Lookup("Traceable").(*types.TypeName)
	if !ok {
		return "", fmt.Errorf("erro.Traceable not found")
	}
	iface, ok := tr.Type().Underlying().(*types.Interface)
	if !ok {
		return "", fmt.Errorf("erro.Traceable is not an interface")
	}
	var tnames []string
	for _, n := range scope.Names() {
		tn, ok := scope.Lookup(n).(*types.TypeName)
		if !ok || tn == tr {
			continue
		}
		if _, ok := tn.Type().Underlying().(*types.Struct); !ok {
			continue
		}
		ms := types.NewMethodSet(types.NewPointer(tn.Type()))
		if ms.Lookup(pkg.Types, "Error") == nil {
			continue
		}
		impl := types.Implements(types.NewPointer(tn.Type()), iface)
		tnames = append(tnames, fmt.Sprintf("(%q, %v)", n, impl))
	}
	var ctors []string
	for _, f := range pkg.Syntax {
		for _, d := range f.Decls {
			fd, ok := d.(*ast.FuncDecl)
			if !ok || fd.Recv != nil || !strings.HasPrefix(fd.Name.Name, "New") || fd.Body == nil {
				continue
			}
			ty := ""
			ast.Inspect(fd.Body, func(n ast.Node) bool {
				r, ok := n.(*ast.ReturnStmt)
				if !ok || len(r.Results) != 1 {
					return true
				}
				if u, ok := r.Results[0].(*ast.UnaryExpr); ok {
					if cl, ok := u.X.(*ast.CompositeLit); ok {
						if id, ok := cl.Type.(*ast.Ident); ok {
							ty = id.Name
						}
					}
				}
				return true
			})
			if ty != "" {
				ctors = append(ctors, fmt.Sprintf("(%q, %q)", fd.Name.Name, ty))
			}
		}
	}
	sort.Strings(ctors)
	return fmt.Sprintf("Definition traceable : list (string * bool) :=\n  [%s].\n\nDefinition constructs : list (string * string) :=\n  [%s].\n\n",
		strings.Join(tnames, ";\n   "), strings.Join(ctors, ";\n   ")), nil
}
