package main

import (
	"fmt"
	"go/ast"
	"go/token"
	"go/types"
	"sort"
	"strings"

	"golang.org/x/tools/go/packages"
)

// trPurity emits, for a set of root functions of one package, the package-local functions reachable from them and every
// statement among those that writes to state which outlives the call:
//     Definition <name>_reach  : list string := [...].   (sorted)
//     Definition <name>_writes : list string := [...].   ("func: lhs" for each offending assignment / inc-dec / send / go / defer)
// A write is an assignment (or ++/--) whose target is not a plain local variable: a package-level variable, a field or
// element reached through a pointer, slice, map or a pointer receiver, or an explicit dereference. Calls into other
// packages (reflect, fmt, strconv, ...) are treated as read-only.
func trPurity(pkg *packages.Package, name string, roots []string) (string, error) {
	decls := map[string]*ast.FuncDecl{}
	for _, f := range pkg.Syntax {
		for _, d := range f.Decls {
			fd, ok := d.(*ast.FuncDecl)
			if !ok || fd.Body == nil {
				continue
			}
			decls[declName(fd)] = fd
		}
	}
	var work []string
	for _, r := range roots {
		if strings.HasPrefix(r, "*.") { // every method with that name
			for n := range decls {
				if strings.HasSuffix(n, r[1:]) {
					work = append(work, n)
				}
			}
			continue
		}
		if _, ok := decls[r]; !ok {
			return "", fmt.Errorf("function %s not found", r)
		}
		work = append(work, r)
	}
	sort.Strings(work)
	if len(work) == 0 {
		return "", fmt.Errorf("no root function found for %v", roots)
	}
	seen := map[string]bool{}
	var writes []string
	for len(work) > 0 {
		n := work[0]
		work = work[1:]
		if seen[n] {
			continue
		}
		seen[n] = true
		fd := decls[n]
		locals := map[types.Object]bool{}
		ast.Inspect(fd, func(x ast.Node) bool {
			if id, ok := x.(*ast.Ident); ok {
				if o := pkg.TypesInfo.Defs[id]; o != nil {
					if _, isVar := o.(*types.Var); isVar {
						locals[o] = true
					}
				}
			}
			return true
		})
		isWrite := func(lhs ast.Expr) bool {
			e := lhs
			through := false // passed a pointer / slice / map indirection on the way to the root
			for {
				switch v := e.(type) {
				case *ast.ParenExpr:
					e = v.X
					continue
				case *ast.StarExpr:
					through = true
					e = v.X
					continue
				case *ast.SelectorExpr:
					if t := pkg.TypesInfo.TypeOf(v.X); t != nil {
						if _, isPtr := t.Underlying().(*types.Pointer); isPtr {
							through = true
						}
					}
					e = v.X
					continue
				case *ast.IndexExpr:
					if t := pkg.TypesInfo.TypeOf(v.X); t != nil {
						switch t.Underlying().(type) {
						case *types.Slice, *types.Map, *types.Pointer:
							through = true
						}
					}
					e = v.X
					continue
				case *ast.Ident:
					if v.Name == "_" {
						return false
					}
					o := pkg.TypesInfo.ObjectOf(v)
					if o == nil || !locals[o] {
						return true // package-level (or unknown) variable
					}
					return through
				default:
					return true
				}
			}
		}
		// slices that are provably fresh (made inside the call): every definition is make / a composite literal / nil /
		// append(fresh, ...). An append whose base is anything else may write into a backing array that outlives the call
		// (e.g. append(input[:k], ...) overwrites the caller's slice).
		fresh := map[types.Object]bool{}
		var defs []*ast.AssignStmt
		ast.Inspect(fd.Body, func(x ast.Node) bool {
			if a, ok := x.(*ast.AssignStmt); ok && len(a.Lhs) == len(a.Rhs) {
				defs = append(defs, a)
				for _, l := range a.Lhs {
					if id, ok := l.(*ast.Ident); ok {
						if o := pkg.TypesInfo.ObjectOf(id); o != nil && locals[o] {
							fresh[o] = true
						}
					}
				}
			}
			return true
		})
		if fd.Type.Params != nil {
			for _, f := range fd.Type.Params.List {
				for _, id := range f.Names {
					if o := pkg.TypesInfo.ObjectOf(id); o != nil {
						fresh[o] = false
					}
				}
			}
		}
		isFreshExpr := func(e ast.Expr) bool {
			switch v := e.(type) {
			case *ast.CompositeLit:
				return true
			case *ast.Ident:
				if v.Name == "nil" {
					return true
				}
				o := pkg.TypesInfo.ObjectOf(v)
				return o != nil && fresh[o]
			case *ast.CallExpr:
				if id, ok := v.Fun.(*ast.Ident); ok {
					if id.Name == "make" {
						return true
					}
					if id.Name == "append" && len(v.Args) > 0 {
						if b, ok := v.Args[0].(*ast.Ident); ok {
							o := pkg.TypesInfo.ObjectOf(b)
							return o != nil && fresh[o]
						}
					}
				}
			}
			return false
		}
		for changed := true; changed; {
			changed = false
			for _, a := range defs {
				for i, l := range a.Lhs {
					id, ok := l.(*ast.Ident)
					if !ok {
						continue
					}
					o := pkg.TypesInfo.ObjectOf(id)
					if o == nil || !fresh[o] {
						continue
					}
					if _, isSlice := o.Type().Underlying().(*types.Slice); !isSlice {
						continue
					}
					if !isFreshExpr(a.Rhs[i]) {
						fresh[o] = false
						changed = true
					}
				}
			}
		}
		ast.Inspect(fd.Body, func(x ast.Node) bool {
			if c, ok := x.(*ast.CallExpr); ok {
				if id, ok := c.Fun.(*ast.Ident); ok && id.Name == "append" && len(c.Args) > 0 {
					if _, isBuiltin := pkg.TypesInfo.ObjectOf(id).(*types.Builtin); isBuiltin {
						base, isId := c.Args[0].(*ast.Ident)
						var o types.Object
						if isId {
							o = pkg.TypesInfo.ObjectOf(base)
						}
						if !isId || o == nil || !(fresh[o] || base.Name == "nil") {
							writes = append(writes, n+": append("+types.ExprString(c.Args[0])+", ...) into a slice that is not fresh")
						}
					}
				}
			}
			return true
		})
		ast.Inspect(fd.Body, func(x ast.Node) bool {
			switch s := x.(type) {
			case *ast.AssignStmt:
				if s.Tok == token.DEFINE {
					return true
				}
				for _, l := range s.Lhs {
					if isWrite(l) {
						writes = append(writes, n+": "+types.ExprString(l))
					}
				}
			case *ast.IncDecStmt:
				if isWrite(s.X) {
					writes = append(writes, n+": "+types.ExprString(s.X))
				}
			case *ast.SendStmt:
				writes = append(writes, n+": send")
			case *ast.GoStmt:
				writes = append(writes, n+": go")
			case *ast.CallExpr:
				var id *ast.Ident
				switch f := s.Fun.(type) {
				case *ast.Ident:
					id = f
				case *ast.SelectorExpr:
					id = f.Sel
				}
				if id != nil {
					if fn, ok := pkg.TypesInfo.ObjectOf(id).(*types.Func); ok && fn.Pkg() == pkg.Types {
						cn := fn.Name()
						if sig, ok := fn.Type().(*types.Signature); ok && sig.Recv() != nil {
							rt := sig.Recv().Type()
							if p, ok := rt.(*types.Pointer); ok {
								rt = p.Elem()
							}
							if nt, ok := rt.(*types.Named); ok && !types.IsInterface(nt) {
								cn = nt.Obj().Name() + "." + cn
							} else {
								// interface method: every implementation in the package
								for dn := range decls {
									if strings.HasSuffix(dn, "."+fn.Name()) && !seen[dn] {
										work = append(work, dn)
									}
								}
								return true
							}
						}
						if _, ok := decls[cn]; ok && !seen[cn] {
							work = append(work, cn)
						}
					}
				}
			}
			return true
		})
	}
	var reach []string
	for n := range seen {
		reach = append(reach, fmt.Sprintf("%q", n))
	}
	sort.Strings(reach)
	sort.Strings(writes)
	for i := range writes {
		writes[i] = fmt.Sprintf("%q", writes[i])
	}
	cn := coqName(name)
	return fmt.Sprintf("Definition %s_reach : list string :=\n  [%s].\n\nDefinition %s_writes : list string :=\n  [%s].\n\n",
		cn, strings.Join(reach, "; "), cn, strings.Join(writes, "; ")), nil
}

func declName(fd *ast.FuncDecl) string {
	if fd.Recv == nil || len(fd.Recv.List) == 0 {
		return fd.Name.Name
	}
	t := fd.Recv.List[0].Type
	if s, ok := t.(*ast.StarExpr); ok {
		t = s.X
	}
	if ix, ok := t.(*ast.IndexExpr); ok {
		t = ix.X
	}
	if id, ok := t.(*ast.Ident); ok {
		return id.Name + "." + fd.Name.Name
	}
	return fd.Name.Name
}
