package main

import (
	"fmt"
	"go/ast"
	"go/constant"
	"strings"

	"golang.org/x/tools/go/packages"
)

// trA64Table emits the arm64 decode table of internal/arch/arm64asm/tables.go:
//     Definition a64_formats : list (Z * Z * string * list string * string) :=
//       [(mask, value, op, [arg kinds], canDecode or "nil"); ...]      (table order = match order)
func trA64Table(pkg *packages.Package) (string, error) {
	var lit *ast.CompositeLit
	for _, f := range pkg.Syntax {
		for _, d := range f.Decls {
			gd, ok := d.(*ast.GenDecl)
			if !ok {
				continue
			}
			for _, sp := range gd.Specs {
				vs, ok := sp.(*ast.ValueSpec)
				if !ok || len(vs.Names) != 1 || vs.Names[0].Name != "instFormats" || len(vs.Values) != 1 {
					continue
				}
				lit, _ = vs.Values[0].(*ast.CompositeLit)
			}
		}
	}
	if lit == nil {
		return "", fmt.Errorf("instFormats not found")
	}
	var rows []string
	for i, e := range lit.Elts {
		cl, ok := e.(*ast.CompositeLit)
		if !ok || len(cl.Elts) != 5 {
			return "", fmt.Errorf("instFormats[%d]: unexpected shape", i)
		}
		num := func(x ast.Expr) (string, error) {
			tv, ok := pkg.TypesInfo.Types[x]
			if !ok || tv.Value == nil {
				return "", fmt.Errorf("instFormats[%d]: not a constant", i)
			}
			v, _ := constant.Uint64Val(constant.ToInt(tv.Value))
			return fmt.Sprint(v), nil
		}
		mask, err := num(cl.Elts[0])
		if err != nil {
			return "", err
		}
		val, err := num(cl.Elts[1])
		if err != nil {
			return "", err
		}
		op, ok := cl.Elts[2].(*ast.Ident)
		if !ok {
			return "", fmt.Errorf("instFormats[%d]: op is not an identifier", i)
		}
		al, ok := cl.Elts[3].(*ast.CompositeLit)
		if !ok {
			return "", fmt.Errorf("instFormats[%d]: args", i)
		}
		var args []string
		for _, a := range al.Elts {
			id, ok := a.(*ast.Ident)
			if !ok {
				return "", fmt.Errorf("instFormats[%d]: arg is not an identifier", i)
			}
			args = append(args, fmt.Sprintf("%q", id.Name))
		}
		cd := "nil"
		if id, ok := cl.Elts[4].(*ast.Ident); ok {
			cd = id.Name
		} else {
			return "", fmt.Errorf("instFormats[%d]: canDecode is not an identifier", i)
		}
		rows = append(rows, fmt.Sprintf("(%s, %s, %q, [%s], %q)", mask, val, op.Name, strings.Join(args, "; "), cd))
	}
	return fmt.Sprintf("Definition a64_formats : list (Z * Z * string * list string * string) :=\n  [%s].\n\n", strings.Join(rows, ";\n   ")), nil
}
