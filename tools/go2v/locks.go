package main

import (
	"fmt"
	"go/ast"
	"go/token"
	"go/types"
	"sort"
	"strings"

	"golang.org/x/tools/go/packages"
)

// trLocks emits, for the named package-level variables, every function that touches them and how that access is
// protected:
//     Definition <name>_accesses : list (string * string * string) := [(variable, function, protection); ...].
// protection is one of
//   "lock:<L>"    the access lies lexically after <L>.Lock()/RLock() (or the helper lock()) and before the matching
//                 Unlock (or the Unlock is deferred) in the same function;
//   "callers:<..>" the function itself takes no lock but every call site inside the package is protected that way;
//   "once"        the function is only run through sync.Once.Do;
//   "init"        package initialisation;
//   "UNPROTECTED" none of the above.
// helpers maps helper function names to the lock they take / release (e.g. lock -> patchesLock).
func trLocks(pkg *packages.Package, name string, globals []string, helpers map[string]string, ignore []string) (string, error) {
	ign := map[string]bool{}
	for _, g := range ignore {
		ign[g] = true
	}
	want := map[string]bool{}
	for _, g := range globals {
		want[g] = true
	}
	decls := map[string]*ast.FuncDecl{}
	for _, f := range pkg.Syntax {
		for _, d := range f.Decls {
			if fd, ok := d.(*ast.FuncDecl); ok && fd.Body != nil {
				decls[declName(fd)] = fd
			}
		}
	}
	lockName := func(c *ast.CallExpr) (string, string) { // (lock, "acq"|"rel")
		switch f := c.Fun.(type) {
		case *ast.Ident:
			if l, ok := helpers[f.Name]; ok {
				if strings.HasPrefix(strings.ToLower(f.Name), "un") {
					return l, "rel"
				}
				return l, "acq"
			}
		case *ast.SelectorExpr:
			if id, ok := f.X.(*ast.Ident); ok {
				switch f.Sel.Name {
				case "Lock", "RLock":
					return id.Name, "acq"
				case "Unlock", "RUnlock":
					return id.Name, "rel"
				}
			}
		}
		return "", ""
	}
	type region struct {
		lock     string
		from, to token.Pos
	}
	regions := func(fd *ast.FuncDecl) []region {
		var rs []region
		open := map[string]token.Pos{}
		ast.Inspect(fd.Body, func(n ast.Node) bool {
			switch s := n.(type) {
			case *ast.FuncLit:
				return false
			case *ast.DeferStmt:
				rel := func(c *ast.CallExpr) {
					if l, k := lockName(c); k == "rel" {
						if from, ok := open[l]; ok {
							rs = append(rs, region{l, from, fd.Body.End()})
							delete(open, l)
						}
					}
				}
				rel(s.Call)
				if lit, ok := s.Call.Fun.(*ast.FuncLit); ok { // defer func() { ...; L.Unlock() }()
					ast.Inspect(lit.Body, func(m ast.Node) bool {
						if c, ok := m.(*ast.CallExpr); ok {
							rel(c)
						}
						return true
					})
				}
				return false
			case *ast.CallExpr:
				l, k := lockName(s)
				if k == "acq" {
					open[l] = s.End()
				} else if k == "rel" {
					if from, ok := open[l]; ok {
						rs = append(rs, region{l, from, s.Pos()})
						delete(open, l)
					}
				}
			}
			return true
		})
		return rs
	}
	protAt := func(fd *ast.FuncDecl, pos token.Pos) string {
		for _, r := range regions(fd) {
			if pos >= r.from && pos <= r.to {
				return "lock:" + r.lock
			}
		}
		return ""
	}
	// call sites of every function inside the package, and functions handed to Once.Do
	type site struct {
		caller string
		pos    token.Pos
	}
	callers := map[string][]site{}
	once := map[string]bool{}
	for cn, fd := range decls {
		ast.Inspect(fd.Body, func(n ast.Node) bool {
			c, ok := n.(*ast.CallExpr)
			if !ok {
				return true
			}
			if sel, ok := c.Fun.(*ast.SelectorExpr); ok && sel.Sel.Name == "Do" && len(c.Args) == 1 {
				if id, ok := c.Args[0].(*ast.Ident); ok {
					once[id.Name] = true
				}
			}
			var id *ast.Ident
			switch f := c.Fun.(type) {
			case *ast.Ident:
				id = f
			case *ast.SelectorExpr:
				id = f.Sel
			}
			if id != nil {
				if fn, ok := pkg.TypesInfo.ObjectOf(id).(*types.Func); ok && fn.Pkg() == pkg.Types {
					callee := fn.Name()
					if sig, ok := fn.Type().(*types.Signature); ok && sig.Recv() != nil {
						rt := sig.Recv().Type()
						if p, ok := rt.(*types.Pointer); ok {
							rt = p.Elem()
						}
						if nt, ok := rt.(*types.Named); ok {
							callee = nt.Obj().Name() + "." + callee
						}
					}
					callers[callee] = append(callers[callee], site{cn, c.Pos()})
				}
			}
			return true
		})
	}
	var protOf func(fn string, pos token.Pos, depth int) string
	protOf = func(fn string, pos token.Pos, depth int) string {
		fd := decls[fn]
		if fd == nil {
			return "UNPROTECTED"
		}
		if p := protAt(fd, pos); p != "" {
			return p
		}
		if ign[fn] {
			return "entry-point-not-used-by-goom"
		}
		onceBefore := false
		ast.Inspect(fd.Body, func(n ast.Node) bool {
			if c, ok := n.(*ast.CallExpr); ok && c.End() < pos {
				if sel, ok := c.Fun.(*ast.SelectorExpr); ok && sel.Sel.Name == "Do" {
					if t := pkg.TypesInfo.TypeOf(sel.X); t != nil && strings.HasSuffix(t.String(), "sync.Once") {
						onceBefore = true
					}
				}
			}
			return true
		})
		if onceBefore {
			return "after-once"
		}
		if fn == "init" {
			return "init"
		}
		if once[fn] {
			return "once"
		}
		cs := callers[fn]
		if len(cs) == 0 || depth > 4 {
			return "UNPROTECTED"
		}
		var hows []string
		for _, c := range cs {
			if ign[c.caller] {
				continue
			}
			h := protOf(c.caller, c.pos, depth+1)
			if h == "UNPROTECTED" {
				return "UNPROTECTED"
			}
			hows = append(hows, strings.TrimPrefix(strings.TrimPrefix(h, "callers:"), "lock:"))
		}
		sort.Strings(hows)
		uniq := hows[:0]
		for i, h := range hows {
			if i == 0 || h != hows[i-1] {
				uniq = append(uniq, h)
			}
		}
		return "callers:" + strings.Join(uniq, "+")
	}
	var rows []string
	for cn, fd := range decls {
		seen := map[string]bool{}
		ast.Inspect(fd.Body, func(n ast.Node) bool {
			if c, ok := n.(*ast.CallExpr); ok { // "call:NAME" watches call sites of NAME (e.g. the raw text writer)
				cname := ""
				switch f := c.Fun.(type) {
				case *ast.Ident:
					cname = f.Name
				case *ast.SelectorExpr:
					cname = f.Sel.Name
				}
				if want["call:"+cname] {
					how := protOf(cn, c.Pos(), 0)
					key := "call:" + cname + "|" + how
					if !seen[key] {
						seen[key] = true
						rows = append(rows, fmt.Sprintf("(%q, %q, %q)", "call:"+cname, cn, how))
					}
				}
			}
			id, ok := n.(*ast.Ident)
			if !ok || !want[id.Name] {
				return true
			}
			obj := pkg.TypesInfo.ObjectOf(id)
			if v, ok := obj.(*types.Var); !ok || v.Parent() != pkg.Types.Scope() {
				return true
			}
			how := protOf(cn, id.Pos(), 0)
			key := id.Name + "|" + how
			if !seen[key] {
				seen[key] = true
				rows = append(rows, fmt.Sprintf("(%q, %q, %q)", id.Name, cn, how))
			}
			return true
		})
	}
	sort.Strings(rows)
	return fmt.Sprintf("Definition %s_accesses : list (string * string * string) :=\n  [%s].\n\n", coqName(name), strings.Join(rows, ";\n   ")), nil
}

// trMethodCallers emits the functions of pkg that call method `method` on a value whose (pointer-stripped) named type is
// `typeName` of package path suffix `typePkg`:
//     Definition <name>_callers : list string := [...].   (sorted, one entry per calling function)
func trMethodCallers(pkg *packages.Package, name, typePkg, typeName, method string) (string, error) {
	var out []string
	for _, f := range pkg.Syntax {
		for _, d := range f.Decls {
			fd, ok := d.(*ast.FuncDecl)
			if !ok || fd.Body == nil {
				continue
			}
			found := false
			ast.Inspect(fd.Body, func(n ast.Node) bool {
				c, ok := n.(*ast.CallExpr)
				if !ok {
					return true
				}
				sel, ok := c.Fun.(*ast.SelectorExpr)
				if !ok || sel.Sel.Name != method {
					return true
				}
				t := pkg.TypesInfo.TypeOf(sel.X)
				if t == nil {
					return true
				}
				if p, ok := t.(*types.Pointer); ok {
					t = p.Elem()
				}
				if nt, ok := t.(*types.Named); ok && nt.Obj().Name() == typeName && nt.Obj().Pkg() != nil && strings.HasSuffix(nt.Obj().Pkg().Path(), typePkg) {
					found = true
				}
				return true
			})
			if found {
				out = append(out, fmt.Sprintf("%q", declName(fd)))
			}
		}
	}
	sort.Strings(out)
	return fmt.Sprintf("Definition %s_callers : list string :=\n  [%s].\n\n", coqName(name), strings.Join(out, "; ")), nil
}
