package main

import (
	"fmt"
	"go/ast"
	"go/constant"
	"go/token"
	"strings"

	"golang.org/x/tools/go/packages"
)

// trCursorProg translates (*BaseMatcher).Result into the cursor IR of Model/SeqConc.v:
//   if len(c.results) <= K { return c.results[c.curNum] }        -> Definition Result_guard
//   x := atomic.LoadInt32(&c.curNum)                              -> CLoad
//   if [length := len(c.results);] A >= B { return c.results[E] } -> CRetIfGe A B E
//   atomic.AddInt32(&c.curNum, d) / atomic.StoreInt32(&c.curNum,e)-> CAdd d / CStore e
//   return c.results[E]                                           -> CRet E
// Any other access to c.curNum after the guard makes the translation fail.
func trCursorProg(pkg *packages.Package, name string) (string, error) {
	fd := findFunc(pkg, name)
	if fd == nil || fd.Body == nil {
		return "", fmt.Errorf("function %s not found", name)
	}
	pos := func(n ast.Node) string {
		p := pkg.Fset.Position(n.Pos())
		return fmt.Sprintf("%s:%d", p.Filename[strings.LastIndex(p.Filename, "/")+1:], p.Line)
	}
	recv := ""
	if fd.Recv != nil && len(fd.Recv.List) == 1 && len(fd.Recv.List[0].Names) == 1 {
		recv = fd.Recv.List[0].Names[0].Name
	}
	isField := func(e ast.Expr, f string) bool {
		se, ok := e.(*ast.SelectorExpr)
		if !ok || se.Sel.Name != f {
			return false
		}
		id, ok := se.X.(*ast.Ident)
		return ok && id.Name == recv
	}
	reg := ""
	lenAlias := map[string]bool{}
	var expr func(e ast.Expr) (string, error)
	expr = func(e ast.Expr) (string, error) {
		if tv, ok := pkg.TypesInfo.Types[e]; ok && tv.Value != nil && tv.Value.Kind() == constant.Int {
			s, _ := zlit(tv.Value)
			return "(CConst " + s + ")", nil
		}
		switch x := e.(type) {
		case *ast.ParenExpr:
			return expr(x.X)
		case *ast.Ident:
			if x.Name == reg && reg != "" {
				return "CReg", nil
			}
			if lenAlias[x.Name] {
				return "CLen", nil
			}
			return "", fmt.Errorf("%s: unknown identifier %s", pos(x), x.Name)
		case *ast.CallExpr:
			if id, ok := x.Fun.(*ast.Ident); ok && len(x.Args) == 1 {
				switch id.Name {
				case "len":
					if isField(x.Args[0], "results") {
						return "CLen", nil
					}
				case "int32", "int", "int64":
					return expr(x.Args[0])
				}
			}
			return "", fmt.Errorf("%s: unsupported call", pos(x))
		case *ast.BinaryExpr:
			a, err := expr(x.X)
			if err != nil {
				return "", err
			}
			b, err := expr(x.Y)
			if err != nil {
				return "", err
			}
			switch x.Op {
			case token.ADD:
				return fmt.Sprintf("(CPlus %s %s)", a, b), nil
			case token.SUB:
				return fmt.Sprintf("(CMinus %s %s)", a, b), nil
			}
		case *ast.SelectorExpr:
			if isField(x, "curNum") {
				return "", fmt.Errorf("%s: non-atomic access to the cursor", pos(x))
			}
		}
		return "", fmt.Errorf("%s: unsupported expression", pos(e))
	}
	retIndex := func(s ast.Stmt) (ast.Expr, bool) {
		r, ok := s.(*ast.ReturnStmt)
		if !ok || len(r.Results) != 1 {
			return nil, false
		}
		ix, ok := r.Results[0].(*ast.IndexExpr)
		if !ok || !isField(ix.X, "results") {
			return nil, false
		}
		return ix.Index, true
	}
	atomicOn := func(e ast.Expr) (string, []ast.Expr, bool) {
		c, ok := e.(*ast.CallExpr)
		if !ok {
			return "", nil, false
		}
		se, ok := c.Fun.(*ast.SelectorExpr)
		if !ok {
			return "", nil, false
		}
		id, ok := se.X.(*ast.Ident)
		if !ok || id.Name != "atomic" || len(c.Args) < 1 {
			return "", nil, false
		}
		u, ok := c.Args[0].(*ast.UnaryExpr)
		if !ok || u.Op != token.AND || !isField(u.X, "curNum") {
			return "", nil, false
		}
		return se.Sel.Name, c.Args[1:], true
	}
	stmts := fd.Body.List
	guard := "0"
	// optional guard
	if len(stmts) > 0 {
		if is, ok := stmts[0].(*ast.IfStmt); ok && is.Init == nil && is.Else == nil && len(is.Body.List) == 1 {
			if be, ok := is.Cond.(*ast.BinaryExpr); ok && be.Op == token.LEQ {
				if l, err := expr(be.X); err == nil && l == "CLen" {
					if tv, ok := pkg.TypesInfo.Types[be.Y]; ok && tv.Value != nil {
						if ix, ok := retIndex(is.Body.List[0]); ok && isField(ix, "curNum") {
							guard, _ = zlit(tv.Value)
							stmts = stmts[1:]
						}
					}
				}
			}
		}
	}
	var ins []string
	done := false
	for _, st := range stmts {
		if done {
			return "", fmt.Errorf("%s: statement after the final return", pos(st))
		}
		switch x := st.(type) {
		case *ast.AssignStmt:
			if len(x.Lhs) == 1 && len(x.Rhs) == 1 {
				if id, ok := x.Lhs[0].(*ast.Ident); ok {
					if fn, args, ok := atomicOn(x.Rhs[0]); ok && fn == "LoadInt32" && len(args) == 0 {
						reg = id.Name
						ins = append(ins, "CLoad")
						continue
					}
					if e, err := expr(x.Rhs[0]); err == nil && e == "CLen" {
						lenAlias[id.Name] = true
						continue
					}
				}
			}
			return "", fmt.Errorf("%s: unsupported assignment", pos(x))
		case *ast.ExprStmt:
			if fn, args, ok := atomicOn(x.X); ok {
				switch {
				case fn == "AddInt32" && len(args) == 1:
					tv := pkg.TypesInfo.Types[args[0]]
					if tv.Value == nil {
						return "", fmt.Errorf("%s: non-constant increment", pos(x))
					}
					s, _ := zlit(tv.Value)
					ins = append(ins, "CAdd "+s)
					continue
				case fn == "StoreInt32" && len(args) == 1:
					e, err := expr(args[0])
					if err != nil {
						return "", err
					}
					ins = append(ins, "CStore "+e)
					continue
				}
			}
			return "", fmt.Errorf("%s: unsupported expression statement", pos(x))
		case *ast.IfStmt:
			if x.Else != nil || len(x.Body.List) != 1 {
				return "", fmt.Errorf("%s: unsupported if form", pos(x))
			}
			if x.Init != nil {
				as, ok := x.Init.(*ast.AssignStmt)
				if !ok || len(as.Lhs) != 1 || len(as.Rhs) != 1 {
					return "", fmt.Errorf("%s: unsupported if init", pos(x))
				}
				id, ok := as.Lhs[0].(*ast.Ident)
				e, err := expr(as.Rhs[0])
				if !ok || err != nil || e != "CLen" {
					return "", fmt.Errorf("%s: unsupported if init", pos(x))
				}
				lenAlias[id.Name] = true
			}
			be, ok := x.Cond.(*ast.BinaryExpr)
			if !ok {
				return "", fmt.Errorf("%s: unsupported condition", pos(x))
			}
			a, err := expr(be.X)
			if err != nil {
				return "", err
			}
			b, err := expr(be.Y)
			if err != nil {
				return "", err
			}
			switch be.Op {
			case token.GEQ:
			case token.GTR:
				b = fmt.Sprintf("(CPlus %s (CConst 1))", b)
			case token.LEQ:
				a, b = b, a
			case token.LSS:
				a, b = b, fmt.Sprintf("(CPlus %s (CConst 1))", a)
			default:
				return "", fmt.Errorf("%s: unsupported comparison %s", pos(x), be.Op)
			}
			ix, ok := retIndex(x.Body.List[0])
			if !ok {
				return "", fmt.Errorf("%s: branch must return an element of results", pos(x))
			}
			r, err := expr(ix)
			if err != nil {
				return "", err
			}
			ins = append(ins, fmt.Sprintf("CRetIfGe %s %s %s", a, b, r))
		case *ast.ReturnStmt:
			ix, ok := retIndex(x)
			if !ok {
				return "", fmt.Errorf("%s: final return must be an element of results", pos(x))
			}
			r, err := expr(ix)
			if err != nil {
				return "", err
			}
			ins = append(ins, "CRet "+r)
			done = true
		default:
			return "", fmt.Errorf("%s: unsupported statement %T", pos(st), st)
		}
	}
	if !done {
		return "", fmt.Errorf("%s: no final return", name)
	}
	nm := coqName(strings.ReplaceAll(name, ".", "_"))
	return fmt.Sprintf("Definition %s_guard : Z := %s.\n\nDefinition %s_prog : list cinstr :=\n  [ %s ].\n\n", nm, guard, nm, strings.Join(ins, ";\n    ")), nil
}
