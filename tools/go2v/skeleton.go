package main

import (
	"fmt"
	"go/ast"
	"go/token"
	"go/types"
	"strings"

	"golang.org/x/tools/go/packages"
)

// trSkeleton emits the control skeleton of a function: one string per statement, indented by nesting depth, with the
// conditions / loop headers / assignments printed as source expressions and the arguments of panic(..) and of error
// constructors (fmt.Errorf, fmt.Sprintf) elided.
//     Definition <fn>_skeleton : list string := [...].
func trSkeleton(pkg *packages.Package, fn string) (string, error) {
	var fd *ast.FuncDecl
	for _, f := range pkg.Syntax {
		for _, d := range f.Decls {
			if x, ok := d.(*ast.FuncDecl); ok && x.Body != nil && declName(x) == fn {
				fd = x
			}
		}
	}
	if fd == nil {
		return "", fmt.Errorf("function %s not found", fn)
	}
	var out []string
	expr := func(e ast.Expr) string {
		if c, ok := e.(*ast.CallExpr); ok {
			switch types.ExprString(c.Fun) {
			case "fmt.Errorf", "fmt.Sprintf", "errors.New":
				return types.ExprString(c.Fun) + "(..)"
			}
		}
		return types.ExprString(e)
	}
	exprs := func(es []ast.Expr) string {
		var ps []string
		for _, e := range es {
			ps = append(ps, expr(e))
		}
		return strings.Join(ps, ", ")
	}
	var walk func(st ast.Stmt, depth int)
	block := func(b *ast.BlockStmt, depth int) {
		if b == nil {
			return
		}
		for _, st := range b.List {
			walk(st, depth)
		}
	}
	simple := func(st ast.Stmt) string {
		switch s := st.(type) {
		case nil:
			return ""
		case *ast.AssignStmt:
			return exprs(s.Lhs) + " " + s.Tok.String() + " " + exprs(s.Rhs)
		case *ast.IncDecStmt:
			return expr(s.X) + s.Tok.String()
		case *ast.ExprStmt:
			return expr(s.X)
		}
		return "?"
	}
	walk = func(st ast.Stmt, depth int) {
		ind := strings.Repeat("  ", depth)
		switch s := st.(type) {
		case *ast.IfStmt:
			h := "if "
			if s.Init != nil {
				h += simple(s.Init) + "; "
			}
			out = append(out, ind+h+expr(s.Cond))
			block(s.Body, depth+1)
			switch e := s.Else.(type) {
			case *ast.BlockStmt:
				out = append(out, ind+"else")
				block(e, depth+1)
			case *ast.IfStmt:
				out = append(out, ind+"else")
				walk(e, depth+1)
			}
		case *ast.ForStmt:
			out = append(out, ind+"for "+simple(s.Init)+"; "+func() string {
				if s.Cond == nil {
					return ""
				}
				return expr(s.Cond)
			}()+"; "+simple(s.Post))
			block(s.Body, depth+1)
		case *ast.RangeStmt:
			k, v := "_", "_"
			if s.Key != nil {
				k = expr(s.Key)
			}
			if s.Value != nil {
				v = expr(s.Value)
			}
			out = append(out, ind+"range "+k+", "+v+" "+s.Tok.String()+" "+expr(s.X))
			block(s.Body, depth+1)
		case *ast.ReturnStmt:
			out = append(out, ind+"return "+exprs(s.Results))
		case *ast.ExprStmt:
			if c, ok := s.X.(*ast.CallExpr); ok && types.ExprString(c.Fun) == "panic" {
				out = append(out, ind+"panic")
				return
			}
			out = append(out, ind+expr(s.X))
		case *ast.AssignStmt, *ast.IncDecStmt:
			out = append(out, ind+simple(s))
		case *ast.DeclStmt:
			if gd, ok := s.Decl.(*ast.GenDecl); ok && gd.Tok == token.VAR {
				for _, sp := range gd.Specs {
					vs := sp.(*ast.ValueSpec)
					var ns []string
					for _, n := range vs.Names {
						ns = append(ns, n.Name)
					}
					out = append(out, ind+"var "+strings.Join(ns, ", "))
				}
				return
			}
			out = append(out, ind+"decl")
		case *ast.BlockStmt:
			block(s, depth)
		case *ast.SwitchStmt:
			h := "switch"
			if s.Tag != nil {
				h += " " + expr(s.Tag)
			}
			out = append(out, ind+h)
			for _, c := range s.Body.List {
				cc := c.(*ast.CaseClause)
				if cc.List == nil {
					out = append(out, ind+"default")
				} else {
					out = append(out, ind+"case "+exprs(cc.List))
				}
				for _, x := range cc.Body {
					walk(x, depth+1)
				}
			}
		case *ast.BranchStmt:
			out = append(out, ind+s.Tok.String())
		case *ast.DeferStmt:
			out = append(out, ind+"defer "+expr(s.Call))
		case *ast.GoStmt:
			out = append(out, ind+"go "+expr(s.Call))
		default:
			out = append(out, ind+fmt.Sprintf("stmt:%T", st))
		}
	}
	block(fd.Body, 0)
	var sb strings.Builder
	fmt.Fprintf(&sb, "Definition %s_skeleton : list string :=\n  [", strings.ReplaceAll(fn, ".", "_"))
	for i, l := range out {
		if i > 0 {
			sb.WriteString(";\n   ")
		}
		sb.WriteString(coqQuote(l))
	}
	sb.WriteString("].\n\n")
	return sb.String(), nil
}

// coqQuote renders s as a Coq string literal (a double quote is written twice; there are no backslash escapes)
func coqQuote(s string) string {
	s = strings.ReplaceAll(s, "\n", " ")
	s = strings.ReplaceAll(s, "\t", " ")
	return "\"" + strings.ReplaceAll(s, "\"", "\"\"") + "\""
}
