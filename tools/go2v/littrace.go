package main

import (
	"fmt"
	"go/ast"
	"go/types"
	"strings"

	"golang.org/x/tools/go/packages"
)

// trLitTrace emits, for every function literal inside fn (in source order), the control/data skeleton that matters for
// "the wrapper forwards and returns unchanged":
//     Definition <fn>_lit<k> : list string := [...].
// events, in source order: calls whose callee name is in `watch` ("name(args)"), every return ("return e1, e2"),
// conditions mentioning a watched name ("if cond"), and assignments / inc-dec whose target is rooted at one of the
// literal's own parameters or at a variable named in `vars` ("assign lhs").
// Also:  Definition <fn>_guard : list string  -- the statements of fn's body before the first literal that are an `if`
// returning early ("if cond return a, b").
func trLitTrace(pkg *packages.Package, fn string, watch, vars []string) (string, error) {
	fd := findFunc(pkg, fn)
	if fd == nil || fd.Body == nil {
		return "", fmt.Errorf("function %s not found", fn)
	}
	w := map[string]bool{}
	for _, x := range watch {
		w[x] = true
	}
	vs := map[string]bool{}
	for _, x := range vars {
		vs[x] = true
	}
	mentions := func(e ast.Expr) bool {
		found := false
		ast.Inspect(e, func(n ast.Node) bool {
			if id, ok := n.(*ast.Ident); ok && w[id.Name] {
				found = true
			}
			return !found
		})
		return found
	}
	root := func(e ast.Expr) string {
		for {
			switch v := e.(type) {
			case *ast.ParenExpr:
				e = v.X
			case *ast.StarExpr:
				e = v.X
			case *ast.SelectorExpr:
				e = v.X
			case *ast.IndexExpr:
				e = v.X
			case *ast.SliceExpr:
				e = v.X
			case *ast.Ident:
				return v.Name
			default:
				return ""
			}
		}
	}
	var sb strings.Builder
	cn := coqName(strings.ReplaceAll(fn, ".", "_"))
	// early-return guards of the outer function
	var guard []string
	for _, st := range fd.Body.List {
		ifs, ok := st.(*ast.IfStmt)
		if !ok {
			continue
		}
		hasLit := false
		ast.Inspect(ifs, func(n ast.Node) bool {
			if _, ok := n.(*ast.FuncLit); ok {
				hasLit = true
			}
			return !hasLit
		})
		if hasLit {
			continue
		}
		for _, s := range ifs.Body.List {
			if r, ok := s.(*ast.ReturnStmt); ok {
				var es []string
				for _, e := range r.Results {
					es = append(es, types.ExprString(e))
				}
				guard = append(guard, fmt.Sprintf("%q", "if "+types.ExprString(ifs.Cond)+" return "+strings.Join(es, ", ")))
			}
		}
	}
	fmt.Fprintf(&sb, "Definition %s_guard : list string :=\n  [%s].\n\n", cn, strings.Join(guard, "; "))
	k := 0
	ast.Inspect(fd.Body, func(n ast.Node) bool {
		lit, ok := n.(*ast.FuncLit)
		if !ok {
			return true
		}
		own := map[string]bool{}
		for _, f := range lit.Type.Params.List {
			for _, nm := range f.Names {
				own[nm.Name] = true
			}
		}
		var ev []string
		ast.Inspect(lit.Body, func(m ast.Node) bool {
			switch s := m.(type) {
			case *ast.FuncLit:
				return false
			case *ast.IfStmt:
				if mentions(s.Cond) {
					ev = append(ev, "if "+types.ExprString(s.Cond))
				}
			case *ast.ReturnStmt:
				var es []string
				for _, e := range s.Results {
					es = append(es, types.ExprString(e))
				}
				ev = append(ev, "return "+strings.Join(es, ", "))
			case *ast.AssignStmt:
				for _, l := range s.Lhs {
					if _, isIdent := l.(*ast.Ident); isIdent && s.Tok.String() == ":=" {
						continue
					}
					// a write to a variable captured from the enclosing function: state shared between calls
					if id, isIdent := l.(*ast.Ident); isIdent && id.Name != "_" {
						if o := pkg.TypesInfo.ObjectOf(id); o != nil && (o.Pos() < lit.Pos() || o.Pos() > lit.End()) {
							ev = append(ev, "captured-write "+id.Name)
							continue
						}
					}
					if r := root(l); own[r] || vs[r] {
						if _, plain := l.(*ast.Ident); plain && !own[r] {
							// (re)binding of a watched local: show the right-hand side through its calls
							continue
						}
						ev = append(ev, "assign "+types.ExprString(l))
					}
				}
			case *ast.IncDecStmt:
				if r := root(s.X); own[r] || vs[r] {
					ev = append(ev, "assign "+types.ExprString(s.X))
				}
			case *ast.CallExpr:
				name := ""
				switch f := s.Fun.(type) {
				case *ast.Ident:
					name = f.Name
				case *ast.SelectorExpr:
					name = f.Sel.Name
				}
				if w[name] {
					var as []string
					for _, a := range s.Args {
						as = append(as, types.ExprString(a))
					}
					ev = append(ev, name+"("+strings.Join(as, ", ")+")")
				}
			}
			return true
		})
		for i := range ev {
			ev[i] = fmt.Sprintf("%q", ev[i])
		}
		fmt.Fprintf(&sb, "Definition %s_lit%d : list string :=\n  [%s].\n\n", cn, k, strings.Join(ev, "; "))
		k++
		return false
	})
	if k == 0 {
		return "", fmt.Errorf("%s contains no function literal", fn)
	}
	return sb.String(), nil
}
