package main

import (
	"fmt"
	"go/ast"
	"go/token"
	"strings"

	"golang.org/x/tools/go/packages"
)

// trAtomicProg translates a function of the shape of stub.acquireFromHolder into the IR of Model/StubSpace.v:
// a straight-line sequence of atomic loads / atomic adds on ONE shared word (placeHolderIns.off),
// overflow checks `if A > B { ...; return ..., errSpaceOverflow }`, and a final return of the region's start.
// Calls to logger.* and definitions of locals that do not feed the returned address are ignored.
// Any other access to the shared word (a plain read or write) makes the translation fail.
func trAtomicProg(pkg *packages.Package, name string) (string, error) {
	fd := findFunc(pkg, name)
	if fd == nil || fd.Body == nil {
		return "", fmt.Errorf("function %s not found", name)
	}
	regs := map[string]int{}
	alias := map[string]string{} // locals (re)defined by a pure address expression
	lenParam := ""
	if fd.Type.Params != nil && len(fd.Type.Params.List) == 1 && len(fd.Type.Params.List[0].Names) == 1 {
		lenParam = fd.Type.Params.List[0].Names[0].Name
	} else {
		return "", fmt.Errorf("%s: expected exactly one (length) parameter", name)
	}
	pos := func(n ast.Node) string {
		p := pkg.Fset.Position(n.Pos())
		return fmt.Sprintf("%s:%d", p.Filename[strings.LastIndex(p.Filename, "/")+1:], p.Line)
	}
	isShared := func(e ast.Expr) bool { // placeHolderIns.off
		se, ok := e.(*ast.SelectorExpr)
		if !ok || se.Sel.Name != "off" {
			return false
		}
		id, ok := se.X.(*ast.Ident)
		return ok && id.Name == "placeHolderIns"
	}
	var expr func(e ast.Expr) (string, error)
	expr = func(e ast.Expr) (string, error) {
		switch x := e.(type) {
		case *ast.ParenExpr:
			return expr(x.X)
		case *ast.Ident:
			if a, ok := alias[x.Name]; ok {
				return a, nil
			}
			if r, ok := regs[x.Name]; ok {
				return fmt.Sprintf("(EReg %d)", r), nil
			}
			return "", fmt.Errorf("%s: unknown identifier %s in address expression", pos(x), x.Name)
		case *ast.CallExpr:
			if id, ok := x.Fun.(*ast.Ident); ok && id.Name == "uintptr" && len(x.Args) == 1 {
				if a, ok := x.Args[0].(*ast.Ident); ok && a.Name == lenParam {
					return "ELen", nil
				}
			}
			return "", fmt.Errorf("%s: unsupported call in address expression", pos(x))
		case *ast.SelectorExpr:
			if id, ok := x.X.(*ast.Ident); ok && id.Name == "placeHolderIns" {
				switch x.Sel.Name {
				case "max":
					return "EMax", nil
				case "off":
					return "", fmt.Errorf("%s: non-atomic access to the shared offset", pos(x))
				}
			}
			return "", fmt.Errorf("%s: unsupported selector", pos(x))
		case *ast.BinaryExpr:
			a, err := expr(x.X)
			if err != nil {
				return "", err
			}
			b, err := expr(x.Y)
			if err != nil {
				return "", err
			}
			switch x.Op {
			case token.ADD:
				return fmt.Sprintf("(EAdd %s %s)", a, b), nil
			case token.SUB:
				return fmt.Sprintf("(ESub %s %s)", a, b), nil
			}
			return "", fmt.Errorf("%s: unsupported operator %s", pos(x), x.Op)
		}
		return "", fmt.Errorf("%s: unsupported expression %T", pos(e), e)
	}
	atomicCall := func(e ast.Expr) (fn string, args []ast.Expr, ok bool) {
		c, isCall := e.(*ast.CallExpr)
		if !isCall {
			return
		}
		se, isSel := c.Fun.(*ast.SelectorExpr)
		if !isSel {
			return
		}
		id, isID := se.X.(*ast.Ident)
		if !isID || id.Name != "atomic" {
			return
		}
		return se.Sel.Name, c.Args, true
	}
	addrOfShared := func(e ast.Expr) bool {
		u, ok := e.(*ast.UnaryExpr)
		return ok && u.Op == token.AND && isShared(u.X)
	}
	mentionsShared := func(n ast.Node) bool {
		found := false
		ast.Inspect(n, func(x ast.Node) bool {
			if e, ok := x.(ast.Expr); ok && isShared(e) {
				found = true
			}
			return true
		})
		return found
	}
	var ins []string
	done := false
	for _, st := range fd.Body.List {
		if done {
			return "", fmt.Errorf("%s: statement after the final return", pos(st))
		}
		switch x := st.(type) {
		case *ast.ExprStmt:
			if mentionsShared(x) {
				return "", fmt.Errorf("%s: access to the shared offset in an expression statement", pos(x))
			}
			continue // logger call
		case *ast.AssignStmt:
			if len(x.Lhs) == 1 && len(x.Rhs) == 1 {
				if id, ok := x.Lhs[0].(*ast.Ident); ok {
					if fn, args, ok := atomicCall(x.Rhs[0]); ok {
						if _, seen := regs[id.Name]; !seen {
							regs[id.Name] = len(regs)
						}
						r := regs[id.Name]
						delete(alias, id.Name)
						switch {
						case fn == "LoadUintptr" && len(args) == 1 && addrOfShared(args[0]):
							ins = append(ins, fmt.Sprintf("ILoad %d", r))
							continue
						case fn == "AddUintptr" && len(args) == 2 && addrOfShared(args[0]):
							e, err := expr(args[1])
							if err != nil {
								return "", err
							}
							ins = append(ins, fmt.Sprintf("IFetchAdd %d %s", r, e))
							continue
						}
						return "", fmt.Errorf("%s: unsupported atomic operation %s", pos(x), fn)
					}
					if mentionsShared(x.Rhs[0]) {
						return "", fmt.Errorf("%s: non-atomic access to the shared offset", pos(x))
					}
					// a pure local that is an address expression becomes a register alias; anything else is opaque
					if e, err := expr(x.Rhs[0]); err == nil {
						alias[id.Name] = e
					} else {
						delete(alias, id.Name)
						delete(regs, id.Name) // opaque from here on
					}
					continue
				}
			}
			if mentionsShared(x) {
				return "", fmt.Errorf("%s: non-atomic access to the shared offset", pos(x))
			}
			return "", fmt.Errorf("%s: unsupported assignment", pos(x))
		case *ast.IfStmt:
			if x.Init != nil || x.Else != nil {
				return "", fmt.Errorf("%s: unsupported if form", pos(x))
			}
			be, ok := x.Cond.(*ast.BinaryExpr)
			if !ok || be.Op != token.GTR {
				return "", fmt.Errorf("%s: overflow check must be of the form a > b", pos(x))
			}
			a, err := expr(be.X)
			if err != nil {
				return "", err
			}
			b, err := expr(be.Y)
			if err != nil {
				return "", err
			}
			if len(x.Body.List) == 0 {
				return "", fmt.Errorf("%s: empty overflow branch", pos(x))
			}
			ret, ok := x.Body.List[len(x.Body.List)-1].(*ast.ReturnStmt)
			if !ok || len(ret.Results) != 3 {
				return "", fmt.Errorf("%s: overflow branch must return", pos(x))
			}
			if id, ok := ret.Results[2].(*ast.Ident); !ok || id.Name != "errSpaceOverflow" {
				return "", fmt.Errorf("%s: overflow branch must return errSpaceOverflow", pos(x))
			}
			for _, s := range x.Body.List[:len(x.Body.List)-1] {
				if _, ok := s.(*ast.ExprStmt); !ok || mentionsShared(s) {
					return "", fmt.Errorf("%s: unsupported statement in overflow branch", pos(s))
				}
			}
			ins = append(ins, fmt.Sprintf("IFailIfGt %s %s", a, b))
		case *ast.ReturnStmt:
			if len(x.Results) != 3 {
				return "", fmt.Errorf("%s: return arity", pos(x))
			}
			if id, ok := x.Results[2].(*ast.Ident); !ok || id.Name != "nil" {
				return "", fmt.Errorf("%s: final return must have a nil error", pos(x))
			}
			e, err := expr(x.Results[0])
			if err != nil {
				return "", err
			}
			ins = append(ins, fmt.Sprintf("IRet %s", e))
			done = true
		default:
			return "", fmt.Errorf("%s: unsupported statement %T", pos(st), st)
		}
	}
	if !done {
		return "", fmt.Errorf("%s: no final return", name)
	}
	return fmt.Sprintf("Definition %s_prog : list instr :=\n  [ %s ].\n\n", coqName(name), strings.Join(ins, ";\n    ")), nil
}
