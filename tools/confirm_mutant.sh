#!/bin/sh
# usage: confirm_mutant.sh <worktree> <patch.diff> <demo file> <dir in repo for demo> <go test args...>
# Confirms: demo passes on pristine, fails with mutant, mutant builds, pinned baseline still 45/45.
wt=$1; diff=$2; demo=$3; dir=$4; shift 4
export GOFLAGS=-mod=mod GOPROXY=off GOSUMDB=off GOTOOLCHAIN=local
cd "$wt" || exit 2
git checkout -q -- . ; git clean -fdq
mkdir -p "$dir"; cp "$demo" "$dir/zz_demo_test.go"
( cd "$dir" && go test -gcflags=all=-l -vet=off -count=1 "$@" . >/tmp/confirm_$(basename $wt)_pristine.log 2>&1 ); p=$?
git apply "$diff" || { echo "PATCH-FAILS"; exit 2; }
go build ./... || { echo "BUILD-FAILS"; }
( cd "$dir" && go test -gcflags=all=-l -vet=off -count=1 "$@" . >/tmp/confirm_$(basename $wt)_mutant.log 2>&1 ); m=$?
rm -f "$dir/zz_demo_test.go"
/verif/tools/baseline.py "$wt" | head -3
git checkout -q -- . ; git clean -fdq
echo "demo pristine exit=$p (want 0), demo mutant exit=$m (want !=0)"
