#!/usr/bin/env python3-vt
"""Validate MANIFEST.json and evidence/*.json against the schemas in /root/.vp."""
import json, glob, sys, jsonschema
ok = True
def chk(path, schema):
    global ok
    try:
        d = json.load(open(path))
        jsonschema.validate(d, json.load(open(schema)))
        cov = d.get("coverage", {}) if isinstance(d, dict) else {}
        if d.get("level") == "proof" and "obligations" in cov and cov.get("discharged") != cov.get("obligations"):
            raise Exception("proof-level evidence with discharged %s != obligations %s (evidence of a run on a mutated tree?)" % (cov.get("discharged"), cov.get("obligations")))
        if d.get("violations"):
            raise Exception("evidence of a run that reported violations")
        print("valid  ", path)
    except Exception as e:
        ok = False
        print("INVALID", path, str(e)[:400])
chk("/verif/MANIFEST.json", "/root/.vp/MANIFEST.schema.json")
for p in sorted(glob.glob("/verif/evidence/*.json")):
    chk(p, "/root/.vp/EVIDENCE.schema.json")
sys.exit(0 if ok else 1)
