#!/usr/bin/env python3-vt
"""Validate MANIFEST.json and evidence/*.json against the schemas in /root/.vp."""
import json, glob, sys, jsonschema
ok = True
def chk(path, schema):
    global ok
    try:
        jsonschema.validate(json.load(open(path)), json.load(open(schema)))
        print("valid  ", path)
    except Exception as e:
        ok = False
        print("INVALID", path, str(e)[:400])
chk("/verif/MANIFEST.json", "/root/.vp/MANIFEST.schema.json")
for p in sorted(glob.glob("/verif/evidence/*.json")):
    chk(p, "/root/.vp/EVIDENCE.schema.json")
sys.exit(0 if ok else 1)
