#!/usr/bin/env python3
"""Run goom's pinned test suite with the verif guard OFF and compare with /root/.vp/BASELINE.json (45 stable tests)."""
import json, os, subprocess, sys
repo = sys.argv[1] if len(sys.argv) > 1 else "/repo"
base = json.load(open("/root/.vp/BASELINE.json"))
env = dict(os.environ, GOFLAGS="-mod=mod", GOPROXY="off", GOSUMDB="off", GOTOOLCHAIN="local")
p = subprocess.run(["go", "test", "-mod=mod", "-json", "-vet=off", "-count=1", "-timeout", "25m", "./..."],
                   cwd=repo, env=env, stdout=subprocess.PIPE, stderr=subprocess.STDOUT)
res = {}
for line in p.stdout.decode("utf-8", "replace").splitlines():
    try:
        ev = json.loads(line)
    except Exception:
        continue
    if ev.get("Test") and ev.get("Action") in ("pass", "fail", "skip"):
        res[ev["Package"] + "::" + ev["Test"]] = ev["Action"]
missing = [t for t in base["stable_pass"] if res.get(t) != "pass"]
print("stable tests passing: %d/%d" % (len(base["stable_pass"]) - len(missing), len(base["stable_pass"])))
for t in missing:
    print("  NOT PASSING:", t, res.get(t))
sys.exit(1 if missing else 0)
