#!/bin/sh
# usage: tools/seed_flow.sh <Cnn> <k> <dir in repo for demo> [go test args...]
# Confirms incoming mutant k of property Cnn in a scratch worktree (demo passes pristine / fails mutated / baseline
# 45 of 45), then runs the check against it in /repo and reverts.
pid=$1; k=$2; dir=$3; shift 3
inc=/verif/seeded/_incoming/out_$pid
diff=$inc/mutant$k.diff; [ -f $inc/mutant${k}_ported.diff ] && diff=$inc/mutant${k}_ported.diff
demo=$inc/demo${k}_test.go
wt=/tmp/wt_$pid
git -C /repo worktree remove --force $wt 2>/dev/null
git -C /repo worktree add -q --detach $wt HEAD || exit 2
/verif/tools/confirm_mutant.sh $wt $diff $demo $dir "$@"
git -C /repo worktree remove --force $wt
/verif/tools/try_mutant.sh $pid $diff quick
