#!/bin/sh
# usage: tools/run_seeds.sh [ids...]   -- every saved seed through the check of its property; prints one line per seed
cd /verif
ids=${*:-$(ls seeded | grep -v obsolete)}
for id in $ids; do
  p=${id%%-*}
  d=/verif/seeded/$id/patch.diff
  [ -f $d ] || continue
  if ! git -C /repo apply --check $d 2>/dev/null; then echo "$id: PATCH-DOES-NOT-APPLY"; continue; fi
  out=$(tools/try_mutant.sh $p $d 2>&1)
  keys=$(python3 -c "
import json,glob
ks=[]
for f in sorted(glob.glob('/tmp/try_mutant_replays/*.json')):
    try: r=json.load(open(f))
    except Exception: continue
    k=r.get('key') or ('obligation: '+'; '.join(x.get('name','')[:60] for x in r.get('theorem_or_correspondence',[])[:2]))
    if k not in ks: ks.append(k)
print(' | '.join(ks[:3])[:260])" 2>/dev/null)
  echo "$id: $(echo "$out" | grep -c VIOLATION) violation lines; $(echo "$out" | tail -1 | tr '\n' ' ' | cut -c1-40) [$keys]"
done
