#!/bin/sh
# usage: tools/run_seeds.sh [ids...]   -- every saved seed through the check of its property; prints one line per seed
cd /verif
ids=${*:-$(ls seeded | grep -v obsolete)}
for id in $ids; do
  p=${id%%-*}
  d=/verif/seeded/$id/patch.diff
  [ -f $d ] || continue
  if ! git -C /repo apply --check $d 2>/dev/null; then echo "$id: PATCH-DOES-NOT-APPLY"; continue; fi
  out=$(tools/try_mutant.sh $p $d 2>&1)
  echo "$id: $(echo "$out" | grep -c VIOLATION) violation lines; $(echo "$out" | tail -2 | tr '\n' ' ' | cut -c1-120)"
done
