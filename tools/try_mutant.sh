#!/bin/sh
# usage: tools/try_mutant.sh <Cnn> <patch.diff> [tier]   -- applies to /repo, runs the check, reverts.
# The evidence file and replays of the clean tree are put back afterwards (committed evidence must come from /repo itself).
pid=$1; diff=$2; tier=${3:-quick}
cd /repo || exit 2
git diff --quiet || { echo "/repo not clean"; exit 2; }
git apply "$diff" || { echo "patch does not apply"; exit 2; }
sav=$(mktemp -d)
cp /verif/evidence/$pid.json $sav/ 2>/dev/null
mkdir -p $sav/replays; cp /verif/replays/$pid-*.json $sav/replays/ 2>/dev/null
cd /verif && ./check "$pid" "$tier" > /tmp/try_mutant.out 2>&1
rc=$?
tail -6 /tmp/try_mutant.out | cut -c1-300
mkdir -p /tmp/try_mutant_replays; rm -f /tmp/try_mutant_replays/*; cp /verif/replays/$pid-*.json /tmp/try_mutant_replays/ 2>/dev/null
git -C /repo checkout -- . && git -C /repo clean -fdq
rm -f /verif/replays/$pid-*.json; cp $sav/replays/*.json /verif/replays/ 2>/dev/null
[ -f $sav/$pid.json ] && cp $sav/$pid.json /verif/evidence/$pid.json
rm -rf $sav
echo "exit=$rc"
