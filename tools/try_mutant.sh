#!/bin/sh
# usage: tools/try_mutant.sh <Cnn> <patch.diff> [tier]   -- applies to /repo, runs the check, reverts
pid=$1; diff=$2; tier=${3:-quick}
cd /repo || exit 2
git diff --quiet || { echo "/repo not clean"; exit 2; }
git apply "$diff" || { echo "patch does not apply"; exit 2; }
cd /verif && ./check "$pid" "$tier" > /tmp/try_mutant.out 2>&1
rc=$?
tail -6 /tmp/try_mutant.out
git -C /repo checkout -- . && git -C /repo clean -fdq
echo "exit=$rc"
