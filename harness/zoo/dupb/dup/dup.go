// Package dup (path .../zoo/dupb/dup): see .../zoo/dupa/dup.
package dup

// T has the same short name ("dup.T") as the T of the other package dup.
type T struct{ K int }

//go:noinline
func (t *T) Get(x int) int { return t.K*100 + x + 52 }
