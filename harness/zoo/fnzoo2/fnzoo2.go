// Package fnzoo2 has unexported functions with the SAME names as package fnzoo (cache keys must include the package).
package fnzoo2

// Counter counts calls of the originals.
var Counter int

//go:noinline
func uf1(a int) int { Counter++; return -7450 - a }

//go:noinline
func CallUf1(a int) int { return uf1(a) }
