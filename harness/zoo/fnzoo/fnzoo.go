// Package fnzoo is a corpus of mock targets (functions, variadic functions, methods) for the stub checks.
package fnzoo

// T has pointer- and value-receiver methods.
type T struct{ K int }

// Counter lets the originals leave a trace.
var Counter int

//go:noinline
func F1(a int) int { Counter++; return -1000 - a }

//go:noinline
func F2(s string, n int) int { Counter++; return -2000 - n - len(s) }

//go:noinline
func FV(a int, rest ...string) int { Counter++; return -3000 - a - 10*len(rest) }

//go:noinline
func FVV(xs ...int) int { Counter++; return -4000 - len(xs) }

//go:noinline
func F0() int { Counter++; return -5000 }

//go:noinline
func FN(a int) { Counter += 100 + a }

//go:noinline
func F2R(a int) (int, string) { Counter++; return -6000 - a, "orig" }

//go:noinline
func (t *T) M(a int) int { Counter++; return -7000 - a - t.K }

//go:noinline
func (t *T) M2(a int) int { Counter++; return -7500 - a - t.K }

// unexported methods (mocked through Struct(x).ExportMethod(name)) and their exported callers
//
//go:noinline
func (t *T) um1(a int) int { Counter++; return -7200 - a - t.K }

//go:noinline
func (t *T) um2(a int) int { Counter++; return -7300 - a - t.K }

//go:noinline
func uf1(a int) int { Counter++; return -7400 - a }

//go:noinline
func CallUf1(a int) int { return uf1(a) }

//go:noinline
func (t *T) CallUm1(a int) int { return t.um1(a) }

//go:noinline
func (t *T) CallUm2(a int) int { return t.um2(a) }

//go:noinline
func (t T) V(a int) int { Counter++; return -8000 - a - t.K }

//go:noinline
func (t *T) MV(a int, rest ...int) int { Counter++; return -9000 - a - len(rest) }

//go:noinline
func G1(a int) int { Counter++; return -1100 - a }

//go:noinline
func G2(a int) int { Counter++; return -1200 - a }

// PHSink defeats dead-code elimination in the placeholders.
var PHSink int

// PH1 is an origin placeholder with a body large enough to hold a relocated prologue.
//
//go:noinline
func PH1(a int) int {
	s := 0
	for i := 0; i < a; i++ {
		s += i*3 + a
		if s > 1000 {
			s -= 7
		}
		PHSink += s
	}
	for i := 0; i < a; i++ {
		s ^= i*5 + 1
		PHSink -= s
	}
	return s - 424242
}

// PH2 is a second origin placeholder.
//
//go:noinline
func PH2(a int) int {
	s := 1
	for i := 0; i < a; i++ {
		s += i*7 + a
		if s > 2000 {
			s -= 11
		}
		PHSink += s
	}
	for i := 0; i < a; i++ {
		s ^= i*9 + 3
		PHSink -= s
	}
	return s - 434343
}

// S3 is a 24-byte struct result type.
type S3 struct{ A, B, C int }

//go:noinline
func FS(a int) S3 { Counter++; return S3{a, -1, -1} }

//go:noinline
func FP(a int) *T { Counter++; return nil }

//go:noinline
func FSP(a int) (int, S3, *T) { Counter++; return -1, S3{}, nil }

// GK is generic but its signature does not mention T: both instantiations have the Go type func(int) int
//
//go:noinline
func GK[T any](a int) int { Counter++; return -7600 - a }

// SP is a comparable struct that carries indirection: a pointer field and an interface field holding a pointer.
// Two values built separately from the same id are deep-equal but not ==.
type SP struct {
	P *int
	I interface{}
	N string
}

// MkSP builds a fresh SP for an id (new pointers every time).
func MkSP(id int) SP {
	a, b := id, id*7
	return SP{P: &a, I: &b, N: "n"}
}

//go:noinline
func FPtrS(s SP, k int) int { Counter++; return -4400 - *s.P - k }

// SumTo begins with a loop: its back edge lands inside the first 13 bytes, so a mock WITH an origin placeholder cannot
// relocate its prologue and goom refuses it inside replaceFunc (after the previous patch of the address was taken off).
//
//go:noinline
func SumTo(n int) int {
	s := 0
	for i := 0; i < n; i++ {
		s += i
	}
	return s
}
