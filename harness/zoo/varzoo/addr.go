package varzoo

import "unsafe"

const pkgPath = "github.com/tencent/goom/verifharness/zoo/varzoo"

// Addrs returns the run-time address of package variables by fully qualified name (C10).
func Addrs() map[string]uintptr {
	p := func(x unsafe.Pointer) uintptr { return uintptr(x) }
	return map[string]uintptr{
		pkgPath + ".VInt":    p(unsafe.Pointer(&VInt)),
		pkgPath + ".VUint8":  p(unsafe.Pointer(&VUint8)),
		pkgPath + ".VString": p(unsafe.Pointer(&VString)),
		pkgPath + ".VFloat":  p(unsafe.Pointer(&VFloat)),
		pkgPath + ".VBool":   p(unsafe.Pointer(&VBool)),
		pkgPath + ".VSlice":  p(unsafe.Pointer(&VSlice)),
		pkgPath + ".VMap":    p(unsafe.Pointer(&VMap)),
		pkgPath + ".VStruct": p(unsafe.Pointer(&VStruct)),
		pkgPath + ".VPtr":    p(unsafe.Pointer(&VPtr)),
		pkgPath + ".VFunc":   p(unsafe.Pointer(&VFunc)),
		pkgPath + ".VErr":    p(unsafe.Pointer(&VErr)),
		pkgPath + ".VAny":    p(unsafe.Pointer(&VAny)),
		pkgPath + ".uInt":    p(unsafe.Pointer(&uInt)),
		pkgPath + ".uString": p(unsafe.Pointer(&uString)),
		pkgPath + ".uMap":    p(unsafe.Pointer(&uMap)),
		pkgPath + ".uPtr":    p(unsafe.Pointer(&uPtr)),
		pkgPath + ".uStruct": p(unsafe.Pointer(&uStruct)),
		pkgPath + ".uSlice":  p(unsafe.Pointer(&uSlice)),
		pkgPath + ".e1":      p(unsafe.Pointer(&e1)),
		pkgPath + ".m1":      p(unsafe.Pointer(&m1)),
	}
}
