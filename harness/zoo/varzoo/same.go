package varzoo

import "reflect"

// sameRef compares reference-like values (slices, maps, funcs) by identity and nil-ness.
func sameRef(a, b interface{}) bool {
	va, vb := reflect.ValueOf(a), reflect.ValueOf(b)
	if !va.IsValid() || !vb.IsValid() {
		return va.IsValid() == vb.IsValid()
	}
	if va.Type() != vb.Type() {
		return false
	}
	if va.IsNil() || vb.IsNil() {
		return va.IsNil() == vb.IsNil()
	}
	if va.Kind() == reflect.Slice && va.Len() != vb.Len() {
		return false
	}
	return va.Pointer() == vb.Pointer()
}
