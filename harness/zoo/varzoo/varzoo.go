// Package varzoo is a corpus of package variables of every kind for the variable-mock checks (C08).
package varzoo

import (
	"errors"
	"fmt"
)

// S is a small struct type.
type S struct {
	A int
	B string
	c []int
}

// Str implements fmt.Stringer.
type Str string

func (s Str) String() string { return string(s) }

func f0() int { return 0 }
func f1() int { return 1 }
func f2() int { return 2 }
func f3() int { return 3 }

var (
	e1 = errors.New("e1")
	e2 = errors.New("e2")
	e3 = fmt.Errorf("e3")
	s1 = &S{A: 1}
	s2 = &S{A: 2}
	s3 = &S{A: 3, c: []int{1}}
	m1 = map[string]int{"a": 1}
	m2 = map[string]int{"b": 2}
	m3 = map[string]int{}
	c1 = make(chan int)
	c2 = make(chan int, 1)
	c3 = make(chan int, 2)
	l1 = []int{1}
	l2 = []int{2, 2}
	l3 = []int{}
)

// exported variables (addressed by pointer)
var (
	VInt     int            = 7
	VUint8   uint8          = 200
	VString  string         = "orig"
	VFloat   float64        = 1.5
	VBool    bool           = true
	VCplx    complex128     = complex(1, 2)
	VSlice   []int          // nil
	VMap     map[string]int // nil
	VStruct  S              = S{A: 9, B: "nine"}
	VPtr     *S             // nil
	VFunc    func() int     = f0
	VFuncNil func() int     // nil
	VErr     error          // nil interface
	VStrIf   fmt.Stringer   = Str("zero")
	VAny     interface{}    // nil
	VArr     [3]int         = [3]int{1, 2, 3}
	VChan    chan int       // nil
	VAny2    interface{}    = 42
)

// unexported variables (addressed by "package.name")
var (
	uInt    int            = 70
	uString string         = "uorig"
	uMap    map[string]int = m3
	uPtr    *S             = s1
	uStruct S              = S{A: 5}
	uSlice  []int          = l1
	uFunc   func() int     = f0
	// zero-valued at start: these live in .noptrbss (pointer-free) and .bss
	uZero    int
	uZeroArr [3]int32
	uZeroPtr *S
	// interface-typed unexported variables (separate probe stream: -extra ue-iface)
	uErr error       = e1
	uAny interface{} = 42
)

// E returns the i-th error value of the zoo (1..3).
func E(i int) error { return []error{e1, e2, e3}[i-1] }

//go:noinline
func RdUErr() error { return uErr }

//go:noinline
func RdUAny() interface{} { return uAny }

// ResetUIface puts the interface-typed unexported variables back (bypasses goom).
func ResetUIface() { uErr, uAny = e1, 42 }

// Var describes one variable of the zoo.
type Var struct {
	Name     string
	Ptr      interface{}   // pointer to the variable (exported ones), nil for unexported
	Path     string        // "pkg.name" for unexported ones
	Vals     []interface{} // candidate values; Vals[0] is the initial value (may be nil for nil-able kinds)
	Read     func() interface{}
	ReadCopy func() interface{} // through a compiled accessor
	Same     func(a, b interface{}) bool
}

//go:noinline
func rdInt() int { return VInt }

//go:noinline
func rdString() string { return VString }

//go:noinline
func rdErr() error { return VErr }

//go:noinline
func rdPtr() *S { return VPtr }

//go:noinline
func rdUInt() int { return uInt }

//go:noinline
func rdUString() string { return uString }

//go:noinline
func rdUMap() map[string]int { return uMap }

//go:noinline
func rdUPtr() *S { return uPtr }

//go:noinline
func rdUStruct() S { return uStruct }

//go:noinline
func rdUSlice() []int { return uSlice }

const pkg = "github.com/tencent/goom/verifharness/zoo/varzoo"

// Zoo lists all variables.
func Zoo() []Var {
	eq := func(a, b interface{}) bool { return a == b }
	return []Var{
		{Name: "VInt", Ptr: &VInt, Vals: []interface{}{7, 1, 2, 0}, Read: func() interface{} { return VInt }, ReadCopy: func() interface{} { return rdInt() }, Same: eq},
		{Name: "VUint8", Ptr: &VUint8, Vals: []interface{}{uint8(200), uint8(0), uint8(255), uint8(1)}, Read: func() interface{} { return VUint8 }, Same: eq},
		{Name: "VString", Ptr: &VString, Vals: []interface{}{"orig", "", "a", "中"}, Read: func() interface{} { return VString }, ReadCopy: func() interface{} { return rdString() }, Same: eq},
		{Name: "VFloat", Ptr: &VFloat, Vals: []interface{}{1.5, 0.0, -2.25, 1e300}, Read: func() interface{} { return VFloat }, Same: eq},
		{Name: "VBool", Ptr: &VBool, Vals: []interface{}{true, false, true, false}, Read: func() interface{} { return VBool }, Same: eq},
		{Name: "VCplx", Ptr: &VCplx, Vals: []interface{}{complex(1, 2), complex(0, 0), complex(-1, 5), complex(3, 0)}, Read: func() interface{} { return VCplx }, Same: eq},
		{Name: "VSlice", Ptr: &VSlice, Vals: []interface{}{[]int(nil), l1, l2, l3}, Read: func() interface{} { return VSlice }, Same: sameRef},
		{Name: "VMap", Ptr: &VMap, Vals: []interface{}{map[string]int(nil), m1, m2, m3}, Read: func() interface{} { return VMap }, Same: sameRef},
		{Name: "VStruct", Ptr: &VStruct, Vals: []interface{}{S{A: 9, B: "nine"}, S{}, S{A: 1}, S{B: "x"}}, Read: func() interface{} { return VStruct }, Same: func(a, b interface{}) bool { return fmt.Sprint(a) == fmt.Sprint(b) }},
		{Name: "VPtr", Ptr: &VPtr, Vals: []interface{}{(*S)(nil), s1, s2, s3}, Read: func() interface{} { return VPtr }, ReadCopy: func() interface{} { return rdPtr() }, Same: eq},
		{Name: "VFunc", Ptr: &VFunc, Vals: []interface{}{f0, f1, f2, f3}, Read: func() interface{} { return VFunc }, Same: sameRef},
		{Name: "VFuncNil", Ptr: &VFuncNil, Vals: []interface{}{(func() int)(nil), f1, f2, f3}, Read: func() interface{} { return VFuncNil }, Same: sameRef},
		{Name: "VErr", Ptr: &VErr, Vals: []interface{}{nil, e1, e2, e3}, Read: func() interface{} { return VErr }, ReadCopy: func() interface{} { return rdErr() }, Same: eq},
		{Name: "VStrIf", Ptr: &VStrIf, Vals: []interface{}{Str("zero"), Str("a"), Str("b"), Str("")}, Read: func() interface{} { return VStrIf }, Same: eq},
		{Name: "VAny", Ptr: &VAny, Vals: []interface{}{nil, 1, "s", 2.5}, Read: func() interface{} { return VAny }, Same: eq},
		{Name: "VArr", Ptr: &VArr, Vals: []interface{}{[3]int{1, 2, 3}, [3]int{}, [3]int{9, 9, 9}, [3]int{0, 1, 0}}, Read: func() interface{} { return VArr }, Same: eq},
		{Name: "VChan", Ptr: &VChan, Vals: []interface{}{(chan int)(nil), c1, c2, c3}, Read: func() interface{} { return VChan }, Same: eq},
		{Name: "VAny2", Ptr: &VAny2, Vals: []interface{}{42, "x", 3.5, int64(42)}, Read: func() interface{} { return VAny2 }, Same: eq},
		{Name: "uInt", Path: pkg + ".uInt", Vals: []interface{}{70, 71, 72, 0}, Read: func() interface{} { return uInt }, ReadCopy: func() interface{} { return rdUInt() }, Same: eq},
		{Name: "uString", Path: pkg + ".uString", Vals: []interface{}{"uorig", "x", "", "yy"}, Read: func() interface{} { return uString }, ReadCopy: func() interface{} { return rdUString() }, Same: eq},
		{Name: "uMap", Path: pkg + ".uMap", Vals: []interface{}{m3, m1, m2, map[string]int(nil)}, Read: func() interface{} { return uMap }, ReadCopy: func() interface{} { return rdUMap() }, Same: sameRef},
		{Name: "uPtr", Path: pkg + ".uPtr", Vals: []interface{}{s1, s2, s3, (*S)(nil)}, Read: func() interface{} { return uPtr }, ReadCopy: func() interface{} { return rdUPtr() }, Same: eq},
		{Name: "uStruct", Path: pkg + ".uStruct", Vals: []interface{}{S{A: 5}, S{}, S{A: 6, B: "b"}, S{B: "q"}}, Read: func() interface{} { return uStruct }, ReadCopy: func() interface{} { return rdUStruct() }, Same: func(a, b interface{}) bool { return fmt.Sprint(a) == fmt.Sprint(b) }},
		{Name: "uFunc", Path: pkg + ".uFunc", Vals: []interface{}{f0, f1, f2, f3}, Read: func() interface{} { return uFunc }, Same: sameRef},
		{Name: "uZero", Path: pkg + ".uZero", Vals: []interface{}{0, 1, 2, -1}, Read: func() interface{} { return uZero }, Same: eq},
		{Name: "uZeroArr", Path: pkg + ".uZeroArr", Vals: []interface{}{[3]int32{}, [3]int32{1, 2, 3}, [3]int32{9, 0, 0}, [3]int32{0, 0, 1}}, Read: func() interface{} { return uZeroArr }, Same: eq},
		{Name: "uZeroPtr", Path: pkg + ".uZeroPtr", Vals: []interface{}{(*S)(nil), s1, s2, s3}, Read: func() interface{} { return uZeroPtr }, Same: eq},
		{Name: "uSlice", Path: pkg + ".uSlice", Vals: []interface{}{l1, l2, l3, []int(nil)}, Read: func() interface{} { return uSlice }, ReadCopy: func() interface{} { return rdUSlice() }, Same: sameRef},
	}
}

// ResetAll puts every variable back to its initial value (test isolation, bypasses goom).
func ResetAll() {
	VInt, VUint8, VString, VFloat, VBool, VCplx = 7, 200, "orig", 1.5, true, complex(1, 2)
	VSlice, VMap, VStruct, VPtr, VFunc, VFuncNil = nil, nil, S{A: 9, B: "nine"}, nil, f0, nil
	VErr, VStrIf, VAny, VArr, VChan, VAny2 = nil, Str("zero"), nil, [3]int{1, 2, 3}, nil, 42
	uInt, uString, uMap, uPtr, uStruct, uSlice, uFunc = 70, "uorig", m3, s1, S{A: 5}, l1, f0
	uZero, uZeroArr, uZeroPtr = 0, [3]int32{}, nil
}
