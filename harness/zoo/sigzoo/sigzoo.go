// Package sigzoo is a zoo of function signatures (generated part: sigzoo_gen.go) for C01.
package sigzoo

import (
	"errors"
	"math"
	"reflect"
)

// Small, Flt, Nest, Big: struct shapes that are register-passed, float-passed, nested and stack-passed.
type Small struct {
	A int8
	B int64
}
type Flt struct {
	X float64
	Y float32
}
type Nest struct {
	S Small
	P *int
	T string
}
type Big struct {
	A, B, C, D, E, F, G, H, I, J int
}

// Rec is what a replacement records and what it returns.
type Rec struct {
	Calls int
	Args  []interface{}
	Res   []interface{}
}

// Sig describes one generated target.
type Sig struct {
	Name     string
	Fn       interface{}
	NArgs    int
	Variadic bool
	Typed    func(rec *Rec) interface{}                    // a real closure of the target's type
	Direct   func(args []interface{}) []interface{}        // direct call
	Value    func(args []interface{}) []interface{}        // call through a function value
	Defer    func(args []interface{})                      // deferred call
	Go       func(args []interface{}, done chan struct{})  // go statement
}

// Sigs is filled by the generated file.
var Sigs []Sig

// OrigCalls counts executions of original bodies.
var OrigCalls int

func as_any(x interface{}) interface{} { return x }
func as_err(x interface{}) error {
	if x == nil {
		return nil
	}
	return x.(error)
}

var theErr = errors.New("sigzoo error")

// ZooErr is an error type whose typed nil pointer is a non-nil error.
type ZooErr struct{ msg string }

func (e *ZooErr) Error() string {
	if e == nil {
		return "nil ZooErr"
	}
	return e.msg
}
var theFuncs = []func() int{func() int { return 1 }, func() int { return 2 }}
var theChans = []chan int{make(chan int), make(chan int, 1)}
var theMaps = []map[string]int{{"a": 1}, {}, nil}
var theInts = []int{11, 22, 33}

// Rand is the value generator's source.
type Rand interface{ U64() uint64 }

// RandValue builds a value of type t (never NaN; pointers/maps/chans/funcs from fixed pools so they compare by identity).
func RandValue(r Rand, t reflect.Type) reflect.Value {
	v := reflect.New(t).Elem()
	u := r.U64()
	switch t.Kind() {
	case reflect.Int, reflect.Int8, reflect.Int16, reflect.Int32, reflect.Int64:
		v.SetInt(int64(u) >> (u % 60))
	case reflect.Uint, reflect.Uint8, reflect.Uint16, reflect.Uint32, reflect.Uint64, reflect.Uintptr:
		v.SetUint(u >> (u % 60))
	case reflect.Float32, reflect.Float64:
		f := float64(int64(u>>11)) / 1024.0
		if u%7 == 0 {
			f = math.Inf(int(u%2)*2 - 1)
		}
		v.SetFloat(f)
	case reflect.Complex128:
		v.SetComplex(complex(float64(u%1000), float64(u%77)))
	case reflect.String:
		v.SetString([]string{"", "a", "héllo", "0123456789abcdef0123456789abcdef"}[u%4])
	case reflect.Bool:
		v.SetBool(u%2 == 0)
	case reflect.Slice:
		if u%5 != 0 {
			n := int(u % 4)
			s := reflect.MakeSlice(t, n, n)
			for i := 0; i < n; i++ {
				s.Index(i).Set(RandValue(r, t.Elem()))
			}
			v.Set(s)
		}
	case reflect.Array:
		for i := 0; i < t.Len(); i++ {
			v.Index(i).Set(RandValue(r, t.Elem()))
		}
	case reflect.Struct:
		for i := 0; i < t.NumField(); i++ {
			v.Field(i).Set(RandValue(r, t.Field(i).Type))
		}
	case reflect.Ptr:
		if u%4 != 0 {
			if t.Elem().Kind() == reflect.Int {
				v.Set(reflect.ValueOf(&theInts[u%3]))
			} else {
				p := reflect.New(t.Elem())
				p.Elem().Set(RandValue(r, t.Elem()))
				v.Set(p)
			}
		}
	case reflect.Interface:
		if t.NumMethod() > 0 { // error
			switch u % 4 {
			case 0:
			case 1:
				v.Set(reflect.ValueOf((*ZooErr)(nil))) // a typed nil: a non-nil interface value
			default:
				v.Set(reflect.ValueOf(theErr))
			}
		} else {
			switch u % 6 {
			case 0:
			case 5:
				v.Set(reflect.ValueOf((*Small)(nil)))
			case 1:
				v.Set(reflect.ValueOf(int(u >> 8)))
			case 2:
				v.Set(reflect.ValueOf("boxed"))
			case 3:
				v.Set(reflect.ValueOf(Small{int8(u), int64(u >> 9)}))
			default:
				v.Set(reflect.ValueOf(&theInts[u%3]))
			}
		}
	case reflect.Func:
		if u%3 != 0 {
			v.Set(reflect.ValueOf(theFuncs[u%2]))
		}
	case reflect.Map:
		v.Set(reflect.ValueOf(theMaps[u%3]))
	case reflect.Chan:
		if u%3 != 0 {
			v.Set(reflect.ValueOf(theChans[u%2]))
		}
	}
	return v
}

// Same compares a delivered value with the one that was sent, bit-exactly.
func Same(a, b interface{}) bool {
	va, vb := reflect.ValueOf(a), reflect.ValueOf(b)
	if !va.IsValid() || !vb.IsValid() {
		return va.IsValid() == vb.IsValid()
	}
	if va.Type() != vb.Type() {
		return false
	}
	return sameV(va, vb)
}

func sameV(a, b reflect.Value) bool {
	switch a.Kind() {
	case reflect.Float32, reflect.Float64:
		return math.Float64bits(a.Float()) == math.Float64bits(b.Float())
	case reflect.Func, reflect.Chan, reflect.Map, reflect.Ptr, reflect.UnsafePointer:
		return a.Pointer() == b.Pointer()
	case reflect.Slice:
		if a.IsNil() != b.IsNil() || a.Len() != b.Len() {
			return false
		}
		if a.Len() > 0 && a.Pointer() != b.Pointer() {
			return false
		}
		return true
	case reflect.Array:
		for i := 0; i < a.Len(); i++ {
			if !sameV(a.Index(i), b.Index(i)) {
				return false
			}
		}
		return true
	case reflect.Struct:
		for i := 0; i < a.NumField(); i++ {
			if !sameV(a.Field(i), b.Field(i)) {
				return false
			}
		}
		return true
	case reflect.Interface:
		if a.IsNil() || b.IsNil() {
			return a.IsNil() == b.IsNil()
		}
		if a.Elem().Type() != b.Elem().Type() {
			return false
		}
		return sameV(a.Elem(), b.Elem())
	}
	return reflect.DeepEqual(a.Interface(), b.Interface())
}
