// Package sacrifice provides a never-executed region of the text segment for raw-write experiments.
package sacrifice

// Sacrifice is never called.
func Sacrifice()

// Addr returns the address of the first byte of the region (not of an ABI wrapper).
func Addr() uintptr

// Size is the number of INT3 bytes in the region.
const Size = 6 * 4096
