// Package dup (path .../zoo/dupa/dup): a struct type T whose package NAME and type name equal those of .../zoo/dupb/dup.T.
package dup

// T has the same short name ("dup.T") as the T of the other package dup.
type T struct{ K int }

//go:noinline
func (t *T) Get(x int) int { return t.K*100 + x + 51 }
