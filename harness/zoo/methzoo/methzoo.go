// Package methzoo is a corpus of struct types with methods of every receiver kind, export status and name pattern (C06).
package methzoo

import (
	dupa "github.com/tencent/goom/verifharness/zoo/dupa/dup"
	dupb "github.com/tencent/goom/verifharness/zoo/dupb/dup"
)

// A has pointer- and value-receiver methods, names that are prefixes of one another, exported and unexported.
type A struct {
	K int
	S string
}

//go:noinline
func (a *A) Get(x int) int { return a.K*100 + x + 1 }

//go:noinline
func (a *A) GetMore(x int) int { return a.K*100 + x + 2 }

//go:noinline
func (a *A) G(x int) int { return a.K*100 + x + 3 }

//go:noinline
func (a *A) get(x int) int { return a.K*100 + x + 4 }

//go:noinline
func (a *A) getMore(x int) int { return a.K*100 + x + 5 }

// names that end in 'f' / 'm' next to their prefixes (a "-fm" suffix is how the runtime names method values)
//
//go:noinline
func (a *A) getf(x int) int { return a.K*100 + x + 41 }

//go:noinline
func (a *A) Getf(x int) int { return a.K*100 + x + 42 }

//go:noinline
func (a A) Val(x int) int { return a.K*100 + x + 6 }

//go:noinline
func (a A) ValMore(x int) int { return a.K*100 + x + 7 }

//go:noinline
func (a A) val(x int) int { return a.K*100 + x + 8 }

// B is another type with the same method names.
type B struct{ K int }

//go:noinline
func (b *B) Get(x int) int { return b.K*100 + x + 11 }

//go:noinline
func (b B) Val(x int) int { return b.K*100 + x + 12 }

//go:noinline
func (b *B) get(x int) int { return b.K*100 + x + 13 }

// c is an unexported struct type.
type c struct{ K int }

//go:noinline
func (p *c) Run(x int) int { return p.K*100 + x + 21 }

//go:noinline
func (p *c) run(x int) int { return p.K*100 + x + 22 }

//go:noinline
func (p c) RunVal(x int) int { return p.K*100 + x + 23 }

// G is a generic type; instantiations over int and MyInt share a GC shape, all pointer instantiations share one.
type G[T any] struct {
	K int
	V T
}

// MyInt has the shape of int.
type MyInt int

//go:noinline
func (g *G[T]) Id(x int) int { return g.K*100 + x + 31 }

//go:noinline
func (g *G[T]) Other(x int) int { return g.K*100 + x + 32 }

//go:noinline
func (g G[T]) ValId(x int) int { return g.K*100 + x + 33 }

// unexported generic methods; weight's first call goes to its sibling scale (both are addressed by their GC-shape symbol,
// e.g. "(*G[go.shape.string]).weight")
//
//go:noinline
func (g *G[T]) weight(x int) int { return g.scale(x) + 20 }

//go:noinline
func (g *G[T]) scale(x int) int { return g.K*100 + x + 14 }

// Call runs method number m of the instance family with receiver key k and argument x (never patched itself:
// it is one big switch, far longer than a prologue, and only ever CALLS the methods).
//
//go:noinline
func Call(m int, k int, x int) int {
	switch m {
	case 0:
		return (&A{K: k}).Get(x)
	case 1:
		return (&A{K: k}).GetMore(x)
	case 2:
		return (&A{K: k}).G(x)
	case 3:
		return (&A{K: k}).get(x)
	case 4:
		return (&A{K: k}).getMore(x)
	case 5:
		return A{K: k}.Val(x)
	case 6:
		return A{K: k}.ValMore(x)
	case 7:
		return A{K: k}.val(x)
	case 8:
		return (&B{K: k}).Get(x)
	case 9:
		return B{K: k}.Val(x)
	case 10:
		return (&B{K: k}).get(x)
	case 11:
		return (&c{K: k}).Run(x)
	case 12:
		return (&c{K: k}).run(x)
	case 13:
		return c{K: k}.RunVal(x)
	case 14:
		return (&G[int]{K: k}).Id(x)
	case 15:
		return (&G[MyInt]{K: k}).Id(x)
	case 16:
		return (&G[string]{K: k}).Id(x)
	case 17:
		return (&G[*A]{K: k}).Id(x)
	case 18:
		return (&G[*B]{K: k}).Id(x)
	case 19:
		return (&G[int]{K: k}).Other(x)
	case 20:
		return (&G[string]{K: k}).Other(x)
	case 21: // value-receiver method called through a pointer
		return (&A{K: k}).Val(x)
	case 22:
		return G[int]{K: k}.ValId(x)
	case 23:
		return G[string]{K: k}.ValId(x)
	case 24:
		return G[MyInt]{K: k}.ValId(x)
	case 25:
		return (&A{K: k}).getf(x)
	case 26:
		return (&A{K: k}).Getf(x)
	case 27:
		return (&G[string]{K: k}).weight(x)
	case 28:
		return (&G[string]{K: k}).scale(x)
	case 29:
		return (&G[int]{K: k}).weight(x)
	case 30:
		return (&dupa.T{K: k}).Get(x)
	case 31:
		return (&dupb.T{K: k}).Get(x)
	}
	return -1
}

// Names of the methods by number, and the original's additive constant.
var Names = []string{"(*A).Get", "(*A).GetMore", "(*A).G", "(*A).get", "(*A).getMore", "A.Val", "A.ValMore", "A.val",
	"(*B).Get", "B.Val", "(*B).get", "(*c).Run", "(*c).run", "c.RunVal",
	"(*G[int]).Id", "(*G[MyInt]).Id", "(*G[string]).Id", "(*G[*A]).Id", "(*G[*B]).Id", "(*G[int]).Other", "(*G[string]).Other", "A.Val via pointer",
	"G[int].ValId", "G[string].ValId", "G[MyInt].ValId", "(*A).getf", "(*A).Getf", "(*G[string]).weight", "(*G[string]).scale", "(*G[int]).weight", "dupa/(*dup.T).Get", "dupb/(*dup.T).Get"}

// Consts are the additive constants of the originals.
var Consts = []int{1, 2, 3, 4, 5, 6, 7, 8, 11, 12, 13, 21, 22, 23, 31, 31, 31, 31, 31, 32, 32, 6, 33, 33, 33, 41, 42, 34, 14, 34, 51, 52}

// NewC returns an instance of the unexported type (for type-directed APIs).
func NewC(k int) interface{} { return &c{K: k} }

// NewCVal returns a value of the unexported type.
func NewCVal(k int) interface{} { return c{K: k} }
