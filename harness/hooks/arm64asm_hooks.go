//go:build verif

package arm64asm

// VerifFormats returns (mask, value) of every decoding format, in table order (read-only view for the verification harness).
func VerifFormats() [][2]uint32 {
	out := make([][2]uint32, len(instFormats))
	for i := range instFormats {
		out[i] = [2]uint32{instFormats[i].mask, instFormats[i].value}
	}
	return out
}
