//go:build verif

package memory

// VerifWriteToFallback forwards to writeTo, the writer WriteTo falls back to when mprotect(RWX) is refused.
func VerifWriteToFallback(addr uintptr, data []byte) error { return writeTo(addr, data) }
