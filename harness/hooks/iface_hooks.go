//go:build verif

package iface

// VerifJmpWithRdx forwards to jmpWithRdx.
func VerifJmpWithRdx(dx uintptr) []byte { return jmpWithRdx(dx) }
