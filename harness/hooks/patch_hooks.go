//go:build verif

package patch

// Add-only verification hooks (injected with go build -overlay; never part of /repo).
// They only read or forward.

// VerifJmpToFunctionValue forwards to jmpToFunctionValue.
func VerifJmpToFunctionValue(from, to uintptr) []byte { return jmpToFunctionValue(from, to) }

// VerifJmpToOriginFunctionValue forwards to jmpToOriginFunctionValue.
func VerifJmpToOriginFunctionValue(from, to uintptr) []byte {
	return jmpToOriginFunctionValue(from, to)
}

// VerifRelative forwards to relative.
func VerifRelative(from, to uintptr) bool { return relative(from, to) }

// VerifFixRelativeAddr forwards to the pure fixRelativeAddr; a panic is returned as a string.
func VerifFixRelativeAddr(from uintptr, copyOrigin []byte, trampoline uintptr, funcSize, leastSize int) (
	fixed []byte, size int, err error, pan string) {
	defer func() {
		if e := recover(); e != nil {
			pan = toStr(e)
		}
	}()
	fixed, size, err = fixRelativeAddr(from, copyOrigin, trampoline, funcSize, leastSize)
	return
}

func toStr(e interface{}) string {
	switch v := e.(type) {
	case string:
		return v
	case error:
		return v.Error()
	}
	return "panic"
}

// VerifJumpLen is the length of the entry jump on this architecture.
func VerifJumpLen() int { return len(jmpToFunctionValue(0, 0)) }
