//go:build verif

package bytecode

// VerifClearFuncSizeCache empties the function-size cache (test isolation for synthetic functions that reuse an address).
func VerifClearFuncSizeCache() {
	funcSizeReadLock.Lock()
	defer funcSizeReadLock.Unlock()
	for k := range funcSizeCache {
		delete(funcSizeCache, k)
	}
}

// VerifFuncSizeCacheLen returns the number of cached sizes.
func VerifFuncSizeCacheLen() int {
	funcSizeReadLock.Lock()
	defer funcSizeReadLock.Unlock()
	return len(funcSizeCache)
}

// VerifFuncPrologue returns the prologue fingerprint the extent scan compares with.
func VerifFuncPrologue() []byte { return append([]byte{}, funcPrologue...) }
