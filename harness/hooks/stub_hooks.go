//go:build verif

package stub

import "sync/atomic"

// VerifAcquireFromHolder forwards to acquireFromHolder.
func VerifAcquireFromHolder(n int) (uintptr, error) {
	a, _, err := acquireFromHolder(n)
	return a, err
}

// VerifHolderBounds returns (min, max, off) of the built-in reserve.
func VerifHolderBounds() (uintptr, uintptr, uintptr) {
	return placeHolderIns.min, placeHolderIns.max, atomic.LoadUintptr(&placeHolderIns.off)
}

// VerifResetHolder rewinds the reserve (test isolation only).
func VerifResetHolder() { atomic.StoreUintptr(&placeHolderIns.off, placeHolderIns.min) }

// VerifSetHolderOff positions the bump pointer (test isolation only).
func VerifSetHolderOff(off uintptr) { atomic.StoreUintptr(&placeHolderIns.off, off) }

// VerifSpaceType reports which allocator produced the space.
func VerifSpaceType(s *Space) int { return s.typ }

// VerifIsOverflow reports whether err is the reserve-exhausted error.
func VerifIsOverflow(err error) bool { return err == errSpaceOverflow }

// VerifHolderSpace builds a Space from the built-in reserve exactly as Acquire does on its fallback path.
func VerifHolderSpace(n int) (*Space, error) {
	addr, space, err := acquireFromHolder(n)
	if err != nil {
		return nil, err
	}
	return &Space{Addr: addr, Space: space, typ: TypeHolder}, nil
}
