package main

import (
	"fmt"
	"github.com/tencent/goom/verifharness/zoo/fnzoo"
	"reflect"
	"runtime"
	"sync/atomic"

	mocker "github.com/tencent/goom"
	"github.com/tencent/goom/internal/patch"
	"github.com/tencent/goom/verifharness/hxlib"
	sz "github.com/tencent/goom/verifharness/zoo/sigzoo"
)

func init() { register("c01", c01) }

//go:noinline
func c01Grow(n int, f func()) int { // forces stack growth (and a stack move) before calling f
	var pad [256]byte
	pad[n%256] = byte(n)
	if n == 0 {
		f()
		return 0
	}
	return c01Grow(n-1, f) + int(pad[(n+7)%256])&0
}

func c01Churn() {
	var keep [][]byte
	for i := 0; i < 3000; i++ {
		keep = append(keep, make([]byte, 64+i%512))
	}
	_ = keep
	runtime.GC()
	runtime.GC()
}

// c01 mocks every signature of the zoo with (a) a typed closure, (b) a stubbed Return, and calls it in every call form
// and phase; the replacement must see exactly the caller's arguments and the caller exactly the replacement's results.
func c01(args []string) int {
	c, _ := parseCommon("c01", args)
	rng := hxlib.NewRng(c.seed)
	out := hxlib.NewOut(c.out)
	defer out.Close()
	if c.extra == "jump" { // the entry jump bytes for structured destinations (search for a failing input when the proof breaks)
		tos := []uint64{0, 1, 0xc000123456, 0x7f1234567890, 1<<64 - 1}
		for lane := uint(0); lane < 8; lane++ {
			tos = append(tos, 0xA5<<(8*lane), (0xA5<<(8*lane))|0x0102030405060708)
		}
		for _, to := range tos {
			out.Put(map[string]interface{}{"kind": "jump", "to": fmt.Sprintf("%d", to), "bytes": fmt.Sprintf("%x", patch.VerifJmpToFunctionValue(0x401000, uintptr(to)))})
		}
		return 0
	}
	if c.extra == "generic" { // instantiations of generic functions: the replacement must see the caller's arguments too
		var seen []int
		b := mocker.Create()
		for i, tc := range []struct {
			name string
			f    func(int) int
		}{{"GK[int]", fnzoo.GK[int]}, {"GK[string]", fnzoo.GK[string]}} {
			seen = seen[:0]
			pan := ""
			got := 0
			func() {
				defer func() {
					if e := recover(); e != nil {
						pan = trunc(fmt.Sprint(e), 80)
					}
				}()
				b.Func(tc.f).Apply(func(a int) int { seen = append(seen, a); return 1000 + a })
				got = tc.f(5 + i)
			}()
			out.Put(map[string]interface{}{"kind": "generic", "name": tc.name, "sent": 5 + i, "seen": fmt.Sprint(seen), "seen_ok": len(seen) == 1 && seen[0] == 5+i,
				"got_ok": got == 1005+i, "panic": pan})
		}
		b.Reset()
		return 0
	}
	if c.extra == "reapply" { // a mocker object kept by the program and used again after Reset / Cancel must install its replacement again
		tt := &fnzoo.T{K: 1}
		type rc struct {
			name string
			mk   func(b *mocker.Builder) mocker.ExportedMocker
			call func(int) int
			cb   interface{}
		}
		cases := []rc{
			{"F1", func(b *mocker.Builder) mocker.ExportedMocker { return b.Func(fnzoo.F1) }, fnzoo.F1, func(a int) int { return 4000 + a }},
			{"G1", func(b *mocker.Builder) mocker.ExportedMocker { return b.Func(fnzoo.G1) }, fnzoo.G1, func(a int) int { return 4000 + a }},
			{"T.M", func(b *mocker.Builder) mocker.ExportedMocker { return b.Struct(&fnzoo.T{}).Method("M") }, tt.M, func(_ *fnzoo.T, a int) int { return 4000 + a }},
		}
		for _, tc := range cases {
			for variant := 0; variant < 4; variant++ {
				out.Put(map[string]interface{}{"kind": "reapply-about", "name": tc.name, "variant": variant})
				out.Flush()
				b := mocker.Create()
				mk := tc.mk(b)
				got, want, pan := 0, 0, ""
				func() {
					defer func() {
						if e := recover(); e != nil {
							pan = trunc(fmt.Sprint(e), 80)
						}
					}()
					mk.Apply(tc.cb)
					if variant%2 == 0 {
						b.Reset()
					} else {
						mk.Cancel()
					}
					if variant < 2 {
						mk.Return(77)
						want = 77
					} else {
						mk.Apply(tc.cb)
						want = 4003
					}
					got = tc.call(3)
				}()
				b.Reset()
				out.Put(map[string]interface{}{"kind": "reapply", "name": tc.name, "variant": variant, "got": got, "want": want, "panic": pan})
			}
		}
		return 0
	}
	if c.extra == "retain" { // the replacement must stay reachable from goom itself: nothing of the program keeps the builder or the callback
		type tcase struct {
			name string
			f    func(int) int
		}
		cases := []tcase{{"F1", fnzoo.F1}, {"G1", fnzoo.G1}, {"G2", fnzoo.G2}}
		for round := 0; round < 6; round++ {
			for i, tc := range cases {
				var collected int32
				stub := round%2 == 1
				func() { // everything allocated here is garbage when the function returns, except what goom keeps
					tag := &[6]int{i + 1, round}
					runtime.SetFinalizer(tag, func(*[6]int) { atomic.StoreInt32(&collected, 1) })
					if stub {
						// the stub's result is computed by a captured object too: When -> matcher -> results
						mocker.Create().Func(tc.f).Apply(func(a int) int { return tag[0]*1000 + a + 77 })
						mocker.Create().Func(tc.f).Return(tag[0]*1000 + 78)
						runtime.SetFinalizer(tag, nil) // the stub does not capture tag: nothing to observe through it
					} else {
						mocker.Create().Func(tc.f).Apply(func(a int) int { return tag[0]*1000 + a + 77 })
					}
				}()
				out.Put(map[string]interface{}{"kind": "retain-about", "name": tc.name, "round": round, "stub": stub})
				out.Flush()
				for r := 0; r < 4; r++ {
					c01Churn()
					var sink [][]uintptr
					for j := 0; j < 30000; j++ {
						x := make([]uintptr, 2+j%10)
						for q := range x {
							x[q] = 0xdeadbeefdeadbeef
						}
						sink = append(sink, x)
					}
					_ = sink
					runtime.Gosched()
				}
				got, pan := 0, ""
				func() {
					defer func() {
						if e := recover(); e != nil {
							pan = trunc(fmt.Sprint(e), 80)
						}
					}()
					got = tc.f(5)
				}()
				want := (i+1)*1000 + 5 + 77
				if stub {
					want = (i+1)*1000 + 78
				}
				out.Put(map[string]interface{}{"kind": "retain", "name": tc.name, "round": round, "stub": stub, "collected": atomic.LoadInt32(&collected) == 1,
					"got": got, "want": want, "panic": pan})
				patch.UnpatchAll()
			}
		}
		return 0
	}
	n := len(sz.Sigs)
	if c.n > 0 && c.n < n {
		n = c.n
	}
	forms := []string{"direct", "value", "reflect", "defer", "go"}
	phases := []string{"fresh", "after-gc", "after-stack-growth"}
	for si := 0; si < n; si++ {
		s := sz.Sigs[si]
		ft := reflect.TypeOf(s.Fn)
		mk := func() ([]interface{}, []reflect.Value) {
			var as []interface{}
			var vs []reflect.Value
			for k := 0; k < ft.NumIn(); k++ {
				v := sz.RandValue(rng, ft.In(k))
				as = append(as, v.Interface())
				vs = append(vs, v)
			}
			return as, vs
		}
		mkRes := func() []interface{} {
			var rs []interface{}
			for k := 0; k < ft.NumOut(); k++ {
				rs = append(rs, sz.RandValue(rng, ft.Out(k)).Interface())
			}
			return rs
		}
		rec := &sz.Rec{}
		b := mocker.Create()
		summary := map[string]interface{}{"kind": "sig", "name": s.Name, "type": ft.String(), "nin": ft.NumIn(), "nout": ft.NumOut(), "variadic": ft.IsVariadic()}
		pan := ""
		func() {
			defer func() {
				if e := recover(); e != nil {
					pan = trunc(fmt.Sprint(e), 120)
				}
			}()
			b.Func(s.Fn).Apply(s.Typed(rec))
		}()
		summary["apply_panic"] = pan
		bad := []map[string]interface{}{}
		calls := 0
		if pan == "" {
			out.Put(map[string]interface{}{"kind": "about", "name": s.Name})
			out.Flush()
			for _, ph := range phases {
				for _, form := range forms {
					do := func() {
						as, vs := mk()
						rec.Res = mkRes()
						rec.Args, rec.Calls = nil, 0
						before := sz.OrigCalls
						var got []interface{}
						hasRes := false
						switch form {
						case "direct":
							got, hasRes = s.Direct(as), true
						case "value":
							got, hasRes = s.Value(as), true
						case "reflect":
							var rv []reflect.Value
							if ft.IsVariadic() {
								rv = reflect.ValueOf(s.Fn).CallSlice(vs)
							} else {
								rv = reflect.ValueOf(s.Fn).Call(vs)
							}
							for _, x := range rv {
								got = append(got, x.Interface())
							}
							hasRes = true
						case "defer":
							s.Defer(as)
						case "go":
							done := make(chan struct{})
							s.Go(as, done)
							<-done
						}
						calls++
						why := ""
						switch {
						case sz.OrigCalls != before:
							why = "original-ran"
						case rec.Calls != 1:
							why = fmt.Sprintf("replacement-ran-%d-times", rec.Calls)
						case len(rec.Args) != len(as):
							why = "argument-count"
						}
						if why == "" {
							for k := range as {
								if !sz.Same(rec.Args[k], as[k]) {
									why = fmt.Sprintf("argument-%d-altered", k)
									break
								}
							}
						}
						if why == "" && hasRes {
							for k := range rec.Res {
								if k >= len(got) || !sz.Same(got[k], rec.Res[k]) {
									why = fmt.Sprintf("result-%d-altered", k)
									break
								}
							}
						}
						if why != "" && len(bad) < 4 {
							bad = append(bad, map[string]interface{}{"phase": ph, "form": form, "why": why})
						}
					}
					switch ph {
					case "fresh":
						do()
					case "after-gc":
						c01Churn()
						do()
					default:
						done := make(chan struct{})
						go func() { defer close(done); c01Grow(200+rng.Intn(200), do) }()
						<-done
					}
				}
			}
			// stubbed results (MakeFunc closure of the target's type)
			func() {
				defer func() {
					if e := recover(); e != nil {
						bad = append(bad, map[string]interface{}{"phase": "stub", "form": "Return", "why": "panic: " + trunc(fmt.Sprint(e), 80)})
					}
				}()
				if ft.NumOut() > 0 {
					res := mkRes()
					b.Func(s.Fn).Return(res...)
					c01Churn()
					as, _ := mk()
					before := sz.OrigCalls
					got := s.Direct(as)
					calls++
					if sz.OrigCalls != before {
						bad = append(bad, map[string]interface{}{"phase": "stub", "form": "direct", "why": "original-ran"})
					}
					for k := range res {
						if !sz.Same(got[k], res[k]) {
							bad = append(bad, map[string]interface{}{"phase": "stub", "form": "direct", "why": fmt.Sprintf("result-%d-altered", k)})
							break
						}
					}
				}
			}()
		}
		func() {
			defer func() { recover() }()
			b.Reset()
		}()
		// after reset the original runs again
		before := sz.OrigCalls
		as, _ := func() ([]interface{}, []reflect.Value) { return mk() }()
		s.Direct(as)
		summary["restored"] = sz.OrigCalls == before+1
		summary["calls"] = calls
		summary["bad"] = bad
		out.Put(summary)
		out.Flush()
	}
	return 0
}
