package main

import (
	"encoding/hex"
	"fmt"
	"runtime"
	"sync"

	gx "github.com/tencent/goom/internal/arch/x86asm"
	"github.com/tencent/goom/internal/unexports2"
	"github.com/tencent/goom/verifharness/hxlib"
	rx "github.com/tencent/goom/verifharness/ref/x86asm"
)

func init() { register("c16", c16) }

type c16G struct {
	pan        bool
	err        bool
	len        int
	op         string
	pcrel, off int
	opcode     uint32
}

// c16Sample renders the bundled decoder's result in the model's vocabulary
func c16Sample(b []byte) (rec map[string]interface{}) {
	rec = map[string]interface{}{"bytes": hex.EncodeToString(b)}
	defer func() {
		if e := recover(); e != nil {
			rec["kind"] = "panic"
		}
	}()
	in, err := gx.Decode(b, 64)
	switch {
	case err == gx.ErrTruncated:
		rec["kind"] = "trunc"
	case err == gx.ErrUnrecognized:
		rec["kind"], rec["len"] = "unrec", in.Len
	case err != nil:
		rec["kind"], rec["len"] = "internal", in.Len
	case in.Op == 0:
		rec["kind"], rec["len"] = "prefix", in.Len
	default:
		rec["kind"], rec["len"], rec["opcode"], rec["op"], rec["pcrel"], rec["off"] = "ok", in.Len, in.Opcode, int(in.Op), in.PCRel, in.PCRelOff
		if n := in.Op.String(); n == "NOP" || n == "PAUSE" {
			rec["op"] = -1 // rewritten after decoding (XCHG -> NOP / PAUSE): not part of the skeleton
		}
	}
	return rec
}

func c16Bundled(b []byte) (r c16G) {
	defer func() {
		if e := recover(); e != nil {
			r.pan = true
		}
	}()
	in, err := gx.Decode(b, 64)
	r.len, r.pcrel, r.off, r.opcode = in.Len, in.PCRel, in.PCRelOff, in.Opcode
	if err != nil {
		r.err = true
		return
	}
	r.op = in.Op.String()
	return
}

// wellFormed: the interface the consumers (ParseIns, the extent scans, fixBlock) rely on
func (r c16G) wellFormed(n int) string {
	switch {
	case r.pan:
		return "panic"
	case r.err:
		if r.len < 0 || r.len > 15 || r.len > n {
			return "error-with-bad-length"
		}
		return ""
	case r.len < 1 || r.len > 15:
		return "length-outside-1..15"
	case r.len > n:
		return "length-beyond-input"
	case r.pcrel < 0 || r.off < 0:
		return "negative-pcrel"
	case r.pcrel > 0 && (r.off <= 0 || r.off+r.pcrel > r.len):
		return "pcrel-field-outside-instruction"
	case r.pcrel > 0 && r.pcrel != 1 && r.pcrel != 2 && r.pcrel != 4:
		return "pcrel-width"
	}
	return ""
}

type c16Stats struct {
	n                              uint64
	bad                            map[string]uint64
	first                          []map[string]interface{}
	agree, refErr, bothErr, differ uint64
}

func newC16Stats() *c16Stats { return &c16Stats{bad: map[string]uint64{}} }

func (s *c16Stats) note(kind string, b []byte, g c16G, extra string) {
	s.bad[kind]++
	if len(s.first) < 10 {
		s.first = append(s.first, map[string]interface{}{"kind": kind, "bytes": hex.EncodeToString(b), "bundled": fmt.Sprintf("%+v", g), "ref": extra})
	}
}

func le(b []byte) int64 {
	var v uint64
	for i := len(b) - 1; i >= 0; i-- {
		v = v<<8 | uint64(b[i])
	}
	switch len(b) {
	case 1:
		return int64(int8(v))
	case 2:
		return int64(int16(v))
	case 4:
		return int64(int32(v))
	}
	return int64(v)
}

// compare with the reference on one instruction start; strict = a compiler-emitted instruction (disagreement is a violation)
func (s *c16Stats) one(b []byte, strict bool) int {
	s.n++
	g := c16Bundled(b)
	if w := g.wellFormed(len(b)); w != "" {
		s.note("ill-formed:"+w, b, g, "")
	}
	r, rerr := rx.Decode(b, 64)
	if rerr != nil {
		if g.err {
			s.bothErr++
		} else {
			s.refErr++
		}
		return g.len
	}
	if g.err || g.pan {
		s.differ++
		if strict {
			s.note("real-instruction-rejected", b, g, r.String())
		}
		return r.Len
	}
	// the reference's PC-relative operand, if any
	var rel int64
	hasRel := false
	for _, a := range r.Args {
		switch v := a.(type) {
		case rx.Rel:
			rel, hasRel = int64(v), true
		case rx.Mem:
			if v.Base == rx.RIP || v.Base == rx.EIP {
				rel, hasRel = int64(int32(v.Disp)), true
			}
		}
	}
	why := ""
	switch {
	case g.len != r.Len:
		why = "length"
	case g.op != r.Op.String():
		why = "opcode"
	case hasRel != (g.pcrel > 0):
		why = "pcrel-presence"
	case hasRel && g.off+g.pcrel <= len(b) && le(b[g.off:g.off+g.pcrel]) != rel:
		why = "pcrel-field"
	}
	if why == "" {
		s.agree++
	} else {
		s.differ++
		if strict {
			s.note("real-instruction-"+why, b, g, fmt.Sprintf("%s len=%d rel=%d", r.String(), r.Len, rel))
		}
	}
	return r.Len
}

func (s *c16Stats) merge(o *c16Stats) {
	s.n += o.n
	s.agree += o.agree
	s.refErr += o.refErr
	s.bothErr += o.bothErr
	s.differ += o.differ
	for k, v := range o.bad {
		s.bad[k] += v
	}
	for _, f := range o.first {
		if len(s.first) < 10 {
			s.first = append(s.first, f)
		}
	}
}

func c16(args []string) int {
	c, _ := parseCommon("c16", args)
	rng := hxlib.NewRng(c.seed)
	out := hxlib.NewOut(c.out)
	defer out.Close()
	tab, err := unexports2.GetSymbolTable()
	if err != nil || tab == nil {
		out.Put(map[string]interface{}{"kind": "error", "what": fmt.Sprint(err)})
		return 0
	}
	// ---- 1. every instruction of this binary's text, boundaries from the reference decoder
	type span struct{ lo, hi uintptr }
	var spans []span
	for i := range tab.Funcs {
		f := &tab.Funcs[i]
		if f.End > f.Entry && f.End-f.Entry < 1<<20 {
			spans = append(spans, span{uintptr(f.Entry), uintptr(f.End)})
		}
	}
	nw := runtime.NumCPU()
	parts := make([]*c16Stats, nw)
	var pool [][]byte // real instructions for the mutation stream
	var pmu sync.Mutex
	var wg sync.WaitGroup
	for p := 0; p < nw; p++ {
		wg.Add(1)
		go func(p int) {
			defer wg.Done()
			st := newC16Stats()
			var mine [][]byte
			for i := p; i < len(spans); i += nw {
				sp := spans[i]
				code := c03ReadCode(sp.lo, int(sp.hi-sp.lo))
				for pos := 0; pos < len(code); {
					end := pos + 16
					if end > len(code) {
						end = len(code)
					}
					n := st.one(code[pos:end], true)
					if n <= 0 {
						n = 1
					}
					if len(mine) < 4000 && (pos+i)%7 == 0 {
						mine = append(mine, append([]byte{}, code[pos:min(pos+n, len(code))]...))
					}
					pos += n
				}
			}
			parts[p] = st
			pmu.Lock()
			pool = append(pool, mine...)
			pmu.Unlock()
		}(p)
	}
	wg.Wait()
	text := newC16Stats()
	for _, p := range parts {
		text.merge(p)
	}
	out.Put(map[string]interface{}{"kind": "text", "functions": len(spans), "instructions": text.n, "agree": text.agree, "differ": text.differ,
		"ref_rejects": text.refErr + text.bothErr, "bad": text.bad, "first": text.first})
	// ---- 2. operand-mutated real instructions, 3. random byte strings: totality for every input
	nmut, nrnd := 200000, 200000
	if c.tier == "thorough" {
		nmut, nrnd = 4000000, 4000000
	}
	mut := newC16Stats()
	for k := 0; k < nmut && len(pool) > 0; k++ {
		src := pool[rng.Intn(len(pool))]
		b := make([]byte, 16)
		copy(b, src)
		for i := len(src); i < 16; i++ {
			b[i] = byte(rng.U64())
		}
		for m := 1 + rng.Intn(2); m > 0; m-- {
			if rng.Intn(4) == 0 {
				b[rng.Intn(len(src))] = byte(rng.U64())
			} else {
				b[rng.Intn(len(src))] ^= 1 << uint(rng.Intn(8))
			}
		}
		mut.one(b[:1+rng.Intn(16)], false)
	}
	out.Put(map[string]interface{}{"kind": "mutated", "inputs": mut.n, "agree": mut.agree, "differ": mut.differ, "ref_rejects": mut.refErr + mut.bothErr, "bad": mut.bad, "first": mut.first})
	rnd := newC16Stats()
	for k := 0; k < nrnd; k++ {
		b := make([]byte, 1+rng.Intn(16))
		for i := range b {
			b[i] = byte(rng.U64())
		}
		if k%3 == 0 { // prefix-heavy strings
			for i := 0; i < len(b)-1 && i < 6; i++ {
				b[i] = []byte{0x66, 0x67, 0xF0, 0xF2, 0xF3, 0x2E, 0x48, 0x4C, 0xC4, 0xC5, 0x0F}[rng.Intn(11)]
			}
		}
		rnd.one(b, false)
	}
	rnd.one([]byte{}, false)
	// ---- 4. every 1- and 2-byte string, 3-byte strings behind every prefix / escape byte (thorough: all 3-byte strings),
	//         and every truncation of every pooled real instruction: the inputs ParseIns produces at the end of a body
	short := newC16Stats()
	{
		firsts := []int{0x0F, 0x26, 0x2E, 0x36, 0x3E, 0x40, 0x48, 0x4C, 0x4F, 0x64, 0x65, 0x66, 0x67, 0xC4, 0xC5, 0xF0, 0xF2, 0xF3}
		if c.tier == "thorough" {
			firsts = firsts[:0]
			for i := 0; i < 256; i++ {
				firsts = append(firsts, i)
			}
		}
		sparts := make([]*c16Stats, nw)
		var swg sync.WaitGroup
		for p := 0; p < nw; p++ {
			swg.Add(1)
			go func(p int) {
				defer swg.Done()
				st := newC16Stats()
				for a := p; a < 256; a += nw {
					st.one([]byte{byte(a)}, false)
					for b := 0; b < 256; b++ {
						st.one([]byte{byte(a), byte(b)}, false)
					}
				}
				for fi := p; fi < len(firsts); fi += nw {
					for b := 0; b < 65536; b++ {
						st.one([]byte{byte(firsts[fi]), byte(b >> 8), byte(b)}, false)
					}
				}
				for i := p; i < len(pool); i += nw {
					for n := 1; n < len(pool[i]); n++ {
						st.one(pool[i][:n], false)
					}
				}
				sparts[p] = st
			}(p)
		}
		swg.Wait()
		for _, p := range sparts {
			short.merge(p)
		}
	}
	out.Put(map[string]interface{}{"kind": "short", "inputs": short.n, "agree": short.agree, "differ": short.differ, "ref_rejects": short.refErr + short.bothErr, "bad": short.bad, "first": short.first})
	// ---- samples for the model correspondence: real instructions, mutated ones, random strings
	var samples []map[string]interface{}
	nsamp := 1500
	if c.tier == "thorough" {
		nsamp = 12000
	}
	for k := 0; k < nsamp && len(pool) > 0; k++ {
		src := pool[rng.Intn(len(pool))]
		b := make([]byte, 16)
		copy(b, src)
		for i := len(src); i < 16; i++ {
			b[i] = byte(rng.U64())
		}
		switch k % 5 {
		case 3: // a truncation of the real instruction
			b = b[:rng.Intn(len(src)+1)]
		case 4: // a short string behind a prefix / escape byte
			for i := range b {
				b[i] = byte(rng.U64())
			}
			b[0] = []byte{0x66, 0x67, 0xF0, 0xF2, 0xF3, 0x2E, 0x48, 0x4C, 0xC4, 0xC5, 0x0F, 0x64}[rng.Intn(12)]
			b = b[:1+rng.Intn(3)]
		case 0: // the real instruction followed by noise
		case 1: // mutated
			b[rng.Intn(len(src))] ^= 1 << uint(rng.Intn(8))
			if rng.Intn(2) == 0 {
				b[rng.Intn(len(src))] = byte(rng.U64())
			}
			b = b[:1+rng.Intn(16)]
		default: // random, prefix heavy every other time
			for i := range b {
				b[i] = byte(rng.U64())
			}
			if k%2 == 0 {
				for i := 0; i < 6; i++ {
					b[i] = []byte{0x66, 0x67, 0xF0, 0xF2, 0xF3, 0x2E, 0x48, 0x4C, 0xC4, 0xC5, 0x0F, 0x64}[rng.Intn(12)]
				}
			}
			b = b[:rng.Intn(17)]
		}
		samples = append(samples, c16Sample(b))
	}
	out.Put(map[string]interface{}{"kind": "samples", "samples": samples})
	out.Put(map[string]interface{}{"kind": "random", "inputs": rnd.n, "agree": rnd.agree, "differ": rnd.differ, "ref_rejects": rnd.refErr + rnd.bothErr, "bad": rnd.bad, "first": rnd.first})
	return 0
}
