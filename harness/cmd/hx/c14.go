package main

import (
	"bufio"
	"bytes"
	"fmt"
	"github.com/tencent/goom/internal/arch/x86asm"
	"os"
	"reflect"
	"strings"
	"syscall"
	"unsafe"

	"github.com/tencent/goom/internal/bytecode"
	"github.com/tencent/goom/internal/bytecode/memory"
	"github.com/tencent/goom/internal/patch"
	"github.com/tencent/goom/internal/unexports2"
	"github.com/tencent/goom/verifharness/hxlib"
	"github.com/tencent/goom/verifharness/zoo/sacrifice"
)

func init() { register("c14", c14) }

func rawView(addr uintptr, n int) []byte {
	return *(*[]byte)(unsafe.Pointer(&reflect.SliceHeader{Data: addr, Len: n, Cap: n}))
}

// pagePerms returns the permission strings of the pages [lo, hi) from /proc/self/maps.
func pagePerms(lo, hi uintptr) []string {
	f, err := os.Open("/proc/self/maps")
	if err != nil {
		return nil
	}
	defer f.Close()
	ps := uintptr(syscall.Getpagesize())
	out := make([]string, (hi-lo)/ps)
	sc := bufio.NewScanner(f)
	for sc.Scan() {
		var a, b uintptr
		var perm string
		if _, err := fmt.Sscanf(sc.Text(), "%x-%x %s", &a, &b, &perm); err != nil {
			continue
		}
		for p := lo; p < hi; p += ps {
			if p >= a && p < b {
				out[(p-lo)/ps] = perm
			}
		}
	}
	return out
}

func c14Replacement(a int) int { return a + 1 }

// c14Items: what the bundled decoder reports from start on, in the vocabulary of Model/FuncSize.v:
// 0 = stop (error / lone prefix), 100+pn = INT3, 2*len+pn = ordinary instruction; pn = the function prologue follows
func c14Items(start uintptr, max int) []int {
	pro := bytecode.VerifFuncPrologue()
	var items []int
	pos, sawInt3 := 0, false
	for len(items) < max {
		code := memory.RawRead(start+uintptr(pos), 16)
		inst, err := x86asm.Decode(code, 64)
		if err != nil || (inst.Opcode == 0 && inst.Len == 1 && inst.Prefix[0] == x86asm.Prefix(code[0])) {
			items = append(items, 0)
			break
		}
		next := memory.RawRead(start+uintptr(pos+inst.Len), 16)
		pn := 0
		if bytes.Equal(pro, next[:len(pro)]) {
			pn = 1
		}
		if inst.Len == 1 && code[0] == 0xcc {
			items = append(items, 100+pn)
			sawInt3 = true
		} else {
			items = append(items, inst.Len*2+pn)
			if sawInt3 {
				break
			}
		}
		pos += inst.Len
		if pn == 1 {
			break
		}
	}
	return items
}

func c14(args []string) int {
	c, _ := parseCommon("c14", args)
	rng := hxlib.NewRng(c.seed)
	out := hxlib.NewOut(c.out)
	defer out.Close()
	ps := uintptr(syscall.Getpagesize())
	raw := sacrifice.Addr()
	base := (raw + ps - 1) &^ (ps - 1) // first page boundary inside the region
	npages := 4
	region := int(ps) * npages
	if base+uintptr(region) > raw+sacrifice.Size {
		fmt.Fprintln(os.Stderr, "sacrificial region too small")
		return 2
	}
	shadow := make([]byte, region)
	copy(shadow, rawView(base, region))
	nWrites := 2000
	if c.tier == "thorough" {
		nWrites = 50000
	}
	if c.n > 0 {
		nWrites = c.n
	}
	if c.extra == "fallback-trace" {
		// one write through the fallback writer into the sacrificial region, meant to run under a syscall tracer: the check
		// reads which protections the pages of the region pass through
		off := 2*int(ps) - 5 // straddles a page boundary
		data := []byte{1, 2, 3, 4, 5, 6, 7, 8, 9, 10, 11, 12, 13}
		err := memory.VerifWriteToFallback(base+uintptr(off), data)
		back := append([]byte{}, rawView(base+uintptr(off), len(data))...)
		out.Put(map[string]interface{}{"kind": "fallback-trace", "base": fmt.Sprint(base), "page0": fmt.Sprintf("%#x", base+uintptr(ps)), "page1": fmt.Sprintf("%#x", base+uintptr(2*int(ps))),
			"pagesize": ps, "err": err != nil, "landed": bytes.Equal(back, data), "perms_after": pagePerms(base, base+uintptr(region))})
		memory.WriteTo(base+uintptr(off), shadow[off:off+len(data)])
		return 0
	}
	out.Put(map[string]interface{}{"kind": "region", "base": fmt.Sprint(base), "pagesize": ps, "npages": npages,
		"perms_before": pagePerms(base, base+uintptr(region))})
	diffBad, permBad := 0, 0
	if c.extra == "placeholders-only" {
		nWrites = 0
	}
	for i := 0; i < nWrites; i++ {
		var off, n int
		switch i % 5 {
		case 0: // every offset within 16 bytes of a page end, short lengths
			pg := 1 + rng.Intn(npages-1)
			off = pg*int(ps) - 16 + (i/5)%17
			n = rng.Intn(33)
		case 1: // entry-jump sized
			off = rng.Intn(region - 64)
			n = 13
		case 2: // long, crossing one or two page boundaries
			off = rng.Intn(region - 2*int(ps) - 64)
			n = int(ps) - 8 + rng.Intn(int(ps)+16)
		case 3:
			off = rng.Intn(region - 64)
			n = rng.Intn(64)
		default: // page aligned starts, empty writes
			off = rng.Intn(npages) * int(ps)
			n = []int{0, 1, 13, int(ps), int(ps) + 1}[rng.Intn(5)]
			if off+n > region {
				n = 0
			}
		}
		if off < 0 {
			off = 0
		}
		data := make([]byte, n)
		for j := range data {
			data[j] = byte(rng.U64())
		}
		pan := ""
		func() {
			defer func() {
				if e := recover(); e != nil {
					pan = fmt.Sprint(e)
				}
			}()
			if err := memory.WriteTo(base+uintptr(off), data); err != nil {
				pan = "error: " + err.Error()
			}
		}()
		copy(shadow[off:off+n], data)
		got := rawView(base, region)
		first := -1
		for j := range shadow {
			if shadow[j] != got[j] {
				first = j
				break
			}
		}
		perms := pagePerms(base, base+uintptr(region))
		pbad := false
		for _, p := range perms {
			if !strings.HasPrefix(p, "r-x") {
				pbad = true
			}
		}
		if first >= 0 {
			diffBad++
		}
		if pbad {
			permBad++
		}
		if first >= 0 || pbad || pan != "" || i < 40 || i%50 == 0 {
			out.Put(map[string]interface{}{"kind": "write", "i": i, "off": off, "len": n, "panic": pan, "first_diff": first, "perms": perms})
		}
		if first >= 0 { // resynchronise so that one bad write is reported once
			copy(shadow, got)
		}
	}
	out.Put(map[string]interface{}{"kind": "writes_summary", "writes": nWrites, "diff_bad": diffBad, "perm_bad": permBad})
	if c.extra == "writes-only" {
		return 0
	}

	tinyMax := 40
	if c.extra == "placeholders-only" {
		tinyMax = 1
	}
	// ---- synthetic functions of exact sizes: body of (s-1) bytes, one INT3, then foreign code
	// body = (xor eax,eax)* [nop-free] ret ; GetFuncSize = len(body)+1 because the INT3 run ends at the foreign code
	pos := 64
	// entry kinds: a decodable first instruction, or one the bundled decoder does not know (ENDBR64, an EVEX-encoded load):
	// the extent scan then reports 0 and the patch must be refused whatever follows
	for _, entry := range []string{"plain", "endbr", "evex"} {
		for s := 2; s <= tinyMax; s++ {
			if entry != "plain" && (s < 8 || s%3 != 0) {
				continue
			}
			for _, near := range []int{0, 1, 5, 12, 13} { // distance of the entry from a page end (0 = anywhere)
				off := pos
				if near > 0 {
					pg := 1 + (s % (npages - 1))
					off = pg*int(ps) - near
				}
				pos += 96
				if pos > int(ps)-200 {
					pos = 64
				}
				// restore the area to INT3 first
				memory.WriteTo(base+uintptr(off-8), make8(0xCC, s+40))
				body := make([]byte, 0, s+8)
				switch entry {
				case "endbr":
					body = append(body, 0xF3, 0x0F, 0x1E, 0xFA)
				case "evex":
					body = append(body, 0x62, 0xF1, 0x7C, 0x48, 0x10, 0x00)
				}
				for len(body) < s-2 {
					if s-2-len(body) >= 2 {
						body = append(body, 0x31, 0xC0)
					} else {
						body = append(body, 0x50) // push rax (1 byte)
					}
				}
				body = append(body, 0xC3)                               // ret  -> len(body) = s-1
				body = append(body, 0xCC)                               // one byte of padding
				body = append(body, 0x31, 0xC0, 0xC3, 0x31, 0xC0, 0xC3) // the neighbour
				memory.WriteTo(base+uintptr(off), body)
				before := append([]byte{}, rawView(base, region)...)
				addr := base + uintptr(off)
				bytecode.VerifClearFuncSizeCache()
				size, _ := bytecode.GetFuncSize(64, addr, false)
				g, err := patch.Ptr(addr, c14Replacement)
				rec := map[string]interface{}{"kind": "tiny", "entry": entry, "size": s, "near_page_end": near, "off": off, "funcsize": size, "refused": err != nil}
				if err == nil {
					g.Apply()
					after := rawView(base, region)
					lo, hi := -1, -1
					for j := range before {
						if before[j] != after[j] {
							if lo < 0 {
								lo = j
							}
							hi = j
						}
					}
					rec["changed_lo"] = lo - off
					rec["changed_hi"] = hi - off
					rec["jump_ok"] = after[off] == 0x90 && after[off+1] == 0x48 && after[off+2] == 0xBA
					g.UnpatchWithLock()
					rest := rawView(base, region)
					same := true
					for j := range before {
						if before[j] != rest[j] {
							same = false
						}
					}
					rec["restored"] = same
					patch.UnpatchAll()
				}
				rec["perms"] = pagePerms(base, base+uintptr(region))
				out.Put(rec)
			}
		}
	}
	// ---- origin placeholders of exact sizes: the relocated prologue plus the jump back must fit or the apply must be refused
	// origin: 7 x (xor eax,eax) + ret = 15 bytes, padded; the copied prefix is 14 bytes, the trampoline needs 14+5 = 19 bytes
	originOff := 3*int(ps) + 512
	memory.WriteTo(base+uintptr(originOff-8), make8(0xCC, 96))
	ob := []byte{}
	for i := 0; i < 7; i++ {
		ob = append(ob, 0x31, 0xC0)
	}
	ob = append(ob, 0xC3)
	memory.WriteTo(base+uintptr(originOff), ob)
	for s := 14; s <= 48; s++ {
		phOff := 2*int(ps) + 256 + (s-14)*0 // same slot every time, cache cleared
		memory.WriteTo(base+uintptr(phOff-8), make8(0xCC, 160))
		body := make([]byte, 0, s+8)
		for len(body) < s-2 {
			if s-2-len(body) >= 2 {
				body = append(body, 0x31, 0xC0)
			} else {
				body = append(body, 0x50)
			}
		}
		body = append(body, 0xC3, 0xCC, 0x31, 0xC0, 0xC3, 0x31, 0xC0, 0xC3)
		memory.WriteTo(base+uintptr(phOff), body)
		bytecode.VerifClearFuncSizeCache()
		patch.UnpatchAll()
		before := append([]byte{}, rawView(base, region)...)
		phFn := unexports2.NewFuncWithCodePtr(reflect.TypeOf(c14Replacement), base+uintptr(phOff)).Interface().(func(int) int)
		var err error
		pan := ""
		func() {
			defer func() {
				if e := recover(); e != nil {
					pan = fmt.Sprint(e)
				}
			}()
			_, err = patch.PtrTrampoline(base+uintptr(originOff), c14Replacement, &phFn)
		}()
		after := rawView(base, region)
		lo, hi := -1, -1
		for j := range before {
			if before[j] != after[j] {
				if lo < 0 {
					lo = j
				}
				hi = j
			}
		}
		rec := map[string]interface{}{"kind": "placeholder", "size": s, "refused": err != nil || pan != "", "panic": pan,
			"changed_lo": lo - phOff, "changed_hi": hi - phOff, "changed": lo >= 0, "perms": pagePerms(base, base+uintptr(region))}
		if err != nil {
			rec["error"] = err.Error()
		}
		out.Put(rec)
		patch.UnpatchAll()
	}
	if c.extra == "placeholders-only" {
		return 0
	}
	// ---- every function of this binary: scanned extent vs distance to the next function
	tab, err := unexports2.GetSymbolTable()
	if err == nil && tab != nil {
		total, equal, early, overrun, tooShortAccepted := 0, 0, 0, 0, 0
		var overruns []string
		for i := range tab.Funcs {
			f := &tab.Funcs[i]
			if i+1 >= len(tab.Funcs) {
				break
			}
			next := tab.Funcs[i+1].Entry
			if next <= f.Entry || next-f.Entry > 1<<20 {
				continue
			}
			total++
			size, _ := bytecode.GetFuncSize(64, uintptr(f.Entry), false)
			ext := int(next - f.Entry)
			switch {
			case size == ext:
				equal++
			case size < ext:
				early++
			default:
				overrun++
				if len(overruns) < 12 {
					overruns = append(overruns, f.Name)
				}
			}
			if ext < 13 && size > 13 {
				tooShortAccepted++
				out.Put(map[string]interface{}{"kind": "short_accepted", "name": f.Name, "extent": ext, "funcsize": size})
			}
		}
		out.Put(map[string]interface{}{"kind": "extent_sweep", "functions": total, "equal": equal, "early_stop": early, "overrun": overrun,
			"overrun_names": overruns, "too_short_but_accepted": tooShortAccepted})
		// the model's input: what the decoder reports at each instruction start of a sample of functions, and the scanned size
		var scans []map[string]interface{}
		for i := 0; i+1 < len(tab.Funcs) && len(scans) < 700; i += 11 {
			f := &tab.Funcs[i]
			if next := tab.Funcs[i+1].Entry; next <= f.Entry || next-f.Entry > 1<<16 {
				continue
			}
			bytecode.VerifClearFuncSizeCache()
			size, _ := bytecode.GetFuncSize(64, uintptr(f.Entry), false)
			scans = append(scans, map[string]interface{}{"name": f.Name, "items": c14Items(uintptr(f.Entry), 20000), "size": size})
		}
		out.Put(map[string]interface{}{"kind": "scans", "scans": scans})
	} else {
		out.Put(map[string]interface{}{"kind": "extent_sweep", "error": fmt.Sprint(err)})
	}
	return 0
}

func make8(b byte, n int) []byte {
	out := make([]byte, n)
	for i := range out {
		out[i] = b
	}
	return out
}
