package main

import (
	"fmt"
	"math"
	"sync"

	mocker "github.com/tencent/goom"
	"github.com/tencent/goom/arg"
	"github.com/tencent/goom/verifharness/hxlib"
	"github.com/tencent/goom/verifharness/zoo/fnzoo"
)

func init() { register("stub", stubCmd) }

// value ids: ints 0..9 are themselves; strings "a","b","c","" are 10..13; result ids are ints >= 100
var strDom = []string{"a", "b", "c", ""}

// bigDom: the four ids of kind 'b' are 64-bit integers that differ only below 2^53 (they collapse when compared as float64)
var bigDom = [4]int{math.MaxInt64, math.MaxInt64 - 1, 1<<53 + 1, 1 << 53}

func idToVal(id int, kind byte) interface{} {
	if kind == 's' {
		return strDom[(id-10)%4]
	}
	if kind == 'b' {
		return bigDom[id%4]
	}
	if kind == 'p' {
		return fnzoo.MkSP(id)
	}
	return id
}

type xexpr struct {
	T  string `json:"t"`
	V  int    `json:"v,omitempty"`
	Vs []int  `json:"vs,omitempty"`
}

type xclause struct {
	Kind string    `json:"kind"` // when | in
	Es   []xexpr   `json:"es,omitempty"`
	Alts [][]xexpr `json:"alts,omitempty"`
	Rs   []int     `json:"rs"`
	Form int       `json:"form"` // 0: Return+AndReturn..., 1: Returns(v1..vn)
}

type xconfig struct {
	Nout      int       `json:"nout"`
	Default   []int     `json:"default"`
	FirstWhen *xclause  `json:"first_when"`
	Clauses   []xclause `json:"clauses"`
}

type starget struct {
	name     string
	nout     int
	fixed    []byte
	variadic byte
	mk       func(b *mocker.Builder) mocker.ExportedMocker
	call     func(a []int) int
}

var theT = &fnzoo.T{K: 1}

func strs(ids []int) []string {
	out := make([]string, len(ids))
	for i, x := range ids {
		out[i] = strDom[(x-10)%4]
	}
	return out
}

func stargets() []starget {
	return []starget{
		{"F1", 1, []byte{'i'}, 0, func(b *mocker.Builder) mocker.ExportedMocker { return b.Func(fnzoo.F1) }, func(a []int) int { return fnzoo.F1(a[0]) }},
		{"F2", 1, []byte{'s', 'i'}, 0, func(b *mocker.Builder) mocker.ExportedMocker { return b.Func(fnzoo.F2) }, func(a []int) int { return fnzoo.F2(strDom[(a[0]-10)%4], a[1]) }},
		{"FV", 1, []byte{'i'}, 's', func(b *mocker.Builder) mocker.ExportedMocker { return b.Func(fnzoo.FV) }, func(a []int) int { return fnzoo.FV(a[0], strs(a[1:])...) }},
		{"FVV", 1, nil, 'i', func(b *mocker.Builder) mocker.ExportedMocker { return b.Func(fnzoo.FVV) }, func(a []int) int { return fnzoo.FVV(a...) }},
		{"F0", 1, nil, 0, func(b *mocker.Builder) mocker.ExportedMocker { return b.Func(fnzoo.F0) }, func(a []int) int { return fnzoo.F0() }},
		{"FN", 0, []byte{'i'}, 0, func(b *mocker.Builder) mocker.ExportedMocker { return b.Func(fnzoo.FN) }, func(a []int) int { fnzoo.FN(a[0]); return -1 }},
		{"F2R", 2, []byte{'i'}, 0, func(b *mocker.Builder) mocker.ExportedMocker { return b.Func(fnzoo.F2R) }, func(a []int) int {
			r, s := fnzoo.F2R(a[0])
			if s != fmt.Sprint("s", r) && s != "orig" {
				return -2
			}
			return r
		}},
		{"G2big", 1, []byte{'b'}, 0, func(b *mocker.Builder) mocker.ExportedMocker { return b.Func(fnzoo.G2) }, func(a []int) int {
			v := bigDom[a[0]%4]
			if r := fnzoo.G2(v); r != -1200-v { // the original's answer wraps around for these arguments: report it in id space
				return r
			}
			return -1200 - a[0]%4
		}},
		// a comparable struct parameter with a pointer and an interface-holding-a-pointer field: condition value and call
		// argument are built separately (deep-equal, not ==)
		{"FPtrS", 1, []byte{'p', 'i'}, 0, func(b *mocker.Builder) mocker.ExportedMocker { return b.Func(fnzoo.FPtrS) }, func(a []int) int { return fnzoo.FPtrS(fnzoo.MkSP(a[0]), a[1]) }},
		{"T.M", 1, []byte{'i'}, 0, func(b *mocker.Builder) mocker.ExportedMocker { return b.Struct(&fnzoo.T{}).Method("M") }, func(a []int) int { return theT.M(a[0]) }},
		// an interface method (its mocker has its own Return/Returns/When code)
		{"I.M", 1, []byte{'i'}, 0, func(b *mocker.Builder) mocker.ExportedMocker { return c12AdaptI(b.Interface(&c12IV).Method("M")) }, func(a []int) int { return c12IV.M(a[0]) }},
		{"T.V", 1, []byte{'i'}, 0, func(b *mocker.Builder) mocker.ExportedMocker { return b.Struct(fnzoo.T{}).Method("V") }, func(a []int) int { return fnzoo.T{K: 2}.V(a[0]) }},
		{"T.MV", 1, []byte{'i'}, 'i', func(b *mocker.Builder) mocker.ExportedMocker { return b.Struct(&fnzoo.T{}).Method("MV") }, func(a []int) int { return theT.MV(a[0], a[1:]...) }},
	}
}

func (t *starget) kindAt(i int) byte {
	if i < len(t.fixed) {
		return t.fixed[i]
	}
	return t.variadic
}

func (t *starget) results(r int) []interface{} {
	switch t.nout {
	case 0:
		return nil
	case 2:
		return []interface{}{r, fmt.Sprint("s", r)}
	}
	return []interface{}{r}
}

func (t *starget) exprArg(e xexpr, pos int) interface{} {
	k := t.kindAt(pos)
	switch e.T {
	case "any":
		return arg.Any()
	case "in":
		vs := make([]interface{}, len(e.Vs))
		for i, v := range e.Vs {
			vs[i] = idToVal(v, k)
		}
		return arg.In(vs...)
	}
	return idToVal(e.V, k)
}

func genVal(rng *hxlib.Rng, k byte) int {
	if k == 's' {
		return 10 + rng.Intn(4)
	}
	return rng.Intn(4)
}

func (t *starget) genArity(rng *hxlib.Rng) int {
	n := len(t.fixed)
	if t.variadic != 0 {
		n += rng.Intn(4)
	}
	return n
}

func (t *starget) genExprs(rng *hxlib.Rng, n int, allowIn bool) []xexpr {
	es := make([]xexpr, n)
	for i := range es {
		k := t.kindAt(i)
		switch r := rng.Intn(10); {
		case r < 6:
			es[i] = xexpr{T: "eq", V: genVal(rng, k)}
		case r < 8 || !allowIn:
			es[i] = xexpr{T: "any"}
		default:
			es[i] = xexpr{T: "in", Vs: []int{genVal(rng, k), genVal(rng, k)}}
		}
	}
	return es
}

func genSeq(rng *hxlib.Rng, next *int, long bool) []int {
	n := 1 + rng.Intn(4)
	if long {
		n = 1 + rng.Intn(40)
	}
	rs := make([]int, n)
	repeat := rng.Intn(3) == 0 // sequences with runs of equal results (the value repeats; the position must still advance)
	for i := range rs {
		if repeat && i > 0 && rng.Intn(2) == 0 {
			rs[i] = rs[i-1]
			continue
		}
		rs[i] = *next
		*next++
	}
	return rs
}

func (t *starget) genConfig(rng *hxlib.Rng, long bool) xconfig {
	next := 100
	cf := xconfig{Nout: t.nout}
	arityFixed := t.variadic == 0
	if t.nout == 0 {
		// a function without results: Return() default, clauses carry empty results
		cf.Default = []int{}
	}
	if rng.Intn(10) < 7 && t.nout > 0 {
		cf.Default = genSeq(rng, &next, long)
	} else if t.nout > 0 && len(t.fixed)+btoi(t.variadic != 0) > 0 {
		n := t.genArity(rng)
		cf.FirstWhen = &xclause{Kind: "when", Es: t.genExprs(rng, n, true), Rs: genSeq(rng, &next, long), Form: rng.Intn(2)}
	} else if t.nout > 0 {
		cf.Default = genSeq(rng, &next, long)
	}
	if len(t.fixed)+btoi(t.variadic != 0) == 0 {
		return cf // no arguments: nothing to condition on
	}
	nc := rng.Intn(5)
	for i := 0; i < nc; i++ {
		var cl xclause
		if rng.Intn(3) == 0 {
			cl.Kind = "in"
			na := 1 + rng.Intn(3)
			for j := 0; j < na; j++ {
				n := t.genArity(rng)
				cl.Alts = append(cl.Alts, t.genExprs(rng, n, false))
			}
		} else {
			cl.Kind = "when"
			cl.Es = t.genExprs(rng, t.genArity(rng), true)
		}
		if t.nout > 0 {
			cl.Rs = genSeq(rng, &next, long)
			cl.Form = rng.Intn(2)
		} else {
			cl.Rs = []int{}
		}
		cf.Clauses = append(cf.Clauses, cl)
	}
	_ = arityFixed
	return cf
}

func btoi(b bool) int {
	if b {
		return 1
	}
	return 0
}

// apply configures the mock through the public API exactly as the surface syntax says.
func (t *starget) apply(m mocker.ExportedMocker, cf xconfig) {
	var w *mocker.When
	addSeq := func(first bool, cl *xclause, rs []int) {
		if t.nout == 0 {
			w = w.Return()
			return
		}
		if cl != nil && cl.Form == 1 && t.nout == 1 {
			// Returns(v1..vk) for a prefix, the rest appended with AndReturn (every second such clause: all in one Returns)
			k := len(rs)
			if len(rs) > 2 && rs[0]%2 == 0 {
				k = 1 + (len(rs)-1)/2
			}
			vs := make([]interface{}, k)
			for i, r := range rs[:k] {
				vs[i] = r
			}
			w = w.Returns(vs...)
			for _, r := range rs[k:] {
				w = w.AndReturn(r)
			}
			return
		}
		for i, r := range rs {
			if i == 0 {
				w = w.Return(t.results(r)...)
			} else {
				w = w.AndReturn(t.results(r)...)
			}
		}
	}
	exprs := func(es []xexpr) []interface{} {
		out := make([]interface{}, len(es))
		for i, e := range es {
			out[i] = t.exprArg(e, i)
		}
		return out
	}
	switch {
	case cf.Default != nil:
		if t.nout == 0 {
			w = m.Return()
		} else {
			if t.nout == 1 && len(cf.Default) >= 2 && len(cf.Default)%2 == 0 {
				// the default sequence given in one Returns(v1..vn) call on the mocker itself (its own code path per mocker kind)
				vs := make([]interface{}, len(cf.Default))
				for i, r := range cf.Default {
					vs[i] = r
				}
				w = m.Returns(vs...)
			} else {
				w = m.Return(t.results(cf.Default[0])...)
				for _, r := range cf.Default[1:] {
					w = w.AndReturn(t.results(r)...)
				}
			}
		}
	case cf.FirstWhen != nil:
		w = m.When(exprs(cf.FirstWhen.Es)...)
		addSeq(true, cf.FirstWhen, cf.FirstWhen.Rs)
	}
	for i := range cf.Clauses {
		cl := &cf.Clauses[i]
		if cl.Kind == "when" {
			if w == nil {
				w = m.When(exprs(cl.Es)...)
			} else {
				w = w.When(exprs(cl.Es)...)
			}
		} else {
			alts := make([]interface{}, len(cl.Alts))
			for j, a := range cl.Alts {
				alts[j] = exprs(a)
			}
			w = w.In(alts...)
		}
		addSeq(false, cl, cl.Rs)
	}
}

func outcome(f func() int) (res interface{}) {
	defer func() {
		if e := recover(); e != nil {
			c := hxlib.PanicClass(e)
			if c == "NoSuitableCondition" {
				res = "NoSuitable"
			} else {
				res = "Panic:" + c
			}
		}
	}()
	return f()
}

func stubCmd(args []string) int {
	c, _ := parseCommon("stub", args)
	rng := hxlib.NewRng(c.seed)
	out := hxlib.NewOut(c.out)
	defer out.Close()
	tgts := stargets()
	mode := c.extra
	n := 600
	if mode == "c05" {
		n = 300
	}
	if c.tier == "thorough" {
		n *= 15
	}
	if c.n > 0 {
		n = c.n
	}
	switch mode {
	case "c12":
		return stubC12(c, rng, out)
	case "c05conc":
		return stubConc(c, rng, out)
	}
	for h := 0; h < n; h++ {
		t := &tgts[rng.Intn(len(tgts))]
		cf := t.genConfig(rng, mode == "c05")
		b := mocker.Create()
		cfgPanic := ""
		func() {
			defer func() {
				if e := recover(); e != nil {
					cfgPanic = fmt.Sprint(e)
					if len(cfgPanic) > 160 {
						cfgPanic = cfgPanic[:160]
					}
				}
			}()
			t.apply(t.mk(b), cf)
		}()
		ncalls := 12
		if mode == "c05" {
			ncalls = 20 + rng.Intn(120)
		}
		var calls [][]int
		var outs []interface{}
		if cfgPanic == "" {
			for i := 0; i < ncalls; i++ {
				n := t.genArity(rng)
				a := make([]int, n)
				for j := range a {
					a[j] = genVal(rng, t.kindAt(j))
				}
				// bias towards configured values so that clauses are hit
				if len(cf.Clauses) > 0 && rng.Intn(2) == 0 {
					cl := cf.Clauses[rng.Intn(len(cf.Clauses))]
					es := cl.Es
					if cl.Kind == "in" && len(cl.Alts) > 0 {
						es = cl.Alts[rng.Intn(len(cl.Alts))]
					}
					if t.variadic != 0 || len(es) == len(a) {
						a = make([]int, len(es))
						for j, e := range es {
							switch e.T {
							case "eq":
								a[j] = e.V
							case "in":
								a[j] = e.Vs[rng.Intn(len(e.Vs))]
							default:
								a[j] = genVal(rng, t.kindAt(j))
							}
						}
					}
				}
				calls = append(calls, a)
				outs = append(outs, outcome(func() int { return t.call(a) }))
			}
		}
		b.Reset()
		after := outcome(func() int {
			a := make([]int, len(t.fixed))
			for j := range a {
				a[j] = genVal(rng, t.kindAt(j))
			}
			return t.call(a)
		})
		out.Put(map[string]interface{}{"kind": "cfg", "target": t.name, "variadic": t.variadic != 0, "nfixed": len(t.fixed),
			"config": cf, "cfg_panic": cfgPanic, "calls": calls, "outs": outs, "after_reset": after})
	}
	return 0
}

var _ sync.Mutex
