// hx: harness driver. One sub-command per mechanism; observations go to JSONL files, never stdout.
package main

import (
	"flag"
	"fmt"
	"os"

	mocker "github.com/tencent/goom"
)

type cmdFn func(args []string) int

var cmds = map[string]cmdFn{}

func register(name string, f cmdFn) { cmds[name] = f }

func main() {
	if len(os.Args) < 2 {
		fmt.Fprintln(os.Stderr, "usage: hx <cmd> [flags]")
		os.Exit(2)
	}
	f, ok := cmds[os.Args[1]]
	if !ok {
		fmt.Fprintln(os.Stderr, "unknown command", os.Args[1])
		os.Exit(2)
	}
	// logging configuration of the whole run (C19): off unless HX_LOG says otherwise; GOOM_DEBUG is goom's own switch
	switch os.Getenv("HX_LOG") {
	case "debug":
		mocker.OpenDebug()
	case "trace":
		mocker.OpenTrace()
	}
	os.Exit(f(os.Args[2:]))
}

type common struct {
	seed  uint64
	tier  string
	out   string
	n     int
	extra string
}

func parseCommon(name string, args []string) (*common, *flag.FlagSet) {
	fs := flag.NewFlagSet(name, flag.ExitOnError)
	c := &common{}
	fs.Uint64Var(&c.seed, "seed", 1, "seed")
	fs.StringVar(&c.tier, "tier", "quick", "quick|thorough")
	fs.StringVar(&c.out, "out", "", "output JSONL file")
	fs.IntVar(&c.n, "n", 0, "case count override")
	fs.StringVar(&c.extra, "extra", "", "driver-specific option")
	fs.Parse(args)
	if c.out == "" {
		fmt.Fprintln(os.Stderr, "need -out")
		os.Exit(2)
	}
	return c, fs
}
