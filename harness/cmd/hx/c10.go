package main

import (
	"fmt"
	mocker "github.com/tencent/goom"
	"reflect"
	"runtime"
	"sort"
	"strings"

	"github.com/tencent/goom/internal/unexports2"
	"github.com/tencent/goom/verifharness/hxlib"
	"github.com/tencent/goom/verifharness/zoo/fnzoo"
	"github.com/tencent/goom/verifharness/zoo/varzoo"
)

func init() { register("c10", c10) }

//go:noinline
func c10Known(a int) int { return a + 10 }

type c10T struct{ k int }

//go:noinline
func (t *c10T) ptrMethod(a int) int { return t.k + a }

//go:noinline
func (t c10T) valMethod(a int) int { return t.k - a }

// c10Norm collapses bracketed type arguments / array lengths the way the runtime prints them
func c10Norm(n string) string {
	var b strings.Builder
	depth := 0
	for _, r := range n {
		switch {
		case r == '[':
			if depth == 0 {
				b.WriteString("[...")
			}
			depth++
		case r == ']':
			depth--
			if depth == 0 {
				b.WriteString("]")
			}
		case depth == 0:
			b.WriteRune(r)
		}
	}
	return b.String()
}

func c10Find(name string, isVar bool) (addr uintptr, class string) {
	defer func() {
		if e := recover(); e != nil {
			addr, class = 0, "panic"
		}
	}()
	var err error
	if isVar {
		addr, err = unexports2.FindVarByName(name)
	} else {
		addr, err = unexports2.FindFuncByName(name)
	}
	if err != nil {
		return 0, "err"
	}
	return addr, "ok"
}

func c10(args []string) int {
	c, _ := parseCommon("c10", args)
	rng := hxlib.NewRng(c.seed)
	out := hxlib.NewOut(c.out)
	defer out.Close()
	mode := c.extra
	tab, terr := unexports2.GetSymbolTable()
	readable := terr == nil && tab != nil
	out.Put(map[string]interface{}{"kind": "table", "mode": mode, "readable": readable, "err": fmt.Sprint(terr),
		"funcs": func() int {
			if readable {
				return len(tab.Funcs)
			}
			return 0
		}(), "syms": func() int {
			if readable {
				return len(tab.Syms)
			}
			return 0
		}()})
	// ---- functions the program knows by value
	known := map[string]uintptr{
		"main.c10Known":          reflect.ValueOf(c10Known).Pointer(),
		"main.(*c10T).ptrMethod": reflect.ValueOf((*c10T).ptrMethod).Pointer(),
		"runtime.GC":             reflect.ValueOf(runtime.GC).Pointer(),
		"strings.Repeat":         reflect.ValueOf(strings.Repeat).Pointer(),
		"fmt.Sprint":             reflect.ValueOf(fmt.Sprint).Pointer(),
		"sort.Strings":           reflect.ValueOf(sort.Strings).Pointer(),
	}
	for name, want := range known {
		a, cls := c10Find(name, false)
		out.Put(map[string]interface{}{"kind": "known", "mode": mode, "name": name, "class": cls, "exact": cls == "ok" && a == want})
	}
	// ---- variables
	addrs := varzoo.Addrs()
	var vnames []string
	for n := range addrs {
		vnames = append(vnames, n)
	}
	sort.Strings(vnames)
	for _, n := range vnames {
		a, cls := c10Find(n, true)
		out.Put(map[string]interface{}{"kind": "var", "mode": mode, "name": n, "class": cls, "exact": cls == "ok" && a == addrs[n],
			"delta": int64(a) - int64(addrs[n])})
	}
	// ---- every function symbol of the table
	names := map[string]int{}
	if readable {
		for i := range tab.Funcs {
			names[tab.Funcs[i].Name]++
		}
		ok, wrongEntry, wrongName, errs, dup := 0, 0, 0, 0, 0
		var firstBad []map[string]interface{}
		sample := []map[string]interface{}{}
		for i := range tab.Funcs {
			f := &tab.Funcs[i]
			if names[f.Name] > 1 {
				dup++
				continue
			}
			a, cls := c10Find(f.Name, false)
			if cls != "ok" {
				errs++
				if len(firstBad) < 5 {
					firstBad = append(firstBad, map[string]interface{}{"name": f.Name, "class": cls})
				}
				continue
			}
			rf := runtime.FuncForPC(a)
			switch {
			case rf == nil || rf.Entry() != a:
				wrongEntry++
				if len(firstBad) < 5 {
					firstBad = append(firstBad, map[string]interface{}{"name": f.Name, "class": "not-an-entry", "addr": a})
				}
			case rf.Name() != "" && c10Norm(rf.Name()) != c10Norm(f.Name):
				wrongName++
				if len(firstBad) < 5 {
					firstBad = append(firstBad, map[string]interface{}{"name": f.Name, "class": "other-symbol", "runtime_name": rf.Name()})
				}
			default:
				ok++
			}
			if i%9 == 0 && len(sample) < 1200 {
				sample = append(sample, map[string]interface{}{"i": i, "entry": f.Entry, "addr": a})
			}
		}
		out.Put(map[string]interface{}{"kind": "funcs", "mode": mode, "total": len(tab.Funcs), "exact": ok, "not_an_entry": wrongEntry,
			"other_symbol": wrongName, "errors": errs, "duplicate_names": dup, "first_bad": firstBad})
		// the model's input: (index, file entry, returned address) for a sample, plus the anchor
		anchor := "github.com/tencent/goom/internal/unexports2.FindFuncByName"
		af := tab.LookupFunc(anchor)
		var aentry uint64
		if af != nil {
			aentry = af.Entry
		}
		out.Put(map[string]interface{}{"kind": "funcsample", "mode": mode, "anchor_entry": aentry,
			"anchor_mem": reflect.ValueOf(unexports2.FindFuncByName).Pointer(), "sample": sample})
	}
	// ---- absent and near-miss names
	var base []string
	for n := range names {
		base = append(base, n)
	}
	sort.Strings(base)
	if len(base) == 0 {
		base = []string{"main.c10Known", "runtime.GC", "fmt.Sprint"}
	}
	absentBad := 0
	tried := 0
	var firstAbs []map[string]interface{}
	for k := 0; k < 2000; k++ {
		n := base[rng.Intn(len(base))]
		var m string
		switch rng.Intn(7) {
		case 0:
			m = n + "x"
		case 1:
			m = n[:len(n)-1]
		case 2:
			m = "x" + n
		case 3:
			m = strings.Replace(n, ".", "..", 1)
		case 4:
			m = strings.ToUpper(n)
		case 5:
			m = n + ".func1"
		default:
			m = strings.Replace(n, "/", ".", 1)
		}
		if names[m] > 0 || m == "" {
			continue
		}
		tried++
		for _, isVar := range []bool{false, true} {
			if isVar {
				present := false
				if readable {
					for i := range tab.Syms {
						if tab.Syms[i].Name == m {
							present = true
							break
						}
					}
				}
				if present {
					continue
				}
			}
			a, cls := c10Find(m, isVar)
			if cls == "ok" {
				absentBad++
				if len(firstAbs) < 5 {
					firstAbs = append(firstAbs, map[string]interface{}{"name": m, "var": isVar, "addr": a})
				}
			}
		}
	}
	out.Put(map[string]interface{}{"kind": "absent", "mode": mode, "tried": tried, "resolved": absentBad, "first": firstAbs})
	// ---- the answer for a name must not depend on what was looked up before: present and absent names interleaved,
	//      each repeated, for both lookups
	var uniq []string
	for _, n := range base {
		if names[n] == 1 {
			uniq = append(uniq, n)
		}
	}
	inconsistent, resolvedLater, hsteps := 0, 0, 0
	var firstHist []map[string]interface{}
	for k := 0; k < 300 && len(uniq) > 0; k++ {
		kn := uniq[rng.Intn(len(uniq))]
		ab := kn + []string{"x", "_", ".func9", "r"}[rng.Intn(4)]
		if names[ab] > 0 {
			continue
		}
		isVar := k%4 == 3
		first := map[string][2]interface{}{}
		seq := []string{kn, ab, ab, kn, ab, kn, kn, ab}
		if rng.Intn(2) == 0 {
			seq = []string{ab, kn, ab, ab, kn, kn, ab}
		}
		for i, n := range seq {
			a, cls := c10Find(n, isVar)
			hsteps++
			if n == ab && cls == "ok" {
				resolvedLater++
				if len(firstHist) < 5 {
					firstHist = append(firstHist, map[string]interface{}{"name": n, "var": isVar, "step": i, "sequence": seq, "addr": a})
				}
			}
			if f, seen := first[n]; !seen {
				first[n] = [2]interface{}{a, cls}
			} else if f[0] != interface{}(a) || f[1] != interface{}(cls) {
				inconsistent++
				if len(firstHist) < 5 {
					firstHist = append(firstHist, map[string]interface{}{"name": n, "var": isVar, "step": i, "sequence": seq, "first": fmt.Sprint(f), "now": fmt.Sprint(a, cls)})
				}
			}
		}
	}
	// ---- by-name resolution THROUGH a mocker object that is reused for another method name: each name must reach its own symbol
	{
		pkg := "github.com/tencent/goom/verifharness/zoo/fnzoo"
		tt := &fnzoo.T{K: 1}
		as := func(_ *fnzoo.T, a int) int { return 0 }
		rec := map[string]interface{}{"kind": "mocker-resolve", "mode": mode}
		func() {
			defer func() {
				if e := recover(); e != nil {
					rec["panic"] = trunc(fmt.Sprint(e), 120)
				}
			}()
			m := mocker.NewUnexportedMethodMocker(pkg, "(*T)")
			m.Method("um1").As(as).Return(11)
			rec["um1_mocked"] = tt.CallUm1(0)
			m.Cancel()
			rec["um1_after_cancel"] = tt.CallUm1(0)
			m.Method("um2").As(as).Return(22)
			rec["um2_mocked"], rec["um1_meanwhile"] = tt.CallUm2(0), tt.CallUm1(0)
			m.Cancel()
			rec["um2_after_cancel"], rec["um1_end"] = tt.CallUm2(0), tt.CallUm1(0)
		}()
		// an ABSENT name that has a near twin: "T.um1" (value-receiver spelling) while only (*T).um1 exists. Both ways of
		// installing a mock through the name must end in an error; none may fall back to the twin's address
		for _, path := range []string{"apply", "as"} {
			path := path
			func() {
				defer func() {
					if e := recover(); e != nil {
						rec["absent_"+path+"_panic"] = trunc(fmt.Sprint(e), 120)
					}
				}()
				m2 := mocker.NewUnexportedMethodMocker(pkg, "T")
				if path == "apply" {
					m2.Method("um1").Apply(func(_ *fnzoo.T, a int) int { return 33 })
				} else {
					m2.Method("um1").As(as).Return(34)
				}
				rec["absent_"+path+"_accepted"] = tt.CallUm1(0)
				m2.Cancel()
			}()
		}
		out.Put(rec)
	}
	out.Put(map[string]interface{}{"kind": "history", "mode": mode, "steps": hsteps, "inconsistent": inconsistent, "absent_resolved": resolvedLater, "first": firstHist})
	return 0
}
