package main

import (
	"fmt"
	"math"
	"reflect"
	"sort"
	"strings"
	"unsafe"

	"github.com/tencent/goom/arg"
	"github.com/tencent/goom/verifharness/hxlib"
)

func init() { register("c18", c18) }

type c18S struct {
	A int
	B string
	c float64
}
type c18N struct {
	P *c18S
	L []int
	M map[string]int
}
type c18Named int32
type c18PS struct {
	P *c18S
	N int
}
type c18IS struct {
	V interface{}
	E error
}
type c18Deep struct {
	In  c18PS
	Arr [2]*int
	F   func()
}

// c18Level / c18Ratio: named numeric types with a String method that is NOT injective (every unknown value prints alike)
type c18Level int

func (l c18Level) String() string {
	if l == 0 {
		return "OFF"
	}
	return "LEVEL"
}

type c18Ratio float64

func (r c18Ratio) String() string { return "ratio" }

type c18Mask uint32

func (m c18Mask) String() string { return "mask" }

func c18f0() {}
func c18f1() {}

// a "kind group" = one static type with a list of candidate values (all of that type)
type c18Group struct {
	name string
	typ  reflect.Type
	vals []interface{}
}

func c18Groups() []c18Group {
	s1, s2, s1b := &c18S{1, "a", 1.5}, &c18S{2, "b", 2.5}, &c18S{1, "a", 1.5}
	var nilS *c18S
	i1, i1b, i2 := 7, 7, 8
	pp1, pp1b := &s1, &s1b
	var nilInner, nilInner2 *c18S
	ppn, ppn2 := &nilInner, &nilInner2 // pointers to nil pointers
	ch1, ch2 := make(chan int), make(chan int)
	var nilCh chan int
	var nilMap map[string]int
	var nilSl []int
	backing := []int{1, 2, 3, 4}
	bbytes := []byte("abcdef")
	var nilF func()
	m1 := map[string]int{"a": 1, "b": 2}
	m1b := map[string]int{"b": 2, "a": 1}
	m2 := map[string]int{"a": 1}
	var e1, e2 error = fmt.Errorf("x"), fmt.Errorf("x")
	T := reflect.TypeOf
	anyT := reflect.TypeOf((*interface{})(nil)).Elem()
	errT := reflect.TypeOf((*error)(nil)).Elem()
	return []c18Group{
		{"int", T(0), []interface{}{0, 1, -1, 7, math.MaxInt64, math.MaxInt64 - 1, math.MinInt64, math.MinInt64 + 1, 1 << 53, 1<<53 + 1}},
		{"int8", T(int8(0)), []interface{}{int8(0), int8(1), int8(-1), int8(127), int8(-128)}},
		{"int16", T(int16(0)), []interface{}{int16(0), int16(-32768), int16(32767), int16(5)}},
		{"int32", T(int32(0)), []interface{}{int32(0), int32(math.MaxInt32), int32(math.MinInt32), int32(-7)}},
		{"int64", T(int64(0)), []interface{}{int64(0), int64(math.MaxInt64), int64(math.MaxInt64 - 1), int64(math.MinInt64), int64(1<<53 + 1), int64(1 << 53)}},
		{"uint", T(uint(0)), []interface{}{uint(0), uint(1), uint(math.MaxUint64), uint(math.MaxUint64 - 1), uint(1 << 63)}},
		{"uint8", T(uint8(0)), []interface{}{uint8(0), uint8(255), uint8(128)}},
		{"uint16", T(uint16(0)), []interface{}{uint16(0), uint16(65535), uint16(256)}},
		{"uint32", T(uint32(0)), []interface{}{uint32(0), uint32(math.MaxUint32), uint32(1 << 31)}},
		{"uint64", T(uint64(0)), []interface{}{uint64(0), uint64(math.MaxUint64), uint64(math.MaxUint64 - 1), uint64(1<<53 + 1), uint64(1 << 53)}},
		{"uintptr", T(uintptr(0)), []interface{}{uintptr(0), uintptr(1), uintptr(math.MaxUint64)}},
		{"named", T(c18Named(0)), []interface{}{c18Named(0), c18Named(5), c18Named(-5)}},
		{"stringer-int", T(c18Level(0)), []interface{}{c18Level(0), c18Level(7), c18Level(9), c18Level(-1)}},
		{"stringer-uint", T(c18Mask(0)), []interface{}{c18Mask(0), c18Mask(1), c18Mask(1 << 31)}},
		{"stringer-float", T(c18Ratio(0)), []interface{}{c18Ratio(0.5), c18Ratio(0.25), c18Ratio(2)}},
		{"float64", T(0.0), []interface{}{1.0, 1.5, -1.5, 0.1, 0.1 + 0.2, 0.3, 1e300, 5e-324, math.MaxFloat64, 1.0000000000000002}},
		{"float32", T(float32(0)), []interface{}{float32(1), float32(1.5), float32(0.1), float32(16777216), float32(16777218), float32(1e-45)}},
		{"string", T(""), []interface{}{"", "a", "b", "ab", "1", "true", "中文", "a\x00"}},
		{"bool", T(false), []interface{}{true, false}},
		{"complex", T(complex(0, 0)), []interface{}{complex(1, 2), complex(1, 3), complex(0, 0)}},
		{"struct", T(c18S{}), []interface{}{c18S{1, "a", 1.5}, c18S{1, "a", 1.5}, c18S{1, "a", 2.5}, c18S{2, "a", 1.5}, c18S{}}},
		{"nested", T(c18N{}), []interface{}{c18N{s1, []int{1}, m1}, c18N{s1b, []int{1}, m1b}, c18N{s2, []int{1}, m1}, c18N{s1, []int{1, 2}, m1}, c18N{nil, nil, nil}, c18N{s1, []int{}, nil}}},
		{"array", T([3]int{}), []interface{}{[3]int{1, 2, 3}, [3]int{1, 2, 3}, [3]int{1, 2, 4}, [3]int{}}},
		{"slice", T([]int{}), []interface{}{[]int{1, 2}, []int{1, 2}, []int{2, 1}, []int{}, nilSl, []int{1}}},
		// slices that share a backing array and a start but differ in length, and equal windows at different offsets
		{"subslice", T([]int{}), []interface{}{backing[:2], backing[:3], backing[:4], backing[1:3], []int{2, 3}, backing[:0]}},
		{"subbytes", T([]byte{}), []interface{}{bbytes[:2], bbytes[:3], bbytes[2:4], []byte("ab")}},
		{"strslice", T([]string{}), []interface{}{[]string{"a"}, []string{"a"}, []string{"b"}, []string{}}},
		{"map", T(m1), []interface{}{m1, m1b, m2, map[string]int{}, nilMap}},
		{"ptr", T(s1), []interface{}{s1, s1b, s2, nilS}},
		{"intptr", T(&i1), []interface{}{&i1, &i1b, &i2}},
		{"ptrptr", T(pp1), []interface{}{pp1, pp1b, ppn, ppn2}},
		{"func", T(c18f0), []interface{}{c18f0, c18f1, nilF}},
		{"chan", T(ch1), []interface{}{ch1, ch2, nilCh}},
		{"ptrstruct", T(c18PS{}), []interface{}{c18PS{s1, 1}, c18PS{s1b, 1}, c18PS{s2, 1}, c18PS{s1, 2}, c18PS{nil, 1}, c18PS{nilS, 1}}},
		{"ptr-ptrstruct", T(&c18PS{}), []interface{}{&c18PS{s1, 1}, &c18PS{s1b, 1}, &c18PS{s2, 1}, (*c18PS)(nil)}},
		{"ptrarray", T([2]*int{}), []interface{}{[2]*int{&i1, &i2}, [2]*int{&i1b, &i2}, [2]*int{&i2, &i1}, [2]*int{nil, &i2}, [2]*int{}}},
		{"ifacestruct", T(c18IS{}), []interface{}{c18IS{[]int{1}, nil}, c18IS{[]int{1}, nil}, c18IS{[]int{2}, nil}, c18IS{map[string]int{"a": 1}, e1}, c18IS{map[string]int{"a": 1}, e2},
			c18IS{1, nil}, c18IS{"1", nil}, c18IS{nil, nil}, c18IS{s1, e1}, c18IS{s1b, e1}}},
		{"ifacearray", T([2]interface{}{}), []interface{}{[2]interface{}{[]int{1}, 1}, [2]interface{}{[]int{1}, 1}, [2]interface{}{[]int{1}, 2}, [2]interface{}{nil, nil}, [2]interface{}{&i1, "x"}, [2]interface{}{&i1b, "x"}}},
		{"deep", T(c18Deep{}), []interface{}{c18Deep{c18PS{s1, 1}, [2]*int{&i1, nil}, nil}, c18Deep{c18PS{s1b, 1}, [2]*int{&i1b, nil}, nil}, c18Deep{c18PS{s2, 1}, [2]*int{&i1, nil}, nil}, c18Deep{}}},
		{"ptrslice", T([]*c18S{}), []interface{}{[]*c18S{s1, s2}, []*c18S{s1b, s2}, []*c18S{s2, s1}, []*c18S{nil}, []*c18S{}}},
		{"ptrmap", T(map[int]*c18S{}), []interface{}{map[int]*c18S{1: s1}, map[int]*c18S{1: s1b}, map[int]*c18S{1: s2}, map[int]*c18S{2: s1}}},
		{"iface-any", anyT, []interface{}{1, 1, 2, "a", "a", c18S{1, "a", 1.5}, c18S{1, "a", 1.5}, s1, s1b, nil, []int{1}, []int{1}, true, nilS, pp1, pp1b, ppn}},
		{"iface-error", errT, []interface{}{e1, e2, e1, nil}},
	}
}

// goRef is the reference: Go == for comparable scalar kinds, identity for funcs/chans, pointee (deep) for pointers,
// reflect.DeepEqual for composites, two nils are equal.
func goRef(a, b interface{}) bool {
	va, vb := reflect.ValueOf(a), reflect.ValueOf(b)
	if !va.IsValid() || !vb.IsValid() {
		return va.IsValid() == vb.IsValid()
	}
	nilable := func(v reflect.Value) bool {
		switch v.Kind() {
		case reflect.Chan, reflect.Func, reflect.Interface, reflect.Map, reflect.Ptr, reflect.Slice:
			return v.IsNil()
		}
		return false
	}
	if nilable(va) || nilable(vb) {
		return nilable(va) && nilable(vb)
	}
	if va.Type() != vb.Type() {
		return false
	}
	switch va.Kind() {
	case reflect.Func:
		return va.Pointer() == vb.Pointer()
	case reflect.Ptr:
		return goRef(va.Elem().Interface(), vb.Elem().Interface())
	}
	return reflect.DeepEqual(a, b)
}

// c18SameDyn: same dynamic type (a nil is a value of every nilable type of the group)
func c18SameDyn(a, b interface{}) bool {
	if a == nil || b == nil {
		return true
	}
	return reflect.TypeOf(a) == reflect.TypeOf(b)
}

func c18IsNum(a interface{}) bool {
	if a == nil {
		return false
	}
	switch reflect.TypeOf(a).Kind() {
	case reflect.Int, reflect.Int8, reflect.Int16, reflect.Int32, reflect.Int64,
		reflect.Uint, reflect.Uint8, reflect.Uint16, reflect.Uint32, reflect.Uint64, reflect.Uintptr,
		reflect.Float32, reflect.Float64:
		return true
	}
	return false
}

// c18Fmt: what fmt prints for a number (the library fact the model's hypothesis fmt_inj is about)
func c18Fmt(a interface{}) string {
	if !c18IsNum(a) {
		return ""
	}
	// what equal() compares: the %v rendering of the BASIC value (a String method of a named type plays no part)
	v := reflect.ValueOf(a)
	switch v.Kind() {
	case reflect.Int, reflect.Int8, reflect.Int16, reflect.Int32, reflect.Int64:
		return fmt.Sprintf("%v", v.Int())
	case reflect.Uint, reflect.Uint8, reflect.Uint16, reflect.Uint32, reflect.Uint64, reflect.Uintptr:
		return fmt.Sprintf("%v", v.Uint())
	case reflect.Float32:
		return fmt.Sprintf("%v", float32(v.Float()))
	case reflect.Float64:
		return fmt.Sprintf("%v", v.Float())
	}
	return fmt.Sprintf("%v", v)
}

func c18Enc(v interface{}) string { return c18EncV(reflect.ValueOf(v), 0) }

// c18EncV renders a value as a Gallina term of Model.ArgExpr.gval.
func c18EncV(v reflect.Value, depth int) string {
	if !v.IsValid() {
		return "VNilIface"
	}
	z := func(x string) string {
		if strings.HasPrefix(x, "-") {
			return "(" + x + ")"
		}
		return x
	}
	switch v.Kind() {
	case reflect.Int, reflect.Int8, reflect.Int16, reflect.Int32, reflect.Int64:
		return fmt.Sprintf("(VInt %d %s)", v.Type().Bits(), z(fmt.Sprint(v.Int())))
	case reflect.Uint, reflect.Uint8, reflect.Uint16, reflect.Uint32, reflect.Uint64, reflect.Uintptr:
		return fmt.Sprintf("(VUint %d %d)", v.Type().Bits(), v.Uint())
	case reflect.Float64:
		return fmt.Sprintf("(VFloat 64 %d)", math.Float64bits(v.Float()))
	case reflect.Float32:
		return fmt.Sprintf("(VFloat 32 %d)", math.Float32bits(float32(v.Float())))
	case reflect.Complex64, reflect.Complex128:
		c := v.Complex()
		return fmt.Sprintf("(VComplex %d %d)", math.Float64bits(real(c)), math.Float64bits(imag(c)))
	case reflect.String:
		bs := []byte(v.String())
		parts := make([]string, len(bs))
		for i, b := range bs {
			parts[i] = fmt.Sprint(b)
		}
		return "(VString [" + strings.Join(parts, "; ") + "])"
	case reflect.Bool:
		return fmt.Sprintf("(VBool %v)", v.Bool())
	case reflect.Struct:
		var fs []string
		if !v.CanAddr() {
			cp := reflect.New(v.Type()).Elem()
			cp.Set(v)
			v = cp
		}
		for i := 0; i < v.NumField(); i++ {
			f := v.Field(i)
			if !f.CanInterface() {
				f = reflect.NewAt(f.Type(), unsafe.Pointer(f.UnsafeAddr())).Elem()
			}
			fs = append(fs, c18EncV(f, depth+1))
		}
		return "(VStruct [" + strings.Join(fs, "; ") + "])"
	case reflect.Array:
		var fs []string
		for i := 0; i < v.Len(); i++ {
			fs = append(fs, c18EncV(v.Index(i), depth+1))
		}
		return "(VArray [" + strings.Join(fs, "; ") + "])"
	case reflect.Slice:
		if v.IsNil() {
			return "(VNil NSlice)"
		}
		var fs []string
		for i := 0; i < v.Len(); i++ {
			fs = append(fs, c18EncV(v.Index(i), depth+1))
		}
		return "(VSlice [" + strings.Join(fs, "; ") + "])"
	case reflect.Map:
		if v.IsNil() {
			return "(VNil NMap)"
		}
		keys := v.MapKeys()
		sort.Slice(keys, func(i, j int) bool { return fmt.Sprint(keys[i]) < fmt.Sprint(keys[j]) })
		var fs []string
		for _, k := range keys {
			fs = append(fs, "("+c18EncV(k, depth+1)+", "+c18EncV(v.MapIndex(k), depth+1)+")")
		}
		return "(VMap [" + strings.Join(fs, "; ") + "])"
	case reflect.Ptr:
		if v.IsNil() {
			return "(VNil NPtr)"
		}
		return fmt.Sprintf("(VPtr %d %s)", v.Pointer(), c18EncV(v.Elem(), depth+1))
	case reflect.Interface:
		if v.IsNil() {
			return "VNilIface"
		}
		return "(VIface " + c18EncV(v.Elem(), depth+1) + ")"
	case reflect.Func:
		if v.IsNil() {
			return "(VNil NFunc)"
		}
		return fmt.Sprintf("(VFunc %d)", v.Pointer())
	case reflect.Chan:
		if v.IsNil() {
			return "(VNil NChan)"
		}
		return fmt.Sprintf("(VChan %d)", v.Pointer())
	}
	return "VOther"
}

// asParam boxes v as a reflect.Value of static type t (what MakeFunc hands to the matcher)
func asParam(v interface{}, t reflect.Type) reflect.Value {
	p := reflect.New(t).Elem()
	if v != nil {
		p.Set(reflect.ValueOf(v))
	}
	return p
}

func c18(args []string) int {
	c, _ := parseCommon("c18", args)
	rng := hxlib.NewRng(c.seed)
	out := hxlib.NewOut(c.out)
	defer out.Close()
	groups := c18Groups()
	evalOnce := func(e arg.Expr, t reflect.Type, a interface{}) (res int, pan string) {
		defer func() {
			if r := recover(); r != nil {
				res, pan = -1, fmt.Sprint(r)
				if len(pan) > 100 {
					pan = pan[:100]
				}
			}
		}()
		ok, err := e.Eval([]reflect.Value{asParam(a, t)}, false)
		if err != nil {
			return -2, err.Error()
		}
		if ok {
			return 1, ""
		}
		return 0, ""
	}
	resolve := func(e arg.Expr, t reflect.Type) (pan string) {
		defer func() {
			if r := recover(); r != nil {
				pan = fmt.Sprint(r)
			}
		}()
		if err := e.Resolve([]reflect.Type{t}, false); err != nil {
			return "resolve error: " + err.Error()
		}
		return ""
	}
	resolve2 := func(e arg.Expr, t reflect.Type) (pan string) {
		defer func() {
			if r := recover(); r != nil {
				pan = "panic: " + fmt.Sprint(r)
			}
		}()
		// a one-parameter target: the two-element alternative must be rejected by Resolve, not crash
		if err := e.Resolve([]reflect.Type{t}, false); err != nil {
			return "error"
		}
		return ""
	}
	for _, g := range groups {
		for i, x := range g.vals {
			for j, a := range g.vals {
				if c.tier != "thorough" && len(g.vals) > 8 && rng.Intn(3) == 0 {
					continue
				}
				e := arg.Equals(x)
				rp := resolve(e, g.typ)
				r1, p1 := evalOnce(e, g.typ, a)
				r2, _ := evalOnce(e, g.typ, a) // purity: the same question again
				// symmetry
				e2 := arg.Equals(a)
				resolve(e2, g.typ)
				rs, _ := evalOnce(e2, g.typ, x)
				// Any
				ra, _ := evalOnce(arg.Any(), g.typ, a)
				// In(x, y) against the union of Equals, y = a neighbour value
				y := g.vals[(i+1)%len(g.vals)]
				in := arg.In(x, y)
				ip := resolve(in, g.typ)
				rin, _ := evalOnce(in, g.typ, a)
				ey := arg.Equals(y)
				resolve(ey, g.typ)
				ry, _ := evalOnce(ey, g.typ, a)
				// In with an alternative of another length first (must not stop the scan) and Any inside In
				in2 := arg.In([]interface{}{x, x}, y, []interface{}{x})
				ip2 := resolve2(in2, g.typ)
				rin2, _ := evalOnce(in2, g.typ, a)
				in3 := arg.In(y, arg.Any())
				resolve(in3, g.typ)
				rin3, _ := evalOnce(in3, g.typ, a)
				r3, _ := evalOnce(e, g.typ, a) // after all the other evaluations
				out.Put(map[string]interface{}{"kind": "pair", "group": g.name, "i": i, "j": j, "x": c18EncV(asParam(x, g.typ), 0), "a": c18EncV(asParam(a, g.typ), 0),
					"y": c18EncV(asParam(y, g.typ), 0), "eval": r1, "again": r2, "later": r3, "sym": rs, "any": ra, "in": rin, "in_len": rin2, "in_any": rin3, "eq_y": ry, "ref": goRef(x, a),
					"panic": p1, "resolve": rp + ip, "resolve_len": ip2, "dom": c18SameDyn(x, a) && c18SameDyn(y, a), "fx": c18Fmt(x), "fa": c18Fmt(a), "num": c18IsNum(x) && c18IsNum(a)})
			}
		}
	}
	// ---- variadic expansion: the same call evaluated by several clauses must see the same arguments every time
	for k := 0; k < 200; k++ {
		nfix, nvar := rng.Intn(3), rng.Intn(4)
		var input []reflect.Value
		for i := 0; i < nfix; i++ {
			input = append(input, reflect.ValueOf(100+i))
		}
		tail := make([]int, nvar)
		for i := range tail {
			tail[i] = 7 + i
		}
		input = append(input, reflect.ValueOf(tail))
		snap := make([]string, len(input))
		for i, v := range input {
			snap[i] = fmt.Sprint(v.Interface())
		}
		render := func(vs []reflect.Value) string {
			var ps []string
			for _, v := range vs {
				ps = append(ps, fmt.Sprint(v.Interface()))
			}
			return strings.Join(ps, ",")
		}
		var r1, r2, pan string
		func() {
			defer func() {
				if e := recover(); e != nil {
					pan = trunc(fmt.Sprint(e), 80)
				}
			}()
			r1 = render(arg.ExpandVariadic(input))
			r2 = render(arg.ExpandVariadic(input))
		}()
		unchanged := true
		for i, v := range input {
			if fmt.Sprint(v.Interface()) != snap[i] {
				unchanged = false
			}
		}
		var want []string
		for i := 0; i < nfix; i++ {
			want = append(want, fmt.Sprint(100+i))
		}
		for _, t := range tail {
			want = append(want, fmt.Sprint(t))
		}
		out.Put(map[string]interface{}{"kind": "expand", "nfix": nfix, "nvar": nvar, "first": r1, "second": r2, "want": strings.Join(want, ","), "input_unchanged": unchanged, "panic": pan})
	}
	return 0
}
