package main

import (
	"bytes"
	"crypto/sha1"
	"fmt"
	"io"
	"reflect"

	mocker "github.com/tencent/goom"
	"github.com/tencent/goom/erro"
	"github.com/tencent/goom/internal/iface"
	"github.com/tencent/goom/internal/proxy"
	"github.com/tencent/goom/verifharness/hxlib"
	"github.com/tencent/goom/verifharness/zoo/fnzoo"
)

func init() { register("c13", c13) }

// C13Iface is mocked through Interface().
type C13Iface interface {
	Get(a int) int
	Put(s string, n int) int
}

var c13Var C13Iface

type c13Impl struct{}

func (c13Impl) Get(a int) int           { return a }
func (c13Impl) Put(s string, n int) int { return n }

type c13Case struct {
	Chained  bool // the mistake follows a VALID instruction in the same chain (the target is legitimately mocked by then)
	Class    string
	Name     string
	Target   string // which zoo target the mistake is aimed at ("" = none)
	WantType string // typed cause expected in the chain ("" = any panic/error is fine)
	Run      func(b *mocker.Builder)
}

func chainOf(e interface{}) []string {
	var out []string
	err, ok := e.(error)
	if !ok {
		return []string{fmt.Sprintf("panic(%T)", e)}
	}
	for i := 0; err != nil && i < 10; i++ {
		out = append(out, fmt.Sprintf("%T", err))
		err = erro.Cause(err)
	}
	return out
}

func c13(args []string) int {
	c, _ := parseCommon("c13", args)
	_ = hxlib.NewRng(c.seed)
	out := hxlib.NewOut(c.out)
	defer out.Close()
	lo, hi := textBounds()
	text := rawView(lo, int(hi-lo))
	hash := func() string { h := sha1.New(); io.Copy(h, bytes.NewReader(text)); return fmt.Sprintf("%x", h.Sum(nil)) }
	tt := &fnzoo.T{K: 1}
	probe := map[string]func() int{
		"F1": func() int { return fnzoo.F1(2) }, "F2": func() int { return fnzoo.F2("a", 2) }, "F2R": func() int { r, _ := fnzoo.F2R(2); return r },
		"FV": func() int { return fnzoo.FV(2, "x") }, "T.M": func() int { return tt.M(2) }, "G1": func() int { return fnzoo.G1(2) },
		"FS": func() int { return fnzoo.FS(2).A*10 + fnzoo.FS(2).B }, "FP": func() int {
			if fnzoo.FP(2) == nil {
				return -55
			}
			return 777
		}, "FSP": func() int { r, _, _ := fnzoo.FSP(2); return r },
		// the interface variable is nil before each case: untouched means still nil (reported as the original's answer)
		"I.Get": func() int {
			if c13Var == nil {
				return 2
			}
			return c13Var.Get(2)
		}, "I.Put": func() int {
			if c13Var == nil {
				return 5
			}
			return c13Var.Put("s", 5)
		},
	}
	orig := map[string]int{"F1": -1002, "F2": -2003, "F2R": -6002, "FV": -3012, "T.M": -7003, "G1": -1102, "FS": 19, "FP": -55, "FSP": -1, "I.Get": 2, "I.Put": 5}
	ph := fnzoo.PH1
	var cases []c13Case
	add := func(class, name, target, want string, run func(b *mocker.Builder)) {
		cases = append(cases, c13Case{false, class, name, target, want, run})
	}
	// --- callback whose parameter/result count or sizes do not fit (every position)
	add("callback-arg-count", "F1 fewer", "F1", "", func(b *mocker.Builder) { b.Func(fnzoo.F1).Apply(func() int { return 1 }) })
	add("callback-arg-count", "F1 more", "F1", "", func(b *mocker.Builder) { b.Func(fnzoo.F1).Apply(func(a, c int) int { return 1 }) })
	add("callback-arg-count", "F2 fewer", "F2", "", func(b *mocker.Builder) { b.Func(fnzoo.F2).Apply(func(s string) int { return 1 }) })
	add("callback-arg-count", "T.M without receiver", "T.M", "", func(b *mocker.Builder) { b.Struct(&fnzoo.T{}).Method("M").Apply(func(a int) int { return 1 }) })
	add("callback-result-count", "F1 none", "F1", "", func(b *mocker.Builder) { b.Func(fnzoo.F1).Apply(func(a int) {}) })
	add("callback-result-count", "F2R one", "F2R", "", func(b *mocker.Builder) { b.Func(fnzoo.F2R).Apply(func(a int) int { return 1 }) })
	add("callback-result-count", "F1 two", "F1", "", func(b *mocker.Builder) { b.Func(fnzoo.F1).Apply(func(a int) (int, int) { return 1, 2 }) })
	add("callback-arg-size", "F1 int32", "F1", "", func(b *mocker.Builder) { b.Func(fnzoo.F1).Apply(func(a int32) int { return 1 }) })
	add("callback-arg-size", "F1 string", "F1", "", func(b *mocker.Builder) { b.Func(fnzoo.F1).Apply(func(a string) int { return 1 }) })
	add("callback-arg-size", "F2 pos0", "F2", "", func(b *mocker.Builder) { b.Func(fnzoo.F2).Apply(func(s int, n int) int { return 1 }) })
	add("callback-arg-size", "F2 pos1", "F2", "", func(b *mocker.Builder) { b.Func(fnzoo.F2).Apply(func(s string, n int8) int { return 1 }) })
	add("callback-arg-size", "T.M pos1", "T.M", "", func(b *mocker.Builder) { b.Struct(&fnzoo.T{}).Method("M").Apply(func(t *fnzoo.T, a [2]int) int { return 1 }) })
	// variadic targets: the variadic slot is a slice header (24 bytes) and must be compared like every other slot
	add("callback-arg-size", "FV last string", "FV", "", func(b *mocker.Builder) { b.Func(fnzoo.FV).Apply(func(a int, s string) int { return 1 }) })
	add("callback-arg-size", "FV last int", "FV", "", func(b *mocker.Builder) { b.Func(fnzoo.FV).Apply(func(a int, s int) int { return 1 }) })
	add("callback-arg-size", "FV pos0 int8", "FV", "", func(b *mocker.Builder) { b.Func(fnzoo.FV).Apply(func(a int8, s ...string) int { return 1 }) })
	add("callback-arg-count", "FV only fixed", "FV", "", func(b *mocker.Builder) { b.Func(fnzoo.FV).Apply(func(a int) int { return 1 }) })
	add("callback-arg-size", "T.MV last int", "T.M", "", func(b *mocker.Builder) { b.Struct(&fnzoo.T{}).Method("MV").Apply(func(t *fnzoo.T, a int, r int) int { return 1 }) })
	add("callback-result-size", "F1 int16", "F1", "", func(b *mocker.Builder) { b.Func(fnzoo.F1).Apply(func(a int) int16 { return 1 }) })
	add("callback-result-size", "F2R pos1", "F2R", "", func(b *mocker.Builder) { b.Func(fnzoo.F2R).Apply(func(a int) (int, int) { return 1, 2 }) })
	add("callback-result-size", "F2R pos0", "F2R", "", func(b *mocker.Builder) { b.Func(fnzoo.F2R).Apply(func(a int) (string, string) { return "", "" }) })
	add("callback-not-func", "F1 int", "F1", "", func(b *mocker.Builder) { b.Func(fnzoo.F1).Apply(42) })
	// --- the same mistakes with an origin placeholder configured: the placeholder must stay untouched too
	add("callback-arg-count+origin", "F1 fewer", "F1", "", func(b *mocker.Builder) { b.Func(fnzoo.F1).Origin(&ph).Apply(func() int { return 1 }) })
	add("callback-arg-size+origin", "G1 string", "G1", "", func(b *mocker.Builder) { b.Func(fnzoo.G1).Origin(&ph).Apply(func(a string) int { return 1 }) })
	add("callback-result-count+origin", "G1 none", "G1", "", func(b *mocker.Builder) { b.Func(fnzoo.G1).Origin(&ph).Apply(func(a int) {}) })
	// --- too few condition arguments
	add("when-too-few-args", "F2 one", "F2", "*erro.ArgsNotMatch", func(b *mocker.Builder) { b.Func(fnzoo.F2).When("a").Return(1) })
	add("when-too-few-args", "F2 zero", "F2", "*erro.ArgsNotMatch", func(b *mocker.Builder) { b.Func(fnzoo.F2).When().Return(1) })
	add("when-too-few-args", "F1 zero", "F1", "*erro.ArgsNotMatch", func(b *mocker.Builder) { b.Func(fnzoo.F1).When().Return(1) })
	add("when-too-few-args", "T.M zero", "T.M", "*erro.ArgsNotMatch", func(b *mocker.Builder) { b.Struct(&fnzoo.T{}).Method("M").When().Return(1) })
	add("when-too-few-args", "F2 after default", "F2", "", func(b *mocker.Builder) { b.Func(fnzoo.F2).Return(1).When("a").Return(2) })
	// variadic targets: the FIXED parameters must be given, in a first When and in a chained one alike
	add("when-too-few-args", "FV zero", "FV", "", func(b *mocker.Builder) { b.Func(fnzoo.FV).When().Return(1) })
	add("when-too-few-args", "FV after default zero", "FV", "", func(b *mocker.Builder) { b.Func(fnzoo.FV).Return(1).When().Return(2) })
	add("when-too-few-args", "T.MV after default zero", "T.M", "", func(b *mocker.Builder) { b.Struct(&fnzoo.T{}).Method("MV").Return(1).When().Return(2) })
	// --- too few return values
	add("return-too-few", "F2R one", "F2R", "*erro.ReturnsNotMatch", func(b *mocker.Builder) { b.Func(fnzoo.F2R).Return(1) })
	add("return-too-few", "F2R zero", "F2R", "*erro.ReturnsNotMatch", func(b *mocker.Builder) { b.Func(fnzoo.F2R).Return() })
	add("return-too-few", "F1 zero", "F1", "*erro.ReturnsNotMatch", func(b *mocker.Builder) { b.Func(fnzoo.F1).Return() })
	add("return-too-few", "T.M zero", "T.M", "*erro.ReturnsNotMatch", func(b *mocker.Builder) { b.Struct(&fnzoo.T{}).Method("M").Return() })
	add("return-too-few", "F2R AndReturn one", "F2R", "", func(b *mocker.Builder) { b.Func(fnzoo.F2R).Return(1, "a").AndReturn(2) })
	add("return-too-few", "F1 When..Return zero", "F1", "", func(b *mocker.Builder) { b.Func(fnzoo.F1).When(1).Return() })
	// --- a return value whose size does not fit
	add("return-size", "F1 int32", "F1", "", func(b *mocker.Builder) { b.Func(fnzoo.F1).Return(int32(5)) })
	add("return-size", "F1 string", "F1", "", func(b *mocker.Builder) { b.Func(fnzoo.F1).Return("x") })
	add("return-size", "F2R pos1", "F2R", "", func(b *mocker.Builder) { b.Func(fnzoo.F2R).Return(1, 2) })
	add("return-size", "F2R pos0", "F2R", "", func(b *mocker.Builder) { b.Func(fnzoo.F2R).Return(int8(1), "a") })
	add("return-size", "F1 in When", "F1", "", func(b *mocker.Builder) { b.Func(fnzoo.F1).Return(1).When(2).Return(int16(3)) })
	type s8 struct{ A int }
	type s64 struct{ A [8]int }
	type s24 struct{ X, Y, Z int } // same layout as fnzoo.S3: a legitimate stand-in, must be ACCEPTED
	add("return-size", "FS struct8", "FS", "", func(b *mocker.Builder) { b.Func(fnzoo.FS).Return(s8{1}) })
	add("return-size", "FS struct64", "FS", "", func(b *mocker.Builder) { b.Func(fnzoo.FS).Return(s64{}) })
	add("return-size", "FS int", "FS", "", func(b *mocker.Builder) { b.Func(fnzoo.FS).Return(7) })
	add("return-size", "FP int32", "FP", "", func(b *mocker.Builder) { b.Func(fnzoo.FP).Return(int32(1)) })
	add("return-size", "FP struct24", "FP", "", func(b *mocker.Builder) { b.Func(fnzoo.FP).Return(s24{}) })
	add("return-size", "FSP pos1 struct8", "FSP", "", func(b *mocker.Builder) { b.Func(fnzoo.FSP).Return(1, s8{}, (*fnzoo.T)(nil)) })
	add("return-size", "FSP pos2 int16", "FSP", "", func(b *mocker.Builder) { b.Func(fnzoo.FSP).Return(1, fnzoo.S3{}, int16(3)) })
	// --- the same return mistakes given through Returns(v1..vn) on a fresh mocker (its own code path per mocker kind)
	add("return-size", "F1 Returns string", "F1", "", func(b *mocker.Builder) { b.Func(fnzoo.F1).Returns(1, "x") })
	add("return-size", "F1 Returns first int32", "F1", "", func(b *mocker.Builder) { b.Func(fnzoo.F1).Returns(int32(5), 6) })
	add("return-too-few", "F2R Returns one each", "F2R", "", func(b *mocker.Builder) { b.Func(fnzoo.F2R).Returns(1, 2) })
	add("return-too-few", "F2R Returns short tuple", "F2R", "", func(b *mocker.Builder) {
		b.Func(fnzoo.F2R).Returns([]interface{}{1, "a"}, []interface{}{2})
	})
	add("return-size", "T.M Returns string", "T.M", "", func(b *mocker.Builder) { b.Struct(&fnzoo.T{}).Method("M").Returns(1, "x") })
	add("return-size", "T.M Returns int8", "T.M", "", func(b *mocker.Builder) { b.Struct(&fnzoo.T{}).Method("M").Returns(int8(1)) })
	add("when-arg-size", "F1 string", "F1", "", func(b *mocker.Builder) { b.Func(fnzoo.F1).When("x").Return(1) })
	add("when-arg-size", "F2 pos1 int8", "F2", "", func(b *mocker.Builder) { b.Func(fnzoo.F2).When("a", int8(1)).Return(1) })
	// --- unknown method / symbol, non-function target
	add("unknown-method", "T.Nope", "", "", func(b *mocker.Builder) { b.Struct(&fnzoo.T{}).Method("Nope").Return(1) })
	add("unknown-method", "T empty", "", "", func(b *mocker.Builder) { b.Struct(&fnzoo.T{}).Method("").Return(1) })
	add("unknown-method", "T.m (prefix)", "", "", func(b *mocker.Builder) { b.Struct(&fnzoo.T{}).Method("M3").Return(1) })
	add("unknown-symbol", "ExportFunc nope", "", "", func(b *mocker.Builder) { b.ExportFunc("noSuchFunction").Apply(func() {}) })
	add("unknown-symbol", "ExportFunc near miss", "", "", func(b *mocker.Builder) {
		b.Pkg("github.com/tencent/goom/verifharness/zoo/fnzoo").ExportFunc("F").Apply(func(a int) int { return 1 })
	})
	add("unknown-symbol", "ExportStruct method nope", "", "", func(b *mocker.Builder) {
		b.Pkg("github.com/tencent/goom/verifharness/zoo/fnzoo").ExportStruct("*T").Method("nope").Apply(func(t *fnzoo.T) {})
	})
	add("non-function-target", "Func(42)", "", "", func(b *mocker.Builder) { b.Func(42).Return(1) })
	add("non-function-target", "Func(string)", "", "", func(b *mocker.Builder) { b.Func("F1").Apply(func() {}) })
	add("non-function-target", "Func(nil func)", "", "", func(b *mocker.Builder) { var f func(int) int; b.Func(f).Return(1) })
	// --- Interface() misuse
	add("interface-non-pointer", "value", "", "", func(b *mocker.Builder) {
		b.Interface(c13Impl{}).Method("Get").Apply(func(ctx *mocker.IContext, a int) int { return 1 })
	})
	add("interface-non-pointer", "proxy.Interface(value)", "", "*erro.IllegalParamType", func(b *mocker.Builder) {
		if err := proxy.Interface(c13Impl{}, iface.NewContext(), "Get", func(ctx *mocker.IContext, a int) int { return 1 }, nil); err != nil {
			panic(err)
		}
	})
	add("interface-non-interface", "proxy.Interface(*int)", "", "*erro.IllegalParamType", func(b *mocker.Builder) {
		x := 1
		if err := proxy.Interface(&x, iface.NewContext(), "Get", func(ctx *mocker.IContext, a int) int { return 1 }, nil); err != nil {
			panic(err)
		}
	})
	add("interface-as-too-few-args", "proxy.Interface(Put missing n)", "", "*erro.ArgsNotMatch", func(b *mocker.Builder) {
		if err := proxy.Interface(&c13Var, iface.NewContext(), "Put", func(ctx *mocker.IContext, s string) int { return 1 }, nil); err != nil {
			panic(err)
		}
	})
	// --- interface callbacks whose shape does not fit the method (the first parameter is the *IContext)
	add("callback-arg-count", "I.Get one more", "I.Get", "", func(b *mocker.Builder) {
		b.Interface(&c13Var).Method("Get").Apply(func(ctx *mocker.IContext, a int, extra int) int { return 1 })
	})
	add("callback-arg-count", "I.Put one more", "I.Put", "", func(b *mocker.Builder) {
		b.Interface(&c13Var).Method("Put").Apply(func(ctx *mocker.IContext, s string, n int, extra string) int { return 1 })
	})
	add("callback-result-count", "I.Get two results", "I.Get", "", func(b *mocker.Builder) {
		b.Interface(&c13Var).Method("Get").Apply(func(ctx *mocker.IContext, a int) (int, int) { return 1, 2 })
	})
	add("callback-result-count", "I.Get no result", "I.Get", "", func(b *mocker.Builder) {
		b.Interface(&c13Var).Method("Get").Apply(func(ctx *mocker.IContext, a int) {})
	})
	add("callback-arg-size", "I.Get string", "I.Get", "", func(b *mocker.Builder) {
		b.Interface(&c13Var).Method("Get").Apply(func(ctx *mocker.IContext, a string) int { return 1 })
	})
	add("callback-result-size", "I.Get int8", "I.Get", "", func(b *mocker.Builder) {
		b.Interface(&c13Var).Method("Get").Apply(func(ctx *mocker.IContext, a int) int8 { return 1 })
	})
	add("unknown-method", "I.Nope", "I.Get", "", func(b *mocker.Builder) {
		b.Interface(&c13Var).Method("Nope").Apply(func(ctx *mocker.IContext, a int) int { return 1 })
	})
	add("interface-non-interface", "*int", "", "", func(b *mocker.Builder) {
		x := 1
		b.Interface(&x).Method("Get").Apply(func(ctx *mocker.IContext, a int) int { return 1 })
	})
	add("interface-as-too-few-args", "Put missing n", "", "*erro.ArgsNotMatch", func(b *mocker.Builder) {
		b.Interface(&c13Var).Method("Put").As(func(ctx *mocker.IContext, s string) int { return 0 }).Return(1)
	})
	add("interface-as-too-few-args", "Get no ctx", "", "", func(b *mocker.Builder) {
		b.Interface(&c13Var).Method("Get").Apply(func(a int) int { return 0 })
	})
	add("interface-unknown-method", "Nope", "", "", func(b *mocker.Builder) {
		b.Interface(&c13Var).Method("Nope").Apply(func(ctx *mocker.IContext) {})
	})

	pristineHash := hash()
	for _, premocked := range []bool{false, true} {
		for i := range cases {
			cs := &cases[i]
			if premocked && (cs.Target == "" || cs.Target == "I.Get" || cs.Target == "I.Put") {
				continue
			}
			pre := mocker.Create()
			before := pristineHash
			if premocked {
				// the target already carries a VALID mock of another builder: the rejected call must not disturb it
				switch cs.Target {
				case "F1":
					pre.Func(fnzoo.F1).Return(777)
				case "F2":
					pre.Func(fnzoo.F2).Return(777)
				case "F2R":
					pre.Func(fnzoo.F2R).Return(777, "s")
				case "FV":
					pre.Func(fnzoo.FV).Return(777)
				case "T.M":
					pre.Struct(&fnzoo.T{}).Method("M").Return(777)
				case "G1":
					pre.Func(fnzoo.G1).Return(777)
				case "FS":
					pre.Func(fnzoo.FS).Return(fnzoo.S3{A: 77, B: 7})
				case "FP":
					pre.Func(fnzoo.FP).Return(&fnzoo.T{})
				case "FSP":
					pre.Func(fnzoo.FSP).Return(777, fnzoo.S3{}, nil)
				}
				before = hash()
			}
			b := mocker.Create()
			var rec interface{}
			func() {
				defer func() { rec = recover() }()
				cs.Run(b)
			}()
			after := hash()
			res := map[string]interface{}{"kind": "mistake", "chained": cs.Name == "F2 after default" || cs.Name == "FV after default zero" || cs.Name == "T.MV after default zero" || cs.Name == "F2R AndReturn one" || cs.Name == "F1 When..Return zero" || cs.Name == "F1 in When", "class": cs.Class, "name": cs.Name, "target": cs.Target, "premocked": premocked,
				"rejected": rec != nil, "image_unchanged": after == before, "want_type": cs.WantType}
			if rec != nil {
				res["chain"] = chainOf(rec)
				msg := fmt.Sprint(rec)
				if len(msg) > 140 {
					msg = msg[:140]
				}
				res["message"] = msg
			}
			if cs.Target != "" {
				v := outcome(probe[cs.Target])
				want := orig[cs.Target]
				if premocked {
					want = 777
				}
				res["behaviour_ok"] = v == want
				res["behaviour"] = v
			}
			res["iface_var_nil"] = c13Var == nil
			b.Reset()
			pre.Reset()
			c13Var = nil
			res["image_pristine_after_reset"] = func() bool {
				// the placeholder is never written by a rejected call, so the whole image must be pristine again
				return hash() == pristineHash
			}()
			out.Put(res)
		}
	}
	// ---- interface callbacks of generated shapes against proxy.Interface (correspondence with Model/Errors.iface_imp_check)
	{
		rng := hxlib.NewRng(c.seed + 77)
		pal := []reflect.Type{reflect.TypeOf(int8(0)), reflect.TypeOf(0), reflect.TypeOf(""), reflect.TypeOf([]int(nil)), reflect.TypeOf([4]int{}), reflect.TypeOf((*mocker.IContext)(nil))}
		methods := []struct {
			name string
			ins  []reflect.Type
			outs []reflect.Type
		}{{"Get", []reflect.Type{pal[1]}, []reflect.Type{pal[1]}}, {"Put", []reflect.Type{pal[2], pal[1]}, []reflect.Type{pal[1]}}}
		sizes := func(ts []reflect.Type) []int {
			o := make([]int, len(ts))
			for i, t := range ts {
				o[i] = int(t.Size())
			}
			return o
		}
		n := 400
		if c.tier == "thorough" {
			n = 6000
		}
		for k := 0; k < n; k++ {
			m := methods[rng.Intn(2)]
			var ins, outs []reflect.Type
			switch rng.Intn(4) {
			case 0: // the exact shape, perhaps with one slot of another size
				ins = append([]reflect.Type{pal[5]}, m.ins...)
				outs = append(outs, m.outs...)
				if rng.Intn(2) == 0 {
					if j := rng.Intn(len(ins) + len(outs)); j < len(ins) {
						ins[j] = pal[rng.Intn(5)]
					} else {
						outs[j-len(ins)] = pal[rng.Intn(5)]
					}
				}
			default:
				for i, ni := 0, rng.Intn(5); i < ni; i++ {
					ins = append(ins, pal[rng.Intn(len(pal))])
				}
				for i, no := 0, rng.Intn(3); i < no; i++ {
					outs = append(outs, pal[rng.Intn(5)])
				}
			}
			ft := reflect.FuncOf(ins, outs, false)
			imp := reflect.MakeFunc(ft, func(a []reflect.Value) []reflect.Value {
				r := make([]reflect.Value, len(outs))
				for i, t := range outs {
					r[i] = reflect.Zero(t)
				}
				return r
			}).Interface()
			c13Var = c13Impl{}
			verdict := "accepted"
			func() {
				defer func() {
					if e := recover(); e != nil {
						verdict = "panic"
					}
				}()
				if err := proxy.Interface(&c13Var, iface.NewContext(), m.name, imp, nil); err != nil {
					verdict = "error"
				}
			}()
			_, untouched := c13Var.(c13Impl)
			c13Var = nil
			out.Put(map[string]interface{}{"kind": "iface-shape", "method": m.name, "m_ins": sizes(m.ins), "m_outs": sizes(m.outs), "ins": sizes(ins), "outs": sizes(outs),
				"verdict": verdict, "untouched": untouched})
		}
	}
	_ = reflect.TypeOf
	return 0
}
