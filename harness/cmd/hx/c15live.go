package main

import (
	"encoding/binary"
	"fmt"
	"reflect"
	"runtime"
	"runtime/debug"
	"syscall"
	"unsafe"

	mocker "github.com/tencent/goom"
	"github.com/tencent/goom/internal/bytecode/stub"
	"github.com/tencent/goom/internal/iface"
	"github.com/tencent/goom/internal/patch"
	"github.com/tencent/goom/internal/unexports2"
	"github.com/tencent/goom/verifharness/hxlib"
	"github.com/tencent/goom/verifharness/zoo/fnzoo"
)

// C15, end to end: the jumps goom really INSTALLS (not only what the encoders return for an address) must transfer control
// to the requested function value with the context register pointing at it:
//   - function entries: the MOVABS immediate found at the patched entry is the funcval of the LATEST replacement, also when
//     the target is patched again with another closure of the same function literal (same code pointer, other context),
//     with and without an origin placeholder;
//   - interface stubs: a call through the mocked interface variable reaches the callback with its captured context, both
//     when the stub lives in a fresh mapping (far from the destination) and when the kernel refuses new mappings and the
//     stub is taken from the in-text reserve (near the destination).

type c15LiveI interface{ Get(a int) int }
type c15LiveImpl struct{}

//go:noinline
func (c15LiveImpl) Get(a int) int { return -8800 - a }

var c15LiveV c15LiveI = c15LiveImpl{}

func c15Live(c *common, rng *hxlib.Rng, out *hxlib.Out) int {
	mkcb := func(tag int) func(int) int { return func(a int) int { return tag*1000 + a } }
	type tg struct {
		name string
		f    func(int) int
	}
	tgs := []tg{{"F1", fnzoo.F1}, {"G1", fnzoo.G1}, {"G2", fnzoo.G2}}
	rounds := 60
	if c.tier == "thorough" {
		rounds = 1500
	}
	ph := fnzoo.PH1
	for r := 0; r < rounds; r++ {
		t := tgs[rng.Intn(len(tgs))]
		b := mocker.Create()
		withOrigin := rng.Intn(3) == 0
		n := 2 + rng.Intn(3)
		rec := map[string]interface{}{"kind": "live-entry", "target": t.name, "origin": withOrigin, "n": n}
		bad := ""
		func() {
			defer func() {
				if e := recover(); e != nil {
					bad = "panic: " + trunc(fmt.Sprint(e), 120)
				}
			}()
			for k := 0; k < n && bad == ""; k++ {
				tag := 10 + rng.Intn(80)
				cb := mkcb(tag)
				if rng.Intn(3) == 0 {
					// a BOUND METHOD VALUE as replacement: its code (the -fm wrapper) finds the receiver through the context register
					cb = (&c15LiveObj{tag: tag}).Repl
				}
				m := b.Func(t.f)
				if withOrigin {
					m.Origin(&ph).Apply(cb)
				} else {
					m.Apply(cb)
				}
				entry := reflect.ValueOf(t.f).Pointer()
				code := rawView(entry, 13)
				// when the entry has goom's usual form the context register it loads must be the requested function value;
				// any other form is judged by what the call does (below)
				if code[0] == 0x90 && code[1] == 0x48 && code[2] == 0xBA && code[11] == 0xFF && code[12] == 0x22 {
					if imm, want := uintptr(binary.LittleEndian.Uint64(code[3:11])), funcvalPtr(cb); imm != want {
						bad = fmt.Sprintf("apply #%d: the installed MOVABS RDX loads %#x, the requested function value is %#x", k, imm, want)
						break
					}
				} else {
					rec["other_entry_form"] = fmt.Sprintf("% x", code)
				}
				out.Put(map[string]interface{}{"kind": "live-iface-about-to-call", "mode": "entry:" + t.name, "i": r, "reserve_used": false})
				out.Flush()
				if got := outcome(func() int { return t.f(5) }); got != interface{}(tag*1000+5) {
					bad = fmt.Sprintf("apply #%d: the call answers %v, the requested replacement answers %d", k, got, tag*1000+5)
				}
			}
		}()
		b.Reset()
		rec["ok"], rec["why"] = bad == "", bad
		out.Put(rec)
	}
	// ---- interface stubs, far (fresh mapping) and near (in-text reserve while new mappings are refused)
	const rlimitAS = 9
	for i := 0; i < 6; i++ {
		// (only with a fresh mapping: a whole Apply under a lowered address-space limit can make the Go runtime itself run out
		// of memory; the reserve path is exercised on the stub maker below, which allocates next to nothing)
		mode := "mapping"
		rec := map[string]interface{}{"kind": "live-iface", "mode": mode, "i": i}
		tag := 20 + i
		cb := func(ctx *mocker.IContext, a int) int { return tag*1000 + a }
		b := mocker.Create()
		_, _, offBefore := stub.VerifHolderBounds()
		bad := ""
		func() {
			defer func() {
				if e := recover(); e != nil {
					bad = "panic: " + trunc(fmt.Sprint(e), 120)
				}
			}()
			if mode == "mapping" {
				b.Interface(&c15LiveV).Method("Get").Apply(cb)
				return
			}
			var old syscall.Rlimit
			if err := syscall.Getrlimit(rlimitAS, &old); err != nil {
				rec["skipped"] = "getrlimit: " + err.Error()
				return
			}
			im := b.Interface(&c15LiveV).Method("Get")
			runtime.GC()
			gcp := debug.SetGCPercent(-1)
			low := old
			low.Cur = 4096
			if e := syscall.Setrlimit(rlimitAS, &low); e != nil {
				rec["skipped"] = "setrlimit: " + e.Error()
			} else {
				func() {
					defer syscall.Setrlimit(rlimitAS, &old)
					im.Apply(cb)
				}()
			}
			debug.SetGCPercent(gcp)
		}()
		_, _, offAfter := stub.VerifHolderBounds()
		rec["reserve_used"] = offAfter != offBefore
		if bad == "" && rec["skipped"] == nil {
			out.Put(map[string]interface{}{"kind": "live-iface-about-to-call", "mode": mode, "i": i, "reserve_used": rec["reserve_used"]})
			out.Flush()
			o := outcome(func() int { return c15LiveV.Get(7) })
			if v, ok := o.(int); !ok || v != tag*1000+7 {
				bad = fmt.Sprintf("the call through the mocked interface answers %v, the requested callback answers %d", o, tag*1000+7)
			}
		}
		b.Reset()
		if o := outcome(func() int { return c15LiveV.Get(7) }); o != interface{}(-8807) && bad == "" {
			bad = fmt.Sprintf("after Reset the variable answers %v", o)
		}
		rec["ok"], rec["why"] = bad == "", bad
		out.Put(rec)
	}
	// ---- the stub maker itself with a LEAF closure as destination (no stack-check prologue: landing anywhere but on its first
	// byte, or with another context register, is visible), stub far (fresh mapping) and near (in-text reserve)
	for i := 0; i < 8; i++ {
		mode := "mapping"
		if i%2 == 1 {
			mode = "reserve"
		}
		tag := 40 + i
		leaf := func(a int) int { return tag*1000 + a }
		fv := funcvalPtr(leaf)
		to := reflect.ValueOf(leaf).Pointer()
		rec := map[string]interface{}{"kind": "live-stub", "mode": mode, "i": i}
		_, _, offBefore := stub.VerifHolderBounds()
		var addr uintptr
		var err error
		if mode == "mapping" {
			addr, err = iface.MakeMethodCallerWithCtx(unsafe.Pointer(fv), to)
		} else {
			var old syscall.Rlimit
			if e := syscall.Getrlimit(rlimitAS, &old); e != nil {
				rec["skipped"] = "getrlimit: " + e.Error()
			} else {
				runtime.GC()
				gcp := debug.SetGCPercent(-1)
				low := old
				low.Cur = 4096
				if e := syscall.Setrlimit(rlimitAS, &low); e != nil {
					rec["skipped"] = "setrlimit: " + e.Error()
				} else {
					addr, err = iface.MakeMethodCallerWithCtx(unsafe.Pointer(fv), to)
					syscall.Setrlimit(rlimitAS, &old)
				}
				debug.SetGCPercent(gcp)
			}
		}
		_, _, offAfter := stub.VerifHolderBounds()
		rec["reserve_used"] = offAfter != offBefore
		bad := ""
		if rec["skipped"] == nil {
			if err != nil {
				bad = "MakeMethodCallerWithCtx: " + err.Error()
			} else {
				out.Put(map[string]interface{}{"kind": "live-iface-about-to-call", "mode": mode, "i": 100 + i, "reserve_used": rec["reserve_used"]})
				out.Flush()
				fn := unexports2.NewFuncWithCodePtr(reflect.TypeOf(leaf), addr).Interface().(func(int) int)
				if o := outcome(func() int { return fn(7) }); o != interface{}(tag*1000+7) {
					bad = fmt.Sprintf("the call through the stub answers %v, the requested function value answers %d", o, tag*1000+7)
				}
			}
		}
		runtime.KeepAlive(leaf)
		rec["ok"], rec["why"] = bad == "", bad
		out.Put(rec)
	}
	// ---- the trampoline return in its FAR form, executed: the sequence is placed in a fresh mapping (more than 2 GiB away
	// from the text) with a code address of the text as destination
	for i := 0; i < 3; i++ {
		rec := map[string]interface{}{"kind": "live-stub", "mode": "far-origin-jump", "i": 200 + i}
		to := reflect.ValueOf(c15LiveLeaf).Pointer()
		sp, err := stub.Acquire(32)
		bad := ""
		if err != nil {
			bad = "Acquire: " + err.Error()
		} else {
			code := patch.VerifJmpToOriginFunctionValue(sp.Addr, to)
			rec["far"], rec["len"] = !patch.VerifRelative(sp.Addr, to), len(code)
			buf := make([]byte, 32)
			for j := range buf {
				buf[j] = 0xCC
			}
			copy(buf, code)
			if e := stub.Write(sp, buf); e != nil {
				bad = "Write: " + e.Error()
			} else {
				out.Put(map[string]interface{}{"kind": "live-iface-about-to-call", "mode": "far-origin-jump", "i": 200 + i, "reserve_used": false})
				out.Flush()
				fn := unexports2.NewFuncWithCodePtr(reflect.TypeOf(c15LiveLeaf), sp.Addr).Interface().(func(int) int)
				if o := outcome(func() int { return fn(i) }); o != interface{}(i+4242) {
					bad = fmt.Sprintf("the call through the far trampoline return answers %v, the destination answers %d", o, i+4242)
				}
			}
		}
		rec["reserve_used"] = false
		rec["ok"], rec["why"] = bad == "", bad
		out.Put(rec)
	}
	return 0
}

//go:noinline
func c15LiveLeaf(a int) int { return a + 4242 }

type c15LiveObj struct{ tag int }

//go:noinline
func (o *c15LiveObj) Repl(a int) int { return o.tag*1000 + a }
