package main

import (
	"sort"
	"sync"
	"sync/atomic"

	mocker "github.com/tencent/goom"
	"github.com/tencent/goom/verifharness/hxlib"
	"github.com/tencent/goom/verifharness/zoo/fnzoo"
)

type concCall struct {
	start, end int64
	idx        int
}

// stubConc: G goroutines call one stub that carries a result sequence; stamps come from one atomic ticket counter
// taken immediately before and after each call, so end(a) < start(b) implies a completed before b started.
func stubConc(c *common, rng *hxlib.Rng, out *hxlib.Out) int {
	rounds := 200
	if c.tier == "thorough" {
		rounds = 5000
	}
	if c.n > 0 {
		rounds = c.n
	}
	for r := 0; r < rounds; r++ {
		n := 2 + rng.Intn(30)
		if r%5 == 0 {
			n = 2 + rng.Intn(3)
		}
		g := []int{2, 4, 8, 16}[rng.Intn(4)]
		per := 1 + (n*2)/g + rng.Intn(6)
		b := mocker.Create()
		vs := make([]interface{}, n)
		for i := range vs {
			vs[i] = 100 + i
		}
		form := rng.Intn(3)
		switch form {
		case 0:
			b.Func(fnzoo.F1).Returns(vs...)
		case 1:
			w := b.Func(fnzoo.F1).Return(vs[0])
			for _, v := range vs[1:] {
				w = w.AndReturn(v)
			}
		default: // sequence on a condition
			b.Func(fnzoo.F1).Return(-5).When(7).Returns(vs...)
		}
		var ticket int64
		var start int32
		calls := make([][]concCall, g)
		bad := int32(0)
		var wg sync.WaitGroup
		for t := 0; t < g; t++ {
			wg.Add(1)
			go func(t int) {
				defer wg.Done()
				defer func() {
					if e := recover(); e != nil {
						atomic.AddInt32(&bad, 1)
					}
				}()
				for atomic.LoadInt32(&start) == 0 {
				}
				for i := 0; i < per; i++ {
					s := atomic.AddInt64(&ticket, 1)
					v := fnzoo.F1(7)
					e := atomic.AddInt64(&ticket, 1)
					calls[t] = append(calls[t], concCall{s, e, v - 100})
				}
			}(t)
		}
		atomic.StoreInt32(&start, 1)
		wg.Wait()
		// one more call after quiescence must see the last element iff the sequence was exhausted
		final := fnzoo.F1(7) - 100
		b.Reset()
		var all []concCall
		for _, cs := range calls {
			all = append(all, cs...)
		}
		outOfRange, backwards, unsticky := 0, 0, 0
		var first interface{}
		for _, cl := range all {
			if cl.idx < 0 || cl.idx >= n {
				outOfRange++
				if first == nil {
					first = map[string]interface{}{"why": "out of range", "idx": cl.idx, "n": n}
				}
			}
		}
		byEnd := append([]concCall{}, all...)
		sort.Slice(byEnd, func(i, j int) bool { return byEnd[i].end < byEnd[j].end })
		byStart := append([]concCall{}, all...)
		sort.Slice(byStart, func(i, j int) bool { return byStart[i].start < byStart[j].start })
		maxIdx, k := -1, 0
		for _, bcall := range byStart {
			for k < len(byEnd) && byEnd[k].end < bcall.start {
				if byEnd[k].idx > maxIdx {
					maxIdx = byEnd[k].idx
				}
				k++
			}
			if maxIdx >= 0 && bcall.idx < maxIdx {
				backwards++
				if first == nil {
					first = map[string]interface{}{"why": "position went backwards", "earlier_idx": maxIdx, "later_idx": bcall.idx, "n": n}
				}
			}
			if maxIdx == n-1 && bcall.idx != n-1 {
				unsticky++
			}
		}
		// per goroutine the sequence of positions must be non-decreasing (a goroutine's calls are sequential)
		for _, cs := range calls {
			for i := 1; i < len(cs); i++ {
				if cs[i].idx < cs[i-1].idx {
					backwards++
					if first == nil {
						first = map[string]interface{}{"why": "one goroutine saw positions go backwards", "earlier_idx": cs[i-1].idx, "later_idx": cs[i].idx, "n": n}
					}
				}
			}
		}
		exhausted := false
		for _, cl := range all {
			if cl.idx == n-1 {
				exhausted = true
			}
		}
		finalBad := exhausted && final != n-1
		out.Put(map[string]interface{}{"kind": "conc", "n": n, "g": g, "per": per, "form": form, "calls": len(all), "panics": bad,
			"out_of_range": outOfRange, "backwards": backwards, "unsticky": unsticky, "final_bad": finalBad, "first": first})
	}
	return 0
}

func stubC12(c *common, rng *hxlib.Rng, out *hxlib.Out) int { return 0 }
