package main

import (
	"encoding/json"
	"fmt"
	"os"
	"sort"
	"sync"
	"sync/atomic"

	mocker "github.com/tencent/goom"
	"github.com/tencent/goom/verifharness/hxlib"
	"github.com/tencent/goom/verifharness/zoo/fnzoo"
)

type concCall struct {
	start, end int64
	idx        int
}

// stubConc: G goroutines call one stub that carries a result sequence; stamps come from one atomic ticket counter
// taken immediately before and after each call, so end(a) < start(b) implies a completed before b started.
func stubConc(c *common, rng *hxlib.Rng, out *hxlib.Out) int {
	rounds := 200
	if c.tier == "thorough" {
		rounds = 5000
	}
	if c.n > 0 {
		rounds = c.n
	}
	for r := 0; r < rounds; r++ {
		n := 2 + rng.Intn(30)
		if r%5 == 0 {
			n = 2 + rng.Intn(3)
		}
		g := []int{2, 4, 8, 16}[rng.Intn(4)]
		per := 1 + (n*2)/g + rng.Intn(6)
		b := mocker.Create()
		vs := make([]interface{}, n)
		for i := range vs {
			vs[i] = 100 + i
		}
		form := rng.Intn(4)
		if form == 3 {
			// a two-result target: every element is a pair (k, "s<k>"), so a tuple mixed from two elements is visible;
			// long sequences keep the cursor moving while the goroutines overlap
			n = 200 + rng.Intn(1800)
			per = 1 + (n*2)/g + rng.Intn(6)
			vs = make([]interface{}, n)
			for i := range vs {
				vs[i] = []interface{}{100 + i, fmt.Sprint("s", 100+i)}
			}
		}
		call := func() int { return fnzoo.F1(7) }
		if form == 3 {
			call = func() int {
				r, s := fnzoo.F2R(7)
				if s != fmt.Sprint("s", r) {
					return 1 << 30 // not an element of the sequence
				}
				return r
			}
		}
		switch form {
		case 3:
			b.Func(fnzoo.F2R).Returns(vs...)
		case 0:
			b.Func(fnzoo.F1).Returns(vs...)
		case 1:
			w := b.Func(fnzoo.F1).Return(vs[0])
			for _, v := range vs[1:] {
				w = w.AndReturn(v)
			}
		default: // sequence on a condition
			b.Func(fnzoo.F1).Return(-5).When(7).Returns(vs...)
		}
		var ticket int64
		var start int32
		calls := make([][]concCall, g)
		bad := int32(0)
		var wg sync.WaitGroup
		for t := 0; t < g; t++ {
			wg.Add(1)
			go func(t int) {
				defer wg.Done()
				defer func() {
					if e := recover(); e != nil {
						atomic.AddInt32(&bad, 1)
					}
				}()
				for atomic.LoadInt32(&start) == 0 {
				}
				for i := 0; i < per; i++ {
					s := atomic.AddInt64(&ticket, 1)
					v := call()
					e := atomic.AddInt64(&ticket, 1)
					calls[t] = append(calls[t], concCall{s, e, v - 100})
				}
			}(t)
		}
		atomic.StoreInt32(&start, 1)
		wg.Wait()
		// one more call after quiescence must see the last element iff the sequence was exhausted
		final := call() - 100
		b.Reset()
		var all []concCall
		for _, cs := range calls {
			all = append(all, cs...)
		}
		outOfRange, backwards, unsticky := 0, 0, 0
		var first interface{}
		for _, cl := range all {
			if cl.idx < 0 || cl.idx >= n {
				outOfRange++
				if first == nil {
					first = map[string]interface{}{"why": "out of range", "idx": cl.idx, "n": n}
				}
			}
		}
		byEnd := append([]concCall{}, all...)
		sort.Slice(byEnd, func(i, j int) bool { return byEnd[i].end < byEnd[j].end })
		byStart := append([]concCall{}, all...)
		sort.Slice(byStart, func(i, j int) bool { return byStart[i].start < byStart[j].start })
		maxIdx, k := -1, 0
		for _, bcall := range byStart {
			for k < len(byEnd) && byEnd[k].end < bcall.start {
				if byEnd[k].idx > maxIdx {
					maxIdx = byEnd[k].idx
				}
				k++
			}
			if maxIdx >= 0 && bcall.idx < maxIdx {
				backwards++
				if first == nil {
					first = map[string]interface{}{"why": "position went backwards", "earlier_idx": maxIdx, "later_idx": bcall.idx, "n": n}
				}
			}
			if maxIdx == n-1 && bcall.idx != n-1 {
				unsticky++
			}
		}
		// per goroutine the sequence of positions must be non-decreasing (a goroutine's calls are sequential)
		for _, cs := range calls {
			for i := 1; i < len(cs); i++ {
				if cs[i].idx < cs[i-1].idx {
					backwards++
					if first == nil {
						first = map[string]interface{}{"why": "one goroutine saw positions go backwards", "earlier_idx": cs[i-1].idx, "later_idx": cs[i].idx, "n": n}
					}
				}
			}
		}
		exhausted := false
		for _, cl := range all {
			if cl.idx == n-1 {
				exhausted = true
			}
		}
		finalBad := exhausted && final != n-1
		out.Put(map[string]interface{}{"kind": "conc", "n": n, "g": g, "per": per, "form": form, "calls": len(all), "panics": bad,
			"out_of_range": outOfRange, "backwards": backwards, "unsticky": unsticky, "final_bad": finalBad, "first": first})
	}
	return 0
}

type c12Op struct {
	K int `json:"k"` // 0 Lookup(b,t) 1 Apply(h,k) 2 Return(h,r) 3 When(h,v,r) 4 Cancel(h) 5 Reset(b) 6 Pkg(b,p) 7 VarLookup(b) 8 refused Apply(h)
	A int `json:"a"`
	B int `json:"b"`
	C int `json:"c"`
}

var c12Dummy int

// an interface variable as a C12 target: Interface(&v).Method("M"), configured through As(func literal) where the literal
// is written anew in every chain (goom's documented idiom), so consecutive chains pass DIFFERENT function values
type c12Iface interface {
	M(a int) int
	N(a int) int
}
type c12Real struct{}

//go:noinline
func (c12Real) M(a int) int { return -7700 - a }

//go:noinline
func (c12Real) N(a int) int { return -7800 - a }

var c12IV c12Iface = c12Real{}

type c12IM struct {
	im mocker.InterfaceMocker
	n  int
}

func (u *c12IM) as() mocker.InterfaceMocker {
	u.n++
	if u.n%2 == 0 {
		return u.im.As(func(ctx *mocker.IContext, a int) int { return 0 })
	}
	return u.im.As(func(ctx *mocker.IContext, a int) int { return 1 })
}
func (u *c12IM) Apply(cb interface{}) {
	f := cb.(func(a int) int)
	u.im.Apply(func(ctx *mocker.IContext, a int) int { return f(a) })
}
func (u *c12IM) Cancel()                                    { u.im.Cancel() }
func (u *c12IM) Canceled() bool                             { return u.im.Canceled() }
func (u *c12IM) String() string                             { return u.im.String() }
func (u *c12IM) When(a ...interface{}) *mocker.When         { return u.as().When(a...) }
func (u *c12IM) Return(v ...interface{}) *mocker.When       { return u.as().Return(v...) }
func (u *c12IM) Returns(v ...interface{}) *mocker.When      { return u.as().Returns(v...) }
func (u *c12IM) Origin(o interface{}) mocker.ExportedMocker { return u }

var c12AdaptersI = map[mocker.InterfaceMocker]*c12IM{}

func c12AdaptI(im mocker.InterfaceMocker) mocker.ExportedMocker {
	if a, ok := c12AdaptersI[im]; ok {
		return a
	}
	a := &c12IM{im: im}
	c12AdaptersI[im] = a
	return a
}

var c12AdaptersF = map[mocker.UnExportedMocker]*c02UM{}

// c12AdaptF: as c02Adapt, for an unexported function of type func(int) int
func c12AdaptF(um mocker.UnExportedMocker) mocker.ExportedMocker {
	if a, ok := c12AdaptersF[um]; ok {
		return a
	}
	a := &c02UM{um, func(a int) int { return 0 }, false}
	c12AdaptersF[um] = a
	return a
}

// stubC12: mocker-level histories on 4 targets, probes of every target with arguments 0,1,2 after every step.
func stubC12(c *common, rng *hxlib.Rng, out *hxlib.Out) int {
	n := 500
	if c.tier == "thorough" {
		n = 10000
	}
	if c.n > 0 {
		n = c.n
	}
	type tgt struct {
		mk     func(b *mocker.Builder) mocker.ExportedMocker
		call   func(a int) int
		cb     func(k int) interface{}
		orig   int
		noWhen bool // generic instantiation: conditions on arguments are the subject of known finding F06a, not of C12
	}
	tt := &fnzoo.T{K: 1}
	tgts := []tgt{
		{func(b *mocker.Builder) mocker.ExportedMocker { return b.Func(fnzoo.F1) }, fnzoo.F1, func(k int) interface{} { return func(a int) int { return 500 + k } }, -1000, false},
		{func(b *mocker.Builder) mocker.ExportedMocker { return b.Func(fnzoo.G1) }, fnzoo.G1, func(k int) interface{} { return func(a int) int { return 500 + k } }, -1100, false},
		{func(b *mocker.Builder) mocker.ExportedMocker { return b.Struct(&fnzoo.T{}).Method("M2") }, tt.M2, func(k int) interface{} { return func(_ *fnzoo.T, a int) int { return 500 + k } }, -7501, false},
		{func(b *mocker.Builder) mocker.ExportedMocker { return b.Struct(&fnzoo.T{}).Method("M") }, tt.M, func(k int) interface{} { return func(_ *fnzoo.T, a int) int { return 500 + k } }, -7001, false},
		// an UNEXPORTED method of the same struct and an unexported function, looked up by name
		{func(b *mocker.Builder) mocker.ExportedMocker {
			return c02Adapt(b.Struct(&fnzoo.T{}).ExportMethod("um1"))
		}, tt.CallUm1, func(k int) interface{} { return func(_ *fnzoo.T, a int) int { return 500 + k } }, -7201, false},
		{func(b *mocker.Builder) mocker.ExportedMocker {
			return c12AdaptF(b.Pkg("github.com/tencent/goom/verifharness/zoo/fnzoo").ExportFunc("uf1"))
		}, fnzoo.CallUf1, func(k int) interface{} { return func(a int) int { return 500 + k } }, -7400, false},
		// two instantiations of a generic function whose Go types are identical
		{func(b *mocker.Builder) mocker.ExportedMocker { return b.Func(fnzoo.GK[int]) }, fnzoo.GK[int], func(k int) interface{} { return func(a int) int { return 500 + k } }, -7600, true},
		{func(b *mocker.Builder) mocker.ExportedMocker { return b.Func(fnzoo.GK[string]) }, fnzoo.GK[string], func(k int) interface{} { return func(a int) int { return 500 + k } }, -7600, true},
		// a method of an interface variable
		{func(b *mocker.Builder) mocker.ExportedMocker { return c12AdaptI(b.Interface(&c12IV).Method("M")) }, func(a int) int { return c12IV.M(a) },
			func(k int) interface{} { return func(a int) int { return 500 + k } }, -7700, false},
		// a SECOND method of the same interface variable (both methods live in one shared context)
		{func(b *mocker.Builder) mocker.ExportedMocker { return c12AdaptI(b.Interface(&c12IV).Method("N")) }, func(a int) int { return c12IV.N(a) },
			func(k int) interface{} { return func(a int) int { return 500 + k } }, -7800, false},
	}
	pkgs := []string{"github.com/tencent/goom/test", "some/other/pkg", "x"}
	// journal: every operation is written (unbuffered) BEFORE it is executed and probed, so that a fatal crash
	// of the process (stack overflow, SIGSEGV) leaves the failing history on disk
	journal, _ := os.Create(c.out + ".journal")
	defer journal.Close()
	for h := 0; h < n; h++ {
		journal.WriteString("H\n")
		nb := 1 + rng.Intn(2)
		builders := make([]*mocker.Builder, nb)
		for i := range builders {
			builders[i] = mocker.Create()
		}
		owner := make([]int, len(tgts)) // each target is used through one builder only
		for i := range owner {
			owner[i] = rng.Intn(nb)
		}
		owner[3] = owner[2] // the methods of one struct go through the same builder (shared struct-level cache)
		owner[4] = owner[2]
		owner[9] = owner[8] // the methods of one interface variable go through the same builder (one context per builder and variable)
		var handles []mocker.ExportedMocker
		var htgt []int
		var hstale []bool
		latest := make([]int, len(tgts))
		for i := range latest {
			latest[i] = -1
		}
		var ops []c12Op
		var probes [][]interface{}
		var pkgobs [][]int
		var panics []string
		steps := 4 + rng.Intn(20)
		nextR := 100
		for st := 0; st < steps; st++ {
			var op c12Op
			// handles that may be used: those whose mocker is still the current mocker of its target
			// (a handle of a mocker that was cancelled AND superseded by a newer lookup is stale: outside the property)
			var live []int
			for hi := range handles {
				if l := latest[htgt[hi]]; l >= 0 && handles[hi] == handles[l] {
					live = append(live, hi)
				}
			}
			switch k := rng.Intn(21); {
			case k == 20 && len(live) > 0:
				// an Apply goom must refuse (callback of the wrong shape) through a live handle of a target whose Apply checks the
				// shape: exported functions / methods and the interface methods (name-addressed mockers carry no type)
				op = c12Op{K: 8, A: live[rng.Intn(len(live))]}
				if t := htgt[op.A]; !(t <= 3 || t == 8 || t == 9) {
					op = c12Op{K: 2, A: op.A, B: nextR}
					nextR++
				}
			case len(live) == 0 || k < 4:
				t := rng.Intn(len(tgts))
				op = c12Op{K: 0, A: owner[t], B: t}
			case k < 8:
				op = c12Op{K: 1, A: live[rng.Intn(len(live))], B: rng.Intn(5)}
			case k < 12:
				op = c12Op{K: 2, A: live[rng.Intn(len(live))], B: nextR}
				nextR++
			case k < 15:
				op = c12Op{K: 3, A: live[rng.Intn(len(live))], B: rng.Intn(3), C: nextR}
				if tgts[htgt[op.A]].noWhen {
					op = c12Op{K: 2, A: op.A, B: nextR}
				}
				nextR++
			case k < 17:
				op = c12Op{K: 4, A: live[rng.Intn(len(live))]}
				// Cancel of an interface-method mocker cancels the context shared by every method of that variable (goom's
				// documented granularity): issue it only while the sibling method was never looked up in this history
				if t := htgt[op.A]; (t == 8 && latest[9] >= 0) || (t == 9 && latest[8] >= 0) {
					op = c12Op{K: 2, A: op.A, B: nextR}
					nextR++
				}
			case k < 18:
				op = c12Op{K: 5, A: rng.Intn(nb)}
			case k < 19:
				op = c12Op{K: 6, A: rng.Intn(nb), B: rng.Intn(len(pkgs))}
			default:
				op = c12Op{K: 7, A: rng.Intn(nb)}
			}
			jb, _ := json.Marshal(op)
			journal.Write(append(jb, '\n'))
			pan := ""
			func() {
				defer func() {
					if e := recover(); e != nil {
						pan = hxlib.PanicClass(e)
					}
				}()
				switch op.K {
				case 0:
					m := tgts[op.B].mk(builders[op.A])
					handles = append(handles, m)
					htgt = append(htgt, op.B)
					hstale = append(hstale, false)
					latest[op.B] = len(handles) - 1
					// the two interface methods share ONE cache entry per builder (the variable): a lookup of either method after a
					// Cancel/Reset supersedes the cancelled mocker of BOTH, so the sibling's old handle is stale from here on
					if op.B == 8 || op.B == 9 {
						if sib := 17 - op.B; latest[sib] >= 0 && handles[latest[sib]].Canceled() {
							latest[sib] = -1
						}
					}
				case 8:
					if im, ok := handles[op.A].(*c12IM); ok {
						im.im.Apply(func(ctx *mocker.IContext, a int, extra int) int { return 0 })
					} else {
						handles[op.A].Apply(func() {})
					}
				case 1:
					handles[op.A].Apply(tgts[htgt[op.A]].cb(op.B))
				case 2:
					handles[op.A].Return(op.B)
				case 3:
					handles[op.A].When(op.B).Return(op.C)
				case 4:
					handles[op.A].Cancel()
				case 5:
					builders[op.A].Reset()
				case 6:
					builders[op.A].Pkg(pkgs[op.B])
				case 7:
					builders[op.A].Var(&c12Dummy)
				}
			}()
			ops = append(ops, op)
			panics = append(panics, pan)
			var row []interface{}
			for ti := range tgts {
				for a := 0; a < 3; a++ {
					t := &tgts[ti]
					o := outcome(func() int { return t.call(a) })
					if v, ok := o.(int); ok && v == t.orig-a {
						o = "Original"
					} else if ok && v >= 500 && v < 600 {
						o = "CB" + string(rune('0'+v-500))
					}
					row = append(row, o)
				}
			}
			probes = append(probes, row)
			pk := make([]int, nb)
			for i, b := range builders {
				pk[i] = -1
				for j, p := range pkgs {
					if b.PkgName() == p {
						pk[i] = j
					}
				}
			}
			pkgobs = append(pkgobs, pk)
		}
		for _, b := range builders {
			b.Reset()
		}
		out.Put(map[string]interface{}{"kind": "hist", "nb": nb, "ops": ops, "probes": probes, "pkg": pkgobs, "panics": panics})
	}
	return 0
}
