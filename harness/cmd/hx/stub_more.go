package main

import "github.com/tencent/goom/verifharness/hxlib"

func stubC12(c *common, rng *hxlib.Rng, out *hxlib.Out) int { return 0 }
func stubConc(c *common, rng *hxlib.Rng, out *hxlib.Out) int { return 0 }
