package main

import (
	"fmt"
	"strings"

	mocker "github.com/tencent/goom"
	"github.com/tencent/goom/verifharness/hxlib"
	dupa "github.com/tencent/goom/verifharness/zoo/dupa/dup"
	dupb "github.com/tencent/goom/verifharness/zoo/dupb/dup"
	mz "github.com/tencent/goom/verifharness/zoo/methzoo"
)

func init() { register("c06", c06) }

const c06Pkg = "github.com/tencent/goom/verifharness/zoo/methzoo"

type c06Target struct {
	name    string
	method  int   // the method number in methzoo.Call that is mocked
	alsoHit []int // other method numbers that legitimately share the code (same GC shape)
	apply   func(b *mocker.Builder, seen *[]int)
	wantTag int // > 0: the replacement that must answer (the callback's tag), for targets that are applied more than once
}

// fake stand-ins for the unexported struct type (identical layout)
type c06FakeC struct{ K int }

func c06Targets() []c06Target {
	cbA := func(seen *[]int, tag int) func(a *mz.A, x int) int {
		return func(a *mz.A, x int) int { *seen = append(*seen, a.K); return tag*100000 + a.K*100 + x }
	}
	cbAV := func(seen *[]int, tag int) func(a mz.A, x int) int {
		return func(a mz.A, x int) int { *seen = append(*seen, a.K); return tag*100000 + a.K*100 + x }
	}
	cbB := func(seen *[]int, tag int) func(a *mz.B, x int) int {
		return func(a *mz.B, x int) int { *seen = append(*seen, a.K); return tag*100000 + a.K*100 + x }
	}
	cbBV := func(seen *[]int, tag int) func(a mz.B, x int) int {
		return func(a mz.B, x int) int { *seen = append(*seen, a.K); return tag*100000 + a.K*100 + x }
	}
	cbC := func(seen *[]int, tag int) func(a *c06FakeC, x int) int {
		return func(a *c06FakeC, x int) int { *seen = append(*seen, a.K); return tag*100000 + a.K*100 + x }
	}
	return []c06Target{
		{"Struct(&A).Method(Get)", 0, nil, func(b *mocker.Builder, s *[]int) { b.Struct(&mz.A{}).Method("Get").Apply(cbA(s, 1)) }, 0},
		{"Struct(&A).Method(GetMore)", 1, nil, func(b *mocker.Builder, s *[]int) { b.Struct(&mz.A{}).Method("GetMore").Apply(cbA(s, 2)) }, 0},
		{"Struct(&A).Method(G)", 2, nil, func(b *mocker.Builder, s *[]int) { b.Struct(&mz.A{}).Method("G").Apply(cbA(s, 3)) }, 0},
		{"Struct(&A).ExportMethod(get)", 3, nil, func(b *mocker.Builder, s *[]int) { b.Struct(&mz.A{}).ExportMethod("get").Apply(cbA(s, 4)) }, 0},
		{"Struct(&A).ExportMethod(getMore)", 4, nil, func(b *mocker.Builder, s *[]int) { b.Struct(&mz.A{}).ExportMethod("getMore").Apply(cbA(s, 5)) }, 0},
		{"Struct(A{}).Method(Val)", 5, []int{21}, func(b *mocker.Builder, s *[]int) { b.Struct(mz.A{}).Method("Val").Apply(cbAV(s, 6)) }, 0},
		{"Struct(A{}).Method(ValMore)", 6, nil, func(b *mocker.Builder, s *[]int) { b.Struct(mz.A{}).Method("ValMore").Apply(cbAV(s, 7)) }, 0},
		{"Struct(A{}).ExportMethod(val)", 7, nil, func(b *mocker.Builder, s *[]int) { b.Struct(mz.A{}).ExportMethod("val").Apply(cbAV(s, 8)) }, 0},
		{"Struct(&B).Method(Get)", 8, nil, func(b *mocker.Builder, s *[]int) { b.Struct(&mz.B{}).Method("Get").Apply(cbB(s, 9)) }, 0},
		{"Struct(B{}).Method(Val)", 9, nil, func(b *mocker.Builder, s *[]int) { b.Struct(mz.B{}).Method("Val").Apply(cbBV(s, 10)) }, 0},
		{"Struct(&B).ExportMethod(get)", 10, nil, func(b *mocker.Builder, s *[]int) { b.Struct(&mz.B{}).ExportMethod("get").Apply(cbB(s, 11)) }, 0},
		{"Pkg.ExportStruct(*c).Method(Run)", 11, nil, func(b *mocker.Builder, s *[]int) { b.Pkg(c06Pkg).ExportStruct("*c").Method("Run").Apply(cbC(s, 12)) }, 0},
		{"Pkg.ExportStruct(*c).Method(run)", 12, nil, func(b *mocker.Builder, s *[]int) { b.Pkg(c06Pkg).ExportStruct("*c").Method("run").Apply(cbC(s, 13)) }, 0},
		{"Pkg.ExportFunc((*A).get)", 3, nil, func(b *mocker.Builder, s *[]int) { b.Pkg(c06Pkg).ExportFunc("(*A).get").Apply(cbA(s, 14)) }, 0},
		// names ending in f / m beside their prefixes; a method value (runtime name (*A).Getf-fm)
		{"Struct(&A).ExportMethod(getf)", 25, nil, func(b *mocker.Builder, s *[]int) { b.Struct(&mz.A{}).ExportMethod("getf").Apply(cbA(s, 15)) }, 0},
		{"Struct(&A).ExportMethod(getf).As.Return", 25, nil, func(b *mocker.Builder, s *[]int) {
			b.Struct(&mz.A{}).ExportMethod("getf").As(func(a *mz.A, x int) int { return 0 }).Return(-2300000)
		}, 0},
		{"Func((&A{}).Getf).Return", 26, nil, func(b *mocker.Builder, s *[]int) { b.Func((&mz.A{}).Getf).Return(-2400000) }, 0},
		// the same method mocked again while it is still mocked, with another closure of the SAME function literal
		{"Struct(&A).Method(GetMore) twice", 1, nil, func(b *mocker.Builder, s *[]int) {
			b.Struct(&mz.A{}).Method("GetMore").Apply(cbA(s, 20))
			b.Struct(&mz.A{}).Method("GetMore").Apply(cbA(s, 21))
		}, 21},
		{"Struct(&B).ExportMethod(get) twice", 10, nil, func(b *mocker.Builder, s *[]int) {
			b.Struct(&mz.B{}).ExportMethod("get").Apply(cbB(s, 22))
			b.Struct(&mz.B{}).ExportMethod("get").Apply(cbB(s, 23))
		}, 23},
		// generic methods: stubbed results (no arguments involved) to observe WHICH instantiations are affected ...
		{"Struct(&G[int]).Method(Id).Return", 14, []int{15}, func(b *mocker.Builder, s *[]int) { b.Struct(&mz.G[int]{}).Method("Id").Return(-1500000) }, 0},
		{"Struct(&G[string]).Method(Id).Return", 16, nil, func(b *mocker.Builder, s *[]int) { b.Struct(&mz.G[string]{}).Method("Id").Return(-1600000) }, 0},
		{"Struct(&G[*A]).Method(Id).Return", 17, []int{18}, func(b *mocker.Builder, s *[]int) { b.Struct(&mz.G[*mz.A]{}).Method("Id").Return(-1700000) }, 0},
		{"Struct(&G[int]).Method(Other).Return", 19, nil, func(b *mocker.Builder, s *[]int) { b.Struct(&mz.G[int]{}).Method("Other").Return(-1800000) }, 0},
		{"Struct(G[int]{}).Method(ValId).Return", 22, []int{24}, func(b *mocker.Builder, s *[]int) { b.Struct(mz.G[int]{}).Method("ValId").Return(-1900000) }, 0},
		{"Struct(G[string]{}).Method(ValId).Return", 23, nil, func(b *mocker.Builder, s *[]int) { b.Struct(mz.G[string]{}).Method("ValId").Return(-2000000) }, 0},
		// stubs (As + Return) on unexported methods of one struct
		{"Struct(&A).ExportMethod(get).As.Return", 3, nil, func(b *mocker.Builder, s *[]int) {
			b.Struct(&mz.A{}).ExportMethod("get").As(func(a *mz.A, x int) int { return 0 }).Return(-2100000)
		}, 0},
		{"Struct(&A).ExportMethod(getMore).As.Return", 4, nil, func(b *mocker.Builder, s *[]int) {
			b.Struct(&mz.A{}).ExportMethod("getMore").As(func(a *mz.A, x int) int { return 0 }).Return(-2200000)
		}, 0},
		// an unexported method of an instantiated generic type, addressed by name through its GC-shape symbol (that symbol IS the
		// body); its first call goes to the sibling scale, which must stay untouched
		{"Pkg.ExportStruct(*G[go.shape.string]).Method(weight).As.Return", 27, nil, func(b *mocker.Builder, s *[]int) {
			b.Pkg(c06Pkg).ExportStruct("*G[go.shape.string]").Method("weight").As(func(g *mz.G[string], x int) int { return 0 }).Return(-2500000)
		}, 0},
		{"Pkg.ExportStruct(*G[go.shape.string]).Method(weight).Apply(const)", 27, nil, func(b *mocker.Builder, s *[]int) {
			b.Pkg(c06Pkg).ExportStruct("*G[go.shape.string]").Method("weight").Apply(func(g *mz.G[string], x int) int { return -2600000 })
		}, 0},
		// two struct types whose package NAME and type name coincide ("dup.T") but which live in different packages
		{"Struct(&dupa/dup.T).Method(Get)", 30, nil, func(b *mocker.Builder, s *[]int) {
			b.Struct(&dupa.T{}).Method("Get").Apply(func(t *dupa.T, x int) int { *s = append(*s, t.K); return 30*100000 + t.K*100 + x })
		}, 0},
		{"Struct(&dupb/dup.T).Method(Get)", 31, nil, func(b *mocker.Builder, s *[]int) {
			b.Struct(&dupb.T{}).Method("Get").Apply(func(t *dupb.T, x int) int { *s = append(*s, t.K); return 31*100000 + t.K*100 + x })
		}, 0},
		// a VALUE-receiver unexported method addressed through the pointer form of its type: the symbol (*A).val does not
		// exist (no wrapper is generated), so goom may refuse; if it accepts, the callback must still see the receiver
		{"Struct(&A).ExportMethod(val) [may be refused]", 7, nil, func(b *mocker.Builder, s *[]int) { b.Struct(&mz.A{}).ExportMethod("val").Apply(cbA(s, 16)) }, -1},
		{"Pkg.ExportStruct(*A).Method(val) [may be refused]", 7, nil, func(b *mocker.Builder, s *[]int) { b.Pkg(c06Pkg).ExportStruct("*A").Method("val").Apply(cbA(s, 17)) }, -1},
		// ... and a callback, which must see the receiver as its first argument
		{"Struct(&G[string]).Method(Other).Apply", 20, nil, func(b *mocker.Builder, s *[]int) {
			b.Struct(&mz.G[string]{}).Method("Other").Apply(func(g *mz.G[string], x int) int { *s = append(*s, g.K); return 19*100000 + g.K*100 + x })
		}, 0},
	}
}

func c06(args []string) int {
	c, _ := parseCommon("c06", args)
	rng := hxlib.NewRng(c.seed)
	out := hxlib.NewOut(c.out)
	defer out.Close()
	if c.extra == "inner" {
		return c06Inner(c, rng, out)
	}
	tg := c06Targets()
	nm := len(mz.Names)
	out.Put(map[string]interface{}{"kind": "zoo", "names": mz.Names, "consts": mz.Consts})
	probe := func() [][3]int { // (method, k, result) for several instances of every method
		var rs [][3]int
		for m := 0; m < nm; m++ {
			for _, k := range []int{1, 7} {
				x := rng.Intn(50)
				rs = append(rs, [3]int{m, k*1000 + x, mz.Call(m, k, x)})
			}
		}
		return rs
	}
	nsc := 40
	if c.tier == "thorough" {
		nsc = 400
	}
	if c.n > 0 {
		nsc = c.n
	}
	// plan: every target alone, every ordered pair of targets whose names mention the same type, then random sets
	var plan [][]int
	for i := range tg {
		plan = append(plan, []int{i})
	}
	typeOf := func(n string) string {
		for _, t := range []string{"G[", "&A", "A{", "(*A)", "&B", "B{", "*c", "dup.T"} {
			if strings.Contains(n, t) {
				return t[len(t)-2:]
			}
		}
		return n
	}
	for i := range tg {
		for j := range tg {
			if i != j && tg[i].method != tg[j].method && (c.tier == "thorough" || typeOf(tg[i].name) == typeOf(tg[j].name)) {
				plan = append(plan, []int{i, j})
			}
		}
	}
	for sc := 0; sc < nsc+len(plan); sc++ {
		// a scenario mocks 1-3 distinct targets through one builder, probes, resets, probes
		b := mocker.Create()
		cnt := 1 + rng.Intn(3)
		var chosen []int
		used := map[int]bool{}
		var forced []int
		if sc < len(plan) {
			forced = plan[sc]
			cnt = len(forced)
		}
		rec := map[string]interface{}{"kind": "scn", "sc": sc}
		var seen []int
		pan := ""
		for len(chosen) < cnt {
			t := rng.Intn(len(tg))
			if forced != nil {
				t = forced[len(chosen)]
			}
			if used[tg[t].method] {
				continue
			}
			used[tg[t].method] = true
			chosen = append(chosen, t)
			func() {
				defer func() {
					if e := recover(); e != nil {
						pan = tg[t].name + ": " + trunc(fmt.Sprint(e), 120)
					}
				}()
				tg[t].apply(b, &seen)
			}()
			if pan != "" {
				break
			}
		}
		var names []string
		var methods []int
		var also [][]int
		var wantTags []int
		for _, t := range chosen {
			names = append(names, tg[t].name)
			methods = append(methods, tg[t].method)
			also = append(also, tg[t].alsoHit)
			wantTags = append(wantTags, tg[t].wantTag)
		}
		rec["want_tags"] = wantTags
		rec["targets"], rec["methods"], rec["also"], rec["apply_panic"] = names, methods, also, pan
		out.Put(map[string]interface{}{"kind": "about-to-probe", "sc": sc, "targets": names})
		out.Flush()
		if pan == "" {
			seen = nil
			rec["during"] = probe()
			rec["receivers_seen"] = append([]int{}, seen...)
		}
		func() {
			defer func() {
				if e := recover(); e != nil {
					rec["reset_panic"] = trunc(fmt.Sprint(e), 100)
				}
			}()
			b.Reset()
		}()
		rec["after"] = probe()
		out.Put(rec)
		out.Flush()
	}
	return 0
}
