package main

import (
	"reflect"

	mocker "github.com/tencent/goom"
	"github.com/tencent/goom/verifharness/hxlib"
	"github.com/tencent/goom/verifharness/zoo/varzoo"
)

func init() { register("c08", c08) }

// op kinds: 0 Lookup(b,v) -> new handle; 1 Set(h,val); 2 Apply(h,val); 3 Cancel(h); 4 Reset(b); 5 direct write (slot,val)
type c08Op struct {
	K int `json:"k"`
	A int `json:"a"`
	B int `json:"b"`
}

func c08(args []string) int {
	c, _ := parseCommon("c08", args)
	rng := hxlib.NewRng(c.seed)
	out := hxlib.NewOut(c.out)
	defer out.Close()
	if c.extra == "ue-iface" {
		return c08UeIface(c, out)
	}
	zoo := varzoo.Zoo()
	n := 400
	if c.tier == "thorough" {
		n = 10000
	}
	if c.n > 0 {
		n = c.n
	}
	canon := func(v *varzoo.Var, i int) int {
		for j := 0; j <= i; j++ {
			if v.Same(v.Vals[i], v.Vals[j]) {
				return j
			}
		}
		return i
	}
	observe := func(v *varzoo.Var) int {
		cur := v.Read()
		idx := -1
		for j := range v.Vals {
			if v.Same(cur, v.Vals[j]) {
				idx = j
				break
			}
		}
		if v.ReadCopy != nil && !v.Same(cur, v.ReadCopy()) {
			return -2
		}
		return idx
	}
	for h := 0; h < n; h++ {
		varzoo.ResetAll()
		nb := 1 + rng.Intn(3)
		builders := make([]*mocker.Builder, nb)
		for i := range builders {
			builders[i] = mocker.Create()
		}
		// choose variables; each variable is owned by one builder in this history
		nv := 1 + rng.Intn(5)
		perm := make([]int, len(zoo))
		for i := range perm {
			perm[i] = i
		}
		for i := range perm {
			j := i + rng.Intn(len(perm)-i)
			perm[i], perm[j] = perm[j], perm[i]
		}
		vars := perm[:nv]
		owner := make([]int, nv)
		for i := range owner {
			owner[i] = rng.Intn(nb)
		}
		var handles []mocker.VarMock
		var hvar []int // handle -> var slot
		var ops []c08Op
		var obs [][]int
		var panics []string
		structured := rng.Intn(10) < 7
		steps := 4 + rng.Intn(22)
		// structured: per variable  Lookup; (Set|Apply)^n; (Cancel|Reset)^m , interleaved across variables
		type plan struct{ ops []c08Op }
		var queue []c08Op
		if structured {
			plans := make([][]c08Op, nv)
			for s := 0; s < nv; s++ {
				var p []c08Op
				if zoo[vars[s]].Ptr != nil && rng.Intn(3) == 0 { // the program assigns the variable itself before mocking
					p = append(p, c08Op{K: 5, A: s, B: 1 + rng.Intn(3)})
				}
				p = append(p, c08Op{K: 0, A: owner[s], B: s})
				for i, k := 0, rng.Intn(5); i < k; i++ {
					p = append(p, c08Op{K: 1 + rng.Intn(2), A: -1 - s, B: 1 + rng.Intn(3)})
					// the idiomatic second b.Var(&x) between two Sets: asking again must continue with the SAME mocker (whatever
					// the variable holds by now), so that Reset still restores the value from before the first Set
					if rng.Intn(2) == 0 {
						p = append(p, c08Op{K: 0, A: owner[s], B: s})
					}
				}
				for i, k := 0, 1+rng.Intn(2); i < k; i++ {
					if rng.Intn(2) == 0 {
						p = append(p, c08Op{K: 3, A: -1 - s})
					} else {
						p = append(p, c08Op{K: 4, A: owner[s]})
					}
				}
				if rng.Intn(3) == 0 { // re-mock after reset
					p = append(p, c08Op{K: 0, A: owner[s], B: s}, c08Op{K: 1, A: -1 - s, B: 1 + rng.Intn(3)}, c08Op{K: 4, A: owner[s]})
				}
				if zoo[vars[s]].Ptr != nil && rng.Intn(3) == 0 { // ... and after everything was reset
					p = append(p, c08Op{K: 5, A: s, B: rng.Intn(4)}, c08Op{K: 4, A: owner[s]})
				}
				plans[s] = p
			}
			for {
				var alive []int
				for s := range plans {
					if len(plans[s]) > 0 {
						alive = append(alive, s)
					}
				}
				if len(alive) == 0 {
					break
				}
				s := alive[rng.Intn(len(alive))]
				queue = append(queue, plans[s][0])
				plans[s] = plans[s][1:]
			}
			steps = len(queue)
		}
		last := make([]int, nv) // latest handle per var slot
		for i := range last {
			last[i] = -1
		}
		for st := 0; st < steps; st++ {
			var op c08Op
			if structured {
				op = queue[st]
				if op.A < 0 && op.K != 0 && op.K != 4 { // refers to the latest handle of slot -1-A
					op.A = last[-1-op.A]
					if op.A < 0 {
						continue
					}
				}
			} else {
				switch k := rng.Intn(10); {
				case len(handles) == 0 || k < 2:
					s := rng.Intn(nv)
					op = c08Op{K: 0, A: owner[s], B: s}
				case k < 6:
					op = c08Op{K: 1 + rng.Intn(2), A: rng.Intn(len(handles)), B: rng.Intn(4)}
				case k < 8:
					op = c08Op{K: 3, A: rng.Intn(len(handles))}
				default:
					op = c08Op{K: 4, A: rng.Intn(nb)}
				}
			}
			pan := ""
			func() {
				defer func() {
					if e := recover(); e != nil {
						pan = hxlib.PanicClass(e)
					}
				}()
				switch op.K {
				case 0:
					v := &zoo[vars[op.B]]
					var m mocker.VarMock
					if v.Ptr != nil {
						m = builders[op.A].Var(v.Ptr)
					} else {
						m = builders[op.A].UnExportedVar(v.Path)
					}
					handles = append(handles, m)
					hvar = append(hvar, op.B)
					last[op.B] = len(handles) - 1
				case 1, 2:
					v := &zoo[vars[hvar[op.A]]]
					op.B = canon(v, op.B)
					val := v.Vals[op.B]
					if val == nil { // an untyped nil cannot be handed to Set (outside the property's domain)
						op.B = 1
						val = v.Vals[1]
					}
					if op.K == 1 {
						handles[op.A].Set(val)
					} else {
						var t reflect.Type
						if v.Ptr != nil {
							t = reflect.TypeOf(v.Ptr).Elem()
						} else {
							t = reflect.TypeOf(val)
						}
						cb := reflect.MakeFunc(reflect.FuncOf(nil, []reflect.Type{t}, false), func([]reflect.Value) []reflect.Value {
							r := reflect.New(t).Elem()
							r.Set(reflect.ValueOf(val))
							return []reflect.Value{r}
						})
						handles[op.A].Apply(cb.Interface())
					}
				case 5:
					v := &zoo[vars[op.A]]
					op.B = canon(v, op.B)
					val := v.Vals[op.B]
					t := reflect.TypeOf(v.Ptr).Elem()
					r := reflect.New(t).Elem()
					if val != nil {
						r.Set(reflect.ValueOf(val))
					}
					reflect.ValueOf(v.Ptr).Elem().Set(r)
				case 3:
					handles[op.A].Cancel()
				case 4:
					builders[op.A].Reset()
				}
			}()
			ops = append(ops, op)
			panics = append(panics, pan)
			row := make([]int, nv)
			for s := 0; s < nv; s++ {
				row[s] = observe(&zoo[vars[s]])
			}
			obs = append(obs, row)
		}
		names := make([]string, nv)
		for s := range names {
			names[s] = zoo[vars[s]].Name
		}
		out.Put(map[string]interface{}{"kind": "hist", "vars": names, "nb": nb, "owner": owner, "ops": ops, "obs": obs, "panics": panics, "structured": structured})
	}
	varzoo.ResetAll()
	return 0
}
