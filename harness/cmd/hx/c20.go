package main

import (
	"fmt"
	"reflect"
	"runtime"
	"runtime/debug"
	"sort"
	"sync"
	"sync/atomic"
	"syscall"
	"unsafe"

	"github.com/tencent/goom/internal/bytecode/stub"
	"github.com/tencent/goom/internal/iface"
	"github.com/tencent/goom/internal/unexports2"
	"github.com/tencent/goom/verifharness/hxlib"
)

func init() { register("c20", c20) }

var c20Hits int64

//go:noinline
func c20Target(x int) int { atomic.AddInt64(&c20Hits, 1); return x + 1000 }

// callThrough writes a `MOVABS RDX,&funcval; JMP [RDX]` stub plus filler of the full requested length into s
// through stub.Write, reads it back, and calls through it.
func callThrough(s *stub.Space, n int) string {
	f := c20Target
	fv := *(*unsafe.Pointer)(unsafe.Pointer(&f)) // pointer to the funcval
	code := iface.VerifJmpWithRdx(uintptr(fv))
	if n < len(code) {
		return "" // too small to hold a stub: only write/read back
	}
	data := make([]byte, n)
	copy(data, code)
	for i := len(code); i < n; i++ {
		data[i] = 0xCC
	}
	if err := stub.Write(s, data); err != nil {
		return "write error: " + err.Error()
	}
	back := *(*[]byte)(unsafe.Pointer(&reflect.SliceHeader{Data: s.Addr, Len: n, Cap: n}))
	for i := range data {
		if back[i] != data[i] {
			return "read back differs"
		}
	}
	fn := unexports2.NewFuncWithCodePtr(reflect.TypeOf(f), s.Addr).Interface().(func(int) int)
	before := atomic.LoadInt64(&c20Hits)
	if r := fn(41); r != 1041 {
		return "call through stub returned wrong value"
	}
	if atomic.LoadInt64(&c20Hits) != before+1 {
		return "call through stub did not reach the target once"
	}
	return ""
}

func c20(args []string) int {
	c, _ := parseCommon("c20", args)
	rng := hxlib.NewRng(c.seed)
	out := hxlib.NewOut(c.out)
	defer out.Close()
	min, max, _ := stub.VerifHolderBounds()
	reserve := int(max - min)
	if c.extra == "fallback" {
		// Acquire itself with the primary path refused by the kernel: RLIMIT_AS lowered to one page for the duration of the
		// call (every NEW mapping fails with ENOMEM, as on a host that denies writable+executable mappings)
		const rlimitAS = 9
		for i, n := range []int{48, 13, 200, 12, 1000} {
			rec := map[string]interface{}{"kind": "fallback", "i": i, "n": n}
			var old syscall.Rlimit
			if err := syscall.Getrlimit(rlimitAS, &old); err != nil {
				rec["skipped"] = "getrlimit: " + err.Error()
				out.Put(rec)
				continue
			}
			runtime.GC()
			gcp := debug.SetGCPercent(-1)
			low := old
			low.Cur = 4096
			var s *stub.Space
			var err error
			if e := syscall.Setrlimit(rlimitAS, &low); e != nil {
				rec["skipped"] = "setrlimit: " + e.Error()
			} else {
				s, err = stub.Acquire(n)
				syscall.Setrlimit(rlimitAS, &old)
			}
			debug.SetGCPercent(gcp)
			if rec["skipped"] == nil {
				rec["err"] = err != nil
				if err == nil {
					rec["typ"] = stub.VerifSpaceType(s)
					rec["in_reserve"] = s.Addr >= min && s.Addr+uintptr(n) <= max
					out.Put(map[string]interface{}{"kind": "fallback-about", "i": i, "n": n, "typ": rec["typ"], "in_reserve": rec["in_reserve"]})
					out.Flush()
					rec["exec"] = callThrough(s, n)
				}
			}
			out.Put(rec)
		}
		return 0
	}

	nSeq, nRounds := 400, 300
	if c.tier == "thorough" {
		nSeq, nRounds = 4000, 20000
	}
	if c.n > 0 {
		nSeq = c.n
	}
	// ---- sequential histories on the fallback allocator
	for h := 0; h < nSeq; h++ {
		stub.VerifResetHolder()
		var sizes []int
		switch h % 6 {
		case 0: // many interface-stub sized requests up to exhaustion
			for i := 0; i < reserve/48+3; i++ {
				sizes = append(sizes, 48)
			}
		case 1:
			for i := 0; i < 5+rng.Intn(40); i++ {
				sizes = append(sizes, rng.Intn(4097))
			}
		case 2: // straddle the end, exact fit, after exhaustion
			a := rng.Intn(reserve)
			sizes = []int{a, reserve - a, 0, 1, 0}
		case 3:
			a := rng.Intn(reserve)
			sizes = []int{a, reserve - a + 1, reserve - a, 1, 0, rng.Intn(10)}
		case 4:
			for i := 0; i < 3+rng.Intn(30); i++ {
				sizes = append(sizes, []int{0, 1, 12, 13, 48, reserve, reserve + 1, reserve / 2}[rng.Intn(8)])
			}
		default:
			for i := 0; i < 10+rng.Intn(60); i++ {
				sizes = append(sizes, 1+rng.Intn(reserve/8))
			}
		}
		res := make([]int64, len(sizes))
		for i, n := range sizes {
			a, err := stub.VerifAcquireFromHolder(n)
			if err != nil {
				if stub.VerifIsOverflow(err) {
					res[i] = -1
				} else {
					res[i] = -2
				}
			} else {
				res[i] = int64(a - min)
			}
		}
		_, _, off := stub.VerifHolderBounds()
		out.Put(map[string]interface{}{"kind": "seq", "reserve": reserve, "sizes": sizes, "res": res, "final_off": int64(off - min)})
	}
	// ---- dispatch: mmap first, the reserve only when mmap fails; executability on both paths
	stub.VerifResetHolder()
	type region struct{ a, n uintptr }
	var regions []region
	for i, n := range []int{48, 0, 1, 4096, 48, 1 << 48, 100, 0, 65536, 13, 12} {
		_, _, offBefore := stub.VerifHolderBounds()
		s, err := stub.Acquire(n)
		_, _, offAfter := stub.VerifHolderBounds()
		rec := map[string]interface{}{"kind": "dispatch", "i": i, "n": n, "err": err != nil, "holder_moved": offAfter != offBefore}
		if err == nil {
			rec["typ"] = stub.VerifSpaceType(s)
			rec["in_reserve"] = s.Addr >= min && s.Addr+uintptr(n) <= max
			rec["len"] = len(*s.Space)
			why := ""
			if n > 0 && n <= 1<<20 {
				why = callThrough(s, n)
			}
			rec["exec"] = why
			for _, r := range regions {
				if s.Addr < r.a+r.n && r.a < s.Addr+uintptr(n) {
					rec["overlap"] = true
				}
			}
			regions = append(regions, region{s.Addr, uintptr(n)})
		} else {
			rec["overflow"] = stub.VerifIsOverflow(err)
		}
		out.Put(rec)
	}
	// the fallback path must hand out executable, writable space too
	for _, n := range []int{48, 12, 13, 200, 1000} {
		s, err := stub.VerifHolderSpace(n)
		rec := map[string]interface{}{"kind": "holder_exec", "n": n, "err": err != nil}
		if err == nil {
			rec["exec"] = callThrough(s, n)
		}
		out.Put(rec)
	}
	// ---- every interface-stub sized region of the reserve is written and read back (some lie across a page boundary)
	{
		stub.VerifResetHolder()
		regions, cross, badWrites := 0, 0, 0
		firstBad := ""
		page := uintptr(syscall.Getpagesize())
		for {
			s, err := stub.VerifHolderSpace(48)
			if err != nil {
				break
			}
			regions++
			if s.Addr/page != (s.Addr+47)/page {
				cross++
			}
			data := make([]byte, 48)
			for i := range data {
				data[i] = byte(0xC0 + regions%32)
			}
			why := ""
			func() {
				old := debug.SetPanicOnFault(true)
				defer debug.SetPanicOnFault(old)
				defer func() {
					if e := recover(); e != nil {
						why = "write faults: " + trunc(fmt.Sprint(e), 100)
					}
				}()
				if err := stub.Write(s, data); err != nil {
					why = "write error: " + err.Error()
					return
				}
				back := *(*[]byte)(unsafe.Pointer(&reflect.SliceHeader{Data: s.Addr, Len: 48, Cap: 48}))
				for i := range data {
					if back[i] != data[i] {
						why = "read back differs"
					}
				}
			}()
			if why != "" {
				badWrites++
				if firstBad == "" {
					firstBad = fmt.Sprintf("region %d at reserve offset %d (crosses a page: %v): %s", regions, s.Addr-min, s.Addr/page != (s.Addr+47)/page, why)
				}
			}
		}
		stub.VerifResetHolder()
		out.Put(map[string]interface{}{"kind": "reserve_sweep", "regions": regions, "cross_page": cross, "bad": badWrites, "first": firstBad})
	}
	// ---- concurrent requesters on the fallback allocator
	procs := runtime.GOMAXPROCS(0)
	for _, g := range []int{2, 4, 8, 16} {
		for _, size := range []int{1, 3, 48} {
			rounds := nRounds / 12
			if rounds < 5 {
				rounds = 5
			}
			overlaps, oob, total, errs, badErr := 0, 0, 0, 0, 0
			var first interface{}
			for r := 0; r < rounds; r++ {
				stub.VerifResetHolder()
				per := reserve/(g*size) + 2 // enough to exhaust
				if per > 400 {
					per = 400
				}
				got := make([][]uintptr, g)
				gotErr := make([]int, g)
				var start int32
				var wg sync.WaitGroup
				for t := 0; t < g; t++ {
					wg.Add(1)
					go func(t int) {
						defer wg.Done()
						for atomic.LoadInt32(&start) == 0 {
						}
						for i := 0; i < per; i++ {
							a, err := stub.VerifAcquireFromHolder(size)
							if err != nil {
								gotErr[t]++
								continue
							}
							got[t] = append(got[t], a)
						}
					}(t)
				}
				atomic.StoreInt32(&start, 1)
				wg.Wait()
				var all []uintptr
				for t := 0; t < g; t++ {
					all = append(all, got[t]...)
					errs += gotErr[t]
				}
				sort.Slice(all, func(i, j int) bool { return all[i] < all[j] })
				total += len(all)
				for i, a := range all {
					if a < min || a+uintptr(size) > max {
						oob++
						if first == nil {
							first = map[string]interface{}{"round": r, "oob_start": int64(a - min)}
						}
					}
					if i > 0 && all[i-1]+uintptr(size) > a {
						overlaps++
						if first == nil {
							first = map[string]interface{}{"round": r, "a": int64(all[i-1] - min), "b": int64(a - min), "size": size}
						}
					}
				}
				// exhaustion must be reported: granted bytes can never exceed the reserve
				if len(all)*size > reserve {
					badErr++
				}
			}
			out.Put(map[string]interface{}{"kind": "conc", "g": g, "size": size, "rounds": rounds, "procs": procs,
				"regions": total, "errors": errs, "overlaps": overlaps, "oob": oob, "overgrant": badErr, "first": first})
		}
	}
	stub.VerifResetHolder()
	return 0
}
