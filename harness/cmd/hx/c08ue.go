package main

import (
	"fmt"
	"runtime/debug"

	mocker "github.com/tencent/goom"
	"github.com/tencent/goom/verifharness/hxlib"
	"github.com/tencent/goom/verifharness/zoo/varzoo"
)

// c08UeIface: interface-typed UNEXPORTED variables ("package.name" addressing x interface types of C08's quantifier).
// Runs in its own process: a variable whose two words no longer form an interface value can fault on any read, so every
// read is fenced (SetPanicOnFault) and announced in the journal first.
func c08UeIface(c *common, out *hxlib.Out) int {
	const pkg = "github.com/tencent/goom/verifharness/zoo/varzoo"
	read := func(name string) (res string) {
		old := debug.SetPanicOnFault(true)
		defer debug.SetPanicOnFault(old)
		defer func() {
			if e := recover(); e != nil {
				res = "FAULT:" + trunc(fmt.Sprint(e), 80)
			}
		}()
		if name == "uErr" {
			v := varzoo.RdUErr()
			for i := 1; i <= 3; i++ {
				if v == varzoo.E(i) {
					return fmt.Sprintf("e%d", i)
				}
			}
			if v == nil {
				return "nil"
			}
			return "other:" + trunc(fmt.Sprintf("%T", v), 40)
		}
		v := varzoo.RdUAny()
		return trunc(fmt.Sprintf("%T:%v", v, v), 60)
	}
	type cs struct {
		name string
		val  interface{}
		want string
		orig string
	}
	cases := []cs{
		{"uErr", varzoo.E(2), "e2", "e1"},
		{"uErr", varzoo.E(3), "e3", "e1"},
		{"uAny", 43, "int:43", "int:42"},
		{"uAny", "s", "string:s", "int:42"},
	}
	for i, k := range cases {
		varzoo.ResetUIface()
		rec := map[string]interface{}{"kind": "ue-iface", "i": i, "var": k.name, "want": k.want, "orig": k.orig}
		out.Put(map[string]interface{}{"kind": "ue-iface-about", "i": i, "var": k.name})
		out.Flush()
		b := mocker.Create()
		func() {
			defer func() {
				if e := recover(); e != nil {
					rec["set_panic"] = trunc(fmt.Sprint(e), 120)
				}
			}()
			b.UnExportedVar(pkg + "." + k.name).Set(k.val)
		}()
		rec["during"] = read(k.name)
		func() {
			defer func() {
				if e := recover(); e != nil {
					rec["reset_panic"] = trunc(fmt.Sprint(e), 120)
				}
			}()
			b.Reset()
		}()
		rec["after"] = read(k.name)
		varzoo.ResetUIface()
		out.Put(rec)
		out.Flush()
	}
	return 0
}
