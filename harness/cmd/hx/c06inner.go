package main

import (
	"encoding/binary"
	"fmt"
	"syscall"

	"github.com/tencent/goom/internal/bytecode"
	"github.com/tencent/goom/internal/bytecode/memory"
	"github.com/tencent/goom/verifharness/hxlib"
	"github.com/tencent/goom/verifharness/zoo/sacrifice"
)

// c06Inner: bytecode.GetInnerFunc ("the shape body a generic instantiation wrapper calls") on synthetic wrappers written
// into the sacrificial text region. A wrapper is: optional stack check, frame set-up, register moves, then CALL rel32 to the
// body, then an epilogue; the assembler may put single-byte NOPs in front of the CALL (it keeps a CALL from straddling a
// 32-byte boundary). Expected: the address the first CALL transfers to.
func c06Inner(c *common, rng *hxlib.Rng, out *hxlib.Out) int {
	ps := uintptr(syscall.Getpagesize())
	raw := sacrifice.Addr()
	base := (raw+ps-1)&^(ps-1) + 64
	filler := [][]byte{
		{0x48, 0x83, 0xEC, 0x18},       // sub rsp,0x18
		{0x48, 0x89, 0x6C, 0x24, 0x10}, // mov [rsp+0x10],rbp
		{0x48, 0x8D, 0x6C, 0x24, 0x10}, // lea rbp,[rsp+0x10]
		{0x48, 0x89, 0xD9},             // mov rcx,rbx
		{0x48, 0x8D, 0x1D, 0x10, 0x20, 0x00, 0x00}, // lea rbx,[rip+0x2010]  (the dictionary)
		{0x31, 0xC0},                   // xor eax,eax
		{0x0F, 0x1F, 0x40, 0x00},       // nop dword [rax+0]  (multi-byte NOP)
	}
	n := 300
	if c.tier == "thorough" {
		n = 5000
	}
	bad := 0
	var first []map[string]interface{}
	kinds := map[string]int{}
	for i := 0; i < n; i++ {
		var code []byte
		for k, nf := 0, 1+rng.Intn(5); k < nf; k++ {
			code = append(code, filler[rng.Intn(len(filler))]...)
		}
		nops := 0
		switch rng.Intn(4) {
		case 0:
			nops = 1
		case 1:
			nops = 1 + rng.Intn(3)
		}
		for k := 0; k < nops; k++ {
			code = append(code, 0x90)
		}
		callAt := len(code)
		rel := int32(rng.Intn(1<<20)) - 1<<19
		if rel > -64 && rel < 256 {
			rel += 4096
		}
		code = append(code, 0xE8, 0, 0, 0, 0)
		binary.LittleEndian.PutUint32(code[callAt+1:], uint32(rel))
		code = append(code, 0x48, 0x8B, 0x6C, 0x24, 0x10, 0x48, 0x83, 0xC4, 0x18, 0xC3) // mov rbp,[rsp+0x10]; add rsp,0x18; ret
		for len(code)%16 != 0 || len(code) < callAt+24 {
			code = append(code, 0xCC)
		}
		code = append(code, 0xCC, 0xCC, 0xCC, 0xCC, 0xCC, 0xCC, 0xCC, 0xCC, 0xCC, 0xCC, 0xCC, 0xCC, 0xCC, 0xCC, 0xCC, 0xCC)
		if err := memory.WriteTo(base, code); err != nil {
			return 2
		}
		want := base + uintptr(callAt) + 5 + uintptr(int64(rel))
		got, err := bytecode.GetInnerFunc(64, base)
		kinds[fmt.Sprintf("nops_before_call=%d", nops)]++
		if err != nil || got != want {
			bad++
			if len(first) < 3 {
				first = append(first, map[string]interface{}{"code": hxlib.Hex(code[:callAt+5]), "nops_before_call": nops, "want_off": int64(want) - int64(base), "got_off": int64(got) - int64(base), "err": fmt.Sprint(err)})
			}
		}
	}
	// leave the region as it was (INT3)
	memory.WriteTo(base, make8(0xCC, 256))
	out.Put(map[string]interface{}{"kind": "inner", "cases": n, "bad": bad, "first": first, "mix": kinds})
	return 0
}
