package main

import (
	"encoding/binary"
	"fmt"
	"strconv"
	"strings"

	"github.com/tencent/goom/internal/iface"
	"github.com/tencent/goom/internal/patch"
	"github.com/tencent/goom/verifharness/genarch/ifacearm64"
	"github.com/tencent/goom/verifharness/genarch/patch386"
	"github.com/tencent/goom/verifharness/genarch/patcharm64"
	"github.com/tencent/goom/verifharness/hxlib"
	refarm "github.com/tencent/goom/verifharness/ref/arm64asm"
	refx86 "github.com/tencent/goom/verifharness/ref/x86asm"
)

func init() { register("c15", c15) }

type c15Case struct {
	Fn    string `json:"fn"`
	From  string `json:"from"`
	To    string `json:"to"`
	Bytes string `json:"bytes"`
	Rel   *bool  `json:"rel,omitempty"`
	OK    bool   `json:"ok"`
	Why   string `json:"why,omitempty"`
}

func u(s uint64) string { return strconv.FormatUint(s, 10) }

// checkAbsX86 verifies with the reference decoder that b is [NOP;] MOV RDX,imm64 ; JMP [RDX].
func checkAbsX86(b []byte, to uint64, nop bool, mode int) string {
	pos := 0
	if nop {
		in, err := refx86.Decode(b, mode)
		if err != nil || in.Op != refx86.NOP || in.Len != 1 {
			return "first instruction is not a 1-byte NOP"
		}
		pos = 1
	}
	in, err := refx86.Decode(b[pos:], mode)
	if err != nil {
		return "mov does not decode: " + err.Error()
	}
	wantReg := refx86.RDX
	wantLen := 10
	if mode == 32 {
		wantReg = refx86.EDX
		wantLen = 5
	}
	if in.Op != refx86.MOV || in.Len != wantLen {
		return fmt.Sprintf("expected MOV of length %d, got %v len %d", wantLen, in.Op, in.Len)
	}
	if r, ok := in.Args[0].(refx86.Reg); !ok || r != wantReg {
		return fmt.Sprintf("mov destination is %v", in.Args[0])
	}
	imm, ok := in.Args[1].(refx86.Imm)
	if !ok {
		return "mov source is not an immediate"
	}
	got := uint64(imm)
	if mode == 32 {
		got &= 0xffffffff
	}
	if got != to {
		return fmt.Sprintf("immediate %#x != destination %#x", got, to)
	}
	pos += in.Len
	in, err = refx86.Decode(b[pos:], mode)
	if err != nil {
		return "jmp does not decode: " + err.Error()
	}
	if in.Op != refx86.JMP || in.Len != 2 {
		return fmt.Sprintf("expected 2-byte JMP, got %v len %d", in.Op, in.Len)
	}
	m, ok := in.Args[0].(refx86.Mem)
	if !ok || m.Base != wantReg || m.Index != 0 || m.Disp != 0 || m.Segment != 0 {
		return fmt.Sprintf("jmp operand is %v", in.Args[0])
	}
	if pos+in.Len != len(b) {
		return "trailing bytes"
	}
	return ""
}

func checkOrigin(b []byte, rel bool, from, to uint64) string {
	switch len(b) {
	case 5:
		if !rel {
			return "5-byte form but relative()=false"
		}
		in, err := refx86.Decode(b, 64)
		if err != nil || in.Op != refx86.JMP || in.Len != 5 {
			return "not a 5-byte JMP rel32"
		}
		r, ok := in.Args[0].(refx86.Rel)
		if !ok {
			return "operand not relative"
		}
		land := from + 5 + uint64(int64(r))
		if land != to {
			return fmt.Sprintf("relative jump lands on %#x, wanted %#x", land, to)
		}
		return ""
	case 12:
		if rel {
			return "12-byte form but relative()=true"
		}
		// the destination of a trampoline return is a CODE address (origin + relocated length), not a function value:
		// MOVABS RDX,to ; JMP [RDX] jumps to the eight bytes STORED at to and overwrites the context register
		if checkAbsX86(b, to, false, 64) == "" {
			return "far form is MOVABS RDX,to; JMP [RDX]: control goes to the 8 bytes stored at the destination, not to the destination, and RDX is overwritten"
		}
		return "unexpected 12-byte form"
	case 14:
		if rel {
			return "14-byte form but relative()=true"
		}
		// JMP [RIP+0] followed by the destination as an inline 8-byte literal: lands on to, no register changes
		in, err := refx86.Decode(b, 64)
		if err != nil || in.Op != refx86.JMP || in.Len != 6 {
			return "not a 6-byte JMP [RIP+disp32]"
		}
		m, ok := in.Args[0].(refx86.Mem)
		if !ok || m.Base != refx86.RIP || m.Index != 0 || m.Disp != 0 || m.Segment != 0 {
			return fmt.Sprintf("jmp operand is %v", in.Args[0])
		}
		if lit := binary.LittleEndian.Uint64(b[6:14]); lit != to {
			return fmt.Sprintf("inline literal is %#x, wanted %#x", lit, to)
		}
		return ""
	}
	return fmt.Sprintf("unexpected length %d", len(b))
}

// checkA64 simulates the six words as decoded by the reference decoder.
func checkA64(b []byte, to uint64, tmp string) string {
	if len(b) != 24 {
		return fmt.Sprintf("length %d", len(b))
	}
	var x26 uint64
	for i := 0; i < 4; i++ {
		w := b[4*i : 4*i+4]
		in, err := refarm.Decode(w)
		if err != nil {
			return fmt.Sprintf("word %d does not decode", i)
		}
		want := refarm.MOVK
		if i == 0 {
			want = refarm.MOVZ
		}
		// the reference decoder prints MOVZ Xd,#imm{,LSL #s} under its preferred alias MOV Xd,#(imm<<s)
		if !(in.Op == want || (i == 0 && in.Op == refarm.MOV)) {
			return fmt.Sprintf("word %d is %v", i, in.Op)
		}
		if r, ok := in.Args[0].(refarm.Reg); !ok || r != refarm.X26 {
			return fmt.Sprintf("word %d writes %v", i, in.Args[0])
		}
		// second argument prints as "#0x1234" or "#0x1234, LSL #16"
		s := in.Args[1].String()
		imm, sh := uint64(0), uint(0)
		parts := strings.Split(s, ",")
		v, err := strconv.ParseUint(strings.TrimPrefix(strings.TrimSpace(parts[0]), "#"), 0, 64)
		if err != nil {
			return "cannot parse immediate " + s
		}
		imm = v
		if len(parts) == 2 {
			p := strings.TrimSpace(parts[1])
			n, err := strconv.ParseUint(strings.TrimPrefix(p, "LSL #"), 0, 8)
			if err != nil {
				return "cannot parse shift " + s
			}
			sh = uint(n)
		}
		if _, wide := in.Args[1].(refarm.Imm64); i == 0 && !wide && in.Op == refarm.MOV {
			return "word 0 is a MOV without wide immediate"
		}
		if i == 0 {
			x26 = imm << sh
		} else {
			x26 = x26&^(uint64(0xffff)<<sh) | imm<<sh
		}
	}
	if x26 != to {
		return fmt.Sprintf("x26 = %#x, wanted %#x", x26, to)
	}
	in, err := refarm.Decode(b[16:20])
	if err != nil || in.Op != refarm.LDR {
		return "word 4 is not LDR"
	}
	if in.Args[0].String() != tmp || !strings.HasPrefix(in.Args[1].String(), "[X26") {
		return "LDR operands " + in.Args[0].String() + "," + in.Args[1].String()
	}
	if m, ok := in.Args[1].(refarm.MemImmediate); ok && (m.Mode != refarm.AddrOffset) {
		return "LDR addressing mode"
	}
	if strings.Contains(in.Args[1].String(), "#") && !strings.Contains(in.Args[1].String(), "#0x0") && !strings.Contains(in.Args[1].String(), "#0]") {
		return "LDR offset " + in.Args[1].String()
	}
	in, err = refarm.Decode(b[20:24])
	if err != nil || in.Op != refarm.BR || in.Args[0].String() != tmp {
		return "word 5 is not BR " + tmp
	}
	return ""
}

var _ = binary.LittleEndian

func c15(args []string) int {
	c, _ := parseCommon("c15", args)
	rng := hxlib.NewRng(c.seed)
	out := hxlib.NewOut(c.out)
	defer out.Close()
	if c.extra == "live" {
		return c15Live(c, rng, out)
	}

	sampleEvery := 1500
	nRandom := 100000
	if c.tier == "thorough" {
		nRandom = 5000000
		sampleEvery = 6000
	}
	counts := map[string]int{}
	fails := map[string]int{}
	emitted := 0
	emit := func(cs c15Case, force bool) {
		counts[cs.Fn]++
		if !cs.OK {
			fails[cs.Fn]++
			if fails[cs.Fn] <= 50 {
				out.Put(cs)
			}
			return
		}
		if force || rng.Intn(sampleEvery) == 0 {
			out.Put(cs)
			emitted++
		}
	}
	single := func(fn string, to uint64, force bool) {
		var b []byte
		var why string
		switch fn {
		case "entry":
			b = patch.VerifJmpToFunctionValue(0x400000, uintptr(to))
			why = checkAbsX86(b, to, true, 64)
		case "iface":
			b = iface.VerifJmpWithRdx(uintptr(to))
			why = checkAbsX86(b, to, false, 64)
		case "a64patch":
			b = patcharm64.JmpToFunctionValue(0, uintptr(to))
			why = checkA64(b, to, "X10")
		case "a64iface":
			b = ifacearm64.JmpWithRdx(uintptr(to))
			why = checkA64(b, to, "X27")
		case "a64ifacectx":
			b = ifacearm64.JmpWithRdxAndCtx(uintptr(to), 1, 2)
			why = checkA64(b, to, "X27")
		case "i386":
			to &= 0xffffffff
			b = patch386.JmpToFunctionValue(0, uintptr(to))
			why = checkAbsX86(b, to, false, 32)
		}
		emit(c15Case{Fn: fn, From: "0", To: u(to), Bytes: hxlib.Hex(b), OK: why == "", Why: why}, force)
	}
	origin := func(from, to uint64, force bool) {
		rel := patch.VerifRelative(uintptr(from), uintptr(to))
		b := patch.VerifJmpToOriginFunctionValue(uintptr(from), uintptr(to))
		why := checkOrigin(b, rel, from, to)
		emit(c15Case{Fn: "origin", From: u(from), To: u(to), Bytes: hxlib.Hex(b), Rel: &rel, OK: why == "", Why: why}, force)
	}

	fns := []string{"entry", "iface", "a64patch", "a64iface", "a64ifacectx", "i386"}
	if !patcharm64.Available {
		fns = []string{"entry", "iface", "i386"}
	}
	bgs := []uint64{0, ^uint64(0), rng.U64()}
	for _, fn := range fns {
		for _, bg := range bgs {
			for lane := uint(0); lane < 4; lane++ {
				for v := uint64(0); v < 65536; v++ {
					to := bg&^(uint64(0xffff)<<(16*lane)) | v<<(16*lane)
					single(fn, to, false)
				}
			}
		}
		for _, to := range []uint64{0, 1, 1<<47 - 1, 1 << 63, ^uint64(0), 0x0123456789abcdef, 0xfedcba9876543210} {
			single(fn, to, true)
		}
		for i := 0; i < nRandom/10; i++ {
			single(fn, rng.U64(), false)
		}
	}
	// the +-2GiB decision boundary, both directions, several bases (incl. wrap-around of the address space)
	bases := []uint64{1 << 32, 1 << 40, 1<<47 - 4096, 0x7fff0000, 0x80000010, 1 << 63, ^uint64(0) - 0x7fffffff, 0x10, rng.U64()}
	for _, from := range bases {
		for d := int64(-96); d <= 96; d++ {
			force := d >= -10 && d <= 10
			origin(from, from+uint64(int64(1<<31)+d), force) // to above from
			origin(from, from-uint64(int64(1<<31)+d), force) // to below from
		}
		for _, d := range []uint64{0, 1, 4, 5, 6, 13, 1 << 20, 1 << 30, 1<<31 - 1, 1 << 31, 1<<32 - 5, 1 << 32, 1 << 33, 1 << 62, 1 << 63, 1<<63 + 1} {
			origin(from, from+d, true)
			origin(from, from-d, true)
		}
	}
	for i := 0; i < nRandom; i++ {
		from := rng.U64()
		var to uint64
		switch rng.Intn(4) {
		case 0:
			to = rng.U64()
		case 1:
			to = from + uint64(int64(int32(rng.U64()))) // within +-2GiB
		case 2:
			to = from + uint64(int64(1<<31)-64+int64(rng.Intn(128)))
		default:
			to = from - uint64(int64(1<<31)-64+int64(rng.Intn(128)))
		}
		origin(from, to, false)
	}
	out.Put(map[string]interface{}{"summary": true, "counts": counts, "fails": fails, "sampled": emitted,
		"arm64_available": patcharm64.Available, "i386_available": patch386.Available})
	return 0
}
