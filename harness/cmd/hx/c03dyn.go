package main

func c03Dyn(c *common) int { return 0 }
