package main

import (
	"encoding/binary"
	"fmt"
	"reflect"
	"strconv"
	"strings"

	mocker "github.com/tencent/goom"
	"github.com/tencent/goom/internal/bytecode"
	"github.com/tencent/goom/internal/bytecode/memory"
	"github.com/tencent/goom/internal/patch"
	"github.com/tencent/goom/internal/unexports2"
	"github.com/tencent/goom/verifharness/hxlib"
	refx86 "github.com/tencent/goom/verifharness/ref/x86asm"
	"github.com/tencent/goom/verifharness/zoo/sacrifice"
)

// ---- synthetic prologue shapes, executed for real in the sacrificial text region.
// Every shape is a func(int) int in ABIInternal: argument and result in RAX, no frame, only caller-saved registers.

const (
	c03OriginOff = 512
	c03HelperOff = 2048 // add rax,100 ; ret
	c03FarOff    = 2304 // add rax,5 ; ret
	c03BeforeOff = 448  // add rax,7 ; ret   (in front of the origin)
	c03DataOff   = 3072
	c03PhOff     = 4096 + 128
)

type c03Asm struct {
	base uintptr
	org  uintptr
	b    []byte
}

func (a *c03Asm) raw(bs ...byte) *c03Asm { a.b = append(a.b, bs...); return a }
func (a *c03Asm) pos() int               { return len(a.b) }

// rel32 appends a 4-byte displacement to target, measured from the end of the field plus `after` trailing bytes
func (a *c03Asm) rel32(target uintptr, after int) *c03Asm {
	end := a.org + uintptr(len(a.b)) + 4 + uintptr(after)
	var d [4]byte
	binary.LittleEndian.PutUint32(d[:], uint32(int32(int64(target)-int64(end))))
	a.b = append(a.b, d[:]...)
	return a
}
func (a *c03Asm) addRax(n byte) *c03Asm { return a.raw(0x48, 0x83, 0xC0, n) }
func (a *c03Asm) cmpRax(n byte) *c03Asm { return a.raw(0x48, 0x83, 0xF8, n) }
func (a *c03Asm) ret() *c03Asm          { return a.raw(0xC3) }

type c03Shape struct {
	name   string
	data   uint64
	build  func(a *c03Asm, helper, far, before, data uintptr)
	expect string // "ok", "refuse" (build must fail and be inert), "known-reenter"
}

func c03Shapes() []c03Shape {
	short := func(op byte) func(a *c03Asm, h, f, b, d uintptr) {
		return func(a *c03Asm, h, f, b, d uintptr) {
			a.cmpRax(5).raw(op, 0x0C).addRax(1).addRax(1).addRax(1).addRax(10).ret()
		}
	}
	return []c03Shape{
		{"jbe8-widened", 0, short(0x76), "ok"},
		{"je8-widened", 0, short(0x74), "ok"},
		{"jg8-widened", 0, short(0x7F), "ok"},
		{"jmp8-widened", 0, short(0xEB), "ok"},
		{"jne8-unsupported", 0, short(0x75), "refuse"},
		{"cmp-rip-imm8-first/0", 0, func(a *c03Asm, h, f, b, d uintptr) {
			a.raw(0x48, 0x83, 0x3D).rel32(d, 1).raw(0x00).raw(0x74, 0x08).addRax(1).addRax(1).addRax(10).ret()
		}, "ok"},
		{"cmp-rip-imm8-first/7", 7, func(a *c03Asm, h, f, b, d uintptr) {
			a.raw(0x48, 0x83, 0x3D).rel32(d, 1).raw(0x00).raw(0x74, 0x08).addRax(1).addRax(1).addRax(10).ret()
		}, "ok"},
		{"cmp-rip-imm32", 7, func(a *c03Asm, h, f, b, d uintptr) {
			a.raw(0x81, 0x3D).rel32(d, 4).raw(0x07, 0, 0, 0).raw(0x74, 0x04).addRax(1).addRax(2).addRax(10).ret()
		}, "ok"},
		{"mov-rip", 1000, func(a *c03Asm, h, f, b, d uintptr) {
			a.raw(0x48, 0x8B, 0x0D).rel32(d, 0).raw(0x48, 0x01, 0xC8).addRax(1).addRax(1).ret()
		}, "ok"},
		{"lea-rip", 2000, func(a *c03Asm, h, f, b, d uintptr) {
			a.raw(0x48, 0x8D, 0x0D).rel32(d, 0).raw(0x48, 0x8B, 0x09).raw(0x48, 0x01, 0xC8).addRax(1).ret()
		}, "ok"},
		{"call-first", 0, func(a *c03Asm, h, f, b, d uintptr) {
			a.raw(0xE8).rel32(h, 0).addRax(1).addRax(1).addRax(1).ret()
		}, "ok"},
		{"jbe8-then-call", 0, func(a *c03Asm, h, f, b, d uintptr) { // the shape of `func f() { g() }`
			a.cmpRax(5).raw(0x76, 0x0E).raw(0xE8).rel32(h, 0).addRax(1).addRax(2).ret().addRax(10).ret()
		}, "ok"},
		{"jump-back-into-prefix", 0, func(a *c03Asm, h, f, b, d uintptr) {
			// 0: add 1 ; 4: cmp rax,100 ; 8: jg -> 20 (ret) ; 10: add 1 ; 14: add 1 ; 18: jmp -> 4 ; 20: ret
			a.addRax(1).cmpRax(100).raw(0x7F, 0x0A).addRax(1).addRax(1).raw(0xEB, 0xF0).ret()
		}, "refuse"},
		{"branch-to-own-entry", 0, func(a *c03Asm, h, f, b, d uintptr) {
			// f(x) = x if x > 3 else f(x+4), the recursion written as a jump to the entry (what a morestack block does)
			a.cmpRax(3).raw(0x7F, 0x0F).addRax(4).addRax(0).raw(0x90).raw(0xEB, 0xEF).raw(0x90, 0x90, 0x90, 0x90).ret()
		}, "known-reenter"},
		{"ret-right-after-13", 0, func(a *c03Asm, h, f, b, d uintptr) {
			a.addRax(1).addRax(1).addRax(1).raw(0x90).ret()
		}, "ok"},
		{"jmp32-first", 0, func(a *c03Asm, h, f, b, d uintptr) {
			a.raw(0xE9).rel32(f, 0).addRax(1).addRax(1).addRax(1).ret()
		}, "ok"},
		{"jcc32", 0, func(a *c03Asm, h, f, b, d uintptr) {
			a.cmpRax(5).raw(0x0F, 0x86).rel32(a.org+18, 0).addRax(1).addRax(1).addRax(10).ret()
		}, "ok"},
		{"inner-short-jump", 0, func(a *c03Asm, h, f, b, d uintptr) {
			a.cmpRax(5).raw(0xEB, 0x02).raw(0x90, 0x90).addRax(1).addRax(2).ret()
		}, "refuse-or-ok"},
		{"inner-jump-across-widened", 0, func(a *c03Asm, h, f, b, d uintptr) {
			// 0: jmp +6 (-> 8) ; 2: jbe -> 20 (widened) ; 4: nop x4 ; 8: add 1 ; 12: add 2 ; 16: add 3 ; 20: ret
			a.raw(0xEB, 0x06).raw(0x76, 0x10).raw(0x90, 0x90, 0x90, 0x90).addRax(1).addRax(2).addRax(3).ret()
		}, "refuse-or-ok"},
		{"je8-to-code-before-function", 0, func(a *c03Asm, h, f, b, d uintptr) {
			rel := int64(b) - int64(a.org+6)
			a.cmpRax(5).raw(0x74, byte(int8(rel))).addRax(1).addRax(1).addRax(1).ret()
		}, "ok"},
		{"loop-to-own-entry-inside-prefix", 0, func(a *c03Asm, h, f, b, d uintptr) {
			// do { x++ } while (x <= 10): 0: add 1 ; 4: cmp rax,10 ; 8: jbe -> 0 ; 10: add 0 ; 14: add 0 ; 18: ret
			a.addRax(1).cmpRax(10).raw(0x76, 0xF6).addRax(0).addRax(0).ret()
		}, "ok"},
		{"recursive-call-inside-prefix", 0, func(a *c03Asm, h, f, b, d uintptr) {
			// f(x) = x if x > 5 else f(x+3)+1 : 0: cmp rax,5 ; 4: jg -> 18 (widened) ; 6: add 3 ; 10: call entry ; 15: add.. ; 
			a.cmpRax(5).raw(0x7F, 0x0D).addRax(3).raw(0xE8).rel32(a.org, 0).raw(0x48, 0xFF, 0xC0).ret().raw(0x90).ret()
		}, "refuse-or-ok"},
		{"call-at-byte-8", 0, func(a *c03Asm, h, f, b, d uintptr) {
			a.addRax(1).addRax(1).raw(0xE8).rel32(h, 0).addRax(1).ret()
		}, "ok"},
	}
}

func c03Fill(addr uintptr, n int, b byte) {
	memory.WriteTo(addr, make8(b, n))
}

func c03DynSynthetic(c *common, k int) int {
	out := hxlib.NewOut(c.out)
	defer out.Close()
	shapes := c03Shapes()
	if k < 0 || k >= len(shapes) {
		out.Put(map[string]interface{}{"kind": "dyn", "error": "no such shape", "count": len(shapes)})
		return 0
	}
	sh := shapes[k]
	base := sacrifice.Addr()
	region := sacrifice.Size
	c03Fill(base, region, 0xCC)
	org := base + c03OriginOff
	helper, far, before, data, ph := base+c03HelperOff, base+c03FarOff, base+c03BeforeOff, base+c03DataOff, base+c03PhOff
	memory.WriteTo(helper, []byte{0x48, 0x83, 0xC0, 100, 0xC3})
	memory.WriteTo(far, []byte{0x48, 0x83, 0xC0, 5, 0xC3})
	memory.WriteTo(before, []byte{0x48, 0x83, 0xC0, 7, 0xC3})
	var dv [8]byte
	binary.LittleEndian.PutUint64(dv[:], sh.data)
	memory.WriteTo(data, dv[:])
	a := &c03Asm{base: base, org: org}
	sh.build(a, helper, far, before, data)
	code := append(append([]byte{}, a.b...), 0xCC, 0x31, 0xC0, 0xC3) // one byte of padding, then foreign code
	memory.WriteTo(org, code)
	// placeholder: 80 bytes of body, a RET, one INT3, foreign code
	phBody := []byte{}
	for len(phBody) < 80 {
		phBody = append(phBody, 0x31, 0xC0)
	}
	phBody = append(phBody, 0xC3, 0xCC, 0x31, 0xC0, 0xC3)
	memory.WriteTo(ph, phBody)
	bytecode.VerifClearFuncSizeCache()
	typ := reflect.TypeOf(c14Replacement)
	orgFn := unexports2.NewFuncWithCodePtr(typ, org).Interface().(func(int) int)
	phFn := unexports2.NewFuncWithCodePtr(typ, ph).Interface().(func(int) int)
	inputs := []int{0, 1, 2, 3, 4, 5, 6, 7, 100, -5}
	expected := make([]int, len(inputs))
	for i, x := range inputs {
		expected[i] = orgFn(x)
	}
	before0 := append([]byte{}, rawView(base, region)...)
	rec := map[string]interface{}{"kind": "dyn", "shape": sh.name, "k": k, "expect": sh.expect, "inputs": inputs, "expected": expected,
		"code": fmt.Sprintf("%x", a.b)}
	var err error
	pan := ""
	func() {
		defer func() {
			if e := recover(); e != nil {
				pan = trunc(fmt.Sprint(e), 100)
			}
		}()
		var g *patch.Guard
		g, err = patch.PtrTrampoline(org, func(x int) int { return -777 }, &phFn)
		if err == nil {
			g.Apply()
		}
	}()
	after := rawView(base, region)
	var changed []int
	for j := range before0 {
		if before0[j] != after[j] {
			changed = append(changed, j)
		}
	}
	rec["refused"] = err != nil || pan != ""
	rec["panic"] = pan
	if err != nil {
		rec["error"] = trunc(err.Error(), 100)
	}
	outside := 0
	for _, j := range changed {
		inJump := j >= c03OriginOff && j < c03OriginOff+13
		inPh := j >= c03PhOff && j < c03PhOff+81
		if !inJump && !inPh {
			outside++
		}
	}
	rec["changed"] = len(changed)
	rec["changed_outside"] = outside
	if err == nil && pan == "" {
		rec["trampoline"] = fmt.Sprintf("%x", after[c03PhOff:c03PhOff+48])
		out.Put(map[string]interface{}{"kind": "dyn-progress", "k": k, "stage": "built"}) // survives a crash below
		out.Flush()
		via := make([]int, len(inputs))
		mocked := make([]int, len(inputs))
		for i, x := range inputs {
			via[i] = phFn(x)
			mocked[i] = orgFn(x)
		}
		rec["via_origin"] = via
		rec["mocked"] = mocked
	}
	out.Put(rec)
	return 0
}

// ---- real Go functions: the prologue shapes the compiler emits, and the stack-growth path

var c03Flag int
var c03Sink int

//go:noinline
func c03G(a int) int { return a*3 + 1 }

//go:noinline
func c03CallsG(a int) int { return c03G(a) } // CMP/JBE, PUSH, MOV, CALL within the first bytes

//go:noinline
func c03FlagLeaf(a int) int { // frameless leaf whose first instruction compares a global with an immediate
	if c03Flag == 0 {
		return a + 1
	}
	return a + 2
}

//go:noinline
func c03Framed(a int) int {
	var buf [40]int
	for i := range buf {
		buf[i] = a + i
	}
	s := 0
	for _, v := range buf {
		s += v
	}
	return s + c03G(a)
}

//go:noinline
func c03Twice(a int) int { return c03G(c03G(a)) }

var c03Counter int32

// frameless leaf starting with a do-while loop: the copied prologue contains a short branch back to the entry
//
//go:noinline
func c03Drain(v int) int {
	p := &c03Counter
	for {
		*p--
		if *p <= 0 {
			break
		}
	}
	return v*3 + 1
}

//go:noinline
func c03DrainP(p *int32, v int) int {
	for {
		*p--
		if *p <= 0 {
			break
		}
	}
	return v*3 + 1
}

//go:noinline
func c03DrainPTwin(p *int32, v int) int {
	for {
		*p--
		if *p <= 0 {
			break
		}
	}
	return v*3 + 1
}

//go:noinline
func c03DrainTwin(v int) int {
	p := &c03Counter
	for {
		*p--
		if *p <= 0 {
			break
		}
	}
	return v*3 + 1
}

// twins (never mocked)
//
//go:noinline
func c03CallsGTwin(a int) int { return c03G(a) }

//go:noinline
func c03FlagLeafTwin(a int) int {
	if c03Flag == 0 {
		return a + 1
	}
	return a + 2
}

//go:noinline
func c03FramedTwin(a int) int {
	var buf [40]int
	for i := range buf {
		buf[i] = a + i
	}
	s := 0
	for _, v := range buf {
		s += v
	}
	return s + c03G(a)
}

//go:noinline
func c03TwiceTwin(a int) int { return c03G(c03G(a)) }

//go:noinline
func c03Deep(n int, f func() int) int {
	var pad [48]byte
	pad[n%48] = byte(n)
	if n == 0 {
		return f()
	}
	return c03Deep(n-1, f) + int(pad[(n+1)%48])*0
}

func c03DynGo(c *common) int {
	out := hxlib.NewOut(c.out)
	defer out.Close()
	type tgt struct {
		name  string
		addr  uintptr
		apply func(b *mocker.Builder, cnt *int)
		call  func(x int) int
		want  func(x int) int
	}
	simple := func(name string, fn, twin func(int) int, origin *func(int) int) tgt {
		return tgt{name, reflect.ValueOf(fn).Pointer(), func(b *mocker.Builder, cnt *int) {
			b.Func(fn).Origin(origin).Apply(func(a int) int {
				*cnt++
				return (*origin)(a) + 1000
			})
		}, func(x int) int {
			c03Counter = int32(x&3 + 1)
			return fn(x)
		}, func(x int) int {
			c03Counter = int32(x&3 + 1)
			return twin(x) + 1000
		}}
	}
	// distinct closures need distinct code: one literal per target
	o1 := func(i int) int {
		fmt.Println("placeholder 1", i, c03Sink, strings.Repeat("x", i))
		fmt.Println("placeholder 1", i+1, c03Sink)
		return i + c03Sink
	}
	o2 := func(i int) int {
		fmt.Println("placeholder 2", i, c03Sink, strings.Repeat("y", i))
		fmt.Println("placeholder 2", i+2, c03Sink)
		return i + c03Sink + 2
	}
	o3 := func(i int) int {
		fmt.Println("placeholder 3", i, c03Sink, strings.Repeat("z", i))
		fmt.Println("placeholder 3", i+3, c03Sink)
		return i + c03Sink + 3
	}
	o4 := func(i int) int {
		fmt.Println("placeholder 4", i, c03Sink, strings.Repeat("w", i))
		fmt.Println("placeholder 4", i+4, c03Sink)
		return i + c03Sink + 4
	}
	o5 := func(i int) int {
		fmt.Println("placeholder 5", i, c03Sink, strings.Repeat("v", i))
		fmt.Println("placeholder 5", i+5, c03Sink)
		return i + c03Sink + 5
	}
	o6 := func(p *int32, i int) int {
		fmt.Println("placeholder 6", i, c03Sink, strings.Repeat("u", i), p)
		fmt.Println("placeholder 6", i+6, c03Sink)
		return i + c03Sink + 6
	}
	tgts := []tgt{simple("c03CallsG", c03CallsG, c03CallsGTwin, &o1), simple("c03FlagLeaf", c03FlagLeaf, c03FlagLeafTwin, &o2),
		simple("c03Framed", c03Framed, c03FramedTwin, &o3), simple("c03Twice", c03Twice, c03TwiceTwin, &o4),
		simple("c03Drain", c03Drain, c03DrainTwin, &o5),
		{"c03DrainP", reflect.ValueOf(c03DrainP).Pointer(), func(b *mocker.Builder, cnt *int) {
			b.Func(c03DrainP).Origin(&o6).Apply(func(p *int32, v int) int {
				*cnt++
				return o6(p, v) + 1000
			})
		}, func(x int) int {
			n := int32(x&3 + 1)
			r := c03DrainP(&n, x)
			if n != 0 {
				return -1
			}
			return r
		}, func(x int) int {
			n := int32(x&3 + 1)
			return c03DrainPTwin(&n, x) + 1000
		}}}
	b := mocker.Create()
	for _, t := range tgts {
		t := t
		cnt := 0
		// branches of the body (beyond the 13 entry bytes) that target the function's own first byte
		fsz, _ := bytecode.GetFuncSize(64, t.addr, false)
		eb := 0
		if fsz > 0 && fsz < 4096 {
			ins, _ := c03RefSweep(c03ReadCode(t.addr, fsz))
			for _, x := range ins {
				for _, a := range x.inst.Args {
					if r, ok := a.(refx86.Rel); ok && x.pos+x.n+int(r) == 0 && x.pos >= 13 {
						eb++
					}
				}
			}
		}
		rec := map[string]interface{}{"kind": "dyngo", "target": t.name, "entry_branches_beyond_prefix": eb}
		pan := ""
		func() {
			defer func() {
				if e := recover(); e != nil {
					pan = trunc(fmt.Sprint(e), 120)
				}
			}()
			t.apply(b, &cnt)
		}()
		rec["apply_panic"] = pan
		if pan == "" {
			out.Put(map[string]interface{}{"kind": "dyn-progress", "target": t.name, "stage": "applied"})
			out.Flush()
			// warm stack
			bad := 0
			for x := -3; x < 20; x++ {
				cnt = 0
				got := t.call(x)
				if want := t.want(x); got != want || cnt != 1 {
					bad++
					if bad == 1 {
						rec["first_bad_warm"] = map[string]int{"x": x, "got": got, "want": want, "callbacks": cnt}
					}
				}
			}
			rec["bad_warm"] = bad
			// every stack depth: the relocated stack check of the origin may fire
			step := 7
			if c.tier == "thorough" {
				step = 1
			}
			reenter, wrong, depths := 0, 0, 0
			for d := 0; d <= 3000; d += step {
				depths++
				done := make(chan [2]int)
				go func(d int) {
					cnt = 0
					got := c03Deep(d, func() int { return t.call(5) })
					done <- [2]int{got, cnt}
				}(d)
				r := <-done
				if r[1] != 1 {
					reenter++
					if reenter == 1 {
						rec["first_reenter_depth"] = d
						rec["first_reenter_callbacks"] = r[1]
					}
				}
				if r[0] != t.want(5) {
					wrong++
				}
			}
			rec["depths"] = depths
			rec["reenter_depths"] = reenter
			rec["wrong_result_depths"] = wrong
		}
		out.Put(rec)
	}
	func() {
		defer func() { recover() }()
		b.Reset()
	}()
	bad := 0
	for _, t := range tgts {
		for x := 0; x < 5; x++ {
			if t.call(x) != t.want(x)-1000 {
				bad++
			}
		}
	}
	out.Put(map[string]interface{}{"kind": "dyngo-reset", "bad": bad})
	return 0
}

func c03Dyn(c *common) int {
	if c.extra == "dyn:go" {
		return c03DynGo(c)
	}
	if c.extra == "dyn:count" {
		out := hxlib.NewOut(c.out)
		defer out.Close()
		var names []string
		for _, s := range c03Shapes() {
			names = append(names, s.name)
		}
		out.Put(map[string]interface{}{"kind": "dyn-count", "count": len(names), "names": names})
		return 0
	}
	k, _ := strconv.Atoi(strings.TrimPrefix(c.extra, "dyn:"))
	return c03DynSynthetic(c, k)
}
