package main

import (
	"fmt"
	"reflect"
	"runtime"
	"strings"
	"sync/atomic"

	mocker "github.com/tencent/goom"
	"github.com/tencent/goom/verifharness/hxlib"
)

func init() { register("c07", c07) }

// interface zoo: every method is (int) int so that one callback shape serves all; names chosen so that declaration
// order, sorted order, exported/unexported and embedding all differ
type c07A interface {
	Zeta(int) int
	Alpha(int) int
	gamma(int) int
	Beta(int) int
}
type c07B interface{ One(int) int }
type c07C interface {
	c07B
	two(int) int
	Three(int) int
}

type c07Real struct{ r int }

func (x *c07Real) Zeta(a int) int  { return -(x.r*1000 + a) }
func (x *c07Real) Alpha(a int) int { return -(x.r*1000 + a) }
func (x *c07Real) gamma(a int) int { return -(x.r*1000 + a) }
func (x *c07Real) Beta(a int) int  { return -(x.r*1000 + a) }
func (x *c07Real) One(a int) int   { return -(x.r*1000 + a) }
func (x *c07Real) two(a int) int   { return -(x.r*1000 + a) }
func (x *c07Real) Three(a int) int { return -(x.r*1000 + a) }

type c07W interface {
	Wide(a1, a2, a3, a4, a5, a6, a7, a8, a9, a10, a11 int) int
}
type c07WReal struct{}

func (*c07WReal) Wide(a1, a2, a3, a4, a5, a6, a7, a8, a9, a10, a11 int) int { return -1 }

type c07Tag struct {
	k, h int
	pad  [2]int
}

var c07Collected int64 // bit set of collected closure tags (k < 64) of the current history
var c07CurHist int64

type c07Var struct {
	name string
	ptr  interface{}  // &variable
	typ  reflect.Type // interface type
	meth []string     // method names in itab order
	call func(m int, a int) int
	get  func() interface{}
	key  int // model key under the CURRENT builder cache rule (type string): same for same type
}

func c07MethodNames(t reflect.Type) []string {
	var out []string
	for i := 0; i < t.NumMethod(); i++ {
		out = append(out, t.Method(i).Name)
	}
	return out
}

func c07(args []string) int {
	c, fs := parseCommon("c07", args)
	_ = fs
	from := 0
	if strings.HasPrefix(c.extra, "from:") {
		fmt.Sscanf(c.extra, "from:%d", &from)
	}
	out := hxlib.NewOut(c.out)
	defer out.Close()
	n := 60
	if c.tier == "thorough" {
		n = 1500
	}
	if c.n > 0 {
		n = c.n
	}
	for h := from; h < n; h++ {
		rng := hxlib.NewRng(c.seed*1000003 + uint64(h))
		c07History(h, rng, out)
	}
	// ---- a method with more argument words than the stub may disturb: every argument must arrive unchanged
	{
		var w c07W = &c07WReal{}
		b := mocker.Create()
		var seen []int
		rec := map[string]interface{}{"kind": "wide"}
		func() {
			defer func() {
				if e := recover(); e != nil {
					rec["panic"] = trunc(fmt.Sprint(e), 100)
				}
			}()
			b.Interface(&w).Method("Wide").Apply(func(ctx *mocker.IContext, a1, a2, a3, a4, a5, a6, a7, a8, a9, a10, a11 int) int {
				seen = []int{a1, a2, a3, a4, a5, a6, a7, a8, a9, a10, a11}
				return 1000 + a1 + a11
			})
			rec["ret"] = w.Wide(1, 2, 3, 4, 5, 6, 7, 8, 9, 10, 11)
			rec["seen"] = fmt.Sprint(seen)
			b.Reset()
			b.Interface(&w).Method("Wide").As(func(ctx *mocker.IContext, a1, a2, a3, a4, a5, a6, a7, a8, a9, a10, a11 int) int { return 0 }).
				When(1, 2, 3, 4, 5, 6, 7, 8, 9, 10, 11).Return(77)
			rec["when_ret"] = w.Wide(1, 2, 3, 4, 5, 6, 7, 8, 9, 10, 11)
		}()
		b.Reset()
		out.Put(rec)
	}
	out.Put(map[string]interface{}{"kind": "done", "n": n})
	return 0
}

func c07History(h int, rng *hxlib.Rng, out *hxlib.Out) {
	// fresh variables for every history
	var a1, a2 c07A
	var b1 c07B
	var c1 c07C
	initReal := [4]int{0, 0, 0, 0}
	if rng.Intn(2) == 0 {
		a1, initReal[0] = &c07Real{1}, 1
	}
	if rng.Intn(3) == 0 {
		a2, initReal[1] = &c07Real{2}, 2
	}
	if rng.Intn(3) == 0 {
		b1, initReal[2] = &c07Real{3}, 3
	}
	if rng.Intn(3) == 0 {
		c1, initReal[3] = &c07Real{4}, 4
	}
	tA, tB, tC := reflect.TypeOf(&a1).Elem(), reflect.TypeOf(&b1).Elem(), reflect.TypeOf(&c1).Elem()
	mA, mB, mC := c07MethodNames(tA), c07MethodNames(tB), c07MethodNames(tC)
	callA := func(v *c07A) func(m, a int) int {
		return func(m, a int) int {
			switch mA[m] {
			case "Zeta":
				return (*v).Zeta(a)
			case "Alpha":
				return (*v).Alpha(a)
			case "gamma":
				return (*v).gamma(a)
			default:
				return (*v).Beta(a)
			}
		}
	}
	vars := []c07Var{
		{"a1", &a1, tA, mA, callA(&a1), func() interface{} { return a1 }, 0},
		{"a2", &a2, tA, mA, callA(&a2), func() interface{} { return a2 }, 0},
		{"b1", &b1, tB, mB, func(m, a int) int { return b1.One(a) }, func() interface{} { return b1 }, 1},
		{"c1", &c1, tC, mC, func(m, a int) int {
			switch mC[m] {
			case "One":
				return c1.One(a)
			case "two":
				return c1.two(a)
			default:
				return c1.Three(a)
			}
		}, func() interface{} { return c1 }, 2},
	}
	nb := 1 + rng.Intn(2)
	builders := make([]*mocker.Builder, nb)
	for i := range builders {
		builders[i] = mocker.Create()
	}
	dropped := make([]bool, nb)
	atomic.StoreInt64(&c07CurHist, int64(h))
	atomic.StoreInt64(&c07Collected, 0)
	nextK := 0
	pfDone := map[[3]int]bool{}
	handles := map[[2]int]*mocker.CachedInterfaceMocker{}
	nops := 6 + rng.Intn(14)
	meths := [][]string{mA, mA, mB, mC}
	out.Put(map[string]interface{}{"kind": "hist", "h": h, "init": initReal, "nbuilders": nb,
		"nmeth": []int{len(mA), len(mA), len(mB), len(mC)}, "methods": meths})
	state := func(v int) string { // what the variable holds, without addresses
		x := vars[v].get()
		if x == nil {
			return "nil"
		}
		if r, ok := x.(*c07Real); ok {
			return fmt.Sprintf("real%d", r.r)
		}
		return "fake"
	}
	for i := 0; i < nops; i++ {
		k := rng.Intn(100)
		v := rng.Intn(len(vars))
		m := rng.Intn(len(vars[v].meth))
		b := rng.Intn(nb)
		forcePf := false
		if h%4 == 0 && i < 4 {
			// structured opening of every fourth history: two methods of one variable (same signature) stubbed back to back
			// through As+Return by one builder, then both are called -- each must reach its OWN replacement
			v, b = 0, 0
			m1, m2 := (h/4)%len(vars[0].meth), (h/4+1)%len(vars[0].meth)
			switch i {
			case 0:
				k, m, forcePf = 0, m1, true
			case 1:
				k, m, forcePf = 0, m2, true
			case 2:
				k, m = 50, m1
			default:
				k, m = 50, m2
			}
		}
		rec := map[string]interface{}{"kind": "op", "h": h, "i": i}
		switch {
		case k < 40: // mock
			if dropped[b] {
				continue
			}
			pf := rng.Intn(3) == 0 || forcePf
			// a second Return through the same live stub EXTENDS its result sequence (C05) instead of installing a new
			// replacement; that is not what this property is about, so the generator does not repeat it
			if pf && pfDone[[3]int{b, v, m}] {
				pf = false
			}
			if pf {
				pfDone[[3]int{b, v, m}] = true
			} else {
				delete(pfDone, [3]int{b, v, m})
			}
			kk := nextK
			nextK++
			// one mock in five goes through the handle kept from the latest b.Interface(&v), cancelled or not
			kept := handles[[2]int{b, v}] != nil && rng.Intn(5) == 0
			if kept {
				pf = false
				delete(pfDone, [3]int{b, v, m})
			}
			rec["op"], rec["b"], rec["v"], rec["m"], rec["pf"], rec["k"], rec["kept"] = "mock", b, v, m, pf, kk, kept
			func() {
				defer func() {
					if e := recover(); e != nil {
						rec["panic"] = trunc(fmt.Sprint(e), 100)
					}
				}()
				var cm *mocker.CachedInterfaceMocker
				if kept {
					cm = handles[[2]int{b, v}]
				} else {
					cm = builders[b].Interface(vars[v].ptr)
					handles[[2]int{b, v}] = cm
				}
				im := cm.Method(vars[v].meth[m])
				if pf {
					im.As(func(ctx *mocker.IContext, a int) int { return 0 }).Return(kk*1000 + 7)
				} else {
					tag := &c07Tag{k: kk, h: h}
					if kk < 64 {
						runtime.SetFinalizer(tag, func(t *c07Tag) { // runs only when the callback closure has been collected
							if int64(t.h) != atomic.LoadInt64(&c07CurHist) {
								return
							}
							for {
								old := atomic.LoadInt64(&c07Collected)
								if atomic.CompareAndSwapInt64(&c07Collected, old, old|1<<uint(t.k)) {
									break
								}
							}
						})
					}
					im.Apply(func(ctx *mocker.IContext, a int) int { return tag.k*1000 + a })
				}
			}()
		case k < 75: // call
			a := rng.Intn(7)
			rec["op"], rec["v"], rec["m"], rec["a"] = "call", v, m, a
			out.Put(map[string]interface{}{"kind": "about-to-call", "h": h, "i": i, "v": v, "m": m})
			out.Flush()
			func() {
				defer func() {
					if e := recover(); e != nil {
						msg := fmt.Sprint(e)
						switch {
						case strings.Contains(msg, "method not implements"):
							rec["out"] = "notimpl"
						case strings.Contains(msg, "nil pointer") || strings.Contains(msg, "invalid memory address"):
							rec["out"] = "nilpanic"
						default:
							rec["out"] = "panic:" + trunc(msg, 60)
						}
					}
				}()
				r := vars[v].call(m, a)
				rec["out"] = "ret"
				rec["ret"] = r
			}()
		case k < 85: // reset
			if dropped[b] {
				continue
			}
			rec["op"], rec["b"] = "reset", b
			for key := range pfDone {
				if key[0] == b {
					delete(pfDone, key)
				}
			}
			func() {
				defer func() {
					if e := recover(); e != nil {
						rec["panic"] = trunc(fmt.Sprint(e), 100)
					}
				}()
				builders[b].Reset()
			}()
		case k < 92: // drop the builder: the program keeps no reference to it
			if dropped[b] {
				continue
			}
			rec["op"], rec["b"] = "drop", b
			for key := range handles {
				if key[0] == b {
					delete(handles, key)
				}
			}
			builders[b] = nil
			dropped[b] = true
		default: // collections with heap churn of the sizes of funcval / makeFuncImpl objects
			rec["op"] = "gc"
			for r := 0; r < 3; r++ {
				runtime.GC()
				var sink [][]uintptr
				for j := 0; j < 20000; j++ {
					x := make([]uintptr, 2+j%8)
					for q := range x {
						x[q] = 0xdeadbeef
					}
					sink = append(sink, x)
				}
				_ = sink
				runtime.Gosched()
			}
			runtime.GC()
			rec["collected"] = atomic.LoadInt64(&c07Collected)
		}
		var sts []string
		for j := range vars {
			sts = append(sts, state(j))
		}
		rec["vars"] = sts
		out.Put(rec)
	}
	// keep the variables alive until here
	runtime.KeepAlive(&a1)
	runtime.KeepAlive(&a2)
	runtime.KeepAlive(&b1)
	runtime.KeepAlive(&c1)
	for i := range builders {
		if builders[i] != nil {
			func() {
				defer func() { recover() }()
				builders[i].Reset()
			}()
		}
	}
}
