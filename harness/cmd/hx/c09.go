package main

import (
	"errors"
	"fmt"
	"reflect"
	"unsafe"

	mocker "github.com/tencent/goom"
	"github.com/tencent/goom/arg"
	"github.com/tencent/goom/internal/iface"
	"github.com/tencent/goom/verifharness/hxlib"
)

func init() { register("c09", c09) }

type c09S struct {
	A int
	B string
}
type c09S2 struct { // identical layout, another type
	X int
	Y string
}
type c09Big struct {
	A, B, C int
	D    string
}
type c09Small struct{ A int32 }

// pointer-shaped structs (reflect keeps them directly in the data word) and their layout twins
type c09PS struct{ P *c09S }
type c09PS2 struct{ Q *c09S }
type c09MS struct{ M map[string]int }
type c09MS2 struct{ N map[string]int }
type c09FS struct{ F func() int }
type c09FS2 struct{ G func() int }
type c09AS struct{ A [1]*c09S }
type c09E struct{ msg string }

func (e c09E) Error() string   { return e.msg }
func (e *c09Big) Error() string { return "big" }
func (e c09S) String() string  { return e.B }

// stubbed targets, one per result type
//
//go:noinline
func c09Err() error { return errors.New("orig") }

//go:noinline
func c09PtrS() *c09S { return &c09S{-1, "orig"} }

//go:noinline
func c09Bytes() []byte { return []byte("orig") }

//go:noinline
func c09Map() map[string]int { return map[string]int{"orig": 1} }

//go:noinline
func c09Chan() chan int { return make(chan int) }

//go:noinline
func c09Fn() func() int { return func() int { return -1 } }

//go:noinline
func c09Any() interface{} { return "orig" }

//go:noinline
func c09Struct() c09S { return c09S{-1, "orig"} }

//go:noinline
func c09Int() int { return -1 }

//go:noinline
func c09I32() int32 { return -1 }

//go:noinline
func c09F32() float32 { return -1 }

//go:noinline
func c09Str() string { return "orig" }

//go:noinline
func c09Arr() [2]int { return [2]int{-1, -1} }

//go:noinline
func c09Stringer() fmt.Stringer { return c09S{-1, "orig"} }

//go:noinline
func c09Uptr() uintptr { return 1 }

//go:noinline
func c09Big_() c09Big { return c09Big{} }

//go:noinline
func c09PSf() c09PS { return c09PS{} }

//go:noinline
func c09MSf() c09MS { return c09MS{} }

//go:noinline
func c09FSf() c09FS { return c09FS{} }

//go:noinline
func c09Two() ([]byte, error) { return []byte("orig"), errors.New("orig") }

var c09KindNames = map[reflect.Kind]string{
	reflect.Bool: "KBool", reflect.Int: "KInt", reflect.Int8: "KInt", reflect.Int16: "KInt", reflect.Int32: "KInt", reflect.Int64: "KInt",
	reflect.Uint: "KUint", reflect.Uint8: "KUint", reflect.Uint16: "KUint", reflect.Uint32: "KUint", reflect.Uint64: "KUint", reflect.Uintptr: "KUint",
	reflect.Float32: "KFloat", reflect.Float64: "KFloat", reflect.Complex64: "KComplex", reflect.Complex128: "KComplex", reflect.String: "KString",
	reflect.Ptr: "KPtr", reflect.Interface: "KIface", reflect.Slice: "KSlice", reflect.Map: "KMap", reflect.Chan: "KChan", reflect.Func: "KFunc",
	reflect.Struct: "KStruct", reflect.Array: "KArray", reflect.UnsafePointer: "KUnsafePtr",
}

type c09Types struct {
	ids  map[reflect.Type]int
	list []reflect.Type
}

func (t *c09Types) id(ty reflect.Type) int {
	if ty == nil {
		return -1
	}
	if i, ok := t.ids[ty]; ok {
		return i
	}
	t.ids[ty] = len(t.list)
	t.list = append(t.list, ty)
	return len(t.list) - 1
}

// bytesOf copies v into fresh addressable memory of its own type and returns the raw bytes ("" + ok=false when reflect refuses)
func c09BytesOf(v reflect.Value) (b []byte, ok bool) {
	defer func() {
		if r := recover(); r != nil {
			b, ok = nil, false
		}
	}()
	p := reflect.New(v.Type())
	p.Elem().Set(v)
	n := int(v.Type().Size())
	if n == 0 {
		return []byte{}, true
	}
	base := unsafe.Pointer(p.Pointer())
	b = make([]byte, n)
	for i := 0; i < n; i++ {
		b[i] = *(*byte)(unsafe.Pointer(uintptr(base) + uintptr(i)))
	}
	return b, true
}

// c09LayoutEq: same memory layout down to the leaves (names and defined types may differ)
func c09LayoutEq(a, b reflect.Type, depth int) bool {
	if a == b {
		return true
	}
	if a.Kind() != b.Kind() || a.Size() != b.Size() || depth > 4 {
		return false
	}
	switch a.Kind() {
	case reflect.Struct:
		if a.NumField() != b.NumField() {
			return false
		}
		for i := 0; i < a.NumField(); i++ {
			if a.Field(i).Offset != b.Field(i).Offset || !c09LayoutEq(a.Field(i).Type, b.Field(i).Type, depth+1) {
				return false
			}
		}
		return true
	case reflect.Ptr:
		return c09LayoutEq(a.Elem(), b.Elem(), depth+1)
	case reflect.Array:
		return a.Len() == b.Len() && c09LayoutEq(a.Elem(), b.Elem(), depth+1)
	case reflect.Map, reflect.Slice, reflect.Func, reflect.Chan, reflect.Interface:
		return false
	}
	return true
}

func c09SameData(res reflect.Value, val interface{}) int {
	if val == nil {
		return -1
	}
	rb, ok1 := c09BytesOf(res)
	vb, ok2 := c09BytesOf(reflect.ValueOf(val))
	if !ok1 || !ok2 {
		return -2
	}
	if string(rb) == string(vb) {
		return 1
	}
	return 0
}

func c09IsNilV(v reflect.Value) bool {
	switch v.Kind() {
	case reflect.Chan, reflect.Func, reflect.Interface, reflect.Map, reflect.Ptr, reflect.Slice, reflect.UnsafePointer:
		return v.IsNil()
	}
	return false
}

// describe a produced / received reflect.Value whose static type is declared to be out
func c09Describe(tt *c09Types, res reflect.Value, out reflect.Type, val interface{}) map[string]interface{} {
	d := map[string]interface{}{"rtype": tt.id(res.Type()), "dyn": -1, "isnil": c09IsNilV(res), "zero": res.IsZero()}
	if res.Type().Kind() == reflect.Interface {
		if !res.IsNil() {
			e := res.Elem()
			d["dyn"] = tt.id(e.Type())
			d["same"] = c09SameData(e, val)
			d["dnil"] = c09IsNilV(e)
		} else {
			d["same"] = -1
		}
	} else {
		d["same"] = c09SameData(res, val)
	}
	return d
}

func c09(args []string) int {
	c, _ := parseCommon("c09", args)
	_ = hxlib.NewRng(c.seed)
	out := hxlib.NewOut(c.out)
	defer out.Close()
	tt := &c09Types{ids: map[reflect.Type]int{}}
	T := reflect.TypeOf
	anyT := T((*interface{})(nil)).Elem()
	errT := T((*error)(nil)).Elem()
	strT := T((*fmt.Stringer)(nil)).Elem()
	s1 := &c09S{1, "a"}
	s2 := &c09S2{2, "b"}
	big := &c09Big{1, 2, 3, "d"}
	ch := make(chan int, 1)
	fn := func() int { return 42 }
	mp := map[string]int{"k": 1}
	up := unsafe.Pointer(s1)
	outs := []reflect.Type{T(0), T(int32(0)), T(float32(0)), T(0.0), T(""), T(true), T(uint8(0)), T(uintptr(0)), T(complex(0, 0)),
		T(s1), T(s2), T(big), T(c09S{}), T(c09S2{}), T(c09Big{}), T(c09Small{}), T([]byte{}), T(mp), T(ch), T(fn), anyT, errT, strT,
		T([2]int{}), T(up), T(&iface.IContext{}), T(c09E{}), T([]int{}),
		T(c09PS{}), T(c09PS2{}), T(c09MS{}), T(c09MS2{}), T(c09FS{}), T(c09FS2{}), T(c09AS{}), T(&c09PS{})}
	vals := []interface{}{nil, 0, 7, int32(3), float32(1.5), 2.5, "", "s", true, uint8(9), uintptr(5), complex(1, 2),
		s1, (*c09S)(nil), s2, (*c09S2)(nil), big, (*c09Big)(nil), c09S{1, "a"}, c09S{}, c09S2{2, "b"}, c09Big{1, 2, 3, "d"}, c09Small{4},
		[]byte("x"), []byte(nil), []byte{}, mp, map[string]int(nil), ch, (chan int)(nil), fn, (func() int)(nil),
		errors.New("e"), c09E{"ce"}, &c09E{"pe"}, [2]int{1, 2}, up, unsafe.Pointer(nil), []int{1}, int64(9), uint32(8),
		c09PS{s1}, c09PS2{s1}, c09PS{}, c09MS{mp}, c09MS2{mp}, c09FS{fn}, c09FS2{fn}, c09AS{[1]*c09S{s1}}, &c09PS{s1}, &c09PS2{s1}}
	for _, o := range outs {
		tt.id(o)
	}
	for _, v := range vals {
		if v != nil {
			tt.id(T(v))
		}
	}
	// ---- direct: arg.I2V on one (value, declared type) pair
	for vi, v := range vals {
		for _, o := range outs {
			rec := map[string]interface{}{"kind": "i2v", "v": vi, "vty": tt.id(T(v)), "out": tt.id(o), "vnil": v != nil && c09IsNilV(reflect.ValueOf(v))}
			if v != nil {
				rec["assignable"] = T(v).AssignableTo(o)
			} else {
				rec["assignable"] = false
			}
			func() {
				defer func() {
					if r := recover(); r != nil {
						rec["class"] = "panic"
						rec["msg"] = trunc(fmt.Sprint(r), 90)
					}
				}()
				vs, err := arg.I2V([]interface{}{v}, []reflect.Type{o}, false)
				if err != nil {
					rec["class"] = "err"
					return
				}
				rec["class"] = "ok"
				for k, x := range c09Describe(tt, vs[0], o, v) {
					rec[k] = x
				}
				// V2I on the produced value
				// (a cross-kind reinterpretation yields a Value whose kind flag contradicts its type; walking it is a fatal fault)
				if vs[0].Kind() == vs[0].Type().Kind() {
					back := arg.V2I(vs, []reflect.Type{o})
					rec["back_nil"] = back[0] == nil
				}
			}()
			out.Put(rec)
		}
	}
	// ---- arity of I2V / per-position types (variadic tail uses the element type)
	{
		types := []reflect.Type{T(0), T(""), T([]int32{})}
		for n := 0; n <= 5; n++ {
			for _, variadic := range []bool{false, true} {
				objs := []interface{}{}
				for i := 0; i < n; i++ {
					switch {
					case i == 0:
						objs = append(objs, 1)
					case i == 1:
						objs = append(objs, "s")
					default:
						if variadic {
							objs = append(objs, int32(i))
						} else {
							objs = append(objs, []int32{1})
						}
					}
				}
				rec := map[string]interface{}{"kind": "arity", "n": n, "variadic": variadic}
				func() {
					defer func() {
						if r := recover(); r != nil {
							rec["class"] = "panic"
						}
					}()
					vs, err := arg.I2V(objs, types, variadic)
					if err != nil {
						rec["class"] = "err"
						return
					}
					rec["class"] = "ok"
					var ts []int
					for _, x := range vs {
						ts = append(ts, tt.id(x.Type()))
					}
					rec["types"] = ts
				}()
				out.Put(rec)
			}
		}
	}
	// ---- delivered: Return(value) on a real function, then a real call
	targets := []struct {
		name string
		fn   interface{}
	}{{"c09Err", c09Err}, {"c09PtrS", c09PtrS}, {"c09Bytes", c09Bytes}, {"c09Map", c09Map}, {"c09Chan", c09Chan}, {"c09Fn", c09Fn}, {"c09Any", c09Any},
		{"c09Struct", c09Struct}, {"c09Int", c09Int}, {"c09I32", c09I32}, {"c09F32", c09F32}, {"c09Str", c09Str}, {"c09Arr", c09Arr},
		{"c09Stringer", c09Stringer}, {"c09Uptr", c09Uptr}, {"c09Big_", c09Big_}, {"c09PSf", c09PSf}, {"c09MSf", c09MSf}, {"c09FSf", c09FSf}}
	for _, tg := range targets {
		ft := T(tg.fn)
		o := ft.Out(0)
		tt.id(o)
		for vi, v := range vals {
			if c.extra == "nocross" && v != nil && T(v) != o && (o.Kind() == reflect.Ptr || o.Kind() == reflect.Struct) && !c09LayoutEq(T(v), o, 0) {
				// the stand-in rule is for structs / struct pointers of IDENTICAL layout; anything else that merely has the
				// same size (a float64 for a *T, a *Big for a *Small, struct{m map} for struct{p *T}) hands the caller forged
				// memory: outside C09's and C19's domains, and rendering it for the log is a fatal fault, not a panic
				continue
			}
			rec := map[string]interface{}{"kind": "deliver", "target": tg.name, "v": vi, "vty": tt.id(T(v)), "out": tt.id(o), "vnil": v != nil && c09IsNilV(reflect.ValueOf(v))}
			if v != nil {
				rec["assignable"] = T(v).AssignableTo(o)
			} else {
				rec["assignable"] = false
			}
			b := mocker.Create()
			cfgOK := false
			func() {
				defer func() {
					if r := recover(); r != nil {
						rec["class"] = "cfg-rejected"
						rec["msg"] = trunc(fmt.Sprint(r), 90)
					}
				}()
				b.Func(tg.fn).Return(v)
				cfgOK = true
			}()
			if cfgOK {
				func() {
					defer func() {
						if r := recover(); r != nil {
							rec["class"] = "call-panics"
							rec["msg"] = trunc(fmt.Sprint(r), 90)
						}
					}()
					res := reflect.ValueOf(tg.fn).Call(nil)
					rec["class"] = "got"
					for k, x := range c09Describe(tt, res[0], o, v) {
						rec[k] = x
					}
				}()
			}
			func() {
				defer func() { recover() }()
				b.Reset()
			}()
			out.Put(rec)
		}
	}
	// ---- two results: nil []byte with a nil error / a real error (the README's own example)
	{
		b := mocker.Create()
		e := errors.New("boom")
		for i, pair := range [][]interface{}{{nil, nil}, {[]byte("x"), nil}, {nil, e}, {[]byte(nil), e}} {
			rec := map[string]interface{}{"kind": "two", "i": i}
			func() {
				defer func() {
					if r := recover(); r != nil {
						rec["class"] = "panic"
						rec["msg"] = trunc(fmt.Sprint(r), 90)
					}
				}()
				b.Func(c09Two).Return(pair...)
				bs, err := c09Two()
				rec["class"] = "got"
				rec["bytes_nil"] = bs == nil
				rec["bytes_eq"] = (pair[0] == nil && bs == nil) || (pair[0] != nil && string(bs) == string(pair[0].([]byte)))
				rec["err_nil"] = err == nil
				rec["err_same"] = (pair[1] == nil && err == nil) || (pair[1] != nil && err == pair[1].(error))
			}()
			func() {
				defer func() { recover() }()
				b.Reset()
			}()
			out.Put(rec)
		}
	}
	// ---- the type table last (ids were assigned on the way)
	for i, ty := range tt.list {
		out.Put(map[string]interface{}{"kind": "type", "id": i, "name": ty.String(), "k": c09KindNames[ty.Kind()], "size": ty.Size(),
			"icontext": ty == T(&iface.IContext{})})
	}
	return 0
}

func trunc(s string, n int) string {
	if len(s) > n {
		return s[:n]
	}
	return s
}
