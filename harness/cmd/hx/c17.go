package main

import (
	"encoding/binary"
	"fmt"
	"runtime"
	"sync"

	gasm "github.com/tencent/goom/internal/arch/arm64asm"
	"github.com/tencent/goom/verifharness/hxlib"
	rasm "github.com/tencent/goom/verifharness/ref/arm64asm"
)

func init() { register("c17", c17) }

type c17Res struct {
	ok    bool
	op    string
	pcrel int64
	hasPC bool
	pan   bool
}

func c17Bundled(w uint32) (r c17Res) {
	defer func() {
		if e := recover(); e != nil {
			r.pan = true
		}
	}()
	var b [4]byte
	binary.LittleEndian.PutUint32(b[:], w)
	in, err := gasm.Decode(b[:])
	if err != nil {
		return
	}
	r.ok, r.op = true, in.Op.String()
	for _, a := range in.Args {
		if p, ok := a.(gasm.PCRel); ok {
			r.pcrel, r.hasPC = int64(p), true
			break
		}
	}
	_ = in.String() // printing must not panic either
	return
}

func c17Ref(w uint32) (r c17Res) {
	defer func() {
		if e := recover(); e != nil {
			r.pan = true
		}
	}()
	var b [4]byte
	binary.LittleEndian.PutUint32(b[:], w)
	in, err := rasm.Decode(b[:])
	if err != nil {
		return
	}
	r.ok, r.op = true, in.Op.String()
	for _, a := range in.Args {
		if p, ok := a.(rasm.PCRel); ok {
			r.pcrel, r.hasPC = int64(p), true
			break
		}
	}
	return
}

type c17Stats struct {
	words, both, neither, sysSkipped uint64
	panics, decodability, opcode, pcrel uint64
	first                             []map[string]interface{}
}

func (s *c17Stats) add(o *c17Stats) {
	s.words += o.words
	s.both += o.both
	s.neither += o.neither
	s.sysSkipped += o.sysSkipped
	s.panics += o.panics
	s.decodability += o.decodability
	s.opcode += o.opcode
	s.pcrel += o.pcrel
	for _, f := range o.first {
		if len(s.first) < 8 {
			s.first = append(s.first, f)
		}
	}
}

func (s *c17Stats) one(w uint32) {
	s.words++
	g, r := c17Bundled(w), c17Ref(w)
	note := func(kind string) {
		if len(s.first) < 8 {
			s.first = append(s.first, map[string]interface{}{"word": fmt.Sprintf("%08x", w), "kind": kind, "bundled": fmt.Sprintf("%v %s %d", g.ok, g.op, g.pcrel), "ref": fmt.Sprintf("%v %s %d", r.ok, r.op, r.pcrel)})
		}
	}
	if g.pan {
		s.panics++
		note("panic")
		return
	}
	switch {
	case g.ok && r.ok:
		s.both++
		if g.op != r.op {
			s.opcode++
			note("opcode")
		} else if g.hasPC != r.hasPC || g.pcrel != r.pcrel {
			s.pcrel++
			note("pcrel")
		}
	case !g.ok && !r.ok:
		s.neither++
	case !g.ok && r.ok && (r.op == "DC" || r.op == "TLBI" || r.op == "SYS" || r.op == "IC" || r.op == "AT"):
		s.sysSkipped++ // the system-instruction encodings the bundled copy deliberately leaves undecoded
	default:
		s.decodability++
		note("decodability")
	}
}

func c17(args []string) int {
	c, _ := parseCommon("c17", args)
	rng := hxlib.NewRng(c.seed)
	out := hxlib.NewOut(c.out)
	defer out.Close()
	classes := [][2]uint32{{0xfc000000, 0x14000000}, {0xff000010, 0x54000000}, {0xfc000000, 0x94000000}, {0xff000000, 0x35000000}, {0xff000000, 0xb5000000},
		{0xff000000, 0x34000000}, {0xff000000, 0xb4000000}, {0x7f000000, 0x37000000}, {0x7f000000, 0x36000000}, {0x9f000000, 0x10000000}, {0x9f000000, 0x90000000}}
	total := &c17Stats{}
	// ---- branch / address classes: random fills of the free bits, plus the extremes of every field
	perClass := 40000
	if c.tier == "thorough" {
		perClass = 400000
	}
	var samples []map[string]interface{}
	for ci, cl := range classes {
		st := &c17Stats{}
		for k := 0; k < perClass; k++ {
			fill := uint32(rng.U64())
			switch k {
			case 0:
				fill = 0
			case 1:
				fill = 0xffffffff
			case 2:
				fill = 0x55555555
			case 3:
				fill = 0xaaaaaaaa
			}
			w := cl[1] | (fill &^ cl[0])
			st.one(w)
			if k < 300 {
				g := c17Bundled(w)
				samples = append(samples, map[string]interface{}{"w": w, "ok": g.ok, "op": g.op, "pcrel": g.pcrel, "has": g.hasPC, "class": ci})
			}
		}
		total.add(st)
	}
	out.Put(map[string]interface{}{"kind": "classes", "words": total.words, "panics": total.panics, "decodability": total.decodability,
		"opcode": total.opcode, "pcrel": total.pcrel, "first": total.first})
	out.Put(map[string]interface{}{"kind": "samples", "samples": samples})
	// ---- every format of the table: fills of its free bits built from architectural field segments set to 0 / all ones /
	//      random (alias and canDecode predicates depend on fields being 0, all ones or equal to each other)
	perFormat := 400
	if c.tier == "thorough" {
		perFormat = 6000
	}
	fstats := &c17Stats{}
	formats := gasm.VerifFormats()
	cuts := []uint{0, 5, 10, 12, 15, 16, 21, 22, 23, 24, 29, 30, 31, 32}
	for _, f := range formats {
		free := ^f[0]
		for k := 0; k < perFormat; k++ {
			var fill uint32
			switch rng.Intn(3) {
			case 1:
				fill = 0xffffffff
			case 2:
				fill = uint32(rng.U64())
			}
			for m := rng.Intn(4); m > 0; m-- {
				i := rng.Intn(len(cuts) - 1)
				seg := uint32((uint64(1)<<cuts[i+1] - 1) &^ (uint64(1)<<cuts[i] - 1))
				switch rng.Intn(3) {
				case 0:
					fill &^= seg
				case 1:
					fill |= seg
				default:
					fill = fill&^seg | uint32(rng.U64())&seg
				}
			}
			fstats.one(f[1] | fill&free)
		}
	}
	out.Put(map[string]interface{}{"kind": "formats", "formats": len(formats), "words": fstats.words, "panics": fstats.panics, "decodability": fstats.decodability,
		"opcode": fstats.opcode, "pcrel": fstats.pcrel, "first": fstats.first})
	// ---- the whole 32-bit space: strided (quick) or complete (thorough), in parallel
	stride := uint64(4099)
	if c.tier == "thorough" {
		stride = 1
	}
	if c.n > 0 {
		stride = uint64(c.n)
	}
	nw := runtime.NumCPU()
	parts := make([]*c17Stats, nw)
	var wg sync.WaitGroup
	offset := rng.U64() % stride
	for p := 0; p < nw; p++ {
		wg.Add(1)
		go func(p int) {
			defer wg.Done()
			st := &c17Stats{}
			lo, hi := uint64(p)<<32/uint64(nw), uint64(p+1)<<32/uint64(nw)
			start := lo + (stride-(lo%stride)+offset)%stride
			for w := start; w < hi; w += stride {
				st.one(uint32(w))
			}
			parts[p] = st
		}(p)
	}
	wg.Wait()
	sweep := &c17Stats{}
	for _, p := range parts {
		sweep.add(p)
	}
	out.Put(map[string]interface{}{"kind": "sweep", "stride": stride, "exhaustive": stride == 1, "words": sweep.words, "both_decode": sweep.both, "neither": sweep.neither,
		"system_skipped": sweep.sysSkipped, "panics": sweep.panics, "decodability": sweep.decodability, "opcode": sweep.opcode, "pcrel": sweep.pcrel, "first": sweep.first})
	return 0
}
