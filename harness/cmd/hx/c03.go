package main

import (
	"encoding/hex"
	"fmt"
	"sort"
	"strings"
	"unsafe"

	"github.com/tencent/goom/internal/bytecode"
	"github.com/tencent/goom/internal/patch"
	"github.com/tencent/goom/internal/unexports2"
	"github.com/tencent/goom/verifharness/hxlib"
	refx86 "github.com/tencent/goom/verifharness/ref/x86asm"
)

func init() { register("c03", c03) }

// ---- goom's own view of an instruction stream (what Model/Tramp.v takes as input)

type c03Ins struct {
	Pre, Post  []byte
	W          int
	Disp       int64
	OpZero     bool
	IsRet      bool
	Bad        bool
	Len        int
	PCRelValid bool
}

func c03Sweep(code []byte) []c03Ins {
	var out []c03Ins
	for pos := 0; pos < len(code); {
		ins, _, err := bytecode.ParseIns(pos, code)
		if err != nil || ins == nil || ins.Len <= 0 {
			out = append(out, c03Ins{Bad: true})
			break
		}
		ci := c03Ins{Len: ins.Len, OpZero: ins.Opcode == 0, IsRet: ins.String() == "RET"}
		if ins.PCRelOff > 0 && ins.PCRel > 0 && pos+ins.PCRelOff+ins.PCRel <= len(code) && ins.PCRelOff+ins.PCRel <= ins.Len {
			ci.W = ins.PCRel
			ci.Pre = code[pos : pos+ins.PCRelOff]
			f := code[pos+ins.PCRelOff : pos+ins.PCRelOff+ins.PCRel]
			ci.Disp = int64(bytecode.DecodeRelativeAddr(ins, code, pos+ins.PCRelOff))
			_ = f
			ci.Post = code[pos+ins.PCRelOff+ins.PCRel : pos+ins.Len]
		} else {
			if pos+ins.Len > len(code) {
				out = append(out, c03Ins{Bad: true})
				break
			}
			ci.Pre = code[pos : pos+ins.Len]
		}
		out = append(out, ci)
		pos += ins.Len
	}
	return out
}

func c03EncIns(is []c03Ins) string {
	parts := make([]string, len(is))
	for i, x := range is {
		fl := 0
		if x.OpZero {
			fl |= 1
		}
		if x.IsRet {
			fl |= 2
		}
		if x.Bad {
			fl |= 4
		}
		parts[i] = fmt.Sprintf("%s:%d:%d:%s:%d", hex.EncodeToString(x.Pre), x.W, x.Disp, hex.EncodeToString(x.Post), fl)
	}
	return strings.Join(parts, ",")
}

// ---- the property, decided with the toolchain's decoder (independent of goom's decoder and of the model)

type c03RefIns struct {
	pos, n int
	inst   refx86.Inst
}

func c03RefSweep(code []byte) ([]c03RefIns, bool) {
	var out []c03RefIns
	for pos := 0; pos < len(code); {
		in, err := refx86.Decode(code[pos:], 64)
		if err != nil || in.Len <= 0 {
			return out, false
		}
		out = append(out, c03RefIns{pos, in.Len, in})
		pos += in.Len
	}
	return out, true
}

// c03Faithful compares the copied prefix code[0:size] at address from with fixed at address tramp.
// "" = faithful; otherwise a short class of what is wrong.
func c03Faithful(code []byte, size int, from uint64, fixed []byte, tramp uint64) (string, string) {
	if size < 13 {
		return "prefix-shorter-than-jump", fmt.Sprint(size)
	}
	if size > len(code) {
		return "prefix-beyond-function", fmt.Sprint(size)
	}
	o, ok1 := c03RefSweep(code[:size])
	if !ok1 {
		return "prefix-not-on-instruction-boundary", ""
	}
	f, ok2 := c03RefSweep(fixed)
	if !ok2 {
		return "trampoline-not-decodable", hex.EncodeToString(fixed)
	}
	if len(o) != len(f) {
		return "instruction-dropped-or-added", fmt.Sprintf("%d vs %d", len(o), len(f))
	}
	newpos := map[int]int{}
	for k := range o {
		newpos[o[k].pos] = f[k].pos
	}
	newpos[size] = len(fixed)
	for k := range o {
		a, b := o[k].inst, f[k].inst
		if a.Op != b.Op {
			return "opcode-changed", fmt.Sprintf("#%d %v -> %v", k, a, b)
		}
		if a.Prefix != b.Prefix && a.Op.String()[0] != 'J' {
			return "prefix-changed", fmt.Sprintf("#%d %v -> %v", k, a, b)
		}
		for j := range a.Args {
			x, y := a.Args[j], b.Args[j]
			if (x == nil) != (y == nil) {
				return "operand-dropped", fmt.Sprintf("#%d %v -> %v", k, a, b)
			}
			if x == nil {
				break
			}
			var tx, ty int64
			rel := false
			switch v := x.(type) {
			case refx86.Rel:
				w, ok := y.(refx86.Rel)
				if !ok {
					return "operand-kind-changed", fmt.Sprintf("#%d %v -> %v", k, a, b)
				}
				tx, ty, rel = int64(o[k].pos+o[k].n)+int64(v), int64(f[k].pos+f[k].n)+int64(w), true
			case refx86.Mem:
				w, ok := y.(refx86.Mem)
				if !ok {
					return "operand-kind-changed", fmt.Sprintf("#%d %v -> %v", k, a, b)
				}
				if v.Base == refx86.RIP {
					if w.Base != refx86.RIP || v.Segment != w.Segment || v.Index != w.Index || v.Scale != w.Scale {
						return "operand-changed", fmt.Sprintf("#%d %v -> %v", k, a, b)
					}
					tx, ty, rel = int64(o[k].pos+o[k].n)+int64(int32(v.Disp)), int64(f[k].pos+f[k].n)+int64(int32(w.Disp)), true
				} else if v != w {
					return "operand-changed", fmt.Sprintf("#%d %v -> %v", k, a, b)
				}
			default:
				if x != y {
					return "operand-changed", fmt.Sprintf("#%d %v -> %v", k, a, b)
				}
			}
			if rel {
				// tx: offset from `from` in the original; ty: offset from `tramp` in the copy
				if tx >= 0 && tx < int64(size) || (tx == int64(size)) && false {
					np, ok := newpos[int(tx)]
					if !ok || int64(np) != ty {
						return "inner-target-moved", fmt.Sprintf("#%d %v: inner target +%d became +%d", k, a, tx, ty)
					}
				} else if uint64(tx)+from != uint64(ty)+tramp {
					return "outer-target-wrong", fmt.Sprintf("#%d %v: 0x%x became 0x%x", k, a, uint64(tx)+from, uint64(ty)+tramp)
				}
			}
		}
		if a.DataSize != b.DataSize || a.MemBytes != b.MemBytes {
			return "operand-size-changed", fmt.Sprintf("#%d %v -> %v", k, a, b)
		}
	}
	return "", ""
}

// entryBranches: relative control transfers anywhere in the function that target its own first byte
func c03EntryBranches(code []byte) int {
	n := 0
	ins, _ := c03RefSweep(code)
	for _, x := range ins {
		for _, a := range x.inst.Args {
			if r, ok := a.(refx86.Rel); ok && x.pos+x.n+int(r) == 0 && x.pos > 0 {
				n++
			}
		}
	}
	return n
}

func c03ReadCode(addr uintptr, n int) []byte {
	out := make([]byte, n)
	for i := 0; i < n; i++ {
		out[i] = *(*byte)(unsafe.Pointer(addr + uintptr(i)))
	}
	return out
}

func c03(args []string) int {
	c, _ := parseCommon("c03", args)
	if strings.HasPrefix(c.extra, "dyn") {
		return c03Dyn(c)
	}
	rng := hxlib.NewRng(c.seed)
	out := hxlib.NewOut(c.out)
	defer out.Close()
	tab, err := unexports2.GetSymbolTable()
	if err != nil || tab == nil {
		out.Put(map[string]interface{}{"kind": "error", "what": fmt.Sprint(err)})
		return 0
	}
	type fn struct {
		name  string
		entry uintptr
		ext   int
	}
	var fns []fn
	for i := range tab.Funcs {
		if i+1 >= len(tab.Funcs) {
			break
		}
		f, next := &tab.Funcs[i], tab.Funcs[i+1].Entry
		if next <= f.Entry || next-f.Entry > 1<<20 {
			continue
		}
		fns = append(fns, fn{f.Name, uintptr(f.Entry), int(next - f.Entry)})
	}
	sort.Slice(fns, func(i, j int) bool { return fns[i].entry < fns[j].entry })
	sampleEvery := 16
	if c.tier == "thorough" {
		sampleEvery = 1
	}
	classes := map[string]int{}
	total := 0
	for idx, f := range fns {
		size, _ := bytecode.GetFuncSize(64, f.entry, false)
		if size <= 0 {
			continue
		}
		n := size
		if n > 600 {
			n = 600
		}
		code := c03ReadCode(f.entry, n)
		if n < size { // cut at an instruction boundary of goom's own sweep
			cut := 0
			for _, x := range c03Sweep(code) {
				if x.Bad || cut+x.Len > n-16 {
					break
				}
				cut += x.Len
			}
			if cut < 14 {
				continue
			}
			code = code[:cut]
		}
		sweep := c03Sweep(code)
		from := uint64(f.entry)
		placements := []uint64{from + 0x10000, from - 0x8000, from + 64 + uint64(rng.Intn(4096)), from + 0x7fff0000, from - 0x7fff0000}
		for pi, tramp := range placements {
			fixed, fsize, ferr, pan := patch.VerifFixRelativeAddr(uintptr(from), append([]byte{}, code...), uintptr(tramp), len(code), 13)
			total++
			cls, detail := "", ""
			res := "built"
			switch {
			case pan != "":
				res = "panic"
			case ferr != nil:
				res = "error"
			default:
				cls, detail = c03Faithful(code, fsize, from, fixed, tramp)
			}
			key := res
			if cls != "" {
				key = res + ":" + cls
			}
			classes[key]++
			rec := map[string]interface{}{"kind": "fix", "name": f.name, "from": from, "tramp": tramp, "place": pi, "n": len(code), "res": res,
				"size": fsize, "fixed": hex.EncodeToString(fixed), "cls": cls, "detail": detail, "entry_branches": c03EntryBranches(code)}
			if pan != "" {
				rec["panic"] = trunc(pan, 80)
			}
			// the model input is written for a sample (and for everything that is not plainly fine)
			if idx%sampleEvery == 0 && pi < 3 || cls != "" && classes[key] <= 6 {
				rec["ins"] = c03EncIns(sweep)
				rec["code"] = hex.EncodeToString(code[:min(len(code), 48)])
			}
			out.Put(rec)
		}
	}
	out.Put(map[string]interface{}{"kind": "summary", "functions": len(fns), "runs": total, "classes": classes})
	// ---- EncodeAddress directly (exported): structured operands
	ops := [][]byte{{0x76}, {0x74}, {0x7F}, {0xEB}, {0x75}, {0xE8}, {0xE9}, {0x0F, 0x86}, {0x48, 0x8B, 0x0D}, {0x48, 0x83, 0x3D}}
	vals := []int{0, 1, 5, 127, -1, -128, 100, -100, 0x1000, -0x1000, 0x7fffffff, -0x80000000, 0x12345678}
	adds := []int{0, 1, -1, 100, -100, 127, -128, 128, -129, 0x10000, -0x8000, 0x7fff0000, -0x7fff0000, 0x7fffffff, 1 << 32}
	for _, op := range ops {
		for _, w := range []int{1, 4, 8} {
			for _, v := range vals {
				for _, a := range adds {
					rec := map[string]interface{}{"kind": "enc", "ops": hex.EncodeToString(op), "w": w, "val": v, "add": a}
					func() {
						defer func() {
							if r := recover(); r != nil {
								rec["panic"] = true
							}
						}()
						field := make([]byte, w)
						r := bytecode.EncodeAddress(append([]byte{}, op...), field, w, v, a)
						rec["out"] = hex.EncodeToString(r)
					}()
					out.Put(rec)
				}
			}
		}
	}
	return 0
}

func min(a, b int) int {
	if a < b {
		return a
	}
	return b
}
