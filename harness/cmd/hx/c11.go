package main

import (
	"crypto/sha1"
	"fmt"
	"reflect"
	"runtime"
	"sync"
	"sync/atomic"

	mocker "github.com/tencent/goom"
	"github.com/tencent/goom/verifharness/hxlib"
)

func init() { register("c11", c11) }

// 16 independent targets (one group per mocker goroutine), steady targets, and origin placeholders.
// All are tiny and adjacent in the text segment, so they share code pages with one another and with their callers.

//go:noinline
func c11T0(a int) int { return a + 100 }

//go:noinline
func c11T1(a int) int { return a + 101 }

//go:noinline
func c11T2(a int) int { return a + 102 }

//go:noinline
func c11T3(a int) int { return a + 103 }

//go:noinline
func c11T4(a int) int { return a + 104 }

//go:noinline
func c11T5(a int) int { return a + 105 }

//go:noinline
func c11T6(a int) int { return a + 106 }

//go:noinline
func c11T7(a int) int { return a + 107 }

//go:noinline
func c11T8(a int) int { return a + 108 }

//go:noinline
func c11T9(a int) int { return a + 109 }

//go:noinline
func c11T10(a int) int { return a + 110 }

//go:noinline
func c11T11(a int) int { return a + 111 }

//go:noinline
func c11S0(a int) int { return c11Helper(a) + 200 }

//go:noinline
func c11S1(a int) int { return c11Helper(a) + 201 }

//go:noinline
func c11S2(a int) int { return c11Helper(a) + 202 }

//go:noinline
func c11S3(a int) int { return c11Helper(a) + 203 }

//go:noinline
func c11S4(a int) int { return c11Helper(a) + 204 }

//go:noinline
func c11Helper(a int) int { return a * 2 }

var c11Sink int64

func c11Entry(f interface{}) [13]byte {
	var b [13]byte
	p := reflect.ValueOf(f).Pointer()
	copy(b[:], c03ReadCode(p, 13))
	return b
}

func c11(args []string) int {
	c, _ := parseCommon("c11", args)
	rng := hxlib.NewRng(c.seed)
	out := hxlib.NewOut(c.out)
	defer out.Close()
	targets := []func(int) int{c11T0, c11T1, c11T2, c11T3, c11T4, c11T5, c11T6, c11T7, c11T8, c11T9, c11T10, c11T11}
	steady := []func(int) int{c11S0, c11S1, c11S2, c11S3, c11S4}
	pristine := map[string][13]byte{}
	for i, f := range targets {
		pristine[fmt.Sprintf("T%d", i)] = c11Entry(f)
	}
	for i, f := range steady {
		pristine[fmt.Sprintf("S%d", i)] = c11Entry(f)
	}
	rounds := 30
	if c.tier == "thorough" {
		rounds = 600
	}
	if c.n > 0 {
		rounds = c.n
	}
	for r := 0; r < rounds; r++ {
		nm := []int{2, 3, 4, 6}[rng.Intn(4)] // mocker goroutines
		ncall := 1 + rng.Intn(6)               // caller goroutines
		iters := 20 + rng.Intn(60)
		yield := rng.Intn(3)
		// steadily mocked functions, one of them with a callback that calls its origin placeholder
		sb := mocker.Create()
		originS0 := func(a int) int {
			fmt.Println("placeholder S0", a, c11Sink)
			fmt.Println("placeholder S0", a+1, c11Sink)
			return a
		}
		sb.Func(c11S0).Origin(&originS0).Apply(func(a int) int { return originS0(a) + 5000 })
		sb.Func(c11S1).Return(-7001)
		sb.Func(c11S2).Return(-7002).When(3).Return(-7003)
		sb.Func(c11S3).Returns(-1, -2, -3) // a result sequence consumed by all callers at once (they start together)
		var wrongSteady, wrongOwn, panics int64
		var pmu sync.Mutex
		var pmsgs, wmsgs []string
		// bursts: 8 spin-released callers consume a fresh 3-element sequence at the same instant
		for burst := 0; burst < 40; burst++ {
			bb := mocker.Create()
			bb.Func(c11S4).Returns(-1, -2, -3)
			var ready, goFlag int32
			var bw sync.WaitGroup
			for g := 0; g < 8; g++ {
				bw.Add(1)
				go func() {
					defer bw.Done()
					defer func() {
						if e := recover(); e != nil {
							atomic.AddInt64(&panics, 1)
							pmu.Lock()
							if len(pmsgs) < 3 {
								pmsgs = append(pmsgs, "burst caller: "+trunc(fmt.Sprint(e), 120))
							}
							pmu.Unlock()
						}
					}()
					atomic.AddInt32(&ready, 1)
					for atomic.LoadInt32(&goFlag) == 0 {
					}
					for q := 0; q < 2; q++ {
						if got := c11S4(q); got > -1 || got < -3 {
							atomic.AddInt64(&wrongSteady, 1)
						}
					}
				}()
			}
			for atomic.LoadInt32(&ready) < 8 {
				runtime.Gosched()
			}
			atomic.StoreInt32(&goFlag, 1)
			bw.Wait()
			bb.Reset()
		}
		var wg sync.WaitGroup
		stop := int32(0)
		start := make(chan struct{})
		// callers
		for g := 0; g < ncall; g++ {
			wg.Add(1)
			go func(g int) {
				defer wg.Done()
				defer func() {
					if e := recover(); e != nil {
						atomic.AddInt64(&panics, 1)
						pmu.Lock()
						if len(pmsgs) < 3 {
							pmsgs = append(pmsgs, "caller: "+trunc(fmt.Sprint(e), 160))
						}
						pmu.Unlock()
					}
				}()
				<-start
				for k := 0; atomic.LoadInt32(&stop) == 0; k++ {
					a := k % 7
					if got := c11S3(a); got > -1 || got < -3 || (k > 3 && got != -3) {
						atomic.AddInt64(&wrongSteady, 1)
						pmu.Lock()
						if len(wmsgs) < 4 {
							wmsgs = append(wmsgs, fmt.Sprintf("S3 call %d = %d", k, got))
						}
						pmu.Unlock()
					}
					if got := c11S0(a); got != a*2+200+5000 {
						atomic.AddInt64(&wrongSteady, 1)
						pmu.Lock()
						if len(wmsgs) < 4 {
							wmsgs = append(wmsgs, fmt.Sprintf("S0(%d)=%d want %d", a, got, a*2+200+5000))
						}
						pmu.Unlock()
					}
					if got := c11S1(a); got != -7001 {
						atomic.AddInt64(&wrongSteady, 1)
						pmu.Lock()
						if len(wmsgs) < 4 {
							wmsgs = append(wmsgs, fmt.Sprintf("S1(%d)=%d want -7001", a, got))
						}
						pmu.Unlock()
					}
					want := -7002
					if a == 3 {
						want = -7003
					}
					if got := c11S2(a); got != want {
						atomic.AddInt64(&wrongSteady, 1)
						pmu.Lock()
						if len(wmsgs) < 4 {
							wmsgs = append(wmsgs, fmt.Sprintf("S2(%d)=%d want %d", a, got, want))
						}
						pmu.Unlock()
					}
					if yield > 0 && k%yield == 0 {
						runtime.Gosched()
					}
				}
			}(g)
		}
		// mockers: each owns its builder and a disjoint group of targets
		per := len(targets) / nm
		var mw sync.WaitGroup
		for m := 0; m < nm; m++ {
			mw.Add(1)
			wg.Add(1)
			go func(m int) {
				defer wg.Done()
				defer mw.Done()
				defer func() {
					if e := recover(); e != nil {
						atomic.AddInt64(&panics, 1)
						pmu.Lock()
						if len(pmsgs) < 3 {
							pmsgs = append(pmsgs, trunc(fmt.Sprint(e), 160))
						}
						pmu.Unlock()
					}
				}()
				lr := hxlib.NewRng(uint64(r*100 + m))
				b := mocker.Create()
				defer func() {
					defer func() { recover() }()
					b.Reset()
				}()
				mine := targets[m*per : (m+1)*per]
				<-start
				for it := 0; it < iters; it++ {
					j := lr.Intn(len(mine))
					f := mine[j]
					idx := m*per + j
					switch lr.Intn(5) {
					case 4:
						// the same function bound BY NAME (symbol-table lookup shared by all builders)
						b.Reset()
						b.Pkg("main").ExportFunc(fmt.Sprintf("c11T%d", idx)).Apply(func(a int) int { return -2000*idx - 7 })
						if f(1) != -2000*idx-7 {
							atomic.AddInt64(&wrongOwn, 1)
							pmu.Lock()
							if len(wmsgs) < 4 {
								wmsgs = append(wmsgs, fmt.Sprintf("mocker %d bound main.c11T%d by name: the call answers %d, want %d", m, idx, f(1), -2000*idx-7))
							}
							pmu.Unlock()
						}
					case 0:
						tag := it
						b.Func(f).Apply(func(a int) int { return -1000*idx - tag })
						if f(1) != -1000*idx-tag {
							atomic.AddInt64(&wrongOwn, 1)
						}
					case 1:
						b.Reset()
						b.Func(f).Return(-idx - 1)
						if f(1) != -idx-1 {
							atomic.AddInt64(&wrongOwn, 1)
						}
					case 2:
						b.Reset()
						for jj, g := range mine {
							if g(1) != 1+100+m*per+jj {
								atomic.AddInt64(&wrongOwn, 1)
							}
						}
					default:
						b.Reset()
						b.Func(f).Return(-5).When(9).Return(-9)
						if f(9) != -9 || f(1) != -5 {
							atomic.AddInt64(&wrongOwn, 1)
						}
					}
					if yield > 0 && it%yield == 0 {
						runtime.Gosched()
					}
				}
				b.Reset()
			}(m)
		}
		close(start)
		mw.Wait()
		atomic.StoreInt32(&stop, 1)
		wg.Wait()
		sb.Reset()
		// quiescence: every entry is pristine again, every function original
		h := sha1.New()
		notPristine := []string{}
		for i, f := range targets {
			e := c11Entry(f)
			h.Write(e[:])
			if e != pristine[fmt.Sprintf("T%d", i)] || f(1) != 101+i {
				notPristine = append(notPristine, fmt.Sprintf("T%d", i))
			}
		}
		for i, f := range steady {
			if c11Entry(f) != pristine[fmt.Sprintf("S%d", i)] || f(1) != 202+i {
				notPristine = append(notPristine, fmt.Sprintf("S%d", i))
			}
		}
		out.Put(map[string]interface{}{"kind": "round", "r": r, "mockers": nm, "callers": ncall, "iters": iters, "yield": yield,
			"wrong_steady": wrongSteady, "wrong_own": wrongOwn, "panics": panics, "panic_msgs": pmsgs, "wrong_msgs": wmsgs, "not_pristine": notPristine})
		out.Flush()
	}
	return 0
}
