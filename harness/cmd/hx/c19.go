package main

import (
	"errors"
	"fmt"
	"os"
	"reflect"
	"strings"
	"sync"
	"sync/atomic"

	mocker "github.com/tencent/goom"
	"github.com/tencent/goom/arg"
	"github.com/tencent/goom/verifharness/hxlib"
)

func init() { register("c19", c19) }

// c19: scenarios whose transcript (calls reaching the replacement, with arguments; results and panics seen by the
// caller) must not depend on the logging configuration. The configuration is chosen for the whole process by HX_LOG /
// GOOM_DEBUG (see main.go); the transcript never contains addresses, times or log text.

type c19Node struct {
	V    int
	Next *c19Node
}
type c19Hidden struct {
	A    int
	b    string
	c    *c19Hidden
	d    interface{}
	e    []interface{}
	F    func() int
	G    map[string]interface{}
	self *c19Hidden
}
type c19Str struct{ s string }

func (s *c19Str) String() string { return s.s } // nil receiver panics inside String: fmt must contain it
type c19Err struct{}

func (*c19Err) Error() string { panic("c19Err.Error called") }

//go:noinline
func c19Fix(a int, s string) (int, string) { return a, s }

//go:noinline
func c19Var(prefix string, xs ...int) int { return len(xs) }

//go:noinline
func c19VarOnly(xs ...string) string { return strings.Join(xs, ",") }

//go:noinline
func c19Ptrs(n *c19Node, h *c19Hidden, e error, any interface{}) (*c19Node, error) { return n, e }

//go:noinline
func c19Vals(h c19Hidden, st fmt.Stringer, m map[string]interface{}, f func() int) (c19Hidden, interface{}) {
	return h, nil
}

//go:noinline
func c19Many(a, b, c, d, e, f, g, h, i, j int, x, y float64, s string) (int, float64, string) {
	return a, x, s
}

//go:noinline
func c19None() {}

//go:noinline
func c19Slice(bs []byte, ss []string, arr [3]int) ([]byte, [3]int) { return bs, arr }

type c19T struct{ k int }

//go:noinline
func (t *c19T) Get(a int) int { return t.k + a }

//go:noinline
func (t c19T) Val(a string) string { return a }

type c19I interface {
	Call(a int) int
	Name(s string, n *c19Node) (string, error)
	Var(p string, xs ...int) int
}

// render renders a value without addresses (pointers are followed up to depth 3, funcs print as func/nil)
func c19Render(v reflect.Value, depth int) string {
	if !v.IsValid() {
		return "<invalid>"
	}
	if depth > 3 {
		return "..."
	}
	switch v.Kind() {
	case reflect.Ptr:
		if v.IsNil() {
			return "nil:" + v.Type().String()
		}
		return "&" + c19Render(v.Elem(), depth+1)
	case reflect.Interface:
		if v.IsNil() {
			return "nil-iface"
		}
		return "i(" + c19Render(v.Elem(), depth+1) + ")"
	case reflect.Struct:
		var fs []string
		for i := 0; i < v.NumField(); i++ {
			fs = append(fs, c19Render(v.Field(i), depth+1))
		}
		return v.Type().Name() + "{" + strings.Join(fs, " ") + "}"
	case reflect.Slice, reflect.Array:
		if v.Kind() == reflect.Slice && v.IsNil() {
			return "nil-slice"
		}
		var fs []string
		for i := 0; i < v.Len(); i++ {
			fs = append(fs, c19Render(v.Index(i), depth+1))
		}
		return "[" + strings.Join(fs, " ") + "]"
	case reflect.Map:
		if v.IsNil() {
			return "nil-map"
		}
		return fmt.Sprintf("map#%d", v.Len())
	case reflect.Func:
		if v.IsNil() {
			return "nil-func"
		}
		return "func"
	case reflect.Chan:
		return "chan"
	case reflect.String:
		return fmt.Sprintf("%q", v.String())
	case reflect.Int, reflect.Int8, reflect.Int16, reflect.Int32, reflect.Int64:
		return fmt.Sprint(v.Int())
	case reflect.Uint, reflect.Uint8, reflect.Uint16, reflect.Uint32, reflect.Uint64, reflect.Uintptr:
		return fmt.Sprint(v.Uint())
	case reflect.Float32, reflect.Float64:
		return fmt.Sprint(v.Float())
	case reflect.Bool:
		return fmt.Sprint(v.Bool())
	}
	return v.Kind().String()
}

func c19R(xs ...interface{}) string {
	var out []string
	for _, x := range xs {
		if x == nil {
			out = append(out, "nil-iface")
			continue
		}
		out = append(out, c19Render(reflect.ValueOf(x), 0))
	}
	return strings.Join(out, "; ")
}

func c19(args []string) int {
	c, _ := parseCommon("c19", args)
	rng := hxlib.NewRng(c.seed)
	out := hxlib.NewOut(c.out)
	defer out.Close()
	var log []string // the replacement side of the transcript
	rec := func(scn string, f func() string) {
		log = nil
		res := ""
		func() {
			defer func() {
				if r := recover(); r != nil {
					res = "PANIC:" + trunc(fmt.Sprint(r), 80)
				}
			}()
			res = f()
		}()
		out.Put(map[string]interface{}{"kind": "scn", "scn": scn, "seen": log, "caller": res})
	}
	// nasty values
	cyc := &c19Node{V: 1}
	cyc.Next = &c19Node{V: 2, Next: cyc}
	hid := &c19Hidden{A: 1, b: "x", d: (*c19Node)(nil), e: []interface{}{nil, 1, "s"}, G: map[string]interface{}{"k": nil}}
	hid.c, hid.self = hid, hid
	var nilNode *c19Node
	var nilHid *c19Hidden
	var nilStr *c19Str
	var nilErrT *c19Err
	nodes := []*c19Node{nilNode, cyc, {V: 7}}
	hids := []*c19Hidden{nilHid, hid, {}}
	errs := []error{nil, errors.New("e1"), nilErrT, &c19Err{}}
	anys := []interface{}{nil, 1, "s", nilNode, cyc, hid, []interface{}{nil}, map[string]int(nil), nilStr, struct{ a, b int }{1, 2}, [2]*c19Node{nil, cyc}, func() {}}

	n := 40
	if c.tier == "thorough" {
		n = 400
	}
	if c.n > 0 {
		n = c.n
	}
	b := mocker.Create()
	for it := 0; it < n; it++ {
		r := rng.Fork()
		a, s := r.Intn(100)-50, []string{"", "x", "长", "a b"}[r.Intn(4)]
		// ---- callbacks (Apply) on every signature class
		rec(fmt.Sprintf("%d/fix-apply", it), func() string {
			b.Func(c19Fix).Apply(func(x int, y string) (int, string) {
				log = append(log, c19R(x, y))
				return x + 1, y + "!"
			})
			p, q := c19Fix(a, s)
			return c19R(p, q)
		})
		// a standard-library function goom itself might consult (os.Getenv) is mocked while goom does configuration work:
		// what the replacement sees must not depend on the logging mode
		rec(fmt.Sprintf("%d/getenv-mocked", it), func() string {
			gb := mocker.Create()
			defer gb.Reset()
			gb.Func(os.Getenv).Apply(func(k string) string {
				log = append(log, "getenv:"+k)
				return "v-" + k
			})
			gb.Func(c19Fix).Apply(func(x int, y string) (int, string) { return x + 2, y })
			gb.Func(c19None).Return()
			p, _ := c19Fix(a, s)
			return c19R(os.Getenv("C19_KEY"), p)
		})
		xs := make([]int, r.Intn(4))
		for i := range xs {
			xs[i] = r.Intn(9)
		}
		rec(fmt.Sprintf("%d/var-apply", it), func() string {
			b.Func(c19Var).Apply(func(p string, ys ...int) int {
				log = append(log, c19R(p, ys))
				return len(ys) * 10
			})
			return c19R(c19Var(s, xs...), c19Var(s), c19Var(s, 1, 2, 3))
		})
		rec(fmt.Sprintf("%d/varonly-apply", it), func() string {
			b.Func(c19VarOnly).Apply(func(ys ...string) string {
				log = append(log, c19R(ys))
				return fmt.Sprint(len(ys))
			})
			return c19R(c19VarOnly(), c19VarOnly(s), c19VarOnly(s, "b", "c"))
		})
		nd, hd, er, an := nodes[r.Intn(len(nodes))], hids[r.Intn(len(hids))], errs[r.Intn(len(errs))], anys[r.Intn(len(anys))]
		rec(fmt.Sprintf("%d/ptrs-apply", it), func() string {
			b.Func(c19Ptrs).Apply(func(n *c19Node, h *c19Hidden, e error, any interface{}) (*c19Node, error) {
				log = append(log, c19R(n, h, e == nil, any))
				return n, e
			})
			p, q := c19Ptrs(nd, hd, er, an)
			return c19R(p, q == nil, q == er)
		})
		rec(fmt.Sprintf("%d/vals-apply", it), func() string {
			var st fmt.Stringer
			if r.Intn(2) == 0 {
				st = nilStr
			}
			var hv c19Hidden
			if hd != nil {
				hv = *hd
			}
			b.Func(c19Vals).Apply(func(h c19Hidden, st fmt.Stringer, m map[string]interface{}, f func() int) (c19Hidden, interface{}) {
				log = append(log, c19R(h, st == nil, m, f == nil))
				return h, an
			})
			p, q := c19Vals(hv, st, hid.G, nil)
			return c19R(p, q)
		})
		rec(fmt.Sprintf("%d/many-apply", it), func() string {
			b.Func(c19Many).Apply(func(a, b, c, d, e, f, g, h, i, j int, x, y float64, s string) (int, float64, string) {
				log = append(log, c19R(a, b, c, d, e, f, g, h, i, j, x, y, s))
				return j, y, s + "?"
			})
			p, q, t := c19Many(a, 2, 3, 4, 5, 6, 7, 8, 9, 10, 1.5, float64(a)/4, s)
			return c19R(p, q, t)
		})
		rec(fmt.Sprintf("%d/none-apply", it), func() string {
			b.Func(c19None).Apply(func() { log = append(log, "called") })
			c19None()
			return "ok"
		})
		rec(fmt.Sprintf("%d/slice-apply", it), func() string {
			b.Func(c19Slice).Apply(func(bs []byte, ss []string, arr [3]int) ([]byte, [3]int) {
				log = append(log, c19R(bs, ss, arr))
				return nil, arr
			})
			p, q := c19Slice([]byte(s), nil, [3]int{a, 0, 1})
			return c19R(p, q)
		})
		rec(fmt.Sprintf("%d/panicking-callback", it), func() string {
			b.Func(c19Fix).Apply(func(x int, y string) (int, string) {
				log = append(log, c19R(x, y))
				if x%2 == 0 {
					panic(fmt.Sprintf("cb-panic-%d", x))
				}
				return x, y
			})
			p, q := c19Fix(a, s)
			return c19R(p, q)
		})
		// ---- stubs: conditions, sequences, variadic, nil results
		rec(fmt.Sprintf("%d/fix-when", it), func() string {
			w := b.Func(c19Fix).When(a, s).Return(1, "hit").AndReturn(2, "hit2")
			w.When(arg.Any(), "x").Return(3, "anyx")
			w.In([]interface{}{7, "a b"}, []interface{}{8, ""}).Return(4, "in")
			var res []string
			for _, call := range [][2]interface{}{{a, s}, {a, s}, {a, s}, {a + 1, "x"}, {7, "a b"}, {8, ""}} {
				func() {
					defer func() {
						if r := recover(); r != nil {
							res = append(res, "P:"+trunc(fmt.Sprint(r), 40))
						}
					}()
					p, q := c19Fix(call[0].(int), call[1].(string))
					res = append(res, c19R(p, q))
				}()
			}
			func() {
				defer func() {
					if r := recover(); r != nil {
						res = append(res, "P:"+trunc(fmt.Sprint(r), 40))
					}
				}()
				p, q := c19Fix(-999, "no-match")
				res = append(res, c19R(p, q))
			}()
			return strings.Join(res, " | ")
		})
		rec(fmt.Sprintf("%d/var-when", it), func() string {
			w := b.Func(c19Var).Return(-1)
			w.When("p", 1, 2).Return(12)
			w.When("p").Return(100)
			w.In([]interface{}{"q", 5}, []interface{}{"q", 6, 7}).Return(567)
			return c19R(c19Var("p", 1, 2), c19Var("p"), c19Var("q", 5), c19Var("q", 6, 7), c19Var("q", 6), c19Var("z", xs...))
		})
		rec(fmt.Sprintf("%d/ptrs-return", it), func() string {
			b.Func(c19Ptrs).Return(nd, er).AndReturn(nil, nil)
			p, q := c19Ptrs(nil, nil, nil, an)
			p2, q2 := c19Ptrs(cyc, hid, er, nil)
			return c19R(p, q == er, p2, q2 == nil)
		})
		rec(fmt.Sprintf("%d/returns", it), func() string {
			b.Func(c19Var).Returns(1, 2, 3)
			return c19R(c19Var(""), c19Var("", 1), c19Var("", 1, 2), c19Var("", 3))
		})
		// ---- methods
		t := &c19T{k: a}
		rec(fmt.Sprintf("%d/method-apply", it), func() string {
			b.Struct(&c19T{}).Method("Get").Apply(func(tt *c19T, x int) int {
				log = append(log, c19R(tt.k, x))
				return tt.k * 2
			})
			b.Struct(c19T{}).Method("Val").When("q").Return("Q")
			return c19R(t.Get(3), (&c19T{k: 5}).Get(1), t.Val("q"))
		})
		// ---- interface variables
		rec(fmt.Sprintf("%d/iface", it), func() string {
			var iv c19I
			b.Interface(&iv).Method("Call").Apply(func(ctx *mocker.IContext, x int) int {
				log = append(log, c19R(x))
				return x * 3
			})
			b.Interface(&iv).Method("Name").As(func(ctx *mocker.IContext, s string, n *c19Node) (string, error) { return "", nil }).
				Return("dflt", nil).When("w", arg.Any()).Return("W", er)
			b.Interface(&iv).Method("Var").Apply(func(ctx *mocker.IContext, p string, ys ...int) int {
				log = append(log, c19R(p, ys))
				return len(ys)
			})
			p1, e1 := iv.Name("w", nd)
			p2, e2 := iv.Name("other", cyc)
			return c19R(iv.Call(a), p1, e1 == er, p2, e2 == nil, iv.Var(s, xs...), iv.Var(s))
		})
		func() {
			defer func() { recover() }()
			b.Reset()
		}()
		rec(fmt.Sprintf("%d/after-reset", it), func() string {
			p, q := c19Fix(a, s)
			return c19R(p, q, c19Var(s, xs...), t.Get(1))
		})
	}
	// ---- overlapping calls: every call must get its own results (safety oracle; the count is part of the transcript)
	{
		conc := func(call func(k int) int, want func(k int) int) int {
			bad := int32(0)
			var wg sync.WaitGroup
			for g := 0; g < 8; g++ {
				wg.Add(1)
				go func(g int) {
					defer wg.Done()
					for i := 0; i < 150; i++ {
						k := g*1000 + i
						if call(k) != want(k) {
							atomic.AddInt32(&bad, 1)
						}
					}
				}(g)
			}
			wg.Wait()
			return int(bad)
		}
		rec("conc/apply", func() string {
			b.Func(c19Fix).Apply(func(x int, y string) (int, string) { return x * 2, y })
			return fmt.Sprint(conc(func(k int) int { p, _ := c19Fix(k, "s"); return p }, func(k int) int { return 2 * k }))
		})
		rec("conc/var-apply", func() string {
			b.Func(c19Var).Apply(func(p string, ys ...int) int { return ys[0] + 1 })
			return fmt.Sprint(conc(func(k int) int { return c19Var("s", k) }, func(k int) int { return k + 1 }))
		})
		rec("conc/iface-when", func() string {
			var iv c19I
			w := b.Interface(&iv).Method("Call").As(func(ctx *mocker.IContext, x int) int { return 0 }).Return(-1)
			for g := 0; g < 8; g++ {
				w.When(g * 1000).Return(g + 100)
			}
			return fmt.Sprint(conc(func(k int) int { return iv.Call(k / 1000 * 1000) }, func(k int) int { return k/1000 + 100 }))
		})
		func() {
			defer func() { recover() }()
			b.Reset()
		}()
	}
	// ---- rendering for the log never panics (arg.SprintV is what the debug wrapper calls)
	vals := []interface{}{nilNode, cyc, nilHid, hid, *hid, nilStr, &c19Str{"s"}, nilErrT, &c19Err{}, errors.New("x"), []interface{}{nil, nilNode}, map[string]interface{}{"a": nil},
		map[string]int(nil), []int(nil), (func())(nil), func() {}, make(chan int), (chan int)(nil), 1.5, "s", struct{ a *c19Node }{cyc}, [2]interface{}{nil, hid}, &nodes, &hids,
		reflect.ValueOf(1), (*int)(nil), new(int), uintptr(0), complex(1, 2)}
	ifT := reflect.TypeOf((*interface{})(nil)).Elem()
	for i, v := range vals {
		for _, boxed := range []bool{false, true} {
			recd := map[string]interface{}{"kind": "sprint", "i": i, "boxed": boxed, "type": fmt.Sprintf("%T", v)}
			func() {
				defer func() {
					if r := recover(); r != nil {
						recd["panic"] = trunc(fmt.Sprint(r), 100)
					}
				}()
				var rv reflect.Value
				if boxed { // as MakeFunc delivers an interface-typed parameter
					rv = reflect.New(ifT).Elem()
					rv.Set(reflect.ValueOf(v))
				} else {
					rv = reflect.ValueOf(v)
				}
				sv := arg.SprintV([]reflect.Value{rv, reflect.New(ifT).Elem()})
				recd["ok"] = true
				recd["nilword"] = strings.HasPrefix(sv, "nil,") || strings.HasPrefix(sv, "<nil>,")
			}()
			out.Put(recd)
		}
	}
	return 0
}
