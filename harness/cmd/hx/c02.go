package main

import (
	"bytes"
	"encoding/binary"
	"encoding/json"
	"fmt"
	"os"
	"reflect"
	"runtime"
	"unsafe"

	mocker "github.com/tencent/goom"
	"github.com/tencent/goom/arg"
	"github.com/tencent/goom/internal/bytecode"
	"github.com/tencent/goom/internal/unexports2"
	"github.com/tencent/goom/verifharness/hxlib"
	"github.com/tencent/goom/verifharness/zoo/fnzoo"
	"github.com/tencent/goom/verifharness/zoo/fnzoo2"
)

func init() { register("c02", c02) }

type c02Op struct {
	K int `json:"k"` // 0 Lookup(b,t) 1 Apply(h,k) 2 Stub(h) 3 Origin(h,ph) 4 Cancel(h) 5 Reset(b) 6 rejected Apply(h, ill-formed callback b)
	A int `json:"a"`
	B int `json:"b"`
}

func textBounds() (uintptr, uintptr) {
	pc := reflect.ValueOf(c02).Pointer()
	f, err := os.Open("/proc/self/maps")
	if err != nil {
		return 0, 0
	}
	defer f.Close()
	var lo, hi uintptr
	buf := make([]byte, 1<<20)
	n, _ := f.Read(buf)
	for _, line := range bytes.Split(buf[:n], []byte("\n")) {
		var a, b uintptr
		var perm string
		if _, err := fmt.Sscanf(string(line), "%x-%x %s", &a, &b, &perm); err == nil && pc >= a && pc < b {
			lo, hi = a, b
		}
	}
	return lo, hi
}

func funcvalPtr(f interface{}) uintptr {
	v := reflect.ValueOf(f)
	return uintptr(bytecode.GetPtr(v))
}

// c02UM lets an unexported-method mocker be driven through the ExportedMocker operations of the history driver
type c02UM struct {
	um     mocker.UnExportedMocker
	as     interface{}
	method bool // As(func(recv, args..)): conditions then include the receiver
}

func (u *c02UM) Apply(cb interface{}) { u.um.Apply(cb) }
func (u *c02UM) Cancel()              { u.um.Cancel() }
func (u *c02UM) Canceled() bool       { return u.um.Canceled() }
func (u *c02UM) String() string       { return u.um.String() }
func (u *c02UM) When(a ...interface{}) *mocker.When {
	if u.method {
		a = append([]interface{}{arg.Any()}, a...)
	}
	return u.um.As(u.as).When(a...)
}
func (u *c02UM) Return(v ...interface{}) *mocker.When       { return u.um.As(u.as).Return(v...) }
func (u *c02UM) Returns(v ...interface{}) *mocker.When      { return u.um.As(u.as).Returns(v...) }
func (u *c02UM) Origin(o interface{}) mocker.ExportedMocker { u.um.Origin(o); return u }

var c02Adapters = map[mocker.UnExportedMocker]*c02UM{}

func c02Adapt(um mocker.UnExportedMocker) mocker.ExportedMocker {
	if a, ok := c02Adapters[um]; ok {
		return a
	}
	a := &c02UM{um, func(_ *fnzoo.T, a int) int { return 0 }, true}
	c02Adapters[um] = a
	return a
}

func c02(args []string) int {
	c, _ := parseCommon("c02", args)
	rng := hxlib.NewRng(c.seed)
	out := hxlib.NewOut(c.out)
	defer out.Close()
	n := 300
	if c.tier == "thorough" {
		n = 5000
	}
	if c.n > 0 {
		n = c.n
	}
	tt := &fnzoo.T{K: 1}
	type tgt struct {
		name  string
		entry uintptr
		mk    func(b *mocker.Builder) mocker.ExportedMocker
		call  func(a int) int
		cbs   []interface{}
		orig  int
		plain bool // func(int) int: may use an origin placeholder
	}
	mkcbs := func(method bool) []interface{} {
		var cbs []interface{}
		for k := 0; k < 4; k++ {
			k := k
			if method {
				cbs = append(cbs, func(_ *fnzoo.T, a int) int { return 500 + k })
			} else {
				cbs = append(cbs, func(a int) int { return 500 + k })
			}
		}
		return cbs
	}
	mM, _ := reflect.TypeOf(tt).MethodByName("M")
	mM2, _ := reflect.TypeOf(tt).MethodByName("M2")
	um1, e1 := unexports2.FindFuncByName("github.com/tencent/goom/verifharness/zoo/fnzoo.(*T).um1")
	um2, e2 := unexports2.FindFuncByName("github.com/tencent/goom/verifharness/zoo/fnzoo.(*T).um2")
	uf1a, e3 := unexports2.FindFuncByName("github.com/tencent/goom/verifharness/zoo/fnzoo.uf1")
	uf1b, e4 := unexports2.FindFuncByName("github.com/tencent/goom/verifharness/zoo/fnzoo2.uf1")
	if e3 != nil || e4 != nil {
		fmt.Fprintln(os.Stderr, "cannot resolve the unexported functions uf1", e3, e4)
		return 2
	}
	if e1 != nil || e2 != nil {
		fmt.Fprintln(os.Stderr, "cannot resolve the unexported methods of fnzoo.T", e1, e2)
		return 2
	}
	tgts := []tgt{
		{"F1", reflect.ValueOf(fnzoo.F1).Pointer(), func(b *mocker.Builder) mocker.ExportedMocker { return b.Func(fnzoo.F1) }, fnzoo.F1, mkcbs(false), -1000, true},
		{"G1", reflect.ValueOf(fnzoo.G1).Pointer(), func(b *mocker.Builder) mocker.ExportedMocker { return b.Func(fnzoo.G1) }, fnzoo.G1, mkcbs(false), -1100, true},
		{"G2", reflect.ValueOf(fnzoo.G2).Pointer(), func(b *mocker.Builder) mocker.ExportedMocker { return b.Func(fnzoo.G2) }, fnzoo.G2, mkcbs(false), -1200, true},
		{"T.M", mM.Func.Pointer(), func(b *mocker.Builder) mocker.ExportedMocker { return b.Struct(&fnzoo.T{}).Method("M") }, tt.M, mkcbs(true), -7001, false},
		{"T.M2", mM2.Func.Pointer(), func(b *mocker.Builder) mocker.ExportedMocker { return b.Struct(&fnzoo.T{}).Method("M2") }, tt.M2, mkcbs(true), -7501, false},
		// two UNEXPORTED methods of the same struct, mocked through Struct(x).ExportMethod(name)
		{"T.um1", um1, func(b *mocker.Builder) mocker.ExportedMocker {
			return c02Adapt(b.Struct(&fnzoo.T{}).ExportMethod("um1"))
		}, tt.CallUm1, mkcbs(true), -7201, false},
		{"T.um2", um2, func(b *mocker.Builder) mocker.ExportedMocker {
			return c02Adapt(b.Struct(&fnzoo.T{}).ExportMethod("um2"))
		}, tt.CallUm2, mkcbs(true), -7301, false},
		// two unexported functions with the SAME name in different packages, looked up by name
		{"fnzoo.uf1", uf1a, func(b *mocker.Builder) mocker.ExportedMocker {
			return c12AdaptF(b.Pkg("github.com/tencent/goom/verifharness/zoo/fnzoo").ExportFunc("uf1"))
		}, fnzoo.CallUf1, mkcbs(false), -7400, false},
		{"fnzoo2.uf1", uf1b, func(b *mocker.Builder) mocker.ExportedMocker {
			return c12AdaptF(b.Pkg("github.com/tencent/goom/verifharness/zoo/fnzoo2").ExportFunc("uf1"))
		}, fnzoo2.CallUf1, mkcbs(false), -7450, false},
	}
	type phT struct {
		entry uintptr
		size  int
		fn    func(int) int
	}
	mkph := func(f func(int) int) phT {
		e := reflect.ValueOf(f).Pointer()
		sz, _ := bytecode.GetFuncSize(64, e, false)
		return phT{e, sz, f}
	}
	// the placeholder variables handed to Origin (goom rewrites the variable, so keep one variable per placeholder)
	ph1, ph2 := fnzoo.PH1, fnzoo.PH2
	phs := []phT{mkph(fnzoo.PH1), mkph(fnzoo.PH2)}
	phVars := []*func(int) int{&ph1, &ph2}
	lo, hi := textBounds()
	if lo == 0 {
		fmt.Fprintln(os.Stderr, "cannot find the text mapping")
		return 2
	}
	text := rawView(lo, int(hi-lo))
	pristine := append([]byte{}, text...)
	journal, _ := os.Create(c.out + ".journal")
	defer journal.Close()
	var tnames []string
	for _, t := range tgts {
		tnames = append(tnames, t.name)
	}
	var firstBytes []int
	for _, t := range tgts {
		firstBytes = append(firstBytes, int(pristine[t.entry-lo]))
	}
	out.Put(map[string]interface{}{"kind": "setup", "text_bytes": len(pristine), "targets": tnames, "placeholder_sizes": []int{phs[0].size, phs[1].size},
		"first_bytes": firstBytes})
	const page = 4096
	for h := 0; h < n; h++ {
		journal.WriteString("H\n")
		nb := 1 + rng.Intn(3)
		builders := make([]*mocker.Builder, nb)
		for i := range builders {
			builders[i] = mocker.Create()
		}
		var handles []mocker.ExportedMocker
		var htgt []int
		var hserial []int // mocker serial (creation order) of each handle
		var hbld []int    // builder of each handle
		var serialOf []mocker.ExportedMocker
		var ops []c02Op
		var cells, probes, phobs [][]int
		var foreign []interface{}
		var panics []string
		steps := 4 + rng.Intn(22)
		for st := 0; st < steps; st++ {
			var op c02Op
			// instructions that patch go through handles whose mocker is still the one its builder holds for the target
			// (a mocker that was cancelled AND superseded by a later lookup is an orphan no Reset can reach: outside the property)
			var live []int
			for hi := range handles {
				cur := -1
				for hj := range handles {
					if hbld[hj] == hbld[hi] && htgt[hj] == htgt[hi] {
						cur = hj
					}
				}
				if handles[cur] == handles[hi] {
					live = append(live, hi)
				}
			}
			switch k := rng.Intn(20); {
			case len(handles) == 0 || k < 4:
				op = c02Op{K: 0, A: rng.Intn(nb), B: rng.Intn(len(tgts))}
			case k < 9:
				op = c02Op{K: 1, A: live[rng.Intn(len(live))], B: rng.Intn(4)}
			case k < 13:
				op = c02Op{K: 2, A: live[rng.Intn(len(live))]}
			case k < 15:
				op = c02Op{K: 3, A: live[rng.Intn(len(live))], B: rng.Intn(2)}
				if !tgts[htgt[op.A]].plain {
					op = c02Op{K: 2, A: op.A}
				}
			case k < 17:
				op = c02Op{K: 4, A: rng.Intn(len(handles))}
			case k < 18:
				// a re-apply goom must refuse (callback of the wrong shape): only through the exported-function / method handles,
				// whose Apply checks the signature before the patch layer is reached
				op = c02Op{K: 6, A: live[rng.Intn(len(live))], B: rng.Intn(3)}
				if htgt[op.A] >= 5 {
					op = c02Op{K: 4, A: op.A}
				}
			default:
				op = c02Op{K: 5, A: rng.Intn(nb)}
			}
			jb, _ := json.Marshal(op)
			journal.Write(append(jb, '\n'))
			pan := ""
			func() {
				defer func() {
					if e := recover(); e != nil {
						pan = fmt.Sprint(e)
						if len(pan) > 100 {
							pan = pan[:100]
						}
					}
				}()
				switch op.K {
				case 0:
					m := tgts[op.B].mk(builders[op.A])
					ser := -1
					for i, x := range serialOf {
						if x == m {
							ser = i
						}
					}
					if ser < 0 {
						serialOf = append(serialOf, m)
						ser = len(serialOf) - 1
					}
					handles = append(handles, m)
					htgt = append(htgt, op.B)
					hserial = append(hserial, ser)
					hbld = append(hbld, op.A)
				case 1:
					handles[op.A].Apply(tgts[htgt[op.A]].cbs[op.B])
				case 2:
					handles[op.A].Return(3000 + hserial[op.A])
				case 3:
					handles[op.A].Origin(phVars[op.B])
				case 4:
					handles[op.A].Cancel()
				case 5:
					builders[op.A].Reset()
				case 6:
					switch op.B {
					case 0:
						handles[op.A].Apply(func() {})
					case 1:
						handles[op.A].Apply(func(a, b, c, d int) (int, int) { return 0, 0 })
					default:
						handles[op.A].Apply(42)
					}
				}
			}()
			ops = append(ops, op)
			panics = append(panics, pan)
			// ---- the executable image against the pristine snapshot
			crow := make([]int, len(tgts))
			prow := make([]int, len(tgts))
			phrow := make([]int, len(phs))
			for p := 0; p+page <= len(text); p += page {
				if bytes.Equal(text[p:p+page], pristine[p:p+page]) {
					continue
				}
				for j := p; j < p+page; j++ {
					if text[j] == pristine[j] {
						continue
					}
					a := lo + uintptr(j)
					owned := false
					for _, t := range tgts {
						if a >= t.entry && a < t.entry+13 {
							owned = true
						}
					}
					for _, q := range phs {
						if a >= q.entry && a < q.entry+uintptr(q.size) {
							owned = true
						}
					}
					if !owned && len(foreign) < 5 {
						fn := runtime.FuncForPC(a)
						name := "?"
						if fn != nil {
							name = fn.Name()
						}
						foreign = append(foreign, map[string]interface{}{"step": st, "addr_off": j, "in_func": name, "was": pristine[j], "is": text[j]})
					}
				}
			}
			for ti, t := range tgts {
				off := int(t.entry - lo)
				cur := text[off : off+13]
				switch {
				case bytes.Equal(cur, pristine[off:off+13]):
					crow[ti] = 0
				case cur[0] == 0x90 && cur[1] == 0x48 && cur[2] == 0xBA && cur[11] == 0xFF && cur[12] == 0x22:
					imm := uintptr(binary.LittleEndian.Uint64(cur[3:11]))
					crow[ti] = -2
					for k, cb := range t.cbs {
						if funcvalPtr(cb) == imm {
							crow[ti] = 1 + k
						}
					}
				default:
					crow[ti] = -3
				}
				o := outcome(func() int { return t.call(2) })
				switch v := o.(type) {
				case int:
					switch {
					case v == t.orig-2:
						prow[ti] = 0
					case v >= 500 && v < 600:
						prow[ti] = 1 + v - 500
					case v >= 3000 && v < 4000:
						prow[ti] = 1001 + v - 3000
					default:
						prow[ti] = -9
					}
				default:
					prow[ti] = -8
				}
			}
			for qi, q := range phs {
				off := int(q.entry - lo)
				if !bytes.Equal(text[off:off+q.size], pristine[off:off+q.size]) {
					// which original does the placeholder run now?
					r := outcome(func() int { return (*phVars[qi])(2) })
					phrow[qi] = -1
					for ti, t := range tgts {
						if v, ok := r.(int); ok && v == t.orig-2 {
							phrow[qi] = 1 + ti
						}
					}
				}
			}
			cells = append(cells, crow)
			probes = append(probes, prow)
			phobs = append(phobs, phrow)
		}
		for _, b := range builders {
			b.Reset()
		}
		// at the end of a history everything but placeholder bodies must be pristine again
		endDiff := 0
		for j := range text {
			if text[j] != pristine[j] {
				a := lo + uintptr(j)
				inPh := false
				for _, q := range phs {
					if a >= q.entry && a < q.entry+uintptr(q.size) {
						inPh = true
					}
				}
				if !inPh {
					endDiff++
				}
			}
		}
		out.Put(map[string]interface{}{"kind": "hist", "nb": nb, "ops": ops, "cells": cells, "probes": probes, "ph": phobs, "panics": panics,
			"foreign": foreign, "end_diff_bytes": endDiff, "hserial": hserial})
		// placeholders keep their trampolines: restore them for the next history by re-reading the pristine image is not possible
		// through goom, so the next history starts from the observed placeholder state (the model is told via "ph0")
	}
	// ---- scripted histories around a re-mock that goom refuses INSIDE replaceFunc (an origin placeholder for a target whose
	// prologue cannot be relocated): after every Reset the entry must be pristine and the function original, and a refused
	// instruction may leave the entry only pristine or as the complete jump of the mock that was live before it
	{
		entry := reflect.ValueOf(fnzoo.SumTo).Pointer()
		off := int(entry - lo)
		state := func() (string, bool) {
			cur := text[off : off+32]
			switch {
			case bytes.Equal(cur, pristine[off:off+32]):
				return "pristine", outcome(func() int { return fnzoo.SumTo(4) }) == interface{}(6)
			case cur[0] == 0x90 && cur[1] == 0x48 && cur[2] == 0xBA && cur[11] == 0xFF && cur[12] == 0x22 && bytes.Equal(cur[13:], pristine[off+13:off+32]):
				return "jump", false
			}
			return "torn", false
		}
		for sc := 0; sc < 3; sc++ {
			b := mocker.Create()
			var steps []map[string]interface{}
			do := func(name string, f func()) {
				pan := ""
				func() {
					defer func() {
						if e := recover(); e != nil {
							pan = trunc(fmt.Sprint(e), 100)
						}
					}()
					f()
				}()
				st, orig := state()
				steps = append(steps, map[string]interface{}{"step": name, "entry": st, "original": orig, "panic": pan})
			}
			ph := fnzoo.PH1
			switch sc {
			case 0: // the earlier mock was reset before the refused re-mock
				do("apply", func() { b.Func(fnzoo.SumTo).Apply(func(int) int { return 7 }) })
				do("reset", func() { b.Reset() })
				do("refused", func() { b.Func(fnzoo.SumTo).Origin(&ph).Apply(func(n int) int { return ph(n) + 100 }) })
			case 1: // the earlier mock is still live
				do("apply", func() { b.Func(fnzoo.SumTo).Apply(func(int) int { return 7 }) })
				do("refused", func() { b.Func(fnzoo.SumTo).Origin(&ph).Apply(func(n int) int { return ph(n) + 100 }) })
			default: // a stub, cancelled, then the refused re-mock
				do("apply", func() { b.Func(fnzoo.SumTo).Return(9) })
				do("reset", func() { b.Func(fnzoo.SumTo).Cancel() })
				do("refused", func() { b.Func(fnzoo.SumTo).Origin(&ph).Apply(func(n int) int { return ph(n) + 100 }) })
			}
			do("reset", func() { b.Reset() })
			do("reset", func() { b.Reset() })
			out.Put(map[string]interface{}{"kind": "scripted", "scenario": sc, "steps": steps})
		}
	}
	_ = unsafe.Pointer(nil)
	return 0
}
