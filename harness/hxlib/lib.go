// Package hxlib holds helpers shared by the harness drivers.
package hxlib

import (
	"bufio"
	"encoding/json"
	"fmt"
	"os"
	"strings"
)

// Rng is splitmix64; every random choice of a run derives from one seed.
type Rng struct{ s uint64 }

// NewRng seeds a generator.
func NewRng(seed uint64) *Rng { return &Rng{s: seed*0x9E3779B97F4A7C15 + 0x1234567} }

// U64 returns the next 64 random bits.
func (r *Rng) U64() uint64 {
	r.s += 0x9E3779B97F4A7C15
	z := r.s
	z = (z ^ (z >> 30)) * 0xBF58476D1CE4E5B9
	z = (z ^ (z >> 27)) * 0x94D049BB133111EB
	return z ^ (z >> 31)
}

// Intn returns a value in [0,n).
func (r *Rng) Intn(n int) int {
	if n <= 0 {
		return 0
	}
	return int(r.U64() % uint64(n))
}

// Fork derives an independent generator.
func (r *Rng) Fork() *Rng { return NewRng(r.U64()) }

// Out writes JSON lines.
type Out struct {
	f *os.File
	w *bufio.Writer
}

// NewOut opens path for writing.
func NewOut(path string) *Out {
	f, err := os.Create(path)
	if err != nil {
		panic(err)
	}
	return &Out{f: f, w: bufio.NewWriterSize(f, 1<<20)}
}

// Put writes one record.
func (o *Out) Put(v interface{}) {
	b, err := json.Marshal(v)
	if err != nil {
		panic(err)
	}
	o.w.Write(b)
	o.w.WriteByte('\n')
}

// Close flushes.
func (o *Out) Close() { o.w.Flush(); o.f.Close() }

// Hex renders bytes.
func Hex(b []byte) string {
	var sb strings.Builder
	for _, x := range b {
		fmt.Fprintf(&sb, "%02x", x)
	}
	return sb.String()
}

// PanicClass maps a recovered value to a short class string.
func PanicClass(e interface{}) string {
	s := fmt.Sprint(e)
	switch {
	case strings.Contains(s, "there is no suitable condition matched"):
		return "NoSuitableCondition"
	case strings.Contains(s, "method not implements"):
		return "NotImplemented"
	case strings.Contains(s, "reflect"):
		return "ReflectPanic"
	case strings.Contains(s, "does not match"):
		return "ArgMismatch"
	case strings.Contains(s, "signature mismatch"):
		return "SignatureMismatch"
	}
	return "Other"
}

// Flush writes buffered records to the file (used before a step that may crash the process).
func (o *Out) Flush() { o.w.Flush() }
