module github.com/tencent/goom/verifharness

go 1.18

require github.com/tencent/goom v0.0.0

replace github.com/tencent/goom => /repo
