"""Shared machinery of the goom verification checks (see DESIGN.md sections 1 and 3)."""
import fcntl
import hashlib
import json
import os
import re
import shutil
import subprocess
import sys
import time

ROOT = os.path.dirname(os.path.dirname(os.path.abspath(__file__)))
REPO = os.environ.get("VERIF_REPO", "/repo")
COQ = os.path.join(ROOT, "coq")
HARNESS = os.path.join(ROOT, "harness")
WORK = os.path.join(ROOT, ".work")
BIN = os.path.join(ROOT, "bin")
GOROOT_VENDOR = "/usr/lib/go-1.23/src/cmd/vendor/golang.org/x/arch"

TRUSTED_BASE = [
    "Coq 8.16.1 kernel incl. the vm_compute bytecode VM (no native_compute)",
    "axioms: none (Print Assumptions under every Props theorem says 'Closed under the global context')",
    "translator tools/go2v (Go-subset integer semantics: explicit wrap per operation, sizes from go/types)",
    "correspondence harness /verif/harness (Go, add-only hooks injected with -overlay under build tag verif)",
    "Go toolchain's own x86asm/arm64asm copies as independent reference decoders",
]


def go_env():
    e = dict(os.environ)
    e.update({"GOFLAGS": "-mod=mod", "GOPROXY": "off", "GOSUMDB": "off", "GOTOOLCHAIN": "local",
              "CGO_ENABLED": "0", "HOME": os.environ.get("HOME", "/root")})
    return e


def sh(cmd, timeout=600, cwd=None, env=None, stdin=None):
    """Run a command; returns (rc, combined output). rc 124 on timeout."""
    try:
        p = subprocess.run(cmd, cwd=cwd, env=env, timeout=timeout, stdout=subprocess.PIPE,
                           stderr=subprocess.STDOUT, input=stdin, shell=isinstance(cmd, str))
        return p.returncode, p.stdout.decode("utf-8", "replace")
    except subprocess.TimeoutExpired as ex:
        out = ex.stdout.decode("utf-8", "replace") if ex.stdout else ""
        return 124, out + "\n[timeout]"


class Lock:
    def __init__(self, name):
        os.makedirs(WORK, exist_ok=True)
        self.path = os.path.join(WORK, "lock." + name)

    def __enter__(self):
        self.f = open(self.path, "w")
        fcntl.flock(self.f, fcntl.LOCK_EX)
        return self

    def __exit__(self, *a):
        fcntl.flock(self.f, fcntl.LOCK_UN)
        self.f.close()


def workdir(pid):
    d = os.path.join(WORK, pid)
    shutil.rmtree(d, ignore_errors=True)
    os.makedirs(d, exist_ok=True)
    return d


# --------------------------------------------------------------------------- tools

def _newer(src_files, target):
    if not os.path.exists(target):
        return True
    t = os.path.getmtime(target)
    return any(os.path.getmtime(s) > t for s in src_files if os.path.exists(s))


def ensure_go2v():
    src = os.path.join(ROOT, "tools", "go2v")
    target = os.path.join(BIN, "go2v")
    srcs = [os.path.join(src, f) for f in os.listdir(src) if f.endswith(".go") or f == "go.mod"]
    if _newer(srcs, target):
        os.makedirs(BIN, exist_ok=True)
        rc, out = sh(["go", "build", "-o", target, "."], cwd=src, env=go_env(), timeout=600)
        if rc != 0:
            raise Infra("go2v build failed:\n" + out)
    return target


def run_go2v():
    """Regenerate coq/Gen from /repo's working tree. Returns the per-module status list."""
    with Lock("coq"):
        tool = ensure_go2v()
        os.makedirs(os.path.join(COQ, "Gen"), exist_ok=True)
        rc, out = sh([tool, "-repo", REPO, "-out", os.path.join(COQ, "Gen")], env=go_env(), timeout=600)
        if rc != 0:
            raise Infra("go2v failed:\n" + out)
        with open(os.path.join(COQ, "Gen", "go2v.json")) as f:
            return json.load(f)


def ensure_ref():
    ref = os.path.join(HARNESS, "ref")
    if os.path.exists(os.path.join(ref, "x86asm", "decode.go")) and os.path.exists(os.path.join(ref, "arm64asm", "decode.go")):
        return
    with Lock("go"):
        os.makedirs(ref, exist_ok=True)
        for arch, name in (("x86", "x86asm"), ("arm64", "arm64asm")):
            dst = os.path.join(ref, name)
            shutil.rmtree(dst, ignore_errors=True)
            shutil.copytree(os.path.join(GOROOT_VENDOR, arch, name), dst)
            for f in os.listdir(dst):
                if f.endswith("_test.go"):
                    os.remove(os.path.join(dst, f))


_ARCH_PKGS = [
    ("patcharm64", "internal/patch/monkey_arm64.go", "patch",
     "func JmpToFunctionValue(a, b uintptr) []byte { return jmpToFunctionValue(a, b) }\n"),
    ("ifacearm64", "internal/iface/jmp_arm64.go", "iface",
     "func JmpWithRdx(a uintptr) []byte { return jmpWithRdx(a) }\n"
     "func JmpWithRdxAndCtx(a, b, c uintptr) []byte { return jmpWithRdxAndCtx(a, b, c) }\n"),
    ("patch386", "internal/patch/monkey_386.go", "patch",
     "func JmpToFunctionValue(a, b uintptr) []byte { return jmpToFunctionValue(a, b) }\n"),
]

_STUBS = {
    "patcharm64": "func JmpToFunctionValue(a, b uintptr) []byte { return nil }\n",
    "ifacearm64": "func JmpWithRdx(a uintptr) []byte { return nil }\nfunc JmpWithRdxAndCtx(a, b, c uintptr) []byte { return nil }\n",
    "patch386": "func JmpToFunctionValue(a, b uintptr) []byte { return nil }\n",
}


def gen_archpkgs():
    """Copy the arm64/386 encoder files of the current tree into constraint-free packages the amd64 harness can run."""
    for name, rel, pkg, exports in _ARCH_PKGS:
        d = os.path.join(HARNESS, "genarch", name)
        os.makedirs(d, exist_ok=True)
        path = os.path.join(REPO, rel)
        body = None
        if os.path.exists(path):
            src = open(path).read()
            src = re.sub(r"(?m)^//go:build.*\n", "", src)
            src = re.sub(r"(?m)^// \+build.*\n", "", src)
            src, n = re.subn(r"(?m)^package %s\b" % pkg, "package " + name, src, count=1)
            if n == 1:
                body = "// Code generated by /verif/lib/vlib.py from %s; DO NOT EDIT.\n" % rel + src + \
                    "\n// Available reports that the copy succeeded.\nconst Available = true\n\n" + exports
        if body is None:
            body = "package %s\n\n// Available is false: the source file could not be copied.\nconst Available = false\n\n%s" % (name, _STUBS[name])
        out = os.path.join(d, "gen.go")
        if not os.path.exists(out) or open(out).read() != body:
            open(out, "w").write(body)


def build_hx(variant="", extra_flags=()):
    """Build the harness from /repo's working tree with the hooks overlaid. Returns (path, None) or (None, log)."""
    ensure_ref()
    with Lock("go"):
        gen_archpkgs()
        sh([sys.executable, os.path.join(ROOT, "tools", "gen_sigzoo.py")], timeout=120)
        gosum = os.path.join(REPO, "go.sum")
        if os.path.exists(gosum):
            shutil.copy(gosum, os.path.join(HARNESS, "go.sum"))
        os.makedirs(BIN, exist_ok=True)
        target = os.path.join(BIN, "hx" + variant)
        # -race switches checkptr on, which rejects goom's own pointer arithmetic (not a race): keep it off
        gcflags = "-gcflags=all=-l -d=checkptr=0" if "-race" in extra_flags else "-gcflags=all=-l"
        cmd = ["go", "build", "-tags", "verif", "-overlay", os.path.join(HARNESS, "overlay.json"),
               gcflags, "-o", target] + list(extra_flags) + ["./cmd/hx"]
        env = go_env()
        if "-race" in extra_flags or any("linkmode=external" in f for f in extra_flags):
            env["CGO_ENABLED"] = "1"
        rc, out = sh(cmd, cwd=HARNESS, env=env, timeout=900)
        if rc != 0:
            # a stale arch copy must not block the amd64 drivers: retry with stubs
            if "genarch" in out:
                for name, _, _, _ in _ARCH_PKGS:
                    p = os.path.join(HARNESS, "genarch", name, "gen.go")
                    open(p, "w").write("package %s\n\nconst Available = false\n\n%s" % (name, _STUBS[name]))
                rc2, out2 = sh(cmd, cwd=HARNESS, env=env, timeout=900)
                if rc2 == 0:
                    return target, "genarch-unavailable:\n" + out
            return None, out
        return target, None


# --------------------------------------------------------------------------- coq

def coq_makefile():
    mf = os.path.join(COQ, "Makefile")
    cp = os.path.join(COQ, "_CoqProject")
    if _newer([cp], mf):
        rc, out = sh(["coq_makefile", "-f", "_CoqProject", "-o", "Makefile"], cwd=COQ, timeout=120)
        if rc != 0:
            raise Infra("coq_makefile failed:\n" + out)


def coq_make(targets, timeout=900):
    """make the given .vo targets (full .vo build). Returns (ok, failed_file_or_None, log)."""
    with Lock("coq"):
        coq_makefile()
        rc, out = sh(["make", "-j16", "-k"] + list(targets), cwd=COQ, timeout=timeout)
    if rc == 0:
        return True, None, out
    failed = None
    m = re.search(r'File "\./([^"]+)", line (\d+)', out)
    if m:
        failed = "%s:%s" % (m.group(1), m.group(2))
    else:
        m = re.search(r"\*\*\* \[[^\]]*?([A-Za-z0-9_/]+\.vo)", out)
        if m:
            failed = m.group(1)
    if rc == 124:
        failed = (failed or "") + " [timeout]"
    return False, failed or "unknown", out


def coq_eval(name, text, wd, timeout=600):
    """Compile a scratch .v file (outside the project) against the compiled development. Returns (rc, output)."""
    p = os.path.join(wd, name + ".v")
    with open(p, "w") as f:
        f.write(text)
    return sh(["coqc", "-R", COQ, "Goom", "-w", "-notation-overridden", p], cwd=wd, timeout=timeout)


def zlist(xs):
    return "[" + "; ".join(("(%d)" % x) if x < 0 else str(x) for x in xs) + "]"


def zz(x):
    x = int(x)
    return "(%d)" % x if x < 0 else str(x)


def hexbytes(h):
    return list(bytes.fromhex(h))


# --------------------------------------------------------------------------- verdicts

class Infra(Exception):
    pass


def load_known():
    p = os.path.join(ROOT, "known_findings.json")
    if not os.path.exists(p):
        return []
    with open(p) as f:
        return json.load(f).get("findings", [])


_GO2V_DONE = False


# a run that exercised (far) fewer cases than a quick run normally does proves nothing about the implementation: it is
# reported as a broken obligation (about a third of the usual quick volume)
MIN_EVALUATIONS = {"C01": 500, "C02": 1000, "C03": 10000, "C04": 2000, "C05": 5000, "C06": 3000, "C07": 600, "C08": 2000, "C09": 800,
                   "C10": 8000, "C11": 20, "C12": 20000, "C13": 40, "C14": 2000, "C15": 1000000, "C16": 800000, "C17": 400000,
                   "C18": 2500, "C19": 4000, "C20": 100000}


class Check:
    """Collects what one check run found and renders verdict + evidence."""

    def __init__(self, pid, level="proof"):
        self.pid = pid
        self.level = level
        self.tier = os.environ.get("VERIF_TIER") or (sys.argv[2] if len(sys.argv) > 2 and sys.argv[2] in ("quick", "thorough") else "quick")
        try:
            self.seed = int(os.environ.get("VERIF_SEED", "1"))
        except ValueError:
            self.seed = 1
        self.t0 = time.time()
        self.wd = workdir(pid)
        self.violations = []      # (key, what, replay_obj, concrete:bool)
        self.known_hits = []
        self.coverage = {"obligations": 0, "discharged": 0, "checker_cmd": "", "trusted_base": list(TRUSTED_BASE),
                         "samples": [], "evaluations": 0, "distinct_nontrivial": 0, "rule": ""}
        self.assumptions = []
        self.notes = {}
        self.broken = []          # names of theorems / ties / correspondences that no longer check
        self.known = [k for k in load_known() if k.get("property") == pid]
        # replays are outputs of the latest run of this property
        rd = os.path.join(ROOT, "replays")
        if os.path.isdir(rd):
            for f in os.listdir(rd):
                if f.startswith(pid + "-") and f.endswith(".json"):
                    os.remove(os.path.join(rd, f))

    # -- findings
    def impl_violation(self, key, what, case):
        """A concrete failing input observed on the implementation. key identifies the finding's shape."""
        for k in self.known:
            if k.get("status") == "known" and k.get("key") == key:
                if key not in [h[0] for h in self.known_hits]:
                    self.known_hits.append((key, k.get("what", what)))
                return
        if any(v[0] == key for v in self.violations):
            return
        self.violations.append((key, what, case, True))

    def obligation_broken(self, name, detail):
        self.broken.append({"name": name, "detail": detail[-2000:] if isinstance(detail, str) else detail})

    # -- proof obligations
    def prove(self, targets, label=None):
        """Compile proof targets; count obligations from the Props file(s). Gen/*.v is regenerated from /repo first."""
        global _GO2V_DONE
        if not _GO2V_DONE:
            try:
                self.notes["go2v"] = {m["module"]: (sorted(m["failed"]) or "ok") for m in run_go2v()}
            except Infra as ex:
                self.obligation_broken("go2v", str(ex))
            _GO2V_DONE = True
        ok, failed, log = coq_make(targets)
        nthm = 0
        for t in targets:
            src = os.path.join(COQ, t[:-1])  # .vo -> .v
            if os.path.exists(src) and "/Props/" in src:
                txt = open(src).read()
                nthm += len(re.findall(r"(?m)^\s*(Theorem|Example|Lemma|Corollary)\s", txt))
        self.coverage["obligations"] += max(nthm, 1)
        self.coverage["checker_cmd"] = "make -C coq -j16 " + " ".join(targets) + "  (coqc 8.16.1, full .vo)"
        if ok:
            self.coverage["discharged"] += max(nthm, 1)
            # axiom report
            closed = log.count("Closed under the global context")
            ax = re.findall(r"(?m)^Axioms:\s*\n((?:.+\n)+)", log)
            if ax:
                self.notes["axioms_reported"] = ax
            # thorough tier: re-check the compiled closure of the Props module(s) with the independent checker
            if self.tier == "thorough" and not os.environ.get("VERIF_NO_COQCHK"):
                mods = ["Goom." + t[:-3].replace("/", ".") for t in targets if t.endswith(".vo")]
                with Lock("coq"):
                    rc, out = sh(["coqchk", "-silent", "-o", "-R", COQ, "Goom"] + mods, timeout=3600)
                m = re.search(r"\* Axioms:\s*(.*?)\n\s*\n", out, re.S)
                self.notes["coqchk"] = {"modules": mods, "exit": rc, "axioms": (m.group(1).strip() if m else "?")}
                if rc != 0 or not m or m.group(1).strip() != "<none>":
                    self.obligation_broken("coqchk " + " ".join(mods), out[-1500:])
        else:
            self.obligation_broken(label or (failed or "proof"), log)
        return ok, failed, log

    def finish(self):
        wall = time.time() - self.t0
        rc = 0
        lines = []
        if not self.violations and self.coverage.get("evaluations", 0) < MIN_EVALUATIONS.get(self.pid, 1):
            self.obligation_broken("harness: only %d evaluations of the implementation (a quick run has at least %d): the run is vacuous" % (
                self.coverage.get("evaluations", 0), MIN_EVALUATIONS.get(self.pid, 1)), "")
        for key, what in self.known_hits:
            lines.append("KNOWN-FINDING: property=%s %s" % (self.pid, what))
        os.makedirs(os.path.join(ROOT, "replays"), exist_ok=True)
        for key, what, case, concrete in self.violations:
            h = hashlib.sha1((self.pid + key).encode()).hexdigest()[:10]
            path = os.path.join(ROOT, "replays", "%s-%s.json" % (self.pid, h))
            with open(path, "w") as f:
                json.dump({"property": self.pid, "tier": self.tier, "seed": self.seed, "kind": "impl-violation",
                           "key": key, "what": what, "case": case,
                           "how_to_replay": "./check %s --replay %s" % (self.pid, path)}, f, indent=1)
            lines.append("VIOLATION property=%s replay=%s" % (self.pid, path))
            rc = 1
        if self.broken and not self.violations:
            key = "broken:" + ",".join(sorted(b["name"] for b in self.broken))
            h = hashlib.sha1((self.pid + key).encode()).hexdigest()[:10]
            path = os.path.join(ROOT, "replays", "%s-%s.json" % (self.pid, h))
            with open(path, "w") as f:
                json.dump({"property": self.pid, "tier": self.tier, "seed": self.seed, "kind": "obligation-broken",
                           "theorem_or_correspondence": self.broken,
                           "what": "proof obligation or correspondence no longer checks; the search found no failing input",
                           "how_to_replay": "./check %s %s" % (self.pid, self.tier)}, f, indent=1)
            lines.append("VIOLATION property=%s replay=%s no-failing-input-found" % (self.pid, path))
            rc = 1
        cov = self.coverage
        if cov.get("discharged", 0) == 0:
            # nothing was proved on this run: the proof-level keys do not apply (evidence falls back to the generic counts)
            cov["discharged_none"] = True
            cov.pop("discharged", None)
        cov["notes"] = self.notes
        if self.broken:
            cov["broken"] = [b["name"] for b in self.broken]
        ev = {"property_id": self.pid, "tier": self.tier, "seed": self.seed, "level": self.level,
              "coverage": cov, "assumptions": self.assumptions, "wall_s": round(wall, 2),
              "violations": len([l for l in lines if l.startswith("VIOLATION")])}
        if self.known_hits:
            ev["coverage"]["known_findings_seen"] = [k for k, _ in self.known_hits]
        os.makedirs(os.path.join(ROOT, "evidence"), exist_ok=True)
        with open(os.path.join(ROOT, "evidence", self.pid + ".json"), "w") as f:
            json.dump(ev, f, indent=1)
        for l in lines:
            print(l)
        print("%s %s: %s (%.1fs, obligations %d/%d, evaluations %d)" % (
            self.pid, self.tier, "OK" if rc == 0 else "FAIL", wall, cov.get("discharged", 0), cov["obligations"], cov["evaluations"]))
        return rc


def read_jsonl(path):
    out = []
    with open(path) as f:
        for line in f:
            line = line.strip()
            if line:
                out.append(json.loads(line))
    return out


def run_hx(hx, args, timeout=900, env=None):
    e = go_env()
    e["GOOM_VERIF"] = "1"
    if env:
        e.update(env)
    return sh([hx] + args, timeout=timeout, env=e, cwd=WORK)
