"""C17 -- the arm64 decoder is total and agrees with the reference on all 2^32 words (partial)."""
import json
import os
import re

import vlib
from vlib import Check


def coq_cases(samples):
    L = ["From Coq Require Import List ZArith Bool String. Import ListNotations.",
         "From Goom Require Import Model.A64Dec Gen.A64Table. Open Scope Z_scope.",
         "Definition cases : list (Z * string * Z) := ["]
    L.append(";\n".join('  (%d, "%s"%%string, %s)' % (s["w"], s["op"], vlib.zz(s["pcrel"])) for s in samples))
    L.append("].")
    L.append("Definition bad (c : Z * string * Z) : bool := let '(w, op, d) := c in")
    L.append("  match decode_branch a64_formats w with Some (o, Some l) => negb (String.eqb o op && (l =? d)) | _ => true end.")
    L.append("Definition M := Eval vm_compute in map (fun c => fst (fst c)) (filter bad cases).")
    L.append("Eval vm_compute in M.")
    return "\n".join(L) + "\n"


def run(replay=None):
    ck = Check("C17", "proof")
    ck.assumptions = [
        "PARTIAL: the theorems cover the branch / address classes goom's arm64 scans depend on (first-match, opcode, displacement); agreement with the reference decoder on the rest of the 2^32 words is an exhaustive (thorough) or strided (quick) Go-side sweep -- complete enumeration of a finite domain in the thorough tier, not a Coq theorem",
        "the reference is the Go toolchain's own arm64asm copy (GOROOT/src/cmd/vendor); words the reference decodes as DC/TLBI/SYS/IC/AT and the bundled copy deliberately leaves undecoded are skipped and counted",
        "the five label-argument formulas and the 'always decodable' argument kinds of the model are hand-transcribed and validated by the correspondence on class words",
    ]
    ok, failed, log = ck.prove(["Props/C17.vo"], label="Props/C17")
    if not ok:
        m_ok, _, mlog = vlib.coq_make(["Model/A64Dec.vo"])
        if not m_ok:
            raise vlib.Infra("Model/A64Dec.v does not compile:\n" + mlog[-1500:])
    hx, blog = vlib.build_hx()
    if hx is None:
        ck.obligation_broken("harness build", blog)
        return ck.finish()
    obs = os.path.join(ck.wd, "obs.jsonl")
    rc, out = vlib.run_hx(hx, ["c17", "-seed", str(ck.seed), "-tier", ck.tier, "-out", obs], timeout=7200)
    if rc != 0:
        ck.impl_violation("crash", "the decoder sweep crashes the process (exit %d): %s" % (rc, out[-300:].replace("\n", " ")), {"tail": out[-800:]})
        return ck.finish()
    rs = vlib.read_jsonl(obs)
    for r in rs:
        if r["kind"] in ("classes", "sweep", "formats"):
            ck.coverage["evaluations"] += r["words"]
            ck.notes[r["kind"]] = {k: v for k, v in r.items() if k not in ("kind", "first")}
            if r["kind"] == "sweep":
                ck.coverage["exhaustive"] = bool(r["exhaustive"])
            for cls, what in (("panics", "panics (Decode or String)"), ("decodability", "disagrees with the reference on decodability"),
                              ("opcode", "disagrees with the reference on the opcode"), ("pcrel", "disagrees with the reference on the PC-relative displacement")):
                if r[cls]:
                    f = (r.get("first") or [{}])
                    f0 = [x for x in f if x.get("kind") == cls.rstrip("s")] or f
                    ck.impl_violation("%s:%s" % (r["kind"], cls), "the bundled arm64 decoder %s on %d of %d words (%s); first: %s" % (what, r[cls], r["words"], r["kind"], f0[0]),
                                      {"first": r.get("first")})
    samp = [r for r in rs if r["kind"] == "samples"][0]["samples"]
    dec = [s for s in samp if s["ok"] and s["has"]]
    ck.coverage["distinct_nontrivial"] = len({s["w"] for s in dec})
    rc2, out2 = vlib.coq_eval("c17_cases", coq_cases(dec), ck.wd, timeout=900)
    flat = out2.replace("\n", " ")
    m = re.search(r"=\s*(\[.*?\])\s*:\s*list Z", flat)
    if rc2 != 0 or not m:
        ck.obligation_broken("correspondence C17 (coqc evaluation failed)", out2[-1500:])
    else:
        ck.coverage["traces_validated_against_impl"] = len(dec)
        bad = re.findall(r"\d+", m.group(1))
        if bad:
            ck.obligation_broken("correspondence C17: model and bundled decoder differ on %d class words, e.g. 0x%08x" % (len(bad), int(bad[0])), str(bad[:8]))
    ck.coverage["rule"] = ("11 branch/address classes x 40 000 (quick) / 400 000 (thorough) random fills of the free bits incl. all-zero/all-one/alternating; every one of the 1 200 formats x 400 (6 000) field-segment fills (0 / ones / random); the whole 32-bit space with a prime stride "
                           "(quick: ~1M words) or completely (thorough: 2^32 words on 16 cores); per word: Decode and String must not panic, decodability / opcode / displacement equal the reference; "
                           "3 300 class words evaluated in Coq against the model; non-trivial = decodable class word")
    ck.coverage["samples"] = [{"w": "0x%08x" % s["w"], "op": s["op"], "pcrel": s["pcrel"]} for s in dec[:3]]
    return ck.finish()
