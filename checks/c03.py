"""C03 -- calling the origin placeholder runs the unmodified original function."""
import json
import os
import re

import vlib
from vlib import Check


def hexl(h):
    return "[" + "; ".join(str(b) for b in bytes.fromhex(h)) + "]"


def coq_ins(s):
    out = []
    for part in s.split(","):
        pre, w, disp, post, fl = part.split(":")
        fl = int(fl)
        out.append("I %s %s %s %s %s %s %s" % (hexl(pre), w, vlib.zz(disp), hexl(post), "true" if fl & 1 else "false",
                                               "true" if fl & 2 else "false", "true" if fl & 4 else "false"))
    return "[" + "; ".join(out) + "]"


PRELUDE = """From Coq Require Import List ZArith Bool Arith. Import ListNotations.
From Goom Require Import Base.MachineInt Model.Tramp Gen.Addr. Open Scope Z_scope.
Definition I := Build_dins.
Fixpoint zleqb (a b : list Z) : bool := match a, b with [], [] => true | x :: a', y :: b' => (x =? y) && zleqb a' b' | _, _ => false end.
"""


def coq_fix_cases(rs):
    L = [PRELUDE, "Definition cases : list (Z * list dins * Z * Z * Z * (Z * list Z * Z)) := ["]
    rows = []
    for i, r in enumerate(rs):
        cls = {"built": 0, "error": 1, "panic": 2}[r["res"]]
        fixed = hexl(r["fixed"]) if cls == 0 else "[]"
        size = r["size"] if cls == 0 else 0
        rows.append("  (%d, %s, %d, %d, %d, (%d, %s, %d))" % (i, coq_ins(r["ins"]), r["from"], r["tramp"], r["n"], cls, fixed, size))
    L.append(";\n".join(rows))
    L.append("].")
    L.append("Definition bad (c : Z * list dins * Z * Z * Z * (Z * list Z * Z)) : Z * bool :=")
    L.append("  let '(i, is, from, tramp, n, (cls, fixed, size)) := c in")
    L.append("  (i, match fix_relative_addr opExpand is from tramp n 13 with")
    L.append("      | FOk (d, s) => (cls =? 0) && zleqb d fixed && (s =? size)")
    L.append("      | FErr => cls =? 1 | FPanic => cls =? 2 end).")
    L.append("Definition M := Eval vm_compute in map fst (filter (fun r => negb (snd r)) (map bad cases)).")
    L.append("Eval vm_compute in M.")
    return "\n".join(L) + "\n"


def coq_enc_cases(rs):
    L = [PRELUDE, "Definition cases : list (Z * list Z * Z * Z * Z * option (list Z)) := ["]
    rows = []
    for i, r in enumerate(rs):
        o = "None" if r.get("panic") else "Some %s" % hexl(r["out"])
        rows.append("  (%d, %s, %d, %s, %s, %s)" % (i, hexl(r["ops"]), r["w"], vlib.zz(r["val"]), vlib.zz(r["add"]), o))
    L.append(";\n".join(rows))
    L.append("].")
    L.append("Definition oeq (a b : option (list Z)) : bool := match a, b with None, None => true | Some x, Some y => zleqb x y | _, _ => false end.")
    L.append("Definition bad (c : Z * list Z * Z * Z * Z * option (list Z)) : Z * bool :=")
    L.append("  let '(i, ops, w, val, add, o) := c in (i, oeq (encode_address opExpand ops w val add) o).")
    L.append("Definition M := Eval vm_compute in map fst (filter (fun r => negb (snd r)) (map bad cases)).")
    L.append("Eval vm_compute in M.")
    return "\n".join(L) + "\n"


def eval_mismatches(ck, name, text, label, timeout=1200):
    rc, out = vlib.coq_eval(name, text, ck.wd, timeout=timeout)
    flat = out.replace("\n", " ")
    m = re.search(r"=\s*(\[.*?\])\s*:\s*list Z", flat)
    if rc != 0 or not m:
        ck.obligation_broken("correspondence C03/%s (coqc evaluation failed)" % label, out[-1500:])
        return None
    return [int(x) for x in re.findall(r"\d+", m.group(1))]


def run(replay=None):
    ck = Check("C03", "proof")
    ck.assumptions = [
        "the instruction stream is what goom's bundled decoder reports (length, position and width of the PC-relative field, Opcode==0, prints as RET, decode error); its exactness on compiler-emitted code is C16",
        "the independent oracle decodes original prefix and trampoline with the Go toolchain's own x86asm copy",
        "stack-growth re-entry (F03c) is a known finding: a relocated stack check branches to the original morestack block, which ends in JMP entry = the patched jump",
    ]
    ok, failed, log = ck.prove(["Props/C03.vo"], label="Props/C03")
    if not ok:
        m_ok, _, mlog = vlib.coq_make(["Model/Tramp.vo", "Gen/Addr.vo"])
        if not m_ok:
            raise vlib.Infra("Model/Tramp.v does not compile:\n" + mlog[-1500:])
    hx, blog = vlib.build_hx()
    if hx is None:
        ck.obligation_broken("harness build", blog)
        return ck.finish()
    obs = os.path.join(ck.wd, "obs.jsonl")
    rc, out = vlib.run_hx(hx, ["c03", "-seed", str(ck.seed), "-tier", ck.tier, "-out", obs], timeout=3000)
    if rc != 0:
        ck.obligation_broken("harness run c03 (exit %d)" % rc, out[-2000:])
        return ck.finish()
    allr = vlib.read_jsonl(obs)
    fx = [r for r in allr if r["kind"] == "fix"]
    summ = [r for r in allr if r["kind"] == "summary"]
    ck.notes["sweep"] = summ[0] if summ else {}
    ck.coverage["evaluations"] = len(fx)
    ck.coverage["distinct_nontrivial"] = len({(r["name"], r["place"]) for r in fx if r["res"] == "built"})
    # ---- the property on the observations (independent decoder)
    for r in fx:
        if r["res"] == "built" and r["cls"]:
            far = r["place"] >= 3
            ck.impl_violation("unfaithful:%s%s" % (r["cls"], ":far" if far else ""),
                              "trampoline built for %s (placeholder at %+d) is not faithful: %s %s" % (r["name"], r["tramp"] - r["from"], r["cls"], r["detail"]),
                              {k: r.get(k) for k in ("name", "from", "tramp", "place", "n", "size", "fixed", "code", "cls", "detail")})
    reent = [r for r in fx if r["res"] == "built" and not r["cls"] and r["entry_branches"] > 0 and r["place"] == 0]
    ck.notes["functions_with_branch_to_own_entry_outside_prefix"] = len(reent)
    # ---- correspondence: model vs implementation on the sampled streams
    withins = [r for r in fx if "ins" in r]
    evaluated, mism = 0, 0
    for si in range(0, len(withins), 700):
        part = withins[si:si + 700]
        bad = eval_mismatches(ck, "c03_fix_%d" % si, coq_fix_cases(part), "fix")
        if bad is None:
            break
        evaluated += len(part)
        for a in bad:
            mism += 1
            if mism <= 3:
                r = part[a]
                ck.obligation_broken("correspondence C03: model and fixRelativeAddr differ on %s (placeholder at %+d)" % (r["name"], r["tramp"] - r["from"]),
                                     json.dumps({k: r.get(k) for k in ("name", "from", "tramp", "n", "res", "size", "fixed", "ins")})[:1800])
    enc = [r for r in allr if r["kind"] == "enc"]
    bad = eval_mismatches(ck, "c03_enc", coq_enc_cases(enc), "EncodeAddress")
    if bad is not None:
        evaluated += len(enc)
        for a in bad[:3]:
            ck.obligation_broken("correspondence C03: model and EncodeAddress differ", json.dumps(enc[a]))
        mism += len(bad)
    # ---- dynamic: synthetic prologue shapes executed for real (one process each), then compiler-emitted functions
    cnt_path = os.path.join(ck.wd, "dyn_count.jsonl")
    rc, out = vlib.run_hx(hx, ["c03", "-extra", "dyn:count", "-out", cnt_path], timeout=60)
    names = vlib.read_jsonl(cnt_path)[0]["names"] if rc == 0 else []
    dyn_summary = {}
    for k, nm in enumerate(names):
        pth = os.path.join(ck.wd, "dyn_%d.jsonl" % k)
        rc, out = vlib.run_hx(hx, ["c03", "-extra", "dyn:%d" % k, "-out", pth], timeout=60)
        recs = [r for r in (vlib.read_jsonl(pth) if os.path.exists(pth) else []) if r.get("kind") == "dyn"]
        if not recs:
            built = os.path.exists(pth) and "built" in open(pth).read()
            ck.impl_violation("crash:" + nm, "shape %s: the process crashed %s (exit %d)" % (nm, "while calling through the trampoline" if built else "during apply", rc),
                              {"shape": nm, "k": k, "tail": out[-600:]})
            dyn_summary[nm] = "crash"
            continue
        r = recs[0]
        case = {x: r.get(x) for x in ("shape", "k", "code", "inputs", "expected", "via_origin", "mocked", "trampoline", "refused", "error", "panic", "changed", "changed_outside")}
        if r["changed_outside"]:
            ck.impl_violation("write-outside:" + nm, "shape %s: %d bytes changed outside the entry jump and the placeholder body" % (nm, r["changed_outside"]), case)
        if r["refused"]:
            dyn_summary[nm] = "refused"
            if r["changed"]:
                ck.impl_violation("refused-but-written:" + nm, "shape %s: the apply failed (%s) but %d bytes of the image changed" % (nm, r.get("error") or r.get("panic"), r["changed"]), case)
            continue
        good = r.get("via_origin") == r["expected"]
        dyn_summary[nm] = "faithful" if good else "differs"
        if any(m != -777 for m in r.get("mocked", [])):
            ck.impl_violation("mock-not-reached:" + nm, "shape %s: calling the patched function does not reach the replacement" % nm, case)
        if not good:
            if r["expect"] == "known-reenter":
                ck.impl_violation("reenter", "calling the origin placeholder re-enters the mock: shape %s (a branch of the original body targets the patched entry): expected %s, got %s" % (nm, r["expected"], r.get("via_origin")), case)
            else:
                ck.impl_violation("origin-differs:" + nm, "shape %s: calling the origin placeholder gives %s, the un-mocked function gave %s" % (nm, r.get("via_origin"), r["expected"]), case)
    ck.notes["synthetic_shapes"] = dyn_summary
    gp = os.path.join(ck.wd, "dyngo.jsonl")
    rc, out = vlib.run_hx(hx, ["c03", "-extra", "dyn:go", "-tier", ck.tier, "-out", gp], timeout=1200)
    grecs = vlib.read_jsonl(gp) if os.path.exists(gp) else []
    if rc != 0:
        last = [r for r in grecs if r.get("kind") == "dyn-progress"]
        ck.impl_violation("crash:go:" + (last[-1]["target"] if last else "?"), "compiler-emitted targets: the process crashed (exit %d) after %s" % (rc, last[-1] if last else "start"),
                          {"tail": out[-600:], "progress": last})
    gsum = {}
    for r in grecs:
        if r.get("kind") == "dyngo":
            gsum[r["target"]] = {x: r.get(x) for x in ("apply_panic", "bad_warm", "depths", "reenter_depths", "wrong_result_depths", "first_reenter_depth", "entry_branches_beyond_prefix")}
            if r.get("apply_panic"):
                continue
            fb = r.get("first_bad_warm") or {}
            if r["bad_warm"] and r.get("entry_branches_beyond_prefix") and fb.get("callbacks", 0) > 1:
                ck.impl_violation("reenter", "calling the origin placeholder re-enters the mock: %s has a branch to its own (patched) entry beyond the copied prefix; %d of 23 warm-stack calls invoke the callback more than once (%s)" % (r["target"], r["bad_warm"], fb), r)
            elif r["bad_warm"]:
                ck.impl_violation("origin-wrong:" + r["target"], "%s mocked with a pass-through callback: %d of 23 calls on a warm stack give a wrong result or callback count: %s" % (r["target"], r["bad_warm"], r.get("first_bad_warm")), r)
            if r["reenter_depths"] or r["wrong_result_depths"]:
                ck.impl_violation("reenter", "calling the origin placeholder with little stack headroom re-enters the mock: %s at %d of %d stack depths (first at depth %s: %s callback invocations)" % (
                    r["target"], r["reenter_depths"], r["depths"], r.get("first_reenter_depth"), r.get("first_reenter_callbacks")), r)
        if r.get("kind") == "dyngo-reset" and r["bad"]:
            ck.impl_violation("reset-after-origin", "after Reset %d calls of the formerly mocked functions differ from their twins" % r["bad"], r)
    ck.notes["compiler_emitted_targets"] = gsum
    ck.coverage["evaluations"] += len(names) * 10 + sum(v.get("depths") or 0 for v in gsum.values())
    ck.coverage["traces_validated_against_impl"] = evaluated
    ck.notes["model_mismatches"] = mism
    ck.coverage["rule"] = ("pure fixRelativeAddr on every function of the harness binary (bytes capped at 600) x 5 placeholder placements (+64K, -32K, near, +-2GiB-64K); "
                           "built trampolines decoded with the toolchain decoder and compared instruction by instruction with the copied prefix; a sample "
                           "of the streams is evaluated in Coq against the model; EncodeAddress on a grid; non-trivial = trampoline built")
    ck.coverage["samples"] = [{k: r.get(k) for k in ("name", "from", "tramp", "res", "size", "fixed", "cls")} for r in fx[:2]]
    if ck.violations:
        ck.broken = [b for b in ck.broken if not b["name"].startswith("correspondence C03: model")]
    return ck.finish()
