"""C20 -- executable stub space is never handed out twice or outside its reserve."""
import json
import os
import re

import vlib
from vlib import Check, zlist

BASE = 4096  # model addresses: reserve = [BASE, BASE+reserve)


def coq_seq_cases(cases, with_gen):
    L = ["From Goom Require Import Base.MachineInt Model.StubSpace.",
         "From Coq Require Import List ZArith Bool. Import ListNotations. Open Scope Z_scope."]
    if with_gen:
        L.append("From Goom Require Gen.Holder. Definition gprog := Gen.Holder.acquireFromHolder_prog.")
    else:
        L.append("Definition gprog := holder_prog.")
    L.append("Definition enc (base : Z) (r : option Z) : Z := match r with Some a => a - base | None => -1 end.")
    L.append("Fixpoint zleqb (a b : list Z) : bool := match a, b with [], [] => true | x :: a', y :: b' => (x =? y) && zleqb a' b' | _, _ => false end.")
    L.append("Definition cases : list (Z * Z * list Z * list Z) := [")
    rows = []
    for i, c in enumerate(cases):
        rows.append("  (%d, %d, %s, %s)" % (i, c["reserve"], zlist(c["sizes"]), zlist(c["res"])))
    L.append(";\n".join(rows))
    L.append("].")
    L.append("Definition bad (c : Z * Z * list Z * list Z) : Z :=")
    L.append("  let '(i, reserve, ns, obs) := c in")
    L.append("  (if zleqb (map (enc %d) (acquire_all holder_prog (%d + reserve) %d ns)) obs then 0 else 1) +" % (BASE, BASE, BASE))
    L.append("  (if zleqb (map (enc %d) (acquire_all gprog (%d + reserve) %d ns)) obs then 0 else 2)." % (BASE, BASE, BASE))
    L.append("Definition M := Eval vm_compute in filter (fun p => negb (snd p =? 0)) (map (fun c => (fst (fst (fst c)), bad c)) cases).")
    L.append("Print M.")
    return "\n".join(L) + "\n"


def coq_search():
    """Model-side search: exhaustive schedules of 2 and 3 requesters over the REGENERATED program."""
    return """From Goom Require Import Base.MachineInt Model.StubSpace.
From Goom Require Gen.Holder.
From Coq Require Import List ZArith. Import ListNotations. Open Scope Z_scope.
Definition p := Gen.Holder.acquireFromHolder_prog.
Definition W := Eval vm_compute in
  [ search 12 2 100 1000 (init_cfg p 100 [8; 8]) [];
    search 12 2 100 1000 (init_cfg p 100 [1; 1]) [];
    search 12 2 100 120 (init_cfg p 100 [12; 12]) [];
    search 12 2 100 120 (init_cfg p 100 [20; 1]) [];
    search 12 2 100 1000 (init_cfg p 100 [0; 5]) [];
    search 18 3 100 130 (init_cfg p 100 [10; 10; 10]) [];
    search 18 3 100 125 (init_cfg p 100 [10; 10; 10]) [] ].
Print W.
"""


def parse_M(out):
    m = re.search(r"M\s*=\s*(\[[^\]]*\])", out.replace("\n", " "))
    if not m:
        return None
    body = m.group(1).strip()
    if body == "[]":
        return []
    return [(int(a), int(b)) for a, b in re.findall(r"\((\d+),\s*(\d+)\)", body)]


def seq_oracle(c):
    """The property itself on one sequential history: in bounds, pairwise disjoint, error iff the request does not fit."""
    regs = []
    top = 0
    for n, r in zip(c["sizes"], c["res"]):
        if r == -2:
            return "unexpected error kind"
        if r == -1:
            continue
        if r < 0 or r + n > c["reserve"]:
            return "region [%d,%d) outside the reserve of %d bytes" % (r, r + n, c["reserve"])
        for (a, m) in regs:
            if r < a + m and a < r + n:
                return "region [%d,%d) overlaps [%d,%d)" % (r, r + n, a, a + m)
        regs.append((r, n))
    granted = sum(n for n, r in zip(c["sizes"], c["res"]) if r >= 0)
    if granted > c["reserve"]:
        return "granted %d bytes from a reserve of %d" % (granted, c["reserve"])
    return None


def run(replay=None):
    ck = Check("C20", "proof")
    ck.assumptions = [
        "atomic.LoadUintptr/AddUintptr are single atomic actions (Go memory model); everything else in acquireFromHolder is thread-local",
        "total requested bytes + max < 2^64 (no wrap of the bump pointer)",
        "mmap returns fresh executable mappings (kernel); exercised, not proved: every region is written through stub.Write, read back and called through",
        "negative request sizes are outside the property's domain",
    ]
    status = vlib.run_go2v()
    tr = [m for m in status if m["module"] == "Holder"][0]
    ok, failed, log = ck.prove(["Props/C20.vo"], label="Props/C20 (incl. Tie/HolderTie: regenerated holder program = proved program)")
    with_gen = not tr["failed"]
    if tr["failed"]:
        ck.notes["go2v_failed"] = tr["failed"]
    if not ok:
        ck.notes["proof_failed_at"] = failed
        deps = ["Model/StubSpace.vo"] + (["Gen/Holder.vo"] if with_gen else [])
        g_ok, _, glog = vlib.coq_make(deps)
        if not g_ok:
            with_gen = False
            m_ok, _, mlog = vlib.coq_make(["Model/StubSpace.vo"])
            if not m_ok:
                raise vlib.Infra("Model/StubSpace.v does not compile:\n" + mlog[-1500:])

    hx, blog = vlib.build_hx()
    if hx is None:
        ck.obligation_broken("harness build (hooks no longer fit the source)", blog)
        return ck.finish()
    obs = os.path.join(ck.wd, "obs.jsonl")
    rc, out = vlib.run_hx(hx, ["c20", "-seed", str(ck.seed), "-tier", ck.tier, "-out", obs], timeout=3000)
    if rc != 0:
        # the driver only requests regions, writes stubs into them and calls through them: a fault means a region was not usable
        done = [r.get("kind") for r in (vlib.read_jsonl(obs) if os.path.exists(obs) else [])]
        ck.impl_violation("crash", "the process dies (exit %d) while regions handed out by the allocator are written and executed (after %d records, last: %s): %s" % (
            rc, len(done), done[-1] if done else "none", out[-300:].replace("\n", " ")), {"tail": out[-1200:], "records": len(done)})
        return ck.finish()
    rows = vlib.read_jsonl(obs)
    seqs = [r for r in rows if r["kind"] == "seq"]
    ck.coverage["evaluations"] = sum(len(r["sizes"]) for r in seqs) + sum(r.get("regions", 0) + r.get("errors", 0) for r in rows if r["kind"] == "conc")
    ck.coverage["distinct_nontrivial"] = len({json.dumps([r["sizes"], r["res"]]) for r in seqs if any(x >= 0 for x in r["res"])})
    ck.coverage["rule"] = ("sequential histories of request sizes on the fallback allocator (stub-sized up to exhaustion, random 0..4096, straddling the end, exact fit, after exhaustion); "
                           "non-trivial = at least one region granted, distinct by (sizes,results); plus contended rounds with 2..16 spin-started goroutines and 11 Acquire dispatch probes")
    ck.coverage["samples"] = [{"sizes": r["sizes"][:12], "res": r["res"][:12]} for r in seqs[1:4]]
    for r in seqs:
        why = seq_oracle(r)
        if why:
            ck.impl_violation("seq:" + why.split(" ")[0], "sequential history: " + why, r)
    # the fallback inside Acquire, with the mapping refused by the kernel (own process: a fault is an observation)
    fobs = os.path.join(ck.wd, "fallback.jsonl")
    rcf, outf = vlib.run_hx(hx, ["c20", "-extra", "fallback", "-out", fobs], timeout=300)
    frows = vlib.read_jsonl(fobs) if os.path.exists(fobs) else []
    fb = [r for r in frows if r["kind"] == "fallback"]
    if rcf != 0:
        last = [r for r in frows if r["kind"] == "fallback-about"]
        ck.impl_violation("fallback:crash", "with the mapping refused, the region Acquire hands out cannot be written / executed: the process dies (exit %d) at %s" % (
            rcf, last[-1] if last else "?"), {"tail": outf[-500:], "last": last[-1] if last else None})
    for r in fb:
        if r.get("skipped") or r.get("err"):
            continue
        ck.coverage["evaluations"] += 1
        if r.get("exec"):
            ck.impl_violation("fallback:" + r["exec"].split(":")[0], "Acquire(%d) with the mapping refused: %s" % (r["n"], r["exec"]), r)
        if r["in_reserve"] and r["typ"] != 1:
            ck.impl_violation("fallback:wrong-kind", "Acquire(%d) with the mapping refused returns a region of the reserve tagged as a private mapping" % r["n"], r)
    ck.notes["fallback_probes"] = {"ran": len([r for r in fb if not r.get("skipped")]), "skipped": len([r for r in fb if r.get("skipped")])}
    for r in rows:
        if r["kind"] == "dispatch":
            n = r["n"]
            if not r["err"]:
                if r.get("exec"):
                    ck.impl_violation("exec:" + r["exec"], "Acquire(%d): %s" % (n, r["exec"]), r)
                if r.get("overlap"):
                    ck.impl_violation("dispatch:overlap", "Acquire(%d) overlaps an earlier region" % n, r)
                if r.get("len", n) < n:
                    ck.impl_violation("dispatch:short", "Acquire(%d) returned %d bytes" % (n, r.get("len")), r)
                if r["typ"] == 1 and not r["in_reserve"]:
                    ck.impl_violation("dispatch:holder-outside", "fallback region for %d bytes lies outside the reserve" % n, r)
                if r["typ"] == 2 and r["holder_moved"]:
                    ck.impl_violation("dispatch:both", "reserve consumed although the mapping succeeded", r)
            elif not r.get("overflow"):
                ck.impl_violation("dispatch:error-kind", "Acquire(%d) failed with an error other than exhaustion" % n, r)
        elif r["kind"] == "holder_exec":
            if r["err"] or r.get("exec"):
                ck.impl_violation("holder-exec", "fallback region of %d bytes: %s" % (r["n"], r.get("exec") or "error"), r)
        elif r["kind"] == "reserve_sweep":
            ck.coverage["evaluations"] += r["regions"]
            ck.notes["reserve_sweep"] = {k: r[k] for k in ("regions", "cross_page", "bad")}
            if r["bad"]:
                ck.impl_violation("reserve-region-not-writable", "%d of %d interface-stub sized regions of the reserve cannot be written and read back (%d of them lie across a page boundary); first: %s" % (
                    r["bad"], r["regions"], r["cross_page"], r["first"]), r)
        elif r["kind"] == "conc":
            if r["overlaps"] or r["oob"] or r["overgrant"]:
                ck.impl_violation("conc:overlap" if r["overlaps"] else "conc:bounds",
                                  "%d concurrent requesters of %d bytes: %d overlapping, %d out-of-bounds regions (first: %s)" % (
                                      r["g"], r["size"], r["overlaps"], r["oob"], json.dumps(r["first"])), r)
    ck.notes["contended_rounds"] = [{k: r[k] for k in ("g", "size", "rounds", "regions", "errors", "overlaps")} for r in rows if r["kind"] == "conc"]

    # correspondence in Coq: sequential histories vs Model program and vs the regenerated program
    mism = 0
    evaluated = 0
    short = [r for r in seqs if len(r["sizes"]) <= 120]
    for si in range(0, min(len(short), 1600), 400):
        sh_cases = short[si:si + 400]
        rc, out = vlib.coq_eval("c20_cases_%d" % si, coq_seq_cases(sh_cases, with_gen), ck.wd, timeout=600)
        M = parse_M(out) if rc == 0 else None
        if M is None:
            ck.obligation_broken("correspondence C20 (coqc evaluation failed)", out)
            break
        evaluated += len(sh_cases)
        for idx, code in M[:3]:
            mism += 1
            which = "+".join(w for b, w in ((1, "Model.holder_prog"), (2, "Gen.acquireFromHolder_prog")) if code & b)
            ck.obligation_broken("correspondence C20: %s disagrees with the implementation on a sequential history" % which, json.dumps(sh_cases[idx]))
    ck.coverage["traces_validated_against_impl"] = evaluated

    # model-side search when the regenerated program is no longer the proved one
    if not ok and with_gen:
        rc, out = vlib.coq_eval("c20_search", coq_search(), ck.wd, timeout=600)
        flat = out.replace("\n", " ")
        ck.notes["model_search_output"] = flat[-600:]
        m = re.search(r"Some\s*\[([^\]]*)\]", flat)
        if rc == 0 and m:
            sched = [int(x) for x in re.findall(r"(\d+)%nat", m.group(1))]
            impl = [r for r in rows if r["kind"] == "conc" and (r["overlaps"] or r["oob"])]
            ck.impl_violation("conc:overlap" if impl else "model-schedule",
                              "the holder program regenerated from the source admits a schedule with overlapping/out-of-reserve regions: %s%s" % (
                                  sched, " (reproduced on the implementation under contention)" if impl else ""),
                              {"schedule_thread_indices": sched, "program": open(os.path.join(vlib.COQ, "Gen", "Holder.v")).read(),
                               "implementation_contention_runs": impl[:2]})
    ck.notes["tie"] = "translator+tie" if ok else "broken"
    return ck.finish()
