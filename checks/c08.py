"""C08 -- variable mocks take effect for every type and restore the pre-mock value."""
import json
import os
import re

import vlib
from vlib import Check


def spec_trace(h):
    """The property, executed directly: returns the expected value index of every variable after every step."""
    nv = len(h["vars"])
    cells = [0] * nv
    mockers = []          # dict(var, origin, canceled)
    cache = {}            # (b, slot) -> mocker id
    handles = []
    out = []
    for op in h["ops"]:
        k, a, b = op["k"], op["a"], op["b"]
        if k == 0:
            mid = cache.get((a, b))
            if mid is None or mockers[mid]["canceled"]:
                mockers.append({"var": b, "origin": None, "canceled": False})
                mid = len(mockers) - 1
                cache[(a, b)] = mid
            handles.append(mid)
        elif k in (1, 2):
            m = mockers[handles[a]]
            if m["origin"] is None:
                m["origin"] = cells[m["var"]]
            cells[m["var"]] = b
            m["canceled"] = False    # a mocker that is set again after Cancel is live again: Reset of its builder must reach it
        elif k == 3:
            m = mockers[handles[a]]
            if m["origin"] is not None:
                cells[m["var"]] = m["origin"]
                m["origin"] = None
            m["canceled"] = True
        elif k == 4:
            for (bb, slot), mid in cache.items():
                if bb == a:
                    m = mockers[mid]
                    if m["origin"] is not None:
                        cells[m["var"]] = m["origin"]
                        m["origin"] = None
                    m["canceled"] = True
        elif k == 5:
            cells[a] = b
        out.append(list(cells))
    return out


OPN = {0: "Lookup", 1: "Set", 2: "Apply", 3: "Cancel", 4: "Reset", 5: "Write"}


def classify(h, step, exp):
    op = h["ops"][step]
    pan = h["panics"][step]
    kinds = [OPN[o["k"]] for o in h["ops"][:step + 1]]
    name = OPN[op["k"]]
    unexported = any(v.startswith("u") for v in h["vars"])
    if pan:
        nsets = sum(1 for x in kinds[:-1] if x in ("Set", "Apply"))
        if name in ("Cancel", "Reset"):
            return "restore-panics" + (":never-set" if nsets == 0 else "")
        if name == "Apply" and unexported:
            return "apply-unexported-panics"
        return name.lower() + "-panics"
    if name in ("Cancel", "Reset"):
        return "restore-wrong-value"
    if name in ("Set", "Apply"):
        return "mock-not-visible"
    return name.lower() + "-changes-variable"


def coq_cases(hs):
    L = ["From Coq Require Import List ZArith Bool Arith. Import ListNotations.",
         "From Goom Require Import Model.VarMock. Open Scope Z_scope.",
         "Fixpoint zleqb (a b : list Z) : bool := match a, b with [], [] => true | x :: a', y :: b' => (x =? y) && zleqb a' b' | _, _ => false end.",
         "Fixpoint first_diff (i : Z) (a b : list (list Z)) : Z := match a, b with [], [] => -1 | x :: a', y :: b' => if zleqb x y then first_diff (i + 1) a' b' else i | _, _ => i end.",
         "Definition cases : list (Z * nat * list vop * list (list Z)) := ["]
    rows = []
    for i, h in enumerate(hs):
        ops = []
        for op in h["ops"]:
            k, a, b = op["k"], op["a"], op["b"]
            if k == 0:
                ops.append("VLookup %d %d" % (a, b))
            elif k in (1, 2):
                ops.append("VSet %d %d" % (a, b))
            elif k == 3:
                ops.append("VCancel %d" % a)
            elif k == 4:
                ops.append("VReset %d" % a)
            else:
                ops.append("VWrite %d %d" % (a, b))
        obs = "[" + "; ".join("[" + "; ".join(vlib.zz(x) for x in row) + "]" for row in h["obs"]) + "]"
        rows.append("  (%d, %d%%nat, [%s], %s)" % (i, len(h["vars"]), "; ".join(ops), obs))
    L.append(";\n".join(rows))
    L.append("].")
    L.append("Definition bad (c : Z * nat * list vop * list (list Z)) : Z * Z * bool :=")
    L.append("  let '(i, nv, ops, obs) := c in")
    L.append("  (i, first_diff 0 (vtrace nv (vinit (fun _ => 0)) ops) obs,")
    L.append("   match grun nv (vinit (fun _ => 0), fun _ => 0) ops with Some _ => true | None => false end).")
    L.append("Definition R := Eval vm_compute in map bad cases.")
    L.append("Definition M := filter (fun r => negb (snd (fst r) =? -1)) R.")
    L.append("Definition D := length (filter (fun r => snd r) R).")
    L.append("Eval vm_compute in M. Eval vm_compute in D.")
    return "\n".join(L) + "\n"


def run(replay=None):
    ck = Check("C08", "proof")
    ck.assumptions = [
        "values are opaque ids: the model does not depend on the variable's type; the harness maps each variable's candidate values (18 exported + 6 unexported variables of all kinds) to indices",
        "the theorem's discipline: at any time at most one mocker remembers a value for a variable, and the program assigns a variable directly only while it is not mocked (the generator respects it; the share of histories satisfying it is measured in Coq)",
        "an untyped nil handed to Set is outside the property's domain (reflect cannot type it)",
    ]
    ok, failed, log = ck.prove(["Props/C08.vo"], label="Props/C08")
    if not ok:
        m_ok, _, mlog = vlib.coq_make(["Model/VarMock.vo"])
        if not m_ok:
            raise vlib.Infra("Model/VarMock.v does not compile:\n" + mlog[-1500:])
    hx, blog = vlib.build_hx()
    if hx is None:
        ck.obligation_broken("harness build", blog)
        return ck.finish()
    obs = os.path.join(ck.wd, "obs.jsonl")
    rc, out = vlib.run_hx(hx, ["c08", "-seed", str(ck.seed), "-tier", ck.tier, "-out", obs], timeout=3000)
    if rc != 0:
        ck.obligation_broken("harness run c08 (exit %d)" % rc, out[-2000:])
        return ck.finish()
    # interface-typed UNEXPORTED variables, in a process of their own (a corrupted interface value can fault on any read)
    uobs = os.path.join(ck.wd, "obs_ue.jsonl")
    urc, uout = vlib.run_hx(hx, ["c08", "-extra", "ue-iface", "-seed", str(ck.seed), "-out", uobs], timeout=300)
    urows = vlib.read_jsonl(uobs) if os.path.exists(uobs) else []
    ures = [r for r in urows if r.get("kind") == "ue-iface"]
    ck.notes["unexported_interface_variables"] = [{k: r.get(k) for k in ("var", "want", "during", "after", "set_panic")} for r in ures]
    if urc != 0:
        about = [r for r in urows if r.get("kind") == "ue-iface-about"]
        ck.impl_violation("unexported-interface-variable-crash", "the process dies (exit %d) after UnExportedVar(%s).Set(..) on an interface-typed variable" % (urc, about[-1]["var"] if about else "?"),
                          {"about": about[-1] if about else None, "tail": uout[-500:]})
    for r in ures:
        if r.get("set_panic"):
            continue    # refused up front: allowed (nothing was changed: checked through "after")
        if r["during"] != r["want"]:
            ck.impl_violation("unexported-interface-variable-not-set", "UnExportedVar(varzoo.%s).Set(%s): the variable's static type is an interface type; readers observe %s instead of %s" % (
                r["var"], r["want"], ascii(r["during"])[:80], r["want"]), r)
    for r in ures:
        if r["after"] != r["orig"]:
            ck.impl_violation("unexported-interface-variable-not-restored", "after Reset varzoo.%s holds %s instead of %s" % (r["var"], ascii(r["after"])[:80], r["orig"]), r)
    hs = [r for r in vlib.read_jsonl(obs) if r.get("kind") == "hist"]
    ck.coverage["evaluations"] = sum(len(h["ops"]) for h in hs)
    nontriv = set()
    opmix = {}
    for h in hs:
        for op in h["ops"]:
            opmix[OPN[op["k"]]] = opmix.get(OPN[op["k"]], 0) + 1
        if any(op["k"] in (1, 2) for op in h["ops"]) and any(op["k"] in (3, 4) for op in h["ops"]):
            nontriv.add(json.dumps([h["vars"], h["ops"]]))
    ck.coverage["distinct_nontrivial"] = len(nontriv)
    ck.coverage["rule"] = ("random histories over 1-3 builders and 1-5 variables drawn from a zoo of 24 package variables of all kinds "
                           "(70% of the grammar Lookup;(Set|Apply)^n;(Cancel|Reset)^m with direct writes and re-mocks, 30% free-form incl. stale handles); "
                           "non-trivial = contains a Set/Apply and a Cancel/Reset; distinct by (variables, ops)")
    ck.notes["op_mix"] = opmix
    ck.notes["variables_used"] = sorted({v for h in hs for v in h["vars"]})
    ck.coverage["samples"] = [{"vars": h["vars"], "ops": h["ops"][:10], "obs": h["obs"][:10]} for h in hs[:2]]
    # the property itself, executed on the same histories
    for h in hs:
        exp = spec_trace(h)
        for st, (e, o) in enumerate(zip(exp, h["obs"])):
            if e != o or h["panics"][st]:
                key = classify(h, st, e)
                what = "%s at step %d of a history over %s: expected values %s, observed %s%s" % (
                    OPN[h["ops"][st]["k"]], st, h["vars"], e, o, (" (panic: %s)" % h["panics"][st]) if h["panics"][st] else "")
                ck.impl_violation(key, what, {"vars": h["vars"], "ops": h["ops"][:st + 1], "expected": e, "observed": o, "panic": h["panics"][st]})
                break
    # correspondence with the Coq model
    evaluated, disciplined, mism = 0, 0, 0
    for si in range(0, min(len(hs), 3000), 500):
        part = hs[si:si + 500]
        rc, out = vlib.coq_eval("c08_cases_%d" % si, coq_cases(part), ck.wd, timeout=900)
        flat = out.replace("\n", " ")
        m = re.search(r"=\s*(\[.*?\])\s*:\s*list \(Z \* Z \* bool\)", flat)
        d = re.search(r"=\s*(\d+)%nat", flat)
        if rc != 0 or not m or not d:
            ck.obligation_broken("correspondence C08 (coqc evaluation failed)", out[-1500:])
            break
        evaluated += len(part)
        disciplined += int(d.group(1))
        for a, b in re.findall(r"\((\d+),\s*(\d+),", m.group(1)):
            mism += 1
            if mism <= 3:
                h = part[int(a)]
                ck.obligation_broken("correspondence C08: model and implementation differ at step %s of a history" % b,
                                     json.dumps({"vars": h["vars"], "ops": h["ops"][:int(b) + 1], "obs": h["obs"][:int(b) + 1]}))
    ck.coverage["traces_validated_against_impl"] = evaluated
    ck.notes["histories_satisfying_theorem_discipline"] = disciplined
    if ck.violations:
        # mismatches are explained by the concrete violations
        ck.broken = [b for b in ck.broken if not b["name"].startswith("correspondence C08: model")]
    return ck.finish()
