"""C12 -- within a builder the most recent instruction for a target wins."""
import json
import os
import re

import vlib
from vlib import Check

NT = 10
OPN = {0: "Lookup", 1: "Apply", 2: "Return", 3: "When", 4: "Cancel", 5: "Reset", 6: "Pkg", 7: "VarLookup", 8: "RefusedApply"}


def enc_probe(o):
    if o == "Original":
        return -1000
    if isinstance(o, str) and o.startswith("CB"):
        return 500 + int(o[2:])
    if o == "NoSuitable":
        return -10
    if isinstance(o, str):
        return -11
    return int(o)


def coq_cases(hs):
    L = ["From Coq Require Import List ZArith Bool Arith. Import ListNotations.",
         "From Goom Require Import Model.Stub Model.MockerLevel. Open Scope Z_scope.",
         "Definition encp (p : pout) : Z := match p with POriginal => -1000 | PCallback k => 500 + k | PStub (ORet r) => r | PStub ONoSuitable => -10 | PStub OPanic => -11 end.",
         "Definition encpk (o : option Z) : Z := match o with Some p => p | None => -1 end.",
         "Fixpoint zleqb (a b : list Z) : bool := match a, b with [], [] => true | x :: a', y :: b' => (x =? y) && zleqb a' b' | _, _ => false end.",
         "Fixpoint first_diff (i : Z) (a b : list (list Z)) : Z := match a, b with [], [] => -1 | x :: a', y :: b' => if zleqb x y then first_diff (i + 1) a' b' else i | _, _ => i end.",
         "Definition cases : list (Z * nat * list mop * list (list Z)) := ["]
    rows = []
    for i, h in enumerate(hs):
        ops = []
        for op in h["ops"]:
            k, a, b, c = op["k"], op["a"], op["b"], op["c"]
            ops.append({0: "MLookup %d %d" % (a, b), 1: "MApply %d %d" % (a, b), 2: "MReturn %d %d" % (a, b),
                        3: "MWhen %d %d %d" % (a, b, c), 4: "MCancel %d" % a, 5: "MReset %d" % a,
                        6: "MPkg %d %d" % (a, b), 7: "MVarLookup %d" % a, 8: "MRejected %d" % a}[k])
        obs = "[" + "; ".join(vlib.zlist([enc_probe(o) for o in pr] + pk) for pr, pk in zip(h["probes"], h["pkg"])) + "]"
        rows.append("  (%d, %d%%nat, [%s], %s)" % (i, h["nb"], "; ".join(ops), obs))
    L.append(";\n".join(rows))
    L.append("].")
    L.append("Definition bad (c : Z * nat * list mop * list (list Z)) : Z * Z :=")
    L.append("  let '(i, nb, ops, obs) := c in")
    L.append("  (i, first_diff 0 (map (fun r => map encp (fst r) ++ map encpk (snd r)) (mtrace %d nb minit ops)) obs)." % NT)
    L.append("Definition M := Eval vm_compute in filter (fun r => negb (snd r =? -1)) (map bad cases).")
    L.append("Print M.")
    return "\n".join(L) + "\n"


class PyWhen:
    """goom's When object (default-first or When-first, shared current matcher), executed directly."""

    def __init__(self, kind, v, r):
        self.store, self.matches, self.default, self.cur = [], [], None, None
        if kind == "return":
            self.store.append({"cond": None, "rs": [r], "cur": 0})
            self.default = 0
            self.cur = 0
        else:
            self.store.append({"cond": v, "rs": [r], "cur": 0})
            self.cur = 0
            self.matches.append(0)

    def ret(self, r):
        if self.cur is not None:
            self.store[self.cur]["rs"].append(r)
            self.matches.append(self.cur)
        elif self.default is not None:
            self.store[self.default]["rs"].append(r)

    def when(self, v, r):
        self.store.append({"cond": v, "rs": [r], "cur": 0})
        self.cur = len(self.store) - 1
        self.matches.append(self.cur)

    def fire(self, i):
        m = self.store[i]
        n = len(m["rs"])
        if n <= 1:
            return m["rs"][m["cur"]]
        if m["cur"] >= n:
            return m["rs"][n - 1]
        m["cur"] += 1
        return m["rs"][m["cur"] - 1]

    def call(self, a):
        for i in self.matches:
            c = self.store[i]["cond"]
            if c is None or c == a:
                return self.fire(i)
        if self.default is not None:
            return self.fire(self.default)
        return "NoSuitable"


def oracle(h):
    """last-writer-wins, executed directly (coarse: which kind of behaviour each target shows) + the Pkg rule."""
    hm = []           # handle -> mocker id
    mk = []           # mocker: dict(target, canceled, when)
    cache = {}
    last = {}         # target -> ("orig",) | ("cb", k) | ("stub",)
    pkg = {}
    for st, op in enumerate(h["ops"]):
        k, a, b = op["k"], op["a"], op["b"]
        if k == 8:
            if not h["panics"][st]:
                return st, "ill-formed-apply-accepted", "an Apply with a callback of the wrong shape was accepted"
        elif h["panics"][st]:
            return st, "instruction-panics", "%s panics (%s)" % (OPN[k], h["panics"][st])
        if k == 0:
            mid = cache.get((a, b))
            if mid is None or mk[mid]["canceled"]:
                mk.append({"target": b, "canceled": False, "when": None})
                mid = len(mk) - 1
                cache[(a, b)] = mid
            hm.append(mid)
            pkg[a] = -1
        elif k == 1:
            m = mk[hm[a]]
            m["when"] = None
            m["canceled"] = False
            last[m["target"]] = ("cb", b)
        elif k in (2, 3):
            m = mk[hm[a]]
            if m["when"] is None:
                m["when"] = PyWhen("return" if k == 2 else "when", b, b if k == 2 else op["c"])
                m["canceled"] = False
            elif k == 2:
                m["when"].ret(b)
            else:
                m["when"].when(b, op["c"])
            last[m["target"]] = ("stub", hm[a])
        elif k == 4:
            m = mk[hm[a]]
            m["canceled"] = True
            m["when"] = None
            last[m["target"]] = ("orig",)
        elif k == 5:
            for (bb, t), mid in cache.items():
                if bb == a:
                    mk[mid]["canceled"] = True
                    mk[mid]["when"] = None
                    last[t] = ("orig",)
        elif k == 6:
            pkg[a] = b
        for t in range(NT):
            want = last.get(t, ("orig",))
            got = h["probes"][st][3 * t:3 * t + 3]
            if want[0] == "orig" and any(g != "Original" for g in got):
                return st, "not-original-after-%s" % ("cancel-or-reset" if t in last else "nothing"), "target %d should run the original after %s, probes %s" % (t, OPN[k], got)
            if want[0] == "cb" and any(g != "CB%d" % want[1] for g in got):
                return st, "apply-not-in-effect", "target %d should serve callback %d (most recent instruction: Apply), probes %s" % (t, want[1], got)
            if want[0] == "stub" and any(g == "Original" or (isinstance(g, str) and g.startswith("CB")) for g in got):
                return st, "stub-not-in-effect-after-%s" % ("apply" if any(isinstance(g, str) and g.startswith("CB") for g in got) else "return"), \
                    "target %d should serve the stub (most recent instruction: %s), probes %s" % (t, OPN[k], got)
            if want[0] == "stub":
                w = mk[want[1]]["when"]
                exp = [w.call(x) for x in range(3)]
                if exp != got:
                    return st, "configuration-not-continued", "target %d: the accumulated stub configuration should answer %s, probes %s (after %s)" % (t, exp, got, OPN[k])
        for bi in range(h["nb"]):
            if h["pkg"][st][bi] != pkg.get(bi, -1):
                return st, "pkg-override-not-once", "builder %d: PkgName reports override %s, expected %s after %s" % (bi, h["pkg"][st][bi], pkg.get(bi, -1), OPN[k])
    return None


def run(replay=None):
    ck = Check("C12", "proof")
    ck.assumptions = [
        "domain of the whole-history theorem and of the generator (Proofs/MockerHistory.ok): each target is used through one builder; Apply/Return/When/Cancel go through a handle of the target's CURRENT mocker (a handle of a mocker that was cancelled and then superseded by a newer lookup is stale and outside the property)",
        "targets: two functions, two exported and one unexported pointer-receiver method of one struct, one unexported function (by name, through Pkg(..).ExportFunc), two instantiations of a generic function with identical Go types (no conditions on arguments for these: known finding F06a), a method of an interface variable (configured through As with a new function literal in every chain), all func(int) int; stub configurations are Return(r) and When(v).Return(r)",
    ]
    ok, failed, log = ck.prove(["Props/C12.vo"], label="Props/C12")
    if not ok:
        m_ok, _, mlog = vlib.coq_make(["Model/MockerLevel.vo"])
        if not m_ok:
            raise vlib.Infra("Model/MockerLevel.v does not compile:\n" + mlog[-1500:])
    hx, blog = vlib.build_hx()
    if hx is None:
        ck.obligation_broken("harness build", blog)
        return ck.finish()
    obs = os.path.join(ck.wd, "obs.jsonl")
    rc, out = vlib.run_hx(hx, ["stub", "-extra", "c12", "-seed", str(ck.seed), "-tier", ck.tier, "-out", obs], timeout=3000)
    if rc != 0:
        # a fatal crash of the harness process: the journal holds the history that was being executed
        jp = obs + ".journal"
        ops = []
        if os.path.exists(jp):
            for line in open(jp):
                line = line.strip()
                if line == "H":
                    ops = []
                elif line:
                    ops.append(json.loads(line))
        why = "stack overflow" if "stack overflow" in out else ("SIGSEGV" if "SIGSEGV" in out else "fatal error")
        if ops:
            kinds = [OPN[o["k"]] for o in ops]
            key = "call-crashes-process:" + why.replace(" ", "-")
            ck.impl_violation(key, "calling a target after %s kills the process (%s)" % (" ; ".join(kinds[-6:]), why),
                              {"ops": ops, "crash": why, "log_tail": out[-1500:]})
        else:
            ck.obligation_broken("harness run stub/c12 (exit %d)" % rc, out[-2000:])
        return ck.finish()
    hs = [r for r in vlib.read_jsonl(obs) if r.get("kind") == "hist"]
    # targets 8 and 9 are two methods of ONE interface variable. goom replaces the whole variable: a method that is not mocked
    # while its sibling is answers "method not implements" (C07's subject). For C12 ("which instruction is in effect") that is
    # the un-mocked state of the method, so it is read as Original -- only while the sibling really is mocked.
    normalised = 0
    for h in hs:
        for row in h["probes"]:
            for t, sib in ((8, 9), (9, 8)):
                mine, other = row[3 * t:3 * t + 3], row[3 * sib:3 * sib + 3]
                if all(g == "Panic:NotImplemented" for g in mine) and not all(g in ("Original", "Panic:NotImplemented") for g in other):
                    row[3 * t:3 * t + 3] = ["Original"] * 3
                    normalised += 1
    ck.notes["interface_sibling_rows_read_as_original"] = normalised
    ck.coverage["evaluations"] = sum(len(h["ops"]) * 12 for h in hs)
    mix = {}
    for h in hs:
        for op in h["ops"]:
            mix[OPN[op["k"]]] = mix.get(OPN[op["k"]], 0) + 1
    ck.notes["op_mix"] = mix
    ck.coverage["distinct_nontrivial"] = len({json.dumps(h["ops"]) for h in hs if len({op["k"] for op in h["ops"]} & {1, 2, 3}) >= 2})
    ck.coverage["rule"] = ("random histories of 4-24 mocker-level operations over 4 targets and 1-2 builders, 12 probe calls after every step; "
                           "non-trivial = mixes at least two of Apply/Return/When; distinct by operation list")
    ck.coverage["samples"] = [{"ops": h["ops"][:8], "probes": h["probes"][:3]} for h in hs[:2]]
    for h in hs:
        r = oracle(h)
        if r:
            st, key, what = r
            ck.impl_violation(key, "step %d: %s" % (st, what), {"ops": h["ops"][:st + 1], "probes": h["probes"][st], "pkg": h["pkg"][st]})
    evaluated, mism = 0, 0
    for si in range(0, min(len(hs), 3000), 250):
        part = hs[si:si + 250]
        rc, out = vlib.coq_eval("c12_cases_%d" % si, coq_cases(part), ck.wd, timeout=900)
        flat = out.replace("\n", " ")
        m = re.search(r"M\s*=\s*(\[.*?\])\s*:\s*list", flat)
        if rc != 0 or not m:
            ck.obligation_broken("correspondence C12 (coqc evaluation failed)", out[-1500:])
            break
        evaluated += len(part)
        for a, b in re.findall(r"\((\d+),\s*(-?\d+)\)", m.group(1)):
            mism += 1
            if mism <= 3:
                h = part[int(a)]
                ck.obligation_broken("correspondence C12: model and implementation differ at step %s" % b,
                                     json.dumps({"ops": h["ops"][:int(b) + 1], "probes": h["probes"][int(b)], "pkg": h["pkg"][int(b)]}))
    ck.coverage["traces_validated_against_impl"] = evaluated
    if ck.violations:
        ck.broken = [b for b in ck.broken if not b["name"].startswith("correspondence C12: model")]
    return ck.finish()
