"""C13 -- configuration mistakes are rejected up front and leave nothing patched."""
import json
import os

import vlib
from vlib import Check


def run(replay=None):
    ck = Check("C13", "proof")
    ck.assumptions = [
        "mistake classes are exercised through the public API (and proxy.Interface for the typed Interface errors) on 6 targets, fresh and already validly mocked by another builder, with and without an origin placeholder",
        "a cause chain is demanded only where goom reports an error value (panics with strings / reflect panics have no chain)",
        "name-addressed targets carry no type, so signature classes do not apply to them",
    ]
    status = vlib.run_go2v()
    tr = [m for m in status if m["module"] == "PatchOrder"]
    if tr and tr[0]["failed"]:
        ck.notes["go2v_failed"] = tr[0]["failed"]
    ok, failed, log = ck.prove(["Props/C13.vo"], label="Props/C13 (incl. Tie/OrderTie: check-before-write order regenerated from patch.go)")
    if not ok:
        ck.notes["proof_failed_at"] = failed
    hx, blog = vlib.build_hx()
    if hx is None:
        ck.obligation_broken("harness build", blog)
        return ck.finish()
    obs = os.path.join(ck.wd, "obs.jsonl")
    rc, out = vlib.run_hx(hx, ["c13", "-seed", str(ck.seed), "-tier", ck.tier, "-out", obs], timeout=1800)
    if rc != 0:
        ck.obligation_broken("harness run c13 (exit %d)" % rc, out[-2000:])
        return ck.finish()
    rows = [r for r in vlib.read_jsonl(obs) if r.get("kind") == "mistake"]
    classes = {}
    for r in rows:
        classes[r["class"]] = classes.get(r["class"], 0) + 1
        tag = "%s [%s]%s" % (r["class"], r["name"], " on an already mocked target" if r["premocked"] else "")
        base = r["class"].split("+")[0]
        if not r["rejected"]:
            ck.impl_violation("not-rejected:" + base, "%s: accepted without panic or error (behaviour afterwards: %s)" % (tag, r.get("behaviour")), r)
            continue
        if r["want_type"] and r["want_type"] not in r.get("chain", []):
            ck.impl_violation("cause-chain:" + r["want_type"], "%s: the cause chain %s does not reach %s" % (tag, r.get("chain"), r["want_type"]), r)
        if r["chained"]:
            continue
        if not r["image_unchanged"]:
            ck.impl_violation("rejected-call-changed-image:" + base, "%s: the executable image changed although the call was rejected" % tag, r)
        if r.get("behaviour_ok") is False:
            ck.impl_violation("rejected-call-changed-behaviour:" + base, "%s: the target answers %s after the rejected call" % (tag, r.get("behaviour")), r)
        if not r["iface_var_nil"]:
            ck.impl_violation("rejected-call-changed-variable", "%s: the interface variable is no longer nil after the rejected call" % tag, r)
        if not r["image_pristine_after_reset"]:
            ck.impl_violation("not-pristine-after-reset", "%s: the image is not pristine after Reset" % tag, r)
    # interface callbacks of generated shapes: proxy.Interface against Model/Errors.iface_imp_check, evaluated in Coq
    shapes = [r for r in vlib.read_jsonl(obs) if r.get("kind") == "iface-shape"]
    if shapes:
        L = ["From Coq Require Import List ZArith Bool. Import ListNotations.", "From Goom Require Import Model.Errors. Open Scope Z_scope.",
             "Definition ok (m i : sig) : bool := match iface_imp_check m i with SigOk => true | _ => false end.",
             "Definition cases : list (Z * sig * sig * bool) := ["]
        items = []
        for i, r in enumerate(shapes):
            items.append("  (%d, {| s_ins := %s; s_outs := %s |}, {| s_ins := %s; s_outs := %s |}, %s)" % (
                i, vlib.zlist(r["m_ins"]), vlib.zlist(r["m_outs"]), vlib.zlist(r["ins"]), vlib.zlist(r["outs"]), "true" if r["verdict"] == "accepted" else "false"))
        L.append(";\n".join(items))
        L.append("].")
        L.append("Definition M := Eval vm_compute in map (fun c => fst (fst (fst c))) (filter (fun c => let '(i, m, imp, acc) := c in negb (Bool.eqb (ok m imp) acc)) cases).")
        L.append("Print M.")
        rc2, out2 = vlib.coq_eval("c13_iface_shapes", "\n".join(L) + "\n", ck.wd, timeout=600)
        import re
        mm = re.search(r"M\s*=\s*(\[.*?\])\s*:\s*list", out2.replace("\n", " "))
        if rc2 != 0 or not mm:
            ck.obligation_broken("correspondence C13 interface shapes (coqc evaluation failed)", out2[-1500:])
        else:
            bad = [int(x) for x in re.findall(r"-?\d+", mm.group(1))]
            for i in bad[:3]:
                r = shapes[i]
                if r["verdict"] == "accepted":
                    ck.impl_violation("not-rejected:interface-callback-shape", "proxy.Interface accepts a callback with parameter sizes %s / result sizes %s for method %s (parameters %s, results %s)" % (
                        r["ins"], r["outs"], r["method"], r["m_ins"], r["m_outs"]), r)
                else:
                    ck.impl_violation("well-formed-interface-callback-refused", "proxy.Interface refuses (%s) a callback of exactly the method's shape after the context: %s / %s for %s" % (
                        r["verdict"], r["ins"], r["outs"], r["method"]), r)
        for r in shapes:
            if r["verdict"] != "accepted" and not r["untouched"]:
                ck.impl_violation("rejected-call-changed-variable", "proxy.Interface refused a callback (%s / %s) but the interface variable was altered" % (r["ins"], r["outs"]), r)
                break
        ck.notes["iface_shapes"] = {"cases": len(shapes), "accepted": sum(1 for r in shapes if r["verdict"] == "accepted"), "panic": sum(1 for r in shapes if r["verdict"] == "panic")}
        ck.coverage["evaluations_shapes"] = len(shapes)
    ck.notes["mistake_classes"] = classes
    ck.coverage["evaluations"] = len(rows) + len(shapes)
    ck.coverage["distinct_nontrivial"] = len({(r["class"], r["name"], r["premocked"]) for r in rows if r["rejected"]})
    ck.coverage["rule"] = ("every mistake class (callback arg/result count and size at each position, non-func callback, too few When args / Return values, wrong value sizes, unknown method/symbol, "
                           "non-function target, Interface misuse) x targets x {fresh, already mocked by another builder} x {no placeholder, origin placeholder}; SHA-1 of the whole text mapping before/after; "
                           "non-trivial = the call was rejected; distinct by (class, case, premocked)")
    ck.coverage["samples"] = [{k: r.get(k) for k in ("class", "name", "premocked", "rejected", "chain", "image_unchanged")} for r in rows[:3]]
    ck.coverage["traces_validated_against_impl"] = len(rows)
    return ck.finish()
