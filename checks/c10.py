"""C10 -- symbol lookup by name yields the exact run-time address or an error."""
import json
import os
import re

import vlib
from vlib import Check

VARIANTS = {
    "default": ("", []),
    "stripped": ("_strip", ["-ldflags=-s"]),
    "external": ("_ext", ["-ldflags=-linkmode=external"]),   # the one mode in which the function slide is not zero
    "external-stripped": ("_ext_strip", ["-ldflags=-linkmode=external -s"]),   # non-zero function slide AND no symbol for the variable anchor
    "pie": ("_pie", ["-buildmode=pie"]),
    "pie-stripped": ("_pie_strip", ["-buildmode=pie", "-ldflags=-s"]),
}


def coq_cases(sample, anchor_entry, anchor_mem):
    L = ["From Coq Require Import List ZArith Bool. Import ListNotations.",
         "From Goom Require Import Base.MachineInt Model.SymLookup. Open Scope Z_scope.",
         "Definition tab : symtab := {| t_readable := true; t_funcs := ["]
    rows = ["(%d, %d)" % (s["i"], s["entry"]) for s in sample] + ["(-1, %d)" % anchor_entry]
    L.append(";\n".join(rows))
    L.append("]; t_syms := [] |}.")
    L.append("Definition obs : list (Z * Z) := [%s]." % "; ".join("(%d, %d)" % (s["i"], s["addr"]) for s in sample))
    L.append("Definition bad (o : Z * Z) : bool := match find_func (-1) (-2) %d 0 tab (fst o) with Some a => negb (a =? snd o) | None => true end." % anchor_mem)
    L.append("Definition M := Eval vm_compute in map fst (filter bad obs).")
    L.append("Eval vm_compute in M.")
    return "\n".join(L) + "\n"


def run(replay=None):
    ck = Check("C10", "proof")
    ck.assumptions = [
        "PARTIAL: ELF parsing, debug/gosym and the loader are not modelled; the loader maps all text symbols by one slide and all data symbols by one slide (hypothesis of the exactness theorems), which the harness measures for every function symbol and 20 variables on every run and in every link mode",
        "names are abstract identifiers; names that occur more than once in the function table are ambiguous and not judged (counted in the evidence)",
        "the run-time's own table (runtime.FuncForPC) is the oracle for functions, &variable for variables",
    ]
    ok, failed, log = ck.prove(["Props/C10.vo"], label="Props/C10")
    if not ok:
        m_ok, _, mlog = vlib.coq_make(["Model/SymLookup.vo"])
        if not m_ok:
            raise vlib.Infra("Model/SymLookup.v does not compile:\n" + mlog[-1500:])
    modes = ["default", "stripped", "external", "external-stripped"] if ck.tier == "quick" else list(VARIANTS)
    summary = {}
    evaluated = 0
    for mode in modes:
        suffix, flags = VARIANTS[mode]
        hx, blog = vlib.build_hx(suffix, flags)
        if hx is None:
            ck.obligation_broken("harness build (%s)" % mode, blog)
            continue
        obs = os.path.join(ck.wd, "obs_%s.jsonl" % mode)
        rc, out = vlib.run_hx(hx, ["c10", "-seed", str(ck.seed), "-tier", ck.tier, "-extra", mode, "-out", obs], timeout=1200)
        if rc != 0:
            ck.impl_violation("crash:" + mode, "symbol lookups crash the process in link mode %s (exit %d)" % (mode, rc), {"mode": mode, "tail": out[-600:]})
            continue
        rs = vlib.read_jsonl(obs)
        tab = [r for r in rs if r["kind"] == "table"][0]
        summary[mode] = {"readable": tab["readable"], "funcs": tab["funcs"], "syms": tab["syms"]}
        for r in rs:
            if r["kind"] in ("known", "var"):
                ck.coverage["evaluations"] += 1
                what = "function" if r["kind"] == "known" else "variable"
                if r["class"] == "ok" and not r["exact"]:
                    ck.impl_violation("wrong-address:%s:%s" % (what, mode), "link mode %s: lookup of %s %s returns an address that is not the symbol's run-time address%s" % (
                        mode, what, r["name"], (" (off by %d)" % r["delta"]) if "delta" in r else ""), r)
                summary[mode].setdefault(r["kind"] + "_" + r["class"] + ("_exact" if r.get("exact") else ""), 0)
                summary[mode][r["kind"] + "_" + r["class"] + ("_exact" if r.get("exact") else "")] += 1
            elif r["kind"] == "funcs":
                ck.coverage["evaluations"] += r["total"]
                summary[mode].update({k: r[k] for k in ("total", "exact", "not_an_entry", "other_symbol", "errors", "duplicate_names")})
                if r["not_an_entry"] or r["other_symbol"]:
                    ck.impl_violation("wrong-address:function-table:" + mode, "link mode %s: %d function symbols resolve to an address that is not the entry of that function (%d to another symbol); first: %s" % (
                        mode, r["not_an_entry"] + r["other_symbol"], r["other_symbol"], r["first_bad"][:2]), r)
                if r["errors"] and mode in ("default", "stripped", "external"):
                    ck.impl_violation("present-but-error:" + mode, "link mode %s: %d function symbols present in the table are not found; first: %s" % (mode, r["errors"], r["first_bad"][:2]), r)
            elif r["kind"] == "absent":
                ck.coverage["evaluations"] += r["tried"] * 2
                summary[mode]["absent_tried"] = r["tried"]
                if r["resolved"]:
                    ck.impl_violation("absent-name-resolved:" + mode, "link mode %s: %d absent / near-miss names resolve to an address; first: %s" % (mode, r["resolved"], r["first"][:2]), r)
            elif r["kind"] == "mocker-resolve":
                ck.coverage["evaluations"] += 6
                summary[mode]["mocker_resolve"] = {k: v for k, v in r.items() if k not in ("kind", "mode")}
                if summary[mode].get("syms", 0) or mode in ("default", "external"):
                    want = {"um1_mocked": 11, "um1_after_cancel": -7201, "um2_mocked": 22, "um1_meanwhile": -7201, "um2_after_cancel": -7301, "um1_end": -7201}
                    bad = {k: r.get(k) for k, v in want.items() if r.get(k) != v}
                    if (bad or r.get("panic")) and not (r.get("panic") and mode not in ("default", "external")):
                        ck.impl_violation("resolved-to-other-symbol:mocker:" + mode, "link mode %s: a mocker object reused for another method name resolves the wrong symbol: %s %s (want %s)" % (
                            mode, bad, r.get("panic") or "", {k: want[k] for k in bad}), r)
                    for path in ("apply", "as"):
                        if ("absent_%s_accepted" % path) in r or not r.get("absent_%s_panic" % path):
                            ck.impl_violation("absent-name-resolved:mocker-%s:%s" % (path, mode), "link mode %s: a mock installed through the absent name fnzoo.T.um1 (%s path) was accepted instead of refused (only (*T).um1 exists; CallUm1 now answers %s)" % (
                                mode, path, r.get("absent_%s_accepted" % path)), r)
            elif r["kind"] == "history":
                ck.coverage["evaluations"] += r["steps"]
                summary[mode]["history_steps"] = r["steps"]
                if r["inconsistent"] or r["absent_resolved"]:
                    ck.impl_violation("lookup-depends-on-history:" + mode, "link mode %s: the answer for a name depends on earlier lookups (%d inconsistent answers, %d absent names resolved on a repeated lookup); first: %s" % (
                        mode, r["inconsistent"], r["absent_resolved"], r["first"][:1]), r)
            elif r["kind"] == "funcsample" and r["sample"]:
                rc2, out2 = vlib.coq_eval("c10_%s" % mode.replace("-", "_"), coq_cases(r["sample"], r["anchor_entry"], r["anchor_mem"]), ck.wd, timeout=600)
                flat = out2.replace("\n", " ")
                m = re.search(r"=\s*(\[.*?\])\s*:\s*list Z", flat)
                if rc2 != 0 or not m:
                    ck.obligation_broken("correspondence C10 (coqc evaluation failed, %s)" % mode, out2[-1200:])
                else:
                    evaluated += len(r["sample"])
                    bad = re.findall(r"-?\d+", m.group(1))
                    if bad:
                        ck.obligation_broken("correspondence C10: model and FindFuncByName differ on %d sampled symbols in link mode %s" % (len(bad), mode), str(bad[:5]))
        # what each link mode must look like
        s = summary[mode]
        if mode in ("default", "external") and not (s.get("var_ok_exact", 0) >= 20 and s.get("known_ok_exact", 0) >= 6):
            ck.obligation_broken("default link mode: not every known function/variable was resolved exactly (the oracle would be vacuous)", json.dumps(s))
    ck.notes["link_modes"] = summary
    ck.coverage["traces_validated_against_impl"] = evaluated
    ck.coverage["distinct_nontrivial"] = sum(v.get("exact", 0) for v in summary.values())
    ck.coverage["rule"] = ("per link mode (quick: default, -ldflags=-s, -linkmode=external (non-zero slide), external+stripped; thorough: + pie, pie+stripped): every function symbol of the harness binary resolved by name and compared with "
                           "runtime.FuncForPC (entry and name), 6 functions known by value, 20 package variables (exported and unexported) compared with &v, ~1800 absent / near-miss names "
                           "for both lookups, 300 histories of interleaved / repeated present and absent names (answers must not depend on earlier lookups); a sample of 740 (name, file address, returned address) triples is evaluated in Coq against the model; non-trivial = resolved exactly")
    ck.coverage["samples"] = [{"mode": m, **{k: v for k, v in s.items() if k in ("readable", "total", "exact", "errors", "var_ok_exact", "var_err", "absent_tried")}} for m, s in summary.items()]
    return ck.finish()
