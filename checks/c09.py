"""C09 -- stubbed values reach callers unaltered and typed as the function declares."""
import json
import os
import re

import vlib
from vlib import Check

NILABLE = {"KIface", "KPtr", "KSlice", "KMap", "KChan", "KFunc"}


def coq_ty(t):
    return "{| t_id := %d; t_kind := %s; t_size := %d |}" % (t["id"], t["k"], t["size"])


def obs_code(r, types):
    """canonical observation: (class, rtype, dyn, same, zero)"""
    cls = {"ok": 0, "got": 0, "err": 1, "panic": 2, "cfg-rejected": 3, "call-panics": 4}[r["class"]]
    if cls != 0:
        return (cls, -1, -1, -1, 0)
    return (0, r["rtype"], r["dyn"], r["same"], 1 if (r["zero"] and r["same"] == -1) else 0)


def coq_cases(rs, types, icid):
    L = ["From Coq Require Import List ZArith Bool Arith. Import ListNotations.",
         "From Goom Require Import Model.ToValue. Open Scope Z_scope.",
         "Definition T (i : Z) (k : kind) (s : Z) : gtype := {| t_id := i; t_kind := k; t_size := s |}.",
         "Definition code (deliv : bool) (out : gtype) (o : outcome) : Z * Z * Z * Z * Z :=",
         "  match o with",
         "  | Err => (if deliv then 3 else 1, -1, -1, -1, 0)",
         "  | Panic => (if deliv then 3 else 2, -1, -1, -1, 0)",
         "  | Ok r => if deliv && negb (ty_eqb (rtype r) out) then (4, -1, -1, -1, 0) else",
         "      match r with",
         "      | RZero ty => (0, t_id ty, -1, -1, 1)",
         "      | RVal ty _ _ => (0, t_id ty, -1, 1, 0)",
         "      | RBoxed ity dyn _ _ => (0, t_id ity, t_id dyn, 1, 0)",
         "      end",
         "  end.",
         "Definition cases : list (Z * bool * option gvalue * gtype * bool * (Z * Z * Z * Z * Z)) := ["]
    rows = []
    for i, r in enumerate(rs):
        o = types[r["out"]]
        if r["vty"] < 0:
            v = "None"
        else:
            t = types[r["vty"]]
            v = "Some {| v_ty := T %d %s %d; v_payload := %d; v_nil := %s |}" % (t["id"], t["k"], t["size"], r["v"], "true" if r["vnil"] else "false")
        c = obs_code(r, types)
        rows.append("  (%d, %s, %s, T %d %s %d, %s, (%s, %s, %s, %s, %s))" % (
            i, "true" if r["kind"] == "deliver" else "false", v, o["id"], o["k"], o["size"], "true" if r["assignable"] else "false",
            vlib.zz(c[0]), vlib.zz(c[1]), vlib.zz(c[2]), vlib.zz(c[3]), vlib.zz(c[4])))
    L.append(";\n".join(rows))
    L.append("].")
    L.append("Definition eq5 (a b : Z * Z * Z * Z * Z) : bool := let '(a1, a2, a3, a4, a5) := a in let '(b1, b2, b3, b4, b5) := b in")
    L.append("  (a1 =? b1) && (a2 =? b2) && (a3 =? b3) && (a4 =? b4) && (a5 =? b5).")
    L.append("Definition bad (c : Z * bool * option gvalue * gtype * bool * (Z * Z * Z * Z * Z)) : Z * bool :=")
    L.append("  let '(i, deliv, v, out, asg, obs) := c in (i, eq5 (code deliv out (to_value %d (fun _ _ => asg) v out)) obs)." % icid)
    L.append("Definition M := Eval vm_compute in map fst (filter (fun r => negb (snd r)) (map bad cases)).")
    L.append("Eval vm_compute in M.")
    return "\n".join(L) + "\n"


def run(replay=None):
    ck = Check("C09", "proof")
    ck.assumptions = [
        "a Go type is abstracted to (identity, kind, size) and a supplied value to (dynamic type, payload identity, nil-ness): these are the only facts arg/value.go consults; the harness reads them with reflect for every case",
        "reflect's assignability (needed when boxing into an interface result) is library behaviour: a Section variable in the theorems, observed per case in the correspondence",
        "cross-kind reinterpretation of equal-size values into pointer/struct results (e.g. uintptr for *T) is outside the property's statement (stand-ins are structs / struct pointers): executed, compared with the model, not judged by the oracle",
        "same-size values of a different non-struct type pass the size check and are refused by reflect.MakeFunc at call time (model: CallPanics); the property does not speak about them",
    ]
    ok, failed, log = ck.prove(["Props/C09.vo"], label="Props/C09")
    if not ok:
        m_ok, _, mlog = vlib.coq_make(["Model/ToValue.vo"])
        if not m_ok:
            raise vlib.Infra("Model/ToValue.v does not compile:\n" + mlog[-1500:])
    hx, blog = vlib.build_hx()
    if hx is None:
        ck.obligation_broken("harness build", blog)
        return ck.finish()
    obs = os.path.join(ck.wd, "obs.jsonl")
    rc, out = vlib.run_hx(hx, ["c09", "-seed", str(ck.seed), "-tier", ck.tier, "-out", obs], timeout=3000)
    if rc != 0:
        ck.obligation_broken("harness run c09 (exit %d)" % rc, out[-2000:])
        return ck.finish()
    allr = vlib.read_jsonl(obs)
    types = {r["id"]: r for r in allr if r["kind"] == "type"}
    rs = [r for r in allr if r["kind"] in ("i2v", "deliver")]
    icid = ([t["id"] for t in types.values() if t.get("icontext")] or [-99])[0]
    tn = lambda i: types[i]["name"] if i >= 0 else "untyped nil"
    ck.coverage["evaluations"] = len(rs)
    ck.coverage["rule"] = ("matrix of 41 supplied values (untyped nil, typed nils of every nilable kind, zero and non-zero scalars, structs, layout twins, bigger/smaller structs, "
                           "slices, maps, chans, funcs, errors by value and by pointer, arrays, unsafe pointers) x 28 declared types through arg.I2V, and x 16 real functions "
                           "(one per result type) through Return + a real call; non-trivial = accepted and delivered (or converted) value; distinct by (value, declared type, path)")
    classes = {}
    for r in rs:
        classes[r["kind"] + ":" + r["class"]] = classes.get(r["kind"] + ":" + r["class"], 0) + 1
    ck.notes["class_mix"] = classes
    ck.coverage["distinct_nontrivial"] = len({(r["kind"], r["v"], r["out"]) for r in rs if r["class"] in ("ok", "got")})
    ck.coverage["samples"] = [{k: r.get(k) for k in ("kind", "target", "v", "class", "rtype", "dyn", "same", "isnil")} | {"value_type": tn(r["vty"]), "declared": tn(r["out"])}
                              for r in rs[5:6] + [x for x in rs if x["kind"] == "deliver" and x["class"] == "got"][:2]]
    # ---- the property itself on the observations
    for r in rs:
        o = types[r["out"]]
        accepted = r["class"] in ("ok", "got")
        case = {k: r.get(k) for k in ("kind", "target", "v", "vty", "out", "class", "msg", "rtype", "dyn", "same", "isnil", "zero")}
        case["value_type"], case["declared"] = tn(r["vty"]), tn(r["out"])
        where = "Return + call of %s" % r.get("target") if r["kind"] == "deliver" else "arg.I2V"
        if r["vty"] < 0:
            if o["k"] in NILABLE:
                if not accepted:
                    ck.impl_violation("nil-not-zero:" + o["k"], "%s: nil for a %s result (%s) is not delivered as the typed zero value: %s %s" % (where, o["k"][1:].lower(), o["name"], r["class"], r.get("msg", "")), case)
                elif not (r["zero"] and r["isnil"]):
                    ck.impl_violation("nil-not-zero-value:" + o["k"], "%s: nil for %s arrives as a non-nil value" % (where, o["name"]), case)
            continue
        t = types[r["vty"]]
        if accepted and r["same"] == 0:
            ck.impl_violation("altered:" + o["k"], "%s: the %s supplied for %s reaches the caller with different data" % (where, t["name"], o["name"]), case)
        if accepted and r["rtype"] != r["out"] and r["kind"] == "deliver":
            ck.impl_violation("wrong-type-delivered", "%s: a %s arrives as a result declared %s" % (where, tn(r["rtype"]), o["name"]), case)
        if t["id"] == o["id"] and not t.get("icontext"):
            if not accepted:
                ck.impl_violation("exact-type-rejected:" + o["k"], "%s: a value of exactly the declared type %s is %s %s" % (where, o["name"], r["class"], r.get("msg", "")), case)
            elif r["isnil"] != r["vnil"]:
                ck.impl_violation("nilness-changed:" + o["k"], "%s: nil-ness of the %s value changed" % (where, o["name"]), case)
        elif o["k"] == "KIface" and r["assignable"] and not t.get("icontext"):
            if not accepted:
                ck.impl_violation("boxing-rejected", "%s: a %s is not accepted for the interface result %s: %s %s" % (where, t["name"], o["name"], r["class"], r.get("msg", "")), case)
            elif r["dyn"] != r["vty"]:
                ck.impl_violation("boxing-loses-dynamic-type", "%s: a %s boxed into %s arrives with dynamic type %s" % (where, t["name"], o["name"], tn(r["dyn"])), case)
            elif r.get("dnil") != r["vnil"]:
                ck.impl_violation("boxing-changes-nilness", "%s: typed nil-ness inside %s changed" % (where, o["name"]), case)
        elif o["k"] in ("KStruct", "KPtr") and t["k"] == o["k"] and t["size"] == o["size"] and not o.get("icontext"):
            if not accepted:
                ck.impl_violation("standin-rejected:" + ("nil-pointer" if r["vnil"] else o["k"]),
                                  "%s: the layout-compatible stand-in %s%s for %s is %s %s" % (where, "(nil) " if r["vnil"] else "", t["name"], o["name"], r["class"], r.get("msg", "")), case)
            elif r["rtype"] != r["out"] or (r["vnil"] and not r["isnil"]):
                ck.impl_violation("standin-not-retyped", "%s: stand-in %s for %s arrives as %s" % (where, t["name"], o["name"], tn(r["rtype"])), case)
        elif o["k"] != "KIface" and t["size"] != o["size"]:
            if accepted:
                ck.impl_violation("size-mismatch-accepted:" + o["k"], "%s: a %s (size %d) is accepted for %s (size %d) instead of being rejected" % (where, t["name"], t["size"], o["name"], o["size"]), case)
        if "back_nil" in r and accepted:
            want = o["k"] in ("KIface", "KPtr") and bool(r["zero"])
            if r["back_nil"] != want:
                ck.impl_violation("v2i-nil:" + o["k"], "arg.V2I maps the converted %s value for %s to %s" % (t["name"], o["name"], "nil" if r["back_nil"] else "a non-nil value"), case)
    # arity / per-position types, two results
    for r in allr:
        if r["kind"] == "arity":
            n, var = r["n"], r["variadic"]
            want_ok = (n >= 2) if var else (n == 3)
            if (r["class"] == "ok") != want_ok:
                ck.impl_violation("i2v-arity", "arg.I2V with %d values for 3 types (variadic=%s): %s" % (n, var, r["class"]), r)
        if r["kind"] == "two":
            if r["class"] != "got" or not (r["bytes_eq"] and r["err_same"]):
                ck.impl_violation("two-results", "Return(bytes, err) pair %d: %s" % (r["i"], json.dumps(r)), r)
    # ---- correspondence with the Coq model
    evaluated, mism = 0, 0
    for si in range(0, len(rs), 1500):
        part = rs[si:si + 1500]
        rc, out = vlib.coq_eval("c09_cases_%d" % si, coq_cases(part, types, icid), ck.wd, timeout=900)
        flat = out.replace("\n", " ")
        m = re.search(r"=\s*(\[.*?\])\s*:\s*list Z", flat)
        if rc != 0 or not m:
            ck.obligation_broken("correspondence C09 (coqc evaluation failed)", out[-1500:])
            break
        evaluated += len(part)
        for a in re.findall(r"\d+", m.group(1)):
            mism += 1
            if mism <= 3:
                r = part[int(a)]
                ck.obligation_broken("correspondence C09: model and implementation differ for %s <- %s (%s)" % (tn(r["out"]), tn(r["vty"]), r["kind"]),
                                     json.dumps({k: r.get(k) for k in ("kind", "target", "v", "class", "msg", "rtype", "dyn", "same", "zero", "vnil", "assignable")}))
    ck.coverage["traces_validated_against_impl"] = evaluated
    ck.notes["model_mismatches"] = mism
    if ck.violations:
        ck.broken = [b for b in ck.broken if not b["name"].startswith("correspondence C09: model")]
    return ck.finish()
