"""C18 -- argument expressions form a consistent predicate algebra."""
import json
import os
import re

import vlib
from vlib import Check


def coq_cases(rs):
    L = ["From Coq Require Import List ZArith Bool Arith. Import ListNotations.",
         "From Goom Require Import Model.ArgExpr. Open Scope Z_scope.",
         "Definition ob (o : option bool) : Z := match o with Some true => 1 | Some false => 0 | None => -2 end.",
         "Definition cases : list (Z * gval * gval * gval * (Z * Z * Z * Z)) := ["]
    rows = []
    for i, r in enumerate(rs):
        rows.append("  (%d, %s, %s, %s, (%s, %s, %s, %s))" % (i, r["x"], r["a"], r["y"], vlib.zz(r["eval"]), vlib.zz(r["sym"]),
                                                               vlib.zz(r["in"]), vlib.zz(r["in_any"])))
    L.append(";\n".join(rows))
    L.append("].")
    L.append("Definition bad (c : Z * gval * gval * gval * (Z * Z * Z * Z)) : Z * Z :=")
    L.append("  let '(i, x, a, y, (ev, sy, inn, ina)) := c in")
    L.append("  if negb (same_type x a && same_type y a) then (i, -1) else")
    L.append("  let m1 := if equal_c x a then 1 else 0 in")
    L.append("  let m2 := if equal_c a x then 1 else 0 in")
    L.append("  let m3 := ob (aeval_c (AIn [[SEq x]; [SEq y]]) [a] false) in")
    L.append("  let m4 := ob (aeval_c (AIn [[SEq y]; [SAny]]) [a] false) in")
    L.append("  let m5 := if go_eq x a then 1 else 0 in")
    L.append("  (i, (if m1 =? ev then 0 else 1) + (if m2 =? sy then 0 else 2) + (if m3 =? inn then 0 else 4) + (if m4 =? ina then 0 else 8) + (if m5 =? ev then 0 else 16)).")
    L.append("Definition R := Eval vm_compute in map bad cases.")
    L.append("Definition M := filter (fun r => 0 <? snd r) R.")
    L.append("Definition D := length (filter (fun r => snd r =? 0) R).")
    L.append("Eval vm_compute in M. Eval vm_compute in D.")
    return "\n".join(L) + "\n"


def run(replay=None):
    ck = Check("C18", "proof")
    ck.assumptions = [
        "fmt's %v is injective on numbers of one type for ordinary values (Section hypothesis fmt_inj; validated on every run: printed forms of every same-typed pair are compared with Go ==)",
        "same-typed = same static and dynamic type (a nil is a value of every nilable type); cross-type coercions of the cascade (number vs string, bool vs others, int vs float inside interfaces) are outside the property's statement: they are executed and counted, never judged",
        "NaN and negative zero are not ordinary values and are not generated",
        "values are rendered into the model's universe by the harness (reflect walk; unexported fields included; map entries sorted)",
    ]
    ok, failed, log = ck.prove(["Props/C18.vo"], label="Props/C18")
    if not ok:
        m_ok, _, mlog = vlib.coq_make(["Model/ArgExpr.vo"])
        if not m_ok:
            raise vlib.Infra("Model/ArgExpr.v does not compile:\n" + mlog[-1500:])
    # purity of Eval / equal: regenerated from the source (go2v): no assignment to non-local state
    try:
        st = vlib.run_go2v()
        pur = [m for m in st if m.get("module") == "ArgPurity"]
        if pur:
            ck.notes["purity_extractor"] = pur[0]
    except vlib.Infra as ex:
        ck.obligation_broken("go2v", str(ex))
    p_ok, p_failed, plog = vlib.coq_make(["Tie/ArgPurityTie.vo"])
    ck.coverage["obligations"] += 1
    if p_ok:
        ck.coverage["discharged"] += 1
    else:
        ck.obligation_broken("Tie/ArgPurityTie (Eval/equal write to non-local state, or the extractor no longer applies)", plog[-1500:])
    hx, blog = vlib.build_hx()
    if hx is None:
        ck.obligation_broken("harness build", blog)
        return ck.finish()
    obs = os.path.join(ck.wd, "obs.jsonl")
    rc, out = vlib.run_hx(hx, ["c18", "-seed", str(ck.seed), "-tier", ck.tier, "-out", obs], timeout=3000)
    if rc != 0:
        ck.obligation_broken("harness run c18 (exit %d)" % rc, out[-2000:])
        return ck.finish()
    allrs = vlib.read_jsonl(obs)
    for r in [r for r in allrs if r.get("kind") == "expand"]:
        ck.coverage["evaluations"] += 2
        if r["panic"] or r["first"] != r["want"] or r["second"] != r["want"] or not r["input_unchanged"]:
            ck.impl_violation("variadic-expansion-not-pure", "ExpandVariadic on %d fixed + %d variadic arguments: first %r, second %r, want %r, caller's arguments unchanged: %s %s" % (
                r["nfix"], r["nvar"], r["first"], r["second"], r["want"], r["input_unchanged"], r["panic"]), r)
    rs = [r for r in allrs if r.get("kind") == "pair"]
    if replay:
        rp = json.load(open(replay))
        c = rp.get("case", {})
        rs = [r for r in rs if r["group"] == c.get("group") and r["i"] == c.get("i") and r["j"] == c.get("j")] or rs
    dom = [r for r in rs if r["dom"]]
    ck.coverage["evaluations"] = len(rs) * 9
    ck.coverage["distinct_nontrivial"] = len({(r["x"], r["a"]) for r in dom})
    ck.coverage["rule"] = ("all ordered pairs (pattern x, argument a) inside each of 31 type groups (every integer width, floats, strings, bools, complex, "
                           "structs with unexported fields, nested composites, arrays, slices, maps, pointers, pointer-to-pointer, funcs, chans, interface{} and error "
                           "holding those, nils of every nilable kind); per pair: Equals(x) on a (three times), Equals(a) on x, Any, In(x,y), In(y,Any), "
                           "In with a wrong-length alternative; non-trivial = same dynamic type (in the property's domain), distinct by rendered (x,a)")
    groups = {}
    for r in rs:
        groups[r["group"]] = groups.get(r["group"], 0) + 1
    ck.notes["pairs_per_group"] = groups
    ck.notes["out_of_domain_pairs"] = len(rs) - len(dom)
    ck.notes["accepting_pairs"] = sum(1 for r in dom if r["eval"] == 1)
    ck.coverage["samples"] = [{k: r[k] for k in ("group", "x", "a", "eval", "sym", "in", "ref")} for r in dom[:1] + dom[len(dom) // 2:len(dom) // 2 + 2]]
    # the property itself, executed on the observations
    fmt_bad = 0
    for r in dom:
        ref = 1 if r["ref"] else 0
        g = r["group"]
        case = {k: r[k] for k in ("group", "i", "j", "x", "a", "y", "eval", "again", "later", "sym", "any", "in", "in_any", "eq_y", "ref", "panic", "resolve")}
        if r["panic"] or r["resolve"] or r["eval"] < 0:
            ck.impl_violation("panics:" + g, "Equals/In on well-typed %s values panics or errs: %s%s" % (g, r["panic"], r["resolve"]), case)
        elif r["eval"] != ref:
            ck.impl_violation("equals-wrong:" + g, "Equals(x).Eval(a) = %d but x %s a for %s values x=%s a=%s" % (r["eval"], "==" if ref else "!=", g, r["x"], r["a"]), case)
        elif r["sym"] != r["eval"]:
            ck.impl_violation("not-symmetric:" + g, "Equals(x) on a = %d but Equals(a) on x = %d (%s)" % (r["eval"], r["sym"], g), case)
        elif r["again"] != r["eval"] or r["later"] != r["eval"]:
            ck.impl_violation("eval-changes-later-answers:" + g, "the same Equals expression answered %d, then %d, then %d" % (r["eval"], r["again"], r["later"]), case)
        elif r["any"] != 1 or r["in_any"] != 1:
            ck.impl_violation("any-rejects:" + g, "Any (alone or inside In) rejected a %s value" % g, case)
        elif r["in"] != max(r["eval"], r["eq_y"]):
            ck.impl_violation("in-not-union:" + g, "In(x,y) = %d but Equals(x) = %d, Equals(y) = %d (%s)" % (r["in"], r["eval"], r["eq_y"], g), case)
        elif r["resolve_len"] != "error":
            ck.impl_violation("in-arity-not-rejected:" + g, "In with a two-element alternative on a one-parameter target: %r" % r["resolve_len"], case)
        if r["num"] and ((r["fx"] == r["fa"]) != r["ref"]):
            fmt_bad += 1
    ck.notes["fmt_inj_pairs_checked"] = sum(1 for r in dom if r["num"])
    if fmt_bad:
        ck.obligation_broken("hypothesis fmt_inj (fmt %v injective on same-typed numbers) fails on this toolchain", "%d pairs" % fmt_bad)
    # correspondence with the Coq model
    evaluated, mism = 0, 0
    for si in range(0, len(dom), 1200):
        part = dom[si:si + 1200]
        rc, out = vlib.coq_eval("c18_cases_%d" % si, coq_cases(part), ck.wd, timeout=900)
        flat = out.replace("\n", " ")
        m = re.search(r"=\s*(\[.*?\])\s*:\s*list \(Z \* Z\)", flat)
        d = re.search(r"=\s*(\d+)%nat", flat)
        if rc != 0 or not m or not d:
            ck.obligation_broken("correspondence C18 (coqc evaluation failed)", out[-1500:])
            break
        evaluated += int(d.group(1))
        for a, b in re.findall(r"\((\d+),\s*(-?\d+)\)", m.group(1)):
            if int(b) < 0:
                continue
            mism += 1
            if mism <= 3:
                r = part[int(a)]
                ck.obligation_broken("correspondence C18: model and implementation differ (mask %s: 1 equal, 2 symmetric, 4 In, 8 In/Any, 16 go_eq)" % b,
                                     json.dumps({k: r[k] for k in ("group", "x", "a", "y", "eval", "sym", "in", "in_any")}))
    ck.coverage["traces_validated_against_impl"] = evaluated
    if ck.violations:
        ck.broken = [b for b in ck.broken if not b["name"].startswith("correspondence C18: model")]
    return ck.finish()
