"""C04 -- conditional stubs select results by first matching condition, else default."""
import json
import os
import re

import vlib
from vlib import Check
from checks import stubcommon as sc


def coq_cases(rows):
    L = [sc.COQ_PRELUDE, "Definition cases : list (Z * config * list (list Z) * list Z) := ["]
    items = []
    for i, r in enumerate(rows):
        calls = "[" + "; ".join(vlib.zlist(c) for c in r["calls"]) + "]"
        outs = vlib.zlist([sc.enc_out(o) for o in r["outs"]])
        items.append("  (%d, %s, %s, %s)" % (i, sc.coq_config(r["config"]), calls, outs))
    L.append(";\n".join(items))
    L.append("].")
    L.append("Definition bad (c : Z * config * list (list Z) * list Z) : Z * Z * Z :=")
    L.append("  let '(i, cf, cs, obs) := c in")
    L.append("  (i, first_diff 0 (map enc (calls (configure cf) cs)) obs, first_diff 0 (map enc (spec_calls (spec_of cf) cs)) obs).")
    L.append("Definition M := Eval vm_compute in filter (fun r => negb ((snd (fst r) =? -1) && (snd r =? -1))) (map bad cases).")
    L.append("Print M.")
    return "\n".join(L) + "\n"


def classify(r, step, exp, got):
    t = r["target"]
    var = "variadic" if r["variadic"] else "fixed"
    lead = "+leading-fixed" if (r["variadic"] and r["nfixed"] > 0) else ""
    if isinstance(got, str) and got.startswith("Panic"):
        return "%s%s:call-panics" % (var, lead)
    if got == "NoSuitable":
        return "%s%s:matching-clause-or-default-not-served" % (var, lead)
    if exp == -10:
        return "%s%s:garbage-instead-of-no-suitable-condition" % (var, lead)
    return "%s%s:wrong-clause-selected" % (var, lead)


def run_stub_stream(ck, mode, hx):
    obs = os.path.join(ck.wd, "obs_%s.jsonl" % mode)
    rc, out = vlib.run_hx(hx, ["stub", "-extra", mode, "-seed", str(ck.seed), "-tier", ck.tier, "-out", obs], timeout=3000)
    if rc != 0:
        ck.obligation_broken("harness run stub/%s (exit %d)" % (mode, rc), out[-2000:])
        return None
    return [r for r in vlib.read_jsonl(obs) if r.get("kind") == "cfg"]


def judge(ck, rows, label):
    """Oracle (property executed directly) + correspondence with Model (concrete) and Spec in Coq."""
    rejected = 0
    usable = []
    for r in rows:
        if r["cfg_panic"]:
            if "length not match" in r["cfg_panic"] or "number of args does not match" in r["cfg_panic"]:
                rejected += 1   # refused up front: not in the domain of this property (C13 covers rejections)
                continue
            key = ("variadic" if r["variadic"] else "fixed") + ("+leading-fixed" if r["variadic"] and r["nfixed"] else "") + ":configuration-panics"
            ck.impl_violation(key, "%s: well-formed configuration panics: %s" % (r["target"], r["cfg_panic"]),
                              {"target": r["target"], "config": r["config"], "panic": r["cfg_panic"]})
            continue
        usable.append(r)
        exp = sc.spec_outputs(r["config"], r["calls"])
        for st, (e, o) in enumerate(zip(exp, r["outs"])):
            if sc.enc_out(o) != e:
                ck.impl_violation(classify(r, st, e, o),
                                  "%s call #%d args %s: expected %s, got %s" % (r["target"], st, r["calls"][st], "NoSuitable panic" if e == -10 else e, o),
                                  {"target": r["target"], "config": r["config"], "calls": r["calls"][:st + 1], "expected": e, "observed": o})
                break
        ar = r.get("after_reset")
        if not (isinstance(ar, int) and ar <= -1000) and r["config"]["nout"] > 0:
            ck.impl_violation("after-reset-not-original", "%s still mocked after Reset (returned %s)" % (r["target"], ar),
                              {"target": r["target"], "config": r["config"], "after_reset": ar})
    ck.notes[label + "_configs_rejected_up_front"] = rejected
    evaluated, mism = 0, 0
    for si in range(0, min(len(usable), 4000), 500):
        part = usable[si:si + 500]
        rc, out = vlib.coq_eval("%s_cases_%d" % (label, si), coq_cases(part), ck.wd, timeout=900)
        flat = out.replace("\n", " ")
        m = re.search(r"M\s*=\s*(\[.*?\])\s*:\s*list", flat)
        if rc != 0 or not m:
            ck.obligation_broken("correspondence %s (coqc evaluation failed)" % label, out[-1500:])
            break
        evaluated += len(part)
        for a, b, c in re.findall(r"\((\d+),\s*(-?\d+),\s*(-?\d+)\)", m.group(1)):
            mism += 1
            if mism <= 3:
                r = part[int(a)]
                ck.obligation_broken("correspondence %s: implementation differs from %s at call %s on %s" % (
                    label, "Model.invoke" if int(b) >= 0 else "the clause-list spec", b if int(b) >= 0 else c, r["target"]),
                    json.dumps({"target": r["target"], "config": r["config"], "calls": r["calls"], "outs": r["outs"]})[:1500])
    return usable, evaluated, mism


def run(replay=None):
    ck = Check("C04", "proof")
    ck.assumptions = [
        "argument/result values are opaque ids compared by equality (the equality of real Go values is C18/C09)",
        "a call is modelled as its receiver-stripped, variadic-flattened argument list; that the implementation really presents calls this way is what the harness measures on real calls of 10 targets (fixed, variadic with and without leading fixed parameters, pointer/value-receiver methods, 0/1/2 results)",
        "well-formed configurations: one default (Return..AndReturn) or a first When, then any number of When/In clauses; conditions refused up front by the argument-count check are outside the domain",
    ]
    ok, failed, log = ck.prove(["Props/C04.vo"], label="Props/C04")
    if not ok:
        m_ok, _, mlog = vlib.coq_make(["Model/StubSpec.vo"])
        if not m_ok:
            raise vlib.Infra("Model/StubSpec.v does not compile:\n" + mlog[-1500:])
    hx, blog = vlib.build_hx()
    if hx is None:
        ck.obligation_broken("harness build", blog)
        return ck.finish()
    rows = run_stub_stream(ck, "c04", hx)
    if rows is None:
        return ck.finish()
    usable, evaluated, mism = judge(ck, rows, "C04")
    ck.coverage["evaluations"] = sum(len(r["calls"] or []) for r in rows)
    ck.coverage["traces_validated_against_impl"] = evaluated
    ck.coverage["distinct_nontrivial"] = len({json.dumps([r["target"], r["config"], r["calls"]]) for r in usable
                                              if r["config"].get("clauses") and any(not isinstance(o, str) for o in r["outs"])})
    ck.coverage["rule"] = ("random well-formed configurations (70% default-first, else When-first; 0-4 When/In clauses with Eq/Any/In expressions, "
                           "sequences of 1-4 results, Returns form) on 10 real targets x 12 real calls biased towards configured values; "
                           "non-trivial = has a conditional clause and at least one call served; distinct by (target, config, calls)")
    tm = {}
    for r in rows:
        tm[r["target"]] = tm.get(r["target"], 0) + 1
    ck.notes["target_mix"] = tm
    ck.coverage["samples"] = [{"target": r["target"], "config": r["config"], "calls": r["calls"][:4], "outs": r["outs"][:4]} for r in usable[:2]]
    if ck.violations:
        ck.broken = [b for b in ck.broken if not b["name"].startswith("correspondence C04: implementation differs")]
    return ck.finish()
