"""Direct Python transcription of Model/IfaceMock.v (used as the property's reference, with key_of = variable)."""


class Ctx:
    def __init__(self, var, nmeth):
        self.var, self.backup, self.canceled = var, None, False
        self.slots = [None] * nmeth
        self.retained = []


class State:
    def __init__(self, init_words, nmeth, key_of):
        self.vars = list(init_words)       # 'nil' | ('real', r) | ('fake', c)
        self.ctxs, self.cache, self.mimp = [], [], {}
        self.nmeth, self.key_of = nmeth, key_of
        self.closures = 0

    def lookup(self, b, v):
        k = self.key_of(v)
        for (bb, kk, c) in self.cache:
            if bb == b and kk == k:
                if not self.ctxs[c].canceled:
                    return c
                break
        self.ctxs.append(Ctx(v, self.nmeth[v]))
        c = len(self.ctxs) - 1
        self.cache.insert(0, (b, k, c))
        return c

    def lookup_kept(self, b, v):
        k = self.key_of(v)
        for (bb, kk, c) in self.cache:
            if bb == b and kk == k:
                return c
        return self.lookup(b, v)

    def mock(self, b, v, m, kept=False):
        c = self.lookup_kept(b, v) if kept else self.lookup(b, v)
        x = self.ctxs[c]
        k = self.closures
        self.closures += 1
        if x.canceled:
            x.backup = (self.vars[x.var],)
            x.slots = [None] * len(x.slots)
            x.canceled = False
        if x.backup is None:
            x.backup = (self.vars[x.var],)
        if m < len(x.slots):
            x.slots[m] = k
        x.retained.append(k)
        self.vars[x.var] = ('fake', c)
        return k

    def call(self, v, m):
        w = self.vars[v]
        if w == 'nil':
            return ('nilpanic',)
        if w[0] == 'real':
            return ('real', w[1])
        k = self.ctxs[w[1]].slots[m]
        return ('notimpl',) if k is None else ('repl', k)

    def reset(self, b):
        for (bb, kk, c) in reversed(self.cache):
            if bb == b and not self.ctxs[c].canceled and self.ctxs[c].backup is not None:
                self.vars[self.ctxs[c].var] = self.ctxs[c].backup[0]
                self.ctxs[c].canceled = True

    def needed(self):
        """closures a call through some variable can still reach"""
        out = set()
        for w in self.vars:
            if w != 'nil' and w[0] == 'fake':
                out |= {k for k in self.ctxs[w[1]].slots if k is not None}
        return out

    def show(self, v):
        w = self.vars[v]
        return 'nil' if w == 'nil' else ('real%d' % w[1] if w[0] == 'real' else 'fake')
