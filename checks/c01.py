"""C01 -- a mocked function runs the replacement with exact arguments and results (partial)."""
import json
import os

import vlib
from vlib import Check


def run(replay=None):
    ck = Check("C01", "proof")
    ck.assumptions = [
        "PARTIAL: the compiler's code generation (ABIInternal never passes an argument or result in RDX and enters closures with the context in RDX), reflect.MakeFunc's marshalling, the real collector and the stack copier are not modelled; they are exercised by the signature zoo, never called proved",
        "the history model is Model/Patch.v, tied to the implementation by C02's correspondence (whole-text diffs after every step)",
    ]
    ok, failed, log = ck.prove(["Props/C01.vo"], label="Props/C01")
    if not ok:
        m_ok, _, mlog = vlib.coq_make(["Model/Patch.vo", "Model/JumpEnc.vo"])
        if not m_ok:
            raise vlib.Infra("models do not compile:\n" + mlog[-1500:])
    hx, blog = vlib.build_hx()
    if hx is None:
        ck.obligation_broken("harness build", blog)
        return ck.finish()
    # when the proof no longer checks: search the entry jump for a destination it does not reach
    jp = os.path.join(ck.wd, "jump.jsonl")
    rc, out = vlib.run_hx(hx, ["c01", "-extra", "jump", "-out", jp], timeout=120)
    for r in (vlib.read_jsonl(jp) if rc == 0 else []):
        to = int(r["to"])
        want = "9048ba" + to.to_bytes(8, "little").hex() + "ff22"
        if r["bytes"] != want:
            ck.impl_violation("entry-jump-wrong-destination", "the entry jump for a replacement at 0x%x is %s: it loads %s into RDX (NOP; MOVABS RDX,imm64; JMP [RDX] expected %s)" % (
                to, r["bytes"], r["bytes"][6:22], want), {"to": r["to"], "bytes": r["bytes"], "expected": want})
            break
    # generic instantiations (own process)
    gp = os.path.join(ck.wd, "generic.jsonl")
    rcg, outg = vlib.run_hx(hx, ["c01", "-extra", "generic", "-out", gp], timeout=300)
    for r in (vlib.read_jsonl(gp) if os.path.exists(gp) else []):
        if r.get("kind") == "generic" and not (r["seen_ok"] and r["got_ok"] and not r["panic"]):
            ck.impl_violation("generic-args-shifted", "replacement of the generic instantiation %s called with %d sees %s (and the caller gets a wrong result: %s) %s" % (
                r["name"], r["sent"], r["seen"], not r["got_ok"], r["panic"]), r)
    if rcg != 0:
        ck.impl_violation("generic-crash", "mocking a generic instantiation crashes the process (exit %d)" % rcg, {"tail": outg[-400:]})
    # a kept mocker re-applied after Reset / Cancel (own process: the failure mode is unbounded recursion)
    ap = os.path.join(ck.wd, "reapply.jsonl")
    rca, outa = vlib.run_hx(hx, ["c01", "-extra", "reapply", "-out", ap], timeout=300)
    ars = vlib.read_jsonl(ap) if os.path.exists(ap) else []
    if rca != 0:
        last = [r for r in ars if r.get("kind") == "reapply-about"]
        ck.impl_violation("reapplied-mocker-not-installed:crash", "a mocker re-applied after Reset/Cancel: the process dies (exit %d) at %s" % (rca, last[-1] if last else "?"),
                          {"tail": outa[-400:], "last": last[-1] if last else None})
    for r in ars:
        if r.get("kind") == "reapply" and (r["panic"] or r["got"] != r["want"]):
            ck.impl_violation("reapplied-mocker-not-installed", "%s: Apply; %s; %s through the kept mocker; call returns %s (want %s) %s" % (
                r["name"], "Reset" if r["variant"] % 2 == 0 else "Cancel", "Return(77)" if r["variant"] < 2 else "Apply", r["got"], r["want"], r["panic"]), r)
    # retention: builder and callback dropped by the program, collections with heap churn, then a call (own process: a crash is an observation)
    rp = os.path.join(ck.wd, "retain.jsonl")
    rc, out = vlib.run_hx(hx, ["c01", "-extra", "retain", "-out", rp], timeout=600)
    rrs = vlib.read_jsonl(rp) if os.path.exists(rp) else []
    rets = [r for r in rrs if r.get("kind") == "retain"]
    if rc != 0:
        last = [r for r in rrs if r.get("kind") == "retain-about"]
        ck.impl_violation("replacement-not-retained:crash", "the process crashes (exit %d) calling a mocked function after its builder was dropped and collections ran (%s)" % (
            rc, last[-1] if last else "?"), {"tail": out[-600:], "last": last[-1] if last else None})
    for r in rets:
        if r["collected"] or r["panic"] or r["got"] != r["want"]:
            ck.impl_violation("replacement-not-retained", "mock of %s (%s) with the builder dropped: after collections the callback's captured object was %s and the call returned %s (want %s) %s" % (
                r["name"], "Return stub" if r["stub"] else "Apply callback", "COLLECTED" if r["collected"] else "kept", r["got"], r["want"], r["panic"]), r)
    if rc == 0 and len(rets) < 18:
        ck.obligation_broken("harness: the retention scenario did not run", out[-400:])
    ck.notes["retention_scenarios"] = len(rets)
    seeds = [ck.seed] if ck.tier == "quick" else [ck.seed + i for i in range(10)]
    sigs_seen, calls, kinds = set(), 0, {}
    samples = []
    # the last pass repeats the zoo with goom's debug logging switched on (the debug wrapper sits between the entry jump and the replacement)
    passes = [(sd, "off") for sd in seeds] + [(seeds[-1] + 1, "debug")]
    for sd, logmode in passes:
        obs = os.path.join(ck.wd, "obs_%d.jsonl" % sd)
        env = dict(vlib.go_env(), HX_LOG=logmode)
        rc, out = vlib.run_hx(hx, ["c01", "-seed", str(sd), "-tier", ck.tier, "-out", obs], timeout=3000, env=env)
        rs = vlib.read_jsonl(obs) if os.path.exists(obs) else []
        if rc != 0:
            last = [r for r in rs if r.get("kind") == "about"]
            ck.impl_violation("crash:" + (last[-1]["name"] if last else "?"), "the process crashes (exit %d) while calling the mocked %s" % (rc, last[-1]["name"] if last else "?"),
                              {"seed": sd, "tail": out[-600:]})
        for r in rs:
            if r.get("kind") != "sig":
                continue
            sigs_seen.add(r["type"])
            calls += r["calls"]
            if len(samples) < 3:
                samples.append({"name": r["name"], "type": r["type"], "calls": r["calls"]})
            k = "variadic" if r["variadic"] else ("many-args" if r["nin"] > 9 else "plain")
            kinds[k] = kinds.get(k, 0) + 1
            case = {"seed": sd, "logging": logmode, "name": r["name"], "type": r["type"], "bad": r["bad"]}
            if r["apply_panic"]:
                ck.impl_violation("apply-panics", "mocking %s (%s) panics: %s" % (r["name"], r["type"], r["apply_panic"]), case)
            for b in r["bad"]:
                why = b["why"].split("-")[0] + ("-altered" if "altered" in b["why"] else "-" + "-".join(b["why"].split("-")[1:]))
                ck.impl_violation("%s:%s" % (why, b["form"]), "%s %s: %s call, %s: %s" % (r["name"], r["type"], b["form"], b["phase"], b["why"]), case)
            if not r["restored"]:
                ck.impl_violation("not-restored", "after Reset a call of %s does not run the original" % r["name"], case)
    ck.coverage["evaluations"] = calls
    if len(sigs_seen) < 40 or calls < 500:
        ck.obligation_broken("harness: the signature zoo was not exercised (%d signatures, %d calls): the oracle would be vacuous" % (len(sigs_seen), calls), "")
    ck.coverage["distinct_nontrivial"] = len(sigs_seen)
    ck.coverage["traces_validated_against_impl"] = calls
    ck.notes["signature_classes"] = kinds
    ck.coverage["rule"] = ("a generated zoo of 90 signatures (0-14 parameters and 0-5 results drawn from 32 types: every integer width, floats beyond the register file, complex, strings, "
                           "slices, arrays of length 0/1/2/5, register-, float-, nested- and stack-passed structs, pointers, interfaces, funcs, maps, chans; a quarter variadic) x call forms "
                           "{direct, function value, reflect.Call, defer, go} x phases {fresh, after two collections with heap churn, after forced stack growth on a new goroutine} with a typed "
                           "closure as replacement, plus a stubbed Return; arguments seen by the replacement and results seen by the caller compared bit-exactly with what was sent; "
                           "the zoo is run once more with goom's debug logging on; retention: 18 mocks whose builder and callback the program drops, 4 collections with heap churn, then a call; "
                           "non-trivial = distinct signature")
    ck.coverage["samples"] = samples
    return ck.finish()
