"""C11 -- independent builders and concurrent callers are race-free and isolated (partial)."""
import json
import os
import re
import subprocess

import vlib
from vlib import Check

ENTRY_POINTS = {"internal/patch": ["UnpatchAll", "Unpatch", "UnpatchInstanceMethod"], "internal/unexports2": ["ExposeFunction"]}


def run(replay=None):
    ck = Check("C11", "proof")
    ck.assumptions = [
        "PARTIAL: the Go memory model and instruction-fetch coherence are not modelled; a caller that executes a function WHILE its entry is being rewritten is outside the property (callers call steadily mocked functions)",
        "lock regions are recognised lexically by go2v (Lock ... Unlock / deferred Unlock incl. deferred literals, the helpers lock()/unlock(), sync.Once.Do, package-local callers up to depth 4)",
        "exported entry points of internal packages that goom's own code never calls (checked by text search on every run) are outside the discipline: " + json.dumps(ENTRY_POINTS),
        "known finding F03c also shows here: a steadily mocked function whose callback calls the origin placeholder re-enters the mock when a fresh caller goroutine's stack has to grow",
    ]
    ok, failed, log = ck.prove(["Props/C11.vo"], label="Props/C11")
    if not ok:
        m_ok, _, mlog = vlib.coq_make(["Model/Conc.vo"])
        if not m_ok:
            raise vlib.Infra("Model/Conc.v does not compile:\n" + mlog[-1500:])
        gens = open(os.path.join(vlib.COQ, "Gen", "LocksPatch.v")).read() + open(os.path.join(vlib.COQ, "Gen", "LocksBytecode.v")).read() + \
            open(os.path.join(vlib.COQ, "Gen", "LocksUnexports.v")).read()
        for var, fn, how in re.findall(r'\("([^"]+)", "([^"]+)", "(UNPROTECTED)"\)', gens):
            ck.impl_violation("unprotected-access:%s:%s" % (var, fn), "%s is accessed in %s outside every lock region (and some caller reaches it without the lock)" % (var, fn),
                              {"variable": var, "function": fn})
    # the ignored entry points must really be unused by goom's own (non-test) code
    for pkg, names in ENTRY_POINTS.items():
        for n in names:
            rc, out = vlib.sh("grep -rn --include=*.go -w %s %s | grep -v _test.go | grep -v '^%s/%s/' | grep -v '^\\S*:\\s*//' || true" % (n, vlib.REPO, vlib.REPO, pkg), timeout=60)
            qual = pkg.split("/")[-1] + "." + n + "("
            uses = [l for l in out.splitlines() if qual in l]
            if uses:
                ck.obligation_broken("entry point %s.%s is now called by goom itself: it must obey the lock discipline" % (pkg, n), "\n".join(uses[:5]))
    # ---- stress
    rounds = {"quick": 40, "thorough": 800}[ck.tier]
    totals = {"rounds": 0, "wrong_steady": 0, "wrong_own": 0, "panics": 0, "not_pristine": 0, "reenter": 0}
    samples = []
    for variant, flags, n in (("", [], rounds), ("_race", ["-race"], max(10, rounds // 3))):
        hx, blog = vlib.build_hx(variant, flags)
        if hx is None:
            ck.obligation_broken("harness build%s" % variant, blog)
            continue
        obs = os.path.join(ck.wd, "obs%s.jsonl" % variant)
        rc, out = vlib.run_hx(hx, ["c11", "-seed", str(ck.seed), "-tier", ck.tier, "-n", str(n), "-out", obs], timeout=3000)
        rs = vlib.read_jsonl(obs) if os.path.exists(obs) else []
        if rc != 0:
            ck.impl_violation("crash" + variant, "the stress run crashes (exit %d) after %d rounds: %s" % (rc, len(rs), out[-300:].replace("\n", " ")), {"variant": variant, "tail": out[-800:]})
        races = out.count("WARNING: DATA RACE")
        if variant:
            ck.notes["race_detector_reports"] = races
            if races:
                m = re.search(r"WARNING: DATA RACE.*?(?=\n==================|\Z)", out, re.S)
                where = re.findall(r"\s+(\S*goom\S*\.\S+)\(\)\n\s+(/repo/\S+)", m.group(0) if m else "")
                ck.impl_violation("data-race:" + (where[0][1].split("/repo/")[-1].split(":")[0] if where else "?"),
                                  "the race detector reports %d data race(s); first in %s" % (races, where[:2]), {"report": (m.group(0) if m else out)[:3000]})
        for r in rs:
            totals["rounds"] += 1
            if len(samples) < 2:
                samples.append({k: r[k] for k in ("mockers", "callers", "iters", "yield", "wrong_steady", "wrong_own", "panics")})
            re_enter = [w for w in (r.get("wrong_msgs") or []) if re.match(r"S0\((\d+)\)=(\d+) want (\d+)", w) and int(re.match(r"S0\((\d+)\)=(\d+) want (\d+)", w).group(2)) - int(re.match(r"S0\((\d+)\)=(\d+) want (\d+)", w).group(3)) == 5000]
            other_wrong = r["wrong_steady"] - len(re_enter) if len(re_enter) == len(r.get("wrong_msgs") or []) and r["wrong_steady"] <= 4 else r["wrong_steady"] - len(re_enter)
            totals["reenter"] += len(re_enter)
            if re_enter:
                ck.impl_violation("steady-origin-reenter", "a steadily mocked function whose callback calls the origin placeholder returns the callback's result twice applied (%s) while other goroutines mock other targets" % re_enter[0], r)
            if other_wrong > 0 and not re_enter:
                totals["wrong_steady"] += other_wrong
                ck.impl_violation("steady-call-not-mocked", "round %d (%d mockers, %d callers): %d calls of steadily mocked functions did not yield the mocked result: %s" % (
                    r["r"], r["mockers"], r["callers"], other_wrong, r.get("wrong_msgs")), r)
            if r["wrong_own"]:
                totals["wrong_own"] += r["wrong_own"]
                ck.impl_violation("own-target-wrong", "round %d: a mocker goroutine observed %d wrong results on its OWN targets while others worked on disjoint ones" % (r["r"], r["wrong_own"]), r)
            if r["panics"]:
                totals["panics"] += r["panics"]
                ck.impl_violation("panic-under-concurrency", "round %d: %d goroutines panicked: %s" % (r["r"], r["panics"], r.get("panic_msgs")), r)
            if r["not_pristine"]:
                totals["not_pristine"] += 1
                ck.impl_violation("not-restored-at-quiescence", "round %d: after all builders were reset %s are not restored" % (r["r"], r["not_pristine"]), r)
    ck.notes["stress_totals"] = totals
    ck.coverage["evaluations"] = totals["rounds"]
    ck.coverage["distinct_nontrivial"] = totals["rounds"]
    ck.coverage["traces_validated_against_impl"] = totals["rounds"]
    ck.coverage["rule"] = ("stress rounds: 2-6 mocker goroutines, each with its own builder over a disjoint group of 12 tiny adjacent targets (apply / reset+Return / reset / reset+When, 20-80 iterations), "
                           "1-6 caller goroutines hammering three steadily mocked functions (one callback calls its origin placeholder), optional yields; plain build and -race build; "
                           "oracle: no race report, no crash or panic, own targets always as last instructed, steady calls mocked, all 15 entries pristine and original at quiescence")
    ck.coverage["samples"] = samples or [{"note": "no rounds"}]
    return ck.finish()
