"""C15 -- emitted jump sequences transfer control to exactly the requested address."""
import json
import os
import re

import vlib
from vlib import Check, zz, zlist, hexbytes

FN_ID = {"entry": 0, "iface": 1, "origin": 2, "a64patch": 3, "a64iface": 4, "a64ifacectx": 5, "i386": 6}
GEN_MODS = ["Gen/JumpAmd64.vo", "Gen/IfaceJmpAmd64.vo", "Gen/Jump386.vo", "Gen/JumpArm64.vo", "Gen/IfaceJmpArm64.vo"]


def coq_cases(cases, with_gen):
    L = ["From Goom Require Import Base.MachineInt Model.JumpEnc.",
         "From Coq Require Import List ZArith Bool. Import ListNotations. Open Scope Z_scope."]
    if with_gen:
        L.append("From Goom Require Gen.JumpAmd64 Gen.IfaceJmpAmd64 Gen.Jump386 Gen.JumpArm64 Gen.IfaceJmpArm64.")
    L.append("Definition model (fn from to : Z) : list Z :=")
    L.append("  if fn =? 0 then entry_jump to else if fn =? 1 then abs_jump_rdx to else if fn =? 2 then origin_jump from to")
    L.append("  else if fn =? 3 then a64_jump 10 to else if fn =? 6 then abs_jump_edx to else a64_jump 27 to.")
    L.append("Definition model_rel (from to : Z) : bool := rel_fits from to.")
    if with_gen:
        L.append("Definition gen (fn from to : Z) : list Z :=")
        L.append("  if fn =? 0 then Gen.JumpAmd64.jmpToFunctionValue from to else if fn =? 1 then Gen.IfaceJmpAmd64.jmpWithRdx to")
        L.append("  else if fn =? 2 then Gen.JumpAmd64.jmpToOriginFunctionValue from to else if fn =? 3 then Gen.JumpArm64.jmpToFunctionValue from to")
        L.append("  else if fn =? 4 then Gen.IfaceJmpArm64.jmpWithRdx to else if fn =? 5 then Gen.IfaceJmpArm64.jmpWithRdxAndCtx to 1 2")
        L.append("  else Gen.Jump386.jmpToFunctionValue from to.")
        L.append("Definition gen_rel (from to : Z) : bool := Gen.JumpAmd64.relative from to.")
    else:
        L.append("Definition gen := model. Definition gen_rel := model_rel.")
    L.append("Fixpoint leqb (a b : list Z) : bool := match a, b with [], [] => true | x :: a', y :: b' => (x =? y) && leqb a' b' | _, _ => false end.")
    L.append("(* case: index, fn, from, to, rel (0/1/2=n.a.), observed bytes *)")
    L.append("Definition cases : list (Z * Z * Z * Z * Z * list Z) := [")
    rows = []
    for i, c in enumerate(cases):
        rel = 2 if c.get("rel") is None else (1 if c["rel"] else 0)
        rows.append("  (%d, %d, %s, %s, %d, %s)" % (i, FN_ID[c["fn"]], zz(c["from"]), zz(c["to"]), rel, zlist(hexbytes(c["bytes"]))))
    L.append(";\n".join(rows))
    L.append("].")
    L.append("Definition bad (c : Z * Z * Z * Z * Z * list Z) : Z :=")
    L.append("  let '(i, fn, from, to, rel, obs) := c in")
    L.append("  let m := if leqb (model fn from to) obs then 0 else 1 in")
    L.append("  let g := if leqb (gen fn from to) obs then 0 else 2 in")
    L.append("  let r := if rel =? 2 then 0 else (if Bool.eqb (model_rel from to) (rel =? 1) then 0 else 4) + (if Bool.eqb (gen_rel from to) (rel =? 1) then 0 else 8) in")
    L.append("  m + g + r.")
    L.append("Definition M := Eval vm_compute in filter (fun p => negb (snd p =? 0)) (map (fun c => (fst (fst (fst (fst (fst c)))), bad c)) cases).")
    L.append("Print M.")
    return "\n".join(L) + "\n"


def parse_M(out):
    import re
    m = re.search(r"M\s*=\s*(\[[^\]]*\])", out.replace("\n", " "))
    if not m:
        return None
    body = m.group(1).strip()
    if body == "[]":
        return []
    return [(int(a), int(b)) for a, b in re.findall(r"\((\d+),\s*(\d+)\)", body)]


def classify(c):
    why = c.get("why", "")
    if c["fn"] == "origin":
        if "lands on" in why:
            return "origin:rel32-lands-elsewhere"
        if why.startswith("far form is MOVABS"):
            return "origin:far-form-jumps-through-memory"
        return "origin:" + why.split(" ")[0]
    return c["fn"] + ":" + (why.split(" ")[0] if why else "?")


def run(replay=None):
    ck = Check("C15", "proof")
    ck.assumptions = [
        "X86Mini/A64Mini decode+step cover exactly the encodings goom emits; validated per run against the toolchain's x86asm/arm64asm",
        "code bytes do not wrap around the end of the address space (rip + len < 2^64)",
        "go2v's translation of Go integer expressions (explicit wrap per operation) is faithful; cross-checked by evaluating Gen on the observed cases",
    ]
    status = vlib.run_go2v()
    failed_tr = {m["module"]: m["failed"] for m in status if m["failed"] and m["module"] in
                 ("JumpAmd64", "IfaceJmpAmd64", "Jump386", "JumpArm64", "IfaceJmpArm64")}
    ok, failed, log = ck.prove(["Props/C15.vo"], label="Props/C15 (incl. Tie/JumpTie, Tie/A64Tie)")
    if failed_tr:
        ck.notes["go2v_failed"] = failed_tr
    with_gen = True
    if not ok:
        ck.notes["proof_failed_at"] = failed
        g_ok, _, _ = vlib.coq_make(GEN_MODS + ["Model/JumpEnc.vo"])
        with_gen = g_ok
        if not g_ok:
            m_ok, _, mlog = vlib.coq_make(["Model/JumpEnc.vo"])
            if not m_ok:
                raise vlib.Infra("Model/JumpEnc.v does not compile:\n" + mlog[-1500:])

    hx, blog = vlib.build_hx()
    if hx is None:
        ck.obligation_broken("harness build (hooks no longer fit the source)", blog)
        return ck.finish()
    if blog:
        ck.notes["harness_build_note"] = blog[:500]

    def harness(tier, seed, tag):
        obs_path = os.path.join(ck.wd, "obs_%s.jsonl" % tag)
        rc, out = vlib.run_hx(hx, ["c15", "-seed", str(seed), "-tier", tier, "-out", obs_path], timeout=1800)
        if rc != 0:
            ck.obligation_broken("harness run c15", out)
            return [], {}
        rows = vlib.read_jsonl(obs_path)
        summ = [r for r in rows if r.get("summary")]
        return [r for r in rows if not r.get("summary")], (summ[0] if summ else {})

    if replay:
        rp = json.load(open(replay))
        ck.notes["replay_of"] = replay
    rows, summ = harness(ck.tier, ck.seed, "main")
    total = sum(summ.get("counts", {}).values())
    ck.coverage["evaluations"] = total
    ck.notes["per_function_counts"] = summ.get("counts", {})
    ck.notes["arm64_copy_available"] = summ.get("arm64_available")
    bad = [r for r in rows if not r["ok"]]
    good = [r for r in rows if r["ok"]]
    for r in bad:
        ck.impl_violation(classify(r), "%s from=%s to=%s: %s" % (r["fn"], r["from"], r["to"], r.get("why")), r)

    # end to end: the jumps goom really installs (re-patch with another closure of one literal, origin placeholder, interface
    # stubs in a fresh mapping and in the in-text reserve)
    live_path = os.path.join(ck.wd, "obs_live.jsonl")
    rc, lout = vlib.run_hx(hx, ["c15", "-extra", "live", "-seed", str(ck.seed), "-tier", ck.tier, "-out", live_path], timeout=900)
    if rc != 0 and re.search(r"out of memory|cannot allocate memory|failed to create new OS thread", lout):
        # the Go runtime itself needed memory while the address-space limit was lowered for the reserve path: not goom's doing
        ck.notes["live_rerun_after_runtime_oom"] = True
        rc, lout = vlib.run_hx(hx, ["c15", "-extra", "live", "-seed", str(ck.seed + 1000), "-tier", ck.tier, "-out", live_path], timeout=900)
    lrows = vlib.read_jsonl(live_path) if os.path.exists(live_path) else []
    lres = [r for r in lrows if r.get("kind") in ("live-entry", "live-iface", "live-stub")]
    ck.coverage["evaluations"] += len(lres)
    ck.notes["live"] = {"entry_rounds": sum(1 for r in lres if r["kind"] == "live-entry"),
                        "iface": [{k: r.get(k) for k in ("kind", "mode", "reserve_used", "ok", "skipped")} for r in lres if r["kind"] != "live-entry"]}
    if rc != 0:
        about = [r for r in lrows if r.get("kind") == "live-iface-about-to-call"]
        if about:
            a = about[-1]
            if a["mode"].startswith("entry:"):
                ck.impl_violation("installed-entry-jump-crashes", "the process dies (exit %d) on the call of %s after its entry was diverted to the requested replacement" % (rc, a["mode"][6:]),
                                  {"about": a, "tail": lout[-600:]})
            elif a["mode"] == "far-origin-jump":
                ck.impl_violation("installed-far-origin-jump-crashes", "the process dies (exit %d) on the call through the FAR form of the trampoline return placed in a fresh mapping (destination: a code address of the text)" % rc,
                                  {"about": a, "tail": lout[-600:]})
            else:
                ck.impl_violation("installed-iface-stub-crashes:" + a["mode"], "the process dies (exit %d) on the call through a mocked interface variable whose stub lives in the %s" % (
                    rc, "in-text reserve (new mappings refused)" if a["mode"] == "reserve" else "fresh mapping"), {"about": a, "tail": lout[-600:]})
        else:
            ck.obligation_broken("harness run c15 live (exit %d)" % rc, lout[-1500:])
    for r in lres:
        if not r["ok"]:
            key = "installed-entry-jump-wrong-funcval" if r["kind"] == "live-entry" else "installed-iface-stub-wrong:" + r["mode"]
            ck.impl_violation(key, "%s: %s" % (r.get("target") or ("interface stub in the " + r["mode"]), r["why"]), r)
    if not any(r["kind"] == "live-stub" and r["mode"] == "reserve" and r.get("reserve_used") and not r.get("skipped") for r in lres) and rc == 0:
        ck.notes["live_reserve_path_not_exercised"] = True

    # correspondence: implementation output vs Model (and vs the regenerated Gen) inside Coq
    mism_total = 0
    shard = 1500
    shards = [good[i:i + shard] for i in range(0, len(good), shard)] or [[]]
    evaluated = 0
    for si, sh_cases in enumerate(shards[:8]):
        if not sh_cases:
            continue
        rc, out = vlib.coq_eval("c15_cases_%d" % si, coq_cases(sh_cases, with_gen), ck.wd, timeout=600)
        M = parse_M(out) if rc == 0 else None
        if M is None:
            ck.obligation_broken("correspondence C15 (coqc evaluation failed)", out)
            break
        evaluated += len(sh_cases)
        for idx, code in M:
            mism_total += 1
            c = sh_cases[idx]
            which = []
            if code & 1:
                which.append("Model.bytes")
            if code & 2:
                which.append("Gen.bytes")
            if code & 4:
                which.append("Model.rel_fits")
            if code & 8:
                which.append("Gen.relative")
            ck.obligation_broken("correspondence C15: %s disagree(s) with the implementation on %s from=%s to=%s" % (
                "+".join(which), c["fn"], c["from"], c["to"]), json.dumps(c))
            if mism_total > 5:
                break
    ck.coverage["traces_validated_against_impl"] = evaluated
    distinct = len({(r["fn"], r["from"], r["to"]) for r in rows})
    ck.coverage["distinct_nontrivial"] = distinct
    ck.coverage["rule"] = ("every value of each 16-bit lane x 3 backgrounds per encoder, the +-2GiB window (|d-2^31|<=96) on both sides "
                           "for 9 bases, special addresses, random pairs; each output decoded by the toolchain's reference decoder; "
                           "distinct_nontrivial counts the distinct (fn,from,to) cases written out and re-evaluated in Coq against Model and Gen")
    ck.coverage["samples"] = [{k: r[k] for k in ("fn", "from", "to", "bytes")} for r in good[:3]] + \
        [r for r in good if r["fn"] == "origin"][:3]
    ck.notes["tie"] = "translator+tie-lemmas" if ok else "correspondence-only"

    # verdict ladder when an obligation is broken but nothing failed on the implementation yet: widen the search
    if ck.broken and not ck.violations:
        rows2, summ2 = harness("thorough", ck.seed + 7919, "search")
        ck.notes["search_evaluations"] = sum(summ2.get("counts", {}).values())
        for r in rows2:
            if not r["ok"]:
                ck.impl_violation(classify(r), "%s from=%s to=%s: %s" % (r["fn"], r["from"], r["to"], r.get("why")), r)
        # a broken tie with a clean dense correspondence and a clean oracle is a harmless rewrite (ladder step 3)
        only_proof = all(b["name"].startswith("Props/C15") for b in ck.broken)
        if only_proof and not ck.violations and mism_total == 0 and evaluated > 0 and not failed_tr:
            # dense K: re-evaluate the search sample too
            extra = [r for r in rows2 if r["ok"]][:6000]
            clean = True
            for si in range(0, len(extra), shard):
                rc, out = vlib.coq_eval("c15_dense_%d" % si, coq_cases(extra[si:si + shard], False), ck.wd, timeout=600)
                M = parse_M(out) if rc == 0 else None
                if M is None or M:
                    clean = False
                    break
            if clean:
                ck.notes["tie"] = "correspondence-only (tie lemma no longer compiles; dense correspondence with Model is clean)"
                ck.notes["broken_but_tolerated"] = [b["name"] for b in ck.broken]
                ck.broken = []
                ck.coverage["discharged"] = ck.coverage["obligations"]  # theorems about Model stand; link is (K)
    return ck.finish()
