"""C19 -- debug and trace logging never change what a mock does."""
import json
import os

import vlib
from vlib import Check

MODES = [("off", {"HX_LOG": "off"}), ("debug", {"HX_LOG": "debug"}), ("trace", {"HX_LOG": "trace"}), ("env", {"HX_LOG": "off", "GOOM_DEBUG": "1"})]


def run(replay=None):
    ck = Check("C19", "proof")
    ck.assumptions = [
        "fmt renders every valid value without panicking (Section hypothesis fmt_total; library behaviour, explored per run on nil pointers, nil interfaces, typed nils with panicking String/Error methods, self-referential and unexported-field structures)",
        "targets are not functions the logger itself uses (time.Now is special-cased by goom and excluded here)",
        "the transcript of a scenario = arguments seen by each replacement + results / panic seen by the caller, rendered without addresses; log text is never compared",
        "PARTIAL: fmt's own behaviour and reflect.MakeFunc/Call marshalling are library code, exercised not proved",
    ]
    try:
        st = vlib.run_go2v()
        sh = [m for m in st if m.get("module") == "DebugShape"]
        if sh:
            ck.notes["debug_shape_extractor"] = sh[0]
    except vlib.Infra as ex:
        ck.obligation_broken("go2v", str(ex))
    ok, failed, log = ck.prove(["Props/C19.vo"], label="Props/C19")
    if not ok:
        m_ok, _, mlog = vlib.coq_make(["Model/Debug.vo"])
        if not m_ok:
            raise vlib.Infra("Model/Debug.v does not compile:\n" + mlog[-1500:])
    t_ok, t_failed, tlog = vlib.coq_make(["Tie/DebugTie.vo"])
    ck.coverage["obligations"] += 4
    tie_broken = None
    if t_ok:
        ck.coverage["discharged"] += 4
    else:
        tie_broken = tlog[-1500:]
    hx, blog = vlib.build_hx()
    if hx is None:
        ck.obligation_broken("harness build", blog)
        return ck.finish()
    quarter = {"quick": 150, "thorough": 2000}[ck.tier]
    streams = [("c19", ["c19"], None), ("c04", ["stub", "-extra", "c04"], quarter), ("c05", ["stub", "-extra", "c05"], quarter // 2),
               ("c12", ["stub", "-extra", "c12"], quarter // 2), ("c09", ["c09", "-extra", "nocross"], None)]
    total, nontrivial, mixes = 0, set(), {}
    samples = []
    for name, args, n in streams:
        outs = {}
        for mode, env in MODES:
            path = os.path.join(ck.wd, "%s_%s.jsonl" % (name, mode))
            a = args + ["-seed", str(ck.seed), "-tier", ck.tier, "-out", path]
            if n:
                a += ["-n", str(n)]
            rc, out = vlib.run_hx(hx, a, timeout=3000, env=env)
            if rc != 0:
                # a crash under one logging configuration only is itself a difference
                if mode != "off" and "off" in outs:
                    ck.impl_violation("crash-under-logging:" + name, "stream %s crashes (exit %d) with logging=%s but not with logging off" % (name, rc, mode),
                                      {"stream": name, "mode": mode, "tail": out[-800:]})
                else:
                    ck.obligation_broken("harness run %s under %s (exit %d)" % (name, mode, rc), out[-1500:])
                continue
            # panic / error message texts may embed addresses (%v of pointers): compared by class only, as everywhere
            outs[mode] = [json.dumps({k: v for k, v in json.loads(l).items() if k != "msg"}, sort_keys=True) for l in open(path).read().split("\n") if l]
            if mode != "off":
                ck.notes.setdefault("log_lines_seen", {})["%s/%s" % (name, mode)] = out.count("called, args")
        if "off" not in outs:
            continue
        base = outs["off"]
        total += len(base) * len(outs)
        mixes[name] = len(base)
        for l in base:
            if '"seen":[' in l or '"class":"got"' in l or '"obs"' in l or "results" in l:
                nontrivial.add(name + l)
        if name == "c19" and not samples:
            samples = [json.loads(x) for x in base[:2]]
        for mode, lines in outs.items():
            if mode == "off":
                continue
            if len(lines) != len(base):
                ck.impl_violation("transcript-length:" + name, "stream %s: %d records with logging off, %d with %s" % (name, len(base), len(lines), mode),
                                  {"stream": name, "mode": mode})
                continue
            for i, (x, y) in enumerate(zip(base, lines)):
                if x != y:
                    rx, ry = json.loads(x), json.loads(y)
                    scn = str(rx.get("scn", rx.get("kind", "")))
                    cls = scn.split("/")[-1] if "/" in scn else scn
                    ck.impl_violation("transcript-differs:%s:%s" % (name, cls),
                                      "stream %s record %d (%s): logging off and logging=%s give different transcripts" % (name, i, scn, mode),
                                      {"stream": name, "mode": mode, "record": i, "off": rx, "on": ry, "args": args, "n": n})
                    break
        if name == "c19":
            for l in base:
                r = json.loads(l)
                if r.get("kind") == "sprint" and r.get("panic"):
                    ck.impl_violation("sprint-panics:" + r["type"], "arg.SprintV panics on a %s value: %s" % (r["type"], r["panic"]), r)
            # debug must actually have been on in the non-off runs (otherwise the comparison is vacuous)
            seen = ck.notes.get("log_lines_seen", {})
            for mode in ("debug", "trace", "env"):
                if seen.get("c19/" + mode, 0) == 0:
                    ck.obligation_broken("logging configuration %s produced no 'called' log line: the comparison would be vacuous" % mode, "")
    ck.coverage["evaluations"] = total
    ck.coverage["distinct_nontrivial"] = len(nontrivial)
    ck.coverage["traces_validated_against_impl"] = total
    ck.coverage["rule"] = ("five scenario streams (C19's own: callbacks on 9 signature classes incl. variadics, >9 integer args, nil/cyclic/unexported-field values, panicking callbacks, "
                           "conditional + sequenced + variadic stubs, method and interface mocks; and the C04, C05, C12, C09 streams at reduced volume) each run in 4 processes "
                           "{off, OpenDebug, OpenTrace, GOOM_DEBUG=1}; transcripts compared record by record; non-trivial = record in which a replacement or stub was reached")
    ck.notes["records_per_stream"] = mixes
    ck.coverage["samples"] = samples or [{"note": "no c19 records"}]
    if tie_broken and not ck.violations:
        ck.obligation_broken("Tie/DebugTie (the skeleton of interceptDebugInfo regenerated from debug.go is no longer the one the model transcribes)", tie_broken)
    return ck.finish()
