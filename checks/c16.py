"""C16 -- the x86-64 decoder is total and exact on compiler-emitted code (partial)."""
import json
import os
import re

import vlib
from vlib import Check

KINDS = {"ok": 0, "prefix": 1, "trunc": 2, "unrec": 3, "internal": 4, "panic": 5}


def coq_cases(samples):
    L = ["From Coq Require Import List ZArith Bool FMapPositive. Import ListNotations.",
         "From Goom Require Import Base.MachineInt Gen.X86Table Model.X86Len Model.X86Abs. Open Scope Z_scope.",
         "Definition T : PositiveMap.t Z := Eval vm_compute in build_tbl x86_decoder 1%positive (PositiveMap.empty Z).",
         "Definition tbl : Z -> option Z := tbl_of T.",
         "Definition code (r : result) : Z * Z * Z * Z * Z * Z := match r with ROk l oc o pr po => (0, l, oc, o, pr, po) | RPrefix => (1, 1, 0, 0, 0, 0) "
         "| RTruncated => (2, 0, 0, 0, 0, 0) | RUnrecognized l => (3, l, 0, 0, 0, 0) | RInternal l => (4, l, 0, 0, 0, 0) | RPanic => (5, 0, 0, 0, 0, 0) | RFuel => (6, 0, 0, 0, 0, 0) end.",
         "Definition cases : list (Z * list Z * (Z * Z * Z * Z * Z * Z)) := ["]
    rows = []
    for i, s in enumerate(samples):
        k = KINDS[s["kind"]]
        if k == 0:
            t = (0, s["len"], s["opcode"], s["op"], s["pcrel"], s["off"])
        elif k == 1:
            t = (1, 1, 0, 0, 0, 0)
        elif k in (3, 4):
            t = (k, s["len"], 0, 0, 0, 0)
        else:
            t = (k, 0, 0, 0, 0, 0)
        rows.append("  (%d, %s, (%s))" % (i, vlib.zlist(vlib.hexbytes(s["bytes"])), ", ".join(vlib.zz(x) for x in t)))
    L.append(";\n".join(rows))
    L.append("].")
    L.append("Definition eq6 (a b : Z * Z * Z * Z * Z * Z) : bool := let '(a1,a2,a3,a4,a5,a6) := a in let '(b1,b2,b3,b4,b5,b6) := b in "
             "(a1 =? b1) && (a2 =? b2) && (a3 =? b3) && ((b4 =? -1) || (a4 =? b4)) && (a5 =? b5) && (a6 =? b6).")
    L.append("Definition bad (c : Z * list Z * (Z * Z * Z * Z * Z * Z)) : bool := let '(i, bs, o) := c in negb (eq6 (code (decode tbl 64 bs)) o).")
    L.append("Definition M := Eval vm_compute in map (fun c => fst (fst c)) (filter bad cases).")
    L.append("Eval vm_compute in M.")
    return "\n".join(L) + "\n"


def run(replay=None):
    ck = Check("C16", "proof")
    ck.assumptions = [
        "PARTIAL: the theorems are about the length / PC-relative skeleton of decode1 in 64-bit mode (prefix scan, REX/VEX, the interpreter of the decoding program, ModR/M-SIB-displacement, immediates, "
        "inst.Args index, PCRel/PCRelOff bookkeeping) over the decoding program REGENERATED from tables.go; the construction of the argument values (register tables, prefix marking, the XCHG->NOP and "
        "MOVNTSS-style rewrites after the loop) is not modelled and is covered by the differential streams only",
        "the skeleton is hand-written (Model/X86Len.v) and tied to decode.go by running both on the same byte strings (real instructions, truncations, mutations, short and random strings) on every run",
        "agreement with an independent decoder on compiler-emitted code cannot be a theorem (the reference is a program, not a specification): it is a complete sweep of the harness binary's text "
        "(~720 000 instructions) against the Go toolchain's own x86asm copy (GOROOT/src/cmd/vendor)",
        "16- and 32-bit modes of the decoder are not used by goom on amd64 and are not covered",
    ]
    ok, failed, log = ck.prove(["Props/C16.vo"], label="Props/C16")
    if not ok:
        m_ok, _, mlog = vlib.coq_make(["Model/X86Abs.vo"])
        if not m_ok:
            raise vlib.Infra("Model/X86Len.v / X86Abs.v do not compile:\n" + mlog[-1500:])
    else:
        # the analysis summary, printed by the compiled tie
        rc0, out0 = vlib.coq_eval("c16_summary", "From Goom Require Import Tie.X86TableTie.\nFrom Coq Require Import ZArith.\nEval vm_compute in (fst (fst x86_summary), snd (fst x86_summary)).\n", ck.wd, timeout=300)
        m0 = re.search(r"=\s*\((\d+),\s*(\d+)\)", out0.replace("\n", " "))
        if m0:
            ck.notes["abstract_states"], ck.notes["max_loop_iterations"] = int(m0.group(1)), int(m0.group(2)) + 1
    hx, blog = vlib.build_hx()
    if hx is None:
        ck.obligation_broken("harness build", blog)
        return ck.finish()
    obs = os.path.join(ck.wd, "obs.jsonl")
    rc, out = vlib.run_hx(hx, ["c16", "-seed", str(ck.seed), "-tier", ck.tier, "-out", obs], timeout=7200)
    if rc != 0:
        ck.impl_violation("crash", "the decoder sweep crashes the process (exit %d): %s" % (rc, out[-300:].replace("\n", " ")), {"tail": out[-800:]})
        return ck.finish()
    rs = vlib.read_jsonl(obs)
    seen = set()
    for r in rs:
        if r["kind"] == "error":
            ck.obligation_broken("harness: the symbol table of the harness binary is not readable", r["what"])
        if r["kind"] not in ("text", "mutated", "random", "short"):
            continue
        seen.add(r["kind"])
        n = r["instructions"] if r["kind"] == "text" else r["inputs"]
        ck.coverage["evaluations"] += n
        ck.notes[r["kind"]] = {k: v for k, v in r.items() if k not in ("kind", "first", "bad")}
        for what, cnt in sorted((r.get("bad") or {}).items()):
            f = [x for x in (r.get("first") or []) if x.get("kind") == what] or (r.get("first") or [{}])
            key = what.split(":")[-1] if what.startswith("ill-formed:") else what
            if what.startswith("ill-formed:"):
                msg = "Decode is not total / well-formed (%s) on %d of %d %s inputs; first: bytes %s -> %s" % (key, cnt, n, r["kind"], f[0].get("bytes"), f[0].get("bundled"))
            else:
                msg = "the bundled decoder disagrees with the reference decoder (%s) on %d of %d compiler-emitted instructions; first: bytes %s -> %s, reference %s" % (
                    what.replace("real-instruction-", ""), cnt, n, f[0].get("bytes"), f[0].get("bundled"), f[0].get("ref"))
            ck.impl_violation("%s:%s" % (r["kind"], key), msg, {"stream": r["kind"], "first": f[:5]})
    if seen != {"text", "mutated", "random", "short"}:
        ck.obligation_broken("harness: streams missing from the decoder sweep", str(sorted(seen)))
    elif ck.notes["text"]["instructions"] < 300000:
        ck.obligation_broken("harness: the text sweep saw fewer than 300 000 instructions (the oracle would be thin)", json.dumps(ck.notes["text"]))
    samp = [r for r in rs if r["kind"] == "samples"]
    samples = samp[0]["samples"] if samp else []
    if samples:
        evaluated, bad_all = 0, []
        shard = 3000
        for k in range(0, len(samples), shard):
            part = samples[k:k + shard]
            rc2, out2 = vlib.coq_eval("c16_cases_%d" % (k // shard), coq_cases(part), ck.wd, timeout=900)
            flat = out2.replace("\n", " ")
            m = re.search(r"=\s*(\[.*?\])\s*:\s*list Z", flat)
            if rc2 != 0 or not m:
                ck.obligation_broken("correspondence C16 (coqc evaluation failed)", out2[-1500:])
                break
            evaluated += len(part)
            bad_all += [part[int(x)] for x in re.findall(r"\d+", m.group(1))]
        ck.coverage["traces_validated_against_impl"] = evaluated
        if bad_all:
            pan = [b for b in bad_all if b["kind"] == "panic"]
            if pan:
                ck.impl_violation("samples:panic", "Decode panics on %d sampled inputs, e.g. bytes %s" % (len(pan), pan[0]["bytes"]), {"first": pan[:5]})
            rest = [b for b in bad_all if b["kind"] != "panic"]
            if rest:
                ck.obligation_broken("correspondence C16: model and bundled decoder differ on %d of %d sampled byte strings, e.g. %s" % (len(rest), evaluated, json.dumps(rest[0])), json.dumps(rest[:8]))
        kinds = {}
        for s in samples:
            kinds[s["kind"]] = kinds.get(s["kind"], 0) + 1
        ck.notes["sample_kinds"] = kinds
        ck.coverage["distinct_nontrivial"] = len({s["bytes"] for s in samples if s["kind"] == "ok" and s["pcrel"] > 0})
    ck.coverage["rule"] = ("streams: every instruction of the harness binary's text (boundaries, opcode, PC-relative field position / width / value vs the toolchain's x86asm); 200 000 (thorough 4M) operand-mutated real "
                           "instructions cut to 1..16 bytes; 200 000 (4M) random strings, a third prefix-heavy; every 1- and 2-byte string, 3-byte strings behind 18 prefix/escape bytes (thorough: all 2^24), every "
                           "truncation of ~64 000 pooled real instructions -- per input: no panic, Len in 1..15 and <= input, PC-relative field behind >= 1 byte and inside the instruction, width 1/2/4; "
                           "1 500 (12 000) inputs (real+noise, mutated, random, truncated, short) evaluated in Coq against the model on Len, Opcode, Op, PCRel, PCRelOff and the error kind; "
                           "non-trivial = sampled instruction with a PC-relative field")
    ck.coverage["samples"] = [{k: s.get(k) for k in ("bytes", "kind", "len", "pcrel", "off")} for s in samples[:3]]
    return ck.finish()
