"""C14 -- a patch touches only the target's entry bytes and leaves pages read+execute."""
import json
import os
import re

import vlib
from vlib import Check

PROT = {"PROT_READ": 1, "PROT_WRITE": 2, "PROT_EXEC": 4, "PROT_NONE": 0}


def model_mprotects(ps, base, off, n):
    """The model's mprotect sequence for one WriteTo(base+off, n bytes): pages RWX, then the same pages RX."""
    addr = base + off
    p = addr - addr % ps
    pages = []
    while p < addr + n:
        pages.append(p)
        p += ps
    return [(q, 7) for q in pages] + [(q, 5) for q in pages]


def run(replay=None):
    ck = Check("C14", "proof")
    ck.assumptions = [
        "page size is a power of two (2^1..2^62); address + length does not wrap at 2^64",
        "mprotect and copy are modelled as atomic steps; instruction fetch by other threads during the copy is hardware behaviour outside the model",
        "go2v's extraction of the mProtectCrossPage loop (init/bound/stride) and of the WriteTo step order",
        "the extent scan (Model/FuncSize.v) ends a function at INT3 padding: a function that fills its alignment slot exactly is scanned through into its neighbour (over-estimate). That is harmless only because such a function is at least one alignment unit (>= 16 bytes) long; measured per run on every function of the harness binary (extent_sweep: no function whose own extent is below the jump length is accepted). Hand-made code with a shorter unpadded function directly in front of another one is outside the quantifier (functions of the binary)",
    ]
    status = vlib.run_go2v()
    tr = [m for m in status if m["module"] == "Page"][0]
    if tr["failed"]:
        ck.notes["go2v_failed"] = tr["failed"]
    ok, failed, log = ck.prove(["Props/C14.vo"], label="Props/C14 (incl. Tie/PageTie: PageStart, page loop and WriteTo step order regenerated from the source)")
    if not ok:
        ck.notes["proof_failed_at"] = failed
    hx, blog = vlib.build_hx()
    if hx is None:
        ck.obligation_broken("harness build", blog)
        return ck.finish()
    obs = os.path.join(ck.wd, "obs.jsonl")
    rc, out = vlib.run_hx(hx, ["c14", "-seed", str(ck.seed), "-tier", ck.tier, "-out", obs], timeout=3000)
    rows = vlib.read_jsonl(obs) if os.path.exists(obs) else []
    if rc != 0:
        # a crash in the middle of a write is an observation: the last journaled write is the failing input
        last = [r for r in rows if r.get("kind") == "write"]
        why = "SIGSEGV" if ("SIGSEGV" in out or "unexpected fault" in out) else "crash"
        ck.impl_violation("write-crashes:" + why, "the harness process died (%s) while writing into the sacrificial region%s" % (
            why, (" after write #%d" % last[-1]["i"]) if last else ""), {"log_tail": out[-1500:], "last_reported_write": last[-1] if last else None})
        # find the failing write by replaying with the strace-free single stepping below
    # ---- syscall trace of one write through the FALLBACK writer (memory.writeTo) and one through WriteTo on two sacrificial
    # pages: which protections do the pages pass through?  (strace; skipped with a note when tracing is not permitted)
    import re as _re
    import shutil as _sh
    import subprocess as _sp
    if _sh.which("strace"):
        tpath, topath = os.path.join(ck.wd, "fallback.strace"), os.path.join(ck.wd, "obs_fb.jsonl")
        e = vlib.go_env()
        e["GOOM_VERIF"] = "1"
        try:
            tr = _sp.run(["strace", "-f", "-e", "trace=mprotect", "-o", tpath, hx, "c14", "-extra", "fallback-trace", "-seed", str(ck.seed), "-out", topath],
                         capture_output=True, text=True, timeout=300, env=e, cwd=vlib.WORK)
            frec = [r for r in (vlib.read_jsonl(topath) if os.path.exists(topath) else []) if r.get("kind") == "fallback-trace"]
        except Exception as ex:   # noqa
            tr, frec = None, []
            ck.notes["fallback_trace"] = "skipped: %s" % ex
        if tr is not None and tr.returncode == 0 and frec and os.path.exists(tpath):
            fr = frec[0]
            pages = [fr["page0"], fr["page1"]]
            PROT = {"PROT_READ": 1, "PROT_WRITE": 2, "PROT_EXEC": 4, "PROT_NONE": 0}
            seq = []
            for line in open(tpath):
                m = _re.search(r"mprotect\((0x[0-9a-f]+), (\d+), ([A-Z_|]+)\)\s*=\s*0", line)
                if m and m.group(1) in pages:
                    seq.append([pages.index(m.group(1)), sum(PROT.get(x, 0) for x in m.group(3).split("|"))])
            ck.notes["fallback_trace"] = {"mprotect_sequence_on_the_two_pages": seq, "landed": fr["landed"], "perms_after": fr["perms_after"]}
            ck.coverage["evaluations_trace"] = len(seq)
            fb, main = seq[:4], seq[4:8]
            if len(seq) != 8:
                ck.obligation_broken("syscall trace of the two writers: expected 8 mprotect calls on the two pages, saw %d" % len(seq), json.dumps(seq))
            else:
                # the model's prediction for both writers from the REGENERATED shapes
                src = ("From Coq Require Import List ZArith. Import ListNotations.\nFrom Goom Require Import Model.WriteTo. From Goom Require Gen.Page. Open Scope Z_scope.\n"
                       "Definition prots (sh : list wkind) : list Z := flat_map (fun s => match s with Mprot p prot => [(p - 8192) / 4096; prot] | Copy _ _ => [] end) (steps_of 4096 (2 * 4096 + 4096 - 5) [1;2;3;4;5;6;7;8;9;10;11;12;13] sh).\n"
                       "Definition M := Eval vm_compute in (prots Gen.Page.writeTo_fallback_shape, prots Gen.Page.WriteTo_shape).\nPrint M.\n")
                rc3, out3 = vlib.coq_eval("c14_trace", src, ck.wd, timeout=300)
                nums = [int(x) for x in _re.findall(r"-?\d+", out3.split(":")[0])] if rc3 == 0 else []
                want = [[nums[i], nums[i + 1]] for i in range(0, len(nums) - 1, 2)]
                if rc3 != 0 or len(want) != 8:
                    ck.obligation_broken("correspondence C14 syscall trace (coqc evaluation failed)", out3[-800:])
                elif want != fb + main:
                    ck.obligation_broken("correspondence C14: the mprotect calls of the two writers differ from the model's steps", json.dumps({"observed": seq, "model": want}))
                if not fr["landed"] or fr["err"]:
                    ck.impl_violation("fallback-write-lands-wrong", "the fallback writer did not write the 13 bytes across the page boundary", fr)
                if any(not p.startswith("r-x") for p in fr["perms_after"]):
                    ck.impl_violation("page-left-not-rx", "after the fallback writer page permissions are %s" % fr["perms_after"], fr)
                if any(not (prot & 4) for _, prot in main):
                    ck.impl_violation("writer-drops-exec", "WriteTo passes the pages through protections %s: a page is not executable while it is written" % [p for _, p in main], {"sequence": main})
                if any(not (prot & 4) for _, prot in fb):
                    ck.impl_violation("fallback-writer-drops-exec", "memory.writeTo (the writer used when mprotect(RWX) is refused) passes the pages through protections %s: they are not executable while they are written" % [p for _, p in fb],
                                      {"sequence": fb, "pages": pages})
        elif tr is not None:
            ck.notes["fallback_trace"] = "skipped: strace exit %s %s" % (tr.returncode, (tr.stderr or "")[-200:])
    else:
        ck.notes["fallback_trace"] = "skipped: strace not installed"
    region = [r for r in rows if r.get("kind") == "region"]
    summ = [r for r in rows if r.get("kind") == "writes_summary"]
    for r in rows:
        k = r.get("kind")
        if k == "write":
            if r["panic"]:
                ck.impl_violation("write-panics", "WriteTo(off=%d, len=%d) panics: %s" % (r["off"], r["len"], r["panic"][:120]), r)
            if r["first_diff"] >= 0:
                inside = r["off"] <= r["first_diff"] < r["off"] + r["len"]
                ck.impl_violation("write-lands-wrong" if inside else "write-outside-range",
                                  "WriteTo(off=%d, len=%d): byte %d of the region differs from the expected image" % (r["off"], r["len"], r["first_diff"]), r)
            if any(not p.startswith("r-x") for p in r["perms"]):
                ck.impl_violation("page-left-not-rx", "after WriteTo(off=%d, len=%d) page permissions are %s" % (r["off"], r["len"], r["perms"]), r)
        elif k == "tiny":
            if r.get("entry", "plain") != "plain":
                # the extent scan cannot decode the entry: whatever it reports below 13 bytes must lead to a refusal
                if not r["refused"] and r["funcsize"] < 13:
                    ck.impl_violation("short-function-accepted", "synthetic function whose entry (%s) the decoder does not know, scanned size %d: the patch was accepted and changed bytes [%s,%s]" % (
                        r["entry"], r["funcsize"], r.get("changed_lo"), r.get("changed_hi")), r)
            elif r["refused"] != (r["size"] <= 13):
                ck.impl_violation("short-function-" + ("accepted" if not r["refused"] else "refused-wrongly"),
                                  "synthetic function of %d bytes (entry %d bytes before a page end): refused=%s, scanned size %d" % (
                                      r["size"], r["near_page_end"], r["refused"], r["funcsize"]), r)
            if not r["refused"]:
                if r["changed_lo"] < 0 or r["changed_hi"] > 12 or r["changed_lo"] != 0:
                    ck.impl_violation("patch-footprint", "patching a %d-byte function changed bytes [%d,%d] relative to its entry" % (r["size"], r["changed_lo"], r["changed_hi"]), r)
                if not r["jump_ok"]:
                    ck.impl_violation("entry-jump-torn", "entry jump of a %d-byte function %d bytes before a page end is not intact" % (r["size"], r["near_page_end"]), r)
                if not r["restored"]:
                    ck.impl_violation("unpatch-not-exact", "unpatching a %d-byte function did not restore the region" % r["size"], r)
            if any(not p.startswith("r-x") for p in r["perms"]):
                ck.impl_violation("page-left-not-rx", "after patching a synthetic function page permissions are %s" % r["perms"], r)
        elif k == "placeholder":
            if r["refused"] and r["changed"]:
                ck.impl_violation("refused-apply-left-bytes-changed", "origin placeholder of %d bytes: the apply was refused but bytes [%d,%d] (relative to the placeholder) changed" % (r["size"], r["changed_lo"], r["changed_hi"]), r)
            if not r["refused"] and r["changed"] and (r["changed_lo"] < 0 or r["changed_hi"] >= r["size"]):
                ck.impl_violation("placeholder-write-overruns-body", "origin placeholder of %d bytes: bytes [%d,%d] relative to the placeholder changed (beyond its body)" % (r["size"], r["changed_lo"], r["changed_hi"]), r)
            if not r["refused"] and r["size"] < 20:
                ck.impl_violation("placeholder-too-small-accepted", "origin placeholder of %d bytes accepted although 20 bytes are needed" % r["size"], r)
            if any(not p.startswith("r-x") for p in r["perms"]):
                ck.impl_violation("page-left-not-rx", "after building a trampoline page permissions are %s" % r["perms"], r)
        elif k == "short_accepted":
            ck.impl_violation("real-short-function-accepted", "function %s has an extent of %d bytes but a scanned size of %d" % (r["name"], r["extent"], r["funcsize"]), r)
        elif k == "extent_sweep":
            ck.notes["extent_sweep"] = r
    # the extent scan against the model (Model/FuncSize.v), on the decoder's own report of a sample of functions
    scans = [r for r in rows if r.get("kind") == "scans"]
    if scans and scans[0]["scans"]:
        sc = scans[0]["scans"]
        L = ["From Coq Require Import List ZArith Bool. Import ListNotations.",
             "From Goom Require Import Model.FuncSize. Open Scope Z_scope.",
             "Definition dec (z : Z) : item := if z =? 0 then IStop else if 100 <=? z then IInt3 (z =? 101) else IOrd (z / 2) (Z.odd z).",
             "Definition cases : list (Z * list Z * Z) := ["]
        L.append(";\n".join("  (%d, %s, %d)" % (i, vlib.zlist(x["items"]), x["size"]) for i, x in enumerate(sc)))
        L.append("].")
        L.append("Definition M := Eval vm_compute in map (fun c => fst (fst c)) (filter (fun c => negb (func_size (map dec (snd (fst c))) =? snd c)) cases).")
        L.append("Eval vm_compute in M.")
        rc3, out3 = vlib.coq_eval("c14_scans", "\n".join(L) + "\n", ck.wd, timeout=600)
        m3 = re.search(r"=\s*(\[.*?\])\s*:\s*list Z", out3.replace("\n", " "))
        if rc3 != 0 or not m3:
            ck.obligation_broken("correspondence C14 extent scan (coqc evaluation failed)", out3[-1200:])
        else:
            bad = [int(x) for x in re.findall(r"\d+", m3.group(1))]
            ck.notes["extent_scans_compared"] = len(sc)
            if bad:
                ck.obligation_broken("correspondence C14: GetFuncSize and the model differ on %d of %d functions, e.g. %s (scanned %d)" % (
                    len(bad), len(sc), sc[bad[0]]["name"], sc[bad[0]]["size"]), json.dumps(sc[bad[0]])[:1500])
    elif not ck.violations:
        ck.obligation_broken("harness: no extent scans were recorded", "")
    nwrites = summ[0]["writes"] if summ else 0
    tiny = [r for r in rows if r.get("kind") == "tiny"]
    ck.coverage["evaluations"] = nwrites + len(tiny) + (ck.notes.get("extent_sweep", {}).get("functions", 0))
    ck.coverage["distinct_nontrivial"] = nwrites + len(tiny)
    ck.coverage["rule"] = ("random (offset,length) raw writes into a never-executed 4-page text region (every offset within 16 bytes of a page end, 13-byte writes, "
                           "writes crossing 1-2 page boundaries, empty/aligned writes); whole region compared with a shadow image and /proc/self/maps read after every write; "
                           "synthetic functions of exact sizes 2..40 (plain, ENDBR64 and EVEX entries) at 0/1/5/12/13 bytes before a page end patched through patch.Ptr; extent scan of every function of the binary")
    ck.coverage["samples"] = [{k: r[k] for k in ("off", "len", "first_diff", "perms")} for r in rows if r.get("kind") == "write"][:3] + \
        [{k: r[k] for k in r if k != "perms"} for r in tiny[60:62]]

    # the sequence of mprotect system calls, captured with strace, against the model's step list
    if region and not ck.violations:
        sobs = os.path.join(ck.wd, "obs_strace.jsonl")
        slog = os.path.join(ck.wd, "strace.log")
        nst = 200
        rc2, out2 = vlib.sh(["strace", "-f", "-e", "trace=mprotect", "-o", slog, hx, "c14", "-seed", str(ck.seed + 3), "-n", str(nst), "-extra", "writes-only", "-out", sobs],
                            timeout=900, env=vlib.go_env(), cwd=vlib.WORK)
        if rc2 == 0 and os.path.exists(slog):
            srows = vlib.read_jsonl(sobs)
            reg = [r for r in srows if r.get("kind") == "region"][0]
            base, ps, npg = int(reg["base"]), int(reg["pagesize"]), int(reg["npages"])
            calls = []
            for line in open(slog):
                m = re.search(r"mprotect\(0x([0-9a-f]+), (\d+), ([A-Z_|]+)\)\s*=\s*(-?\d+)", line)
                if not m:
                    continue
                a, ln, pr, res = int(m.group(1), 16), int(m.group(2)), m.group(3), int(m.group(4))
                if base <= a < base + ps * npg:
                    calls.append((a, ln, sum(PROT[x] for x in pr.split("|")), res))
            ck.notes["strace_mprotect_calls_in_region"] = len(calls)
            noexec = [c for c in calls if not c[2] & 4]
            if noexec:
                ck.impl_violation("mprotect-drops-exec", "an mprotect call removes PROT_EXEC from a text page: %s" % (noexec[0],), {"call": noexec[0]})
            wrongsize = [c for c in calls if c[1] != ps]
            if wrongsize:
                ck.notes["mprotect_calls_not_single_page"] = len(wrongsize)
            # the journal of writes is in srows (first 40 + every 50th are reported); compare the total call multiset per protection
            writes = [r for r in srows if r.get("kind") == "write"]
            ck.notes["strace_writes_reported"] = len(writes)
            if calls:
                last5 = {}
                for a, ln, pr, res in calls:
                    last5[a] = pr
                bad = [a for a, pr in last5.items() if pr != 5]
                if bad:
                    ck.impl_violation("page-left-not-rx", "the last mprotect on page %#x is not PROT_READ|PROT_EXEC" % bad[0], {"page": bad[0], "prot": last5[bad[0]]})
                # exact sequence check on the prefix of consecutively reported writes
                exp = []
                for w in writes:
                    if w["i"] != len(exp_writes := [x for x in writes if x["i"] <= w["i"]]) - 1:
                        break
                    exp += model_mprotects(ps, base, w["off"], w["len"])
                got = [(a, pr) for a, ln, pr, res in calls][:len(exp)]
                ck.notes["strace_sequence_prefix_compared"] = len(exp)
                if got != exp:
                    idx = next((i for i, (g, e) in enumerate(zip(got, exp)) if g != e), min(len(got), len(exp)))
                    ck.obligation_broken("correspondence C14: mprotect call sequence differs from the model's step list at call %d" % idx,
                                         json.dumps({"expected": exp[max(0, idx - 2):idx + 3], "observed": got[max(0, idx - 2):idx + 3]}))
        else:
            ck.notes["strace"] = "unavailable: " + out2[-300:]
    return ck.finish()
