"""C06 -- method mocks replace exactly the named method for every instance."""
import json
import os
import re

import vlib
from vlib import Check


def coq_cases(scs, nm):
    L = ["From Coq Require Import List ZArith Bool. Import ListNotations.",
         "From Goom Require Import Model.MethodMock. Open Scope nat_scope.",
         "(* methods that share code (same GC shape, value method reached through a pointer) resolve to one address *)",
         "Definition cases : list (nat * list nat * list (nat * nat) * list (nat * bool)) := ["]
    rows = []
    for r in scs:
        cls = {}
        for m, also in zip(r["methods"], r["also"]):
            for a in (also or []):
                cls[a] = m
        share = "[" + "; ".join("(%d, %d)" % (a, m) for a, m in sorted(cls.items())) + "]"
        seen = {}
        for m, kx, res in r["during"]:
            k, x = kx // 1000, kx % 1000
            seen.setdefault(m, []).append(res != k * 100 + x + nm["consts"][m])
        obs = "[" + "; ".join("(%d, %s)" % (m, "true" if all(v) else "false") for m, v in sorted(seen.items())) + "]"
        rows.append("  (%d, [%s], %s, %s)" % (r["sc"], "; ".join(str(m) for m in r["methods"]), share, obs))
    L.append(";\n".join(rows))
    L.append("].")
    L.append("Open Scope Z_scope.")
    L.append("Definition bad (c : nat * list nat * list (nat * nat) * list (nat * bool)) : nat * list nat :=")
    L.append("  let '(i, ms, share, obs) := c in")
    L.append("  let resolve := fun m => Z.of_nat (match find (fun e => Nat.eqb (fst e) m) share with Some e => snd e | None => m end) in")
    L.append("  let p := fold_left (fun acc m => apply_mock resolve acc m m) ms [] in")
    L.append("  (i, map fst (filter (fun o => negb (Bool.eqb (match behaviour resolve p (fst o) with Mocked _ => true | Original _ => false end) (snd o))) obs)).")
    L.append("Definition M := Eval vm_compute in filter (fun r => match snd r with [] => false | _ => true end) (map bad cases).")
    L.append("Eval vm_compute in M.")
    return "\n".join(L) + "\n"


def run(replay=None):
    ck = Check("C06", "proof")
    ck.assumptions = [
        "PARTIAL: how reflect's method table and the linker assign code addresses is not modelled; 'distinct non-generic methods have distinct addresses' and 'same GC shape = same body' are hypotheses validated on the corpus at run time",
        "the entry jump leaves argument registers untouched (C15) and ABIInternal passes the receiver as the first argument (C01)",
        "a value-receiver method mocked through a pointer instance patches only the generated pointer wrapper: README requires matching receiver forms; the generator mocks value methods through value instances",
        "known finding F06a: a callback applied to a method of an instantiated generic type receives the dictionary as its first argument (receiver and arguments shifted)",
    ]
    ok, failed, log = ck.prove(["Props/C06.vo"], label="Props/C06")
    if not ok:
        m_ok, _, mlog = vlib.coq_make(["Model/MethodMock.vo"])
        if not m_ok:
            raise vlib.Infra("Model/MethodMock.v does not compile:\n" + mlog[-1500:])
    hx, blog = vlib.build_hx()
    if hx is None:
        ck.obligation_broken("harness build", blog)
        return ck.finish()
    obs = os.path.join(ck.wd, "obs.jsonl")
    rc, out = vlib.run_hx(hx, ["c06", "-seed", str(ck.seed), "-tier", ck.tier, "-out", obs], timeout=3000)
    rs = vlib.read_jsonl(obs) if os.path.exists(obs) else []
    if rc != 0:
        last = [r for r in rs if r.get("kind") == "about-to-probe"]
        ck.impl_violation("crash", "the process crashes (exit %d) while calling the methods after mocking %s" % (rc, last[-1]["targets"] if last else "?"),
                          {"targets": last[-1]["targets"] if last else None, "tail": out[-600:]})
    if not rs:
        return ck.finish()
    zoo = rs[0]
    scs = [r for r in rs if r["kind"] == "scn"]
    names, consts = zoo["names"], zoo["consts"]
    ck.coverage["evaluations"] = sum(len(r.get("during", [])) + len(r["after"]) for r in scs)
    ck.coverage["distinct_nontrivial"] = len({json.dumps(r["targets"]) for r in scs if not r["apply_panic"]})
    ck.coverage["rule"] = ("scenarios mocking 1-3 of 19 targets (exported/unexported, pointer/value receivers, names that are prefixes of one another, a second type with the same method names, an "
                           "unexported struct type addressed by package+name, generic instantiations of equal and different GC shape) through Struct/ExportMethod/ExportStruct/ExportFunc; every one of "
                           "22 methods is then called on two instances before Reset and after; every target alone first; non-trivial = all applies succeeded; distinct by target set")
    ck.coverage["samples"] = [{"targets": r["targets"], "during": r.get("during", [])[:6]} for r in scs[:2]]
    for r in scs:
        case = {"targets": r["targets"], "methods": r["methods"]}
        if r["apply_panic"] and any(t == -1 for t in (r.get("want_tags") or [])) and "[may be refused]" in r["apply_panic"].split(":")[0]:
            refused_ok = ck.notes.setdefault("refused_as_allowed", [])
            if r["apply_panic"].split(":")[0] not in refused_ok:
                refused_ok.append(r["apply_panic"].split(":")[0])
            continue
        if r["apply_panic"]:
            ck.impl_violation("apply-panics:" + r["apply_panic"].split(":")[0], "mocking panics: %s" % r["apply_panic"], case)
            continue
        hit = set(r["methods"])
        for a in r["also"]:
            hit |= set(a or [])
        generic_apply = [m for m, t in zip(r["methods"], r["targets"]) if "G[" in t and t.endswith(".Apply")]
        want_tag = {m: t for m, t in zip(r["methods"], r.get("want_tags") or []) if t and t > 0}
        for m, kx, res in r["during"]:
            k, x = kx // 1000, kx % 1000
            orig = k * 100 + x + consts[m]
            if m in hit:
                if res == orig:
                    ck.impl_violation("not-mocked:" + names[m], "%s is mocked (%s) but instance %d still runs the original" % (names[m], r["targets"], k), dict(case, method=names[m], k=k, x=x, got=res))
                elif res >= 0 and res % 100000 != k * 100 + x:
                    if m in generic_apply:
                        ck.impl_violation("generic-args-shifted", "a callback on %s does not receive the receiver as its first argument (instance %d, argument %d arrive as %d)" % (names[m], k, x, res % 100000), dict(case, method=names[m], k=k, x=x, got=res))
                    else:
                        ck.impl_violation("receiver-or-argument-altered:" + names[m], "the replacement of %s sees receiver/argument %d instead of %d" % (names[m], res % 100000, k * 100 + x), dict(case, method=names[m], k=k, x=x, got=res))
                elif m in want_tag and res >= 0 and res // 100000 != want_tag[m]:
                    ck.impl_violation("stale-replacement:" + names[m], "%s was mocked again with another callback (%s): calls still reach the earlier replacement (tag %d, want %d)" % (
                        names[m], r["targets"], res // 100000, want_tag[m]), dict(case, method=names[m], k=k, x=x, got=res))
            elif res != orig:
                ck.impl_violation("other-method-affected:" + names[m], "mocking %s changes %s (instance %d: %d instead of %d)" % (r["targets"], names[m], k, res, orig), dict(case, method=names[m], k=k, x=x, got=res))
        if r.get("reset_panic"):
            ck.impl_violation("reset-panics", "Reset panics: %s" % r["reset_panic"], case)
        for m, kx, res in r["after"]:
            k, x = kx // 1000, kx % 1000
            if res != k * 100 + x + consts[m]:
                ck.impl_violation("not-restored:" + names[m], "after Reset %s still does not run the original (%s)" % (names[m], r["targets"]), dict(case, method=names[m], got=res))
    # bytecode.GetInnerFunc on synthetic generic-instantiation wrappers (CALL to the shape body, NOPs the assembler may put
    # in front of it): the redirection of a generic mock must land on the first CALL's destination
    iobs = os.path.join(ck.wd, "obs_inner.jsonl")
    irc, iout = vlib.run_hx(hx, ["c06", "-extra", "inner", "-seed", str(ck.seed), "-tier", ck.tier, "-out", iobs], timeout=600)
    irows = [r for r in (vlib.read_jsonl(iobs) if os.path.exists(iobs) else []) if r.get("kind") == "inner"]
    if irc != 0 or not irows:
        ck.obligation_broken("harness run c06 inner (exit %d)" % irc, iout[-1200:])
    else:
        ir = irows[0]
        ck.coverage["evaluations"] += ir["cases"]
        ck.notes["inner_func_wrappers"] = {"cases": ir["cases"], "bad": ir["bad"], "mix": ir["mix"]}
        if ir["bad"]:
            ck.impl_violation("generic-wrapper-body-not-found", "GetInnerFunc does not return the destination of the wrapper's first CALL on %d of %d synthetic wrappers; first: %s" % (
                ir["bad"], ir["cases"], json.dumps(ir["first"][:1])), ir)
    good = [r for r in scs if not r["apply_panic"]]
    rc2, out2 = vlib.coq_eval("c06_cases", coq_cases(good, zoo), ck.wd, timeout=600)
    flat = out2.replace("\n", " ")
    m = re.search(r"=\s*(\[.*?\])\s*:\s*list \(nat \* list nat\)", flat)
    if rc2 != 0 or not m:
        ck.obligation_broken("correspondence C06 (coqc evaluation failed)", out2[-1500:])
    else:
        ck.coverage["traces_validated_against_impl"] = len(good)
        bad = re.findall(r"\((\d+),", m.group(1))
        if bad and not ck.violations:
            ck.obligation_broken("correspondence C06: model and implementation disagree on which methods are affected in scenarios %s" % bad[:5], m.group(1)[:500])
    return ck.finish()
