"""C02 -- Reset/Cancel restores original behaviour and the exact original code bytes."""
import json
import os
import re

import vlib
from vlib import Check

NT, NPH = 9, 2
OPN = {0: "Lookup", 1: "Apply", 2: "Stub", 3: "Origin", 4: "Cancel", 5: "Reset", 6: "RejectedApply"}


def coq_cases(hs, inits):
    L = ["From Coq Require Import List ZArith Bool Arith. Import ListNotations.",
         "From Goom Require Import Model.Patch. Open Scope Z_scope.",
         "Definition oc (c : cell) : list Z := match c with Pristine => [0; 0] | Jump cb => [if cb <? 1000 then 1 + cb else -2; 1 + cb] end.",
         "Definition obs (s : pstate) : list Z := flat_map (fun t => oc (entry s t)) (seq 0 %d) ++ map (fun q => obs_ph (phs s q)) (seq 0 %d)." % (NT, NPH),
         "Fixpoint tr (s : pstate) (ops : list pop) : list (list Z) := match ops with [] => [] | o :: r => let s' := pstep %d s o in obs s' :: tr s' r end." % NT,
         "Definition init (p0 p1 : Z) : pstate := {| entry := entry pinit; phs := fun q => match q with O => if p0 =? 0 then PhPristine else PhTramp (Z.to_nat (p0 - 1)) | _ => if p1 =? 0 then PhPristine else PhTramp (Z.to_nat (p1 - 1)) end; table := table pinit; precs := []; mkrs := []; pcache := pcache pinit; phandles := [] |}.",
         "Fixpoint zleqb (a b : list Z) : bool := match a, b with [], [] => true | x :: a', y :: b' => (x =? y) && zleqb a' b' | _, _ => false end.",
         "Fixpoint first_diff (i : Z) (a b : list (list Z)) : Z := match a, b with [], [] => -1 | x :: a', y :: b' => if zleqb x y then first_diff (i + 1) a' b' else i | _, _ => i end.",
         "Definition cases : list (Z * Z * Z * list pop * list (list Z)) := ["]
    rows = []
    for i, (h, ini) in enumerate(zip(hs, inits)):
        ops = []
        for op in h["ops"]:
            k, a, b = op["k"], op["a"], op["b"]
            ops.append({0: "PLookup %d %d" % (a, b), 1: "PApply %d %d" % (a, b), 2: "PStub %d" % a, 3: "POrigin %d %d" % (a, b),
                        4: "PCancel %d" % a, 5: "PReset %d" % a, 6: "PRejected %d" % a}[k])
        obs = []
        for c, p, q in zip(h["cells"], h["probes"], h["ph"]):
            row = []
            for x, y in zip(c, p):
                row += [x, y]
            obs.append(vlib.zlist(row + q))
        rows.append("  (%d, %d, %d, [%s], [%s])" % (i, ini[0], ini[1], "; ".join(ops), "; ".join(obs)))
    L.append(";\n".join(rows))
    L.append("].")
    L.append("Definition bad (c : Z * Z * Z * list pop * list (list Z)) : Z * Z := let '(i, p0, p1, ops, o) := c in (i, first_diff 0 (tr (init p0 p1) ops) o).")
    L.append("Definition M := Eval vm_compute in filter (fun r => negb (snd r =? -1)) (map bad cases).")
    L.append("Print M.")
    return "\n".join(L) + "\n"


def oracle(ck, h):
    """The property, checked directly on one history."""
    if h["foreign"]:
        f = h["foreign"][0]
        ck.impl_violation("foreign-bytes-changed", "step %d (%s): a byte inside %s changed (%d -> %d): outside every mocked entry and placeholder body" % (
            f["step"], OPN[h["ops"][f["step"]]["k"]], f["in_func"], f["was"], f["is"]), {"ops": h["ops"][:f["step"] + 1], "foreign": h["foreign"]})
        return
    looked = {}
    hm = []          # handle -> target
    hb = []          # handle -> builder
    live = set()     # (builder, mocker serial, target): that mocker has applied a mock which has not been cancelled / reset since
    ser = h.get("hserial") or []
    prev = [0] * NT
    prev_p = None
    for st, op in enumerate(h["ops"]):
        k, a, b = op["k"], op["a"], op["b"]
        cells, probes = h["cells"][st], h["probes"][st]
        if k == 0:
            hm.append(b)
            hb.append(a)
            looked.setdefault(a, set()).add(b)
        for t in range(NT):
            if cells[t] == -3:
                ck.impl_violation("torn-entry", "step %d (%s): the entry bytes of target %d are neither pristine nor a complete jump" % (st, OPN[k], t), {"ops": h["ops"][:st + 1], "cells": cells})
                return
            if (cells[t] == 0) != (probes[t] == 0) or (cells[t] > 0 and probes[t] != cells[t]):
                ck.impl_violation("bytes-and-behaviour-disagree", "step %d (%s): target %d has cell %d but behaves as %d" % (st, OPN[k], t, cells[t], probes[t]),
                                  {"ops": h["ops"][:st + 1], "cells": cells, "probes": probes})
                return
        allowed = set()
        if k == 6:
            if not h["panics"][st]:
                ck.impl_violation("ill-formed-apply-accepted", "step %d: Apply with an ill-formed callback (variant %d) on target %d did not panic" % (st, b, hm[a]), {"ops": h["ops"][:st + 1]})
                return
            if prev_p is not None and probes != prev_p:
                ck.impl_violation("rejected-apply-changed-behaviour", "step %d: an Apply that goom refused (%s) left the image alone but the targets now behave as %s instead of %s (the mock that stays installed lost its configuration)" % (
                    st, h["panics"][st], probes, prev_p), {"ops": h["ops"][:st + 1], "before": prev_p, "after": probes})
                return
            if cells != prev:
                ck.impl_violation("rejected-apply-changed-the-image", "step %d: an Apply that goom refused (%s) changed entries %s -> %s" % (st, h["panics"][st], prev, cells),
                                  {"ops": h["ops"][:st + 1], "before": prev, "after": cells})
                return
        if k in (1, 2, 4):
            allowed = {hm[a]}
        elif k == 5:
            allowed = looked.get(a, set())
        for t in range(NT):
            if cells[t] != prev[t] and t not in allowed:
                ck.impl_violation("cross-effect", "step %d (%s on target(s) %s) changed the entry of target %d" % (st, OPN[k], sorted(allowed), t),
                                  {"ops": h["ops"][:st + 1], "before": prev, "after": cells})
                return
        # a builder that has nothing applied (any more) on a target must leave that target's entry alone: a second Reset, or
        # a Cancel of an already cancelled mocker, must not remove the mock ANOTHER builder installed in the meantime
        if k in (4, 5) and not h["panics"][st] if "panics" in h else k in (4, 5):
            sid = lambda x: ser[x] if x < len(ser) else -1 - x
            mine = {t for (bb, m_, t) in live if bb == a} if k == 5 else ({hm[a]} if (hb[a], sid(a), hm[a]) in live else set())
            for t in range(NT):
                if cells[t] != prev[t] and t not in mine:
                    ck.impl_violation("reset-of-a-finished-builder-removes-a-newer-mock", "step %d: %s by a builder that has no live mock of target %d changed its entry (cell %d -> %d): another builder's mock was removed" % (
                        st, OPN[k], t, prev[t], cells[t]), {"ops": h["ops"][:st + 1], "before": prev, "after": cells})
                    return
        sid = lambda x: ser[x] if x < len(ser) else -1 - x
        if k in (1, 2):
            if cells[hm[a]] != 0:
                live.add((hb[a], sid(a), hm[a]))
        elif k == 4:
            live.discard((hb[a], sid(a), hm[a]))
        elif k == 5:
            live = {(bb, m_, t) for (bb, m_, t) in live if bb != a}
        prev = cells
        prev_p = probes
    if h["end_diff_bytes"]:
        ck.impl_violation("not-pristine-after-reset", "after resetting every builder %d bytes outside placeholder bodies still differ from the pristine image" % h["end_diff_bytes"],
                          {"ops": h["ops"], "end_diff_bytes": h["end_diff_bytes"]})


def run(replay=None):
    ck = Check("C02", "proof")
    ck.assumptions = [
        "the pristine first byte of every target is not 0x90 (measured per run: first bytes are reported in the evidence) and targets are at least 13 bytes apart",
        "origin placeholders are large enough for the relocated prologue (C03/C14 cover refusals); a placeholder keeps its trampoline (the property allows placeholder bodies to differ)",
        "text image = the r-x mapping of the harness binary, compared byte by byte with a snapshot taken at start after every step",
    ]
    ok, failed, log = ck.prove(["Props/C02.vo"], label="Props/C02")
    if not ok:
        m_ok, _, mlog = vlib.coq_make(["Model/Patch.vo"])
        if not m_ok:
            raise vlib.Infra("Model/Patch.v does not compile:\n" + mlog[-1500:])
    hx, blog = vlib.build_hx()
    if hx is None:
        ck.obligation_broken("harness build", blog)
        return ck.finish()
    obs = os.path.join(ck.wd, "obs.jsonl")
    rc, out = vlib.run_hx(hx, ["c02", "-seed", str(ck.seed), "-tier", ck.tier, "-out", obs], timeout=3000)
    if rc != 0:
        jp = obs + ".journal"
        ops = []
        if os.path.exists(jp):
            for line in open(jp):
                line = line.strip()
                if line == "H":
                    ops = []
                elif line:
                    ops.append(json.loads(line))
        why = "stack overflow" if "stack overflow" in out else ("SIGSEGV" if "SIGSEGV" in out else "fatal error")
        if ops:
            ck.impl_violation("history-crashes-process:" + why.replace(" ", "-"), "the process died (%s) after %s" % (why, " ; ".join(OPN[o["k"]] for o in ops[-6:])),
                              {"ops": ops, "log_tail": out[-1200:]})
        else:
            ck.obligation_broken("harness run c02 (exit %d)" % rc, out[-2000:])
        return ck.finish()
    rows = vlib.read_jsonl(obs)
    setup = [r for r in rows if r.get("kind") == "setup"]
    hs = [r for r in rows if r.get("kind") == "hist"]
    if setup:
        ck.notes["setup"] = setup[0]
        if 0x90 in setup[0]["first_bytes"]:
            ck.notes["hypothesis_violated"] = "a target starts with 0x90"
    ck.coverage["evaluations"] = sum(len(h["ops"]) for h in hs)
    mix = {}
    for h in hs:
        for op in h["ops"]:
            mix[OPN[op["k"]]] = mix.get(OPN[op["k"]], 0) + 1
    ck.notes["op_mix"] = mix
    ck.coverage["distinct_nontrivial"] = len({json.dumps(h["ops"]) for h in hs if any(any(c) for c in h["cells"])})
    ck.coverage["rule"] = ("random histories of 4-26 operations (Lookup/Apply/Return/Origin/Cancel/Reset incl. stale handles, re-apply, second Reset, re-mock, re-apply with an ill-formed callback that goom refuses) over 1-3 builders, "
                           "9 targets (3 functions, 2 exported and 2 unexported methods of one struct, 2 same-named unexported functions of different packages) and 2 origin placeholders; after EVERY step the whole text mapping (~1.8 MB) is diffed against the pristine snapshot; "
                           "non-trivial = some entry was patched; distinct by operation list")
    ck.coverage["samples"] = [{"ops": h["ops"][:8], "cells": h["cells"][:8]} for h in hs[:2]]
    for h in hs:
        oracle(ck, h)
    # scripted histories around a re-mock refused inside replaceFunc
    scripted = [r for r in rows if r.get("kind") == "scripted"]
    ck.notes["scripted_refused_remock"] = [{"scenario": r["scenario"], "steps": [(s["step"], s["entry"], bool(s["panic"])) for s in r["steps"]]} for r in scripted]
    for r in scripted:
        ref = [s for s in r["steps"] if s["step"] == "refused"]
        if not ref or not ref[0]["panic"]:
            continue    # this toolchain did not make the re-mock fail inside replaceFunc: nothing to judge
        ck.coverage["evaluations"] += len(r["steps"])
        for i, s in enumerate(r["steps"]):
            if s["entry"] == "torn":
                ck.impl_violation("torn-entry", "scripted history %d, step %d (%s): the entry of SumTo is neither pristine nor a complete jump" % (r["scenario"], i, s["step"]), r)
                break
            if s["step"] == "reset" and (s["entry"] != "pristine" or not s["original"]):
                ck.impl_violation("not-pristine-after-reset", "scripted history %d: after step %d (Reset/Cancel, following %s) the entry of SumTo is %s and the function %s" % (
                    r["scenario"], i, [x["step"] for x in r["steps"][:i]], s["entry"], "is original" if s["original"] else "does not answer as the original"), r)
                break
            if s["step"] == "refused" and s["entry"] == "jump" and i > 0 and r["steps"][i - 1]["entry"] != "jump":
                ck.impl_violation("refused-remock-installs-a-jump", "scripted history %d: a re-mock goom refused (%s) left an entry jump on a function that was not mocked before it" % (r["scenario"], s["panic"]), r)
                break
    # origin placeholders of every size 14..48 followed directly by foreign code: building the trampoline must never
    # touch a byte of the neighbour ("mocking one function never alters another")
    pobs = os.path.join(ck.wd, "obs_ph.jsonl")
    rc, out = vlib.run_hx(hx, ["c14", "-seed", str(ck.seed), "-extra", "placeholders-only", "-out", pobs], timeout=600)
    if rc == 0:
        prs = [r for r in vlib.read_jsonl(pobs) if r.get("kind") == "placeholder"]
        ck.notes["placeholder_size_experiments"] = len(prs)
        for r in prs:
            if r["changed"] and (r["changed_lo"] < 0 or r["changed_hi"] >= r["size"]):
                ck.impl_violation("placeholder-write-alters-neighbour", "origin placeholder of %d bytes: bytes [%d,%d] relative to the placeholder changed, i.e. the function behind it was altered" % (
                    r["size"], r["changed_lo"], r["changed_hi"]), r)
    else:
        ck.notes["placeholder_size_experiments"] = "driver failed: " + out[-300:]
    inits = []
    cur = [0, 0]
    for h in hs:
        inits.append(list(cur))
        if h["ph"]:
            cur = [max(x, 0) for x in h["ph"][-1]]
    evaluated, mism = 0, 0
    for si in range(0, min(len(hs), 3000), 250):
        part, pin = hs[si:si + 250], inits[si:si + 250]
        rc, out = vlib.coq_eval("c02_cases_%d" % si, coq_cases(part, pin), ck.wd, timeout=900)
        flat = out.replace("\n", " ")
        m = re.search(r"M\s*=\s*(\[.*?\])\s*:\s*list", flat)
        if rc != 0 or not m:
            ck.obligation_broken("correspondence C02 (coqc evaluation failed)", out[-1500:])
            break
        evaluated += len(part)
        for a, b in re.findall(r"\((\d+),\s*(-?\d+)\)", m.group(1)):
            mism += 1
            if mism <= 3:
                h = part[int(a)]
                st = int(b)
                ck.obligation_broken("correspondence C02: model and implementation differ at step %d (%s)" % (st, OPN[h["ops"][st]["k"]]),
                                     json.dumps({"ops": h["ops"][:st + 1], "cells": h["cells"][st], "probes": h["probes"][st], "ph": h["ph"][st], "panic": h["panics"][st]}))
    ck.coverage["traces_validated_against_impl"] = evaluated
    if ck.violations:
        ck.broken = [b for b in ck.broken if not b["name"].startswith("correspondence C02: model")]
    return ck.finish()
