"""C07 -- interface-variable mocks dispatch each method to its own replacement and restore."""
import json
import os
import re

import vlib
from vlib import Check
from checks.c07model import State


def load_histories(path):
    hist = {}
    for r in vlib.read_jsonl(path):
        if r["kind"] == "hist":
            hist[r["h"]] = {"h": r, "ops": [], "pending": None}
        elif r["kind"] == "op":
            hist[r["h"]]["ops"].append(r)
            hist[r["h"]]["pending"] = None
        elif r["kind"] == "about-to-call":
            hist[r["h"]]["pending"] = r
    return hist


def judge(ck, H):
    """the property executed on one observed history; returns True when something was reported"""
    h = H["h"]
    init = ["nil" if x == 0 else ("real", x) for x in h["init"]]
    s = State(init, h["nmeth"], lambda v: v)
    pf = {}
    names = ["a1", "a2", "b1", "c1"]
    for step, o in enumerate(H["ops"]):
        key = what = None
        if o["op"] == "mock":
            k = s.mock(o["b"], o["v"], o["m"], kept=o.get("kept", False))
            pf[k] = o["pf"]
            if o.get("panic"):
                key, what = "mock-panics", "mocking %s.%s panics: %s" % (names[o["v"]], h["methods"][o["v"]][o["m"]], o["panic"])
        elif o["op"] == "call":
            e = s.call(o["v"], o["m"])
            meth = h["methods"][o["v"]][o["m"]]
            if e[0] == "repl":
                want = e[1] * 1000 + (7 if pf[e[1]] else o["a"])
                ok = o["out"] == "ret" and o.get("ret") == want
                if not ok:
                    other = o.get("ret")
                    if o["out"] == "ret" and other is not None and other >= 0 and other // 1000 in pf:
                        key, what = "wrong-replacement", "%s.%s(%d) reached replacement #%d instead of #%d" % (names[o["v"]], meth, o["a"], other // 1000, e[1])
                    elif o["out"] == "notimpl":
                        key, what = "mocked-method-not-implemented", "%s.%s is mocked but the call panics with 'method not implements'" % (names[o["v"]], meth)
                    else:
                        key, what = "mocked-call-fails", "%s.%s(%d): expected replacement #%d, observed %s %s" % (names[o["v"]], meth, o["a"], e[1], o["out"], o.get("ret"))
            elif e[0] == "real":
                if not (o["out"] == "ret" and o.get("ret") == -(e[1] * 1000 + o["a"])):
                    key, what = "real-implementation-lost", "%s holds real implementation %d but %s(%d) gives %s %s" % (names[o["v"]], e[1], meth, o["a"], o["out"], o.get("ret"))
            elif o["out"] != e[0]:
                key, what = "unmocked-call:" + e[0], "%s.%s: expected %s, observed %s %s" % (names[o["v"]], meth, e[0], o["out"], o.get("ret"))
        elif o["op"] == "reset":
            s.reset(o["b"])
            if o.get("panic"):
                key, what = "reset-panics", "Reset panics: %s" % o["panic"]
        elif o["op"] == "gc":
            need = s.needed()
            col = {k for k in range(64) if (o["collected"] >> k) & 1}
            if need & col:
                key, what = "closure-collected-while-installed", "replacement(s) %s were garbage-collected while the variable still dispatches to them" % sorted(need & col)
        if key is None:
            shown = [s.show(v) for v in range(4)]
            if shown != o["vars"]:
                diff = [names[i] for i in range(4) if shown[i] != o["vars"][i]]
                if o["op"] == "mock":
                    key, what = "variables-after-mock", "after mocking %s through builder %d: %s hold %s, expected %s" % (names[o["v"]], o["b"], diff, [o["vars"][names.index(d)] for d in diff], [shown[names.index(d)] for d in diff])
                else:
                    key, what = "variables-after-" + o["op"], "after %s: %s hold %s, expected %s" % (o["op"], diff, [o["vars"][names.index(d)] for d in diff], [shown[names.index(d)] for d in diff])
        if key:
            ck.impl_violation(key, "history %d step %d: %s" % (h["h"], step, what),
                              {"init": h["init"], "nbuilders": h["nbuilders"], "methods": h["methods"],
                               "ops": [{k: v for k, v in x.items() if k not in ("kind", "h", "i")} for x in H["ops"][:step + 1]]})
            return True
    if H["pending"] is not None:
        p = H["pending"]
        ck.impl_violation("crash-on-call", "history %d: the process crashed while calling %s.%s" % (h["h"], names[p["v"]], h["methods"][p["v"]][p["m"]]),
                          {"init": h["init"], "ops": [{k: v for k, v in x.items() if k not in ("kind", "h", "i")} for x in H["ops"]], "crashed_call": p})
        return True
    return False


def coq_cases(hs):
    L = ["From Coq Require Import List Arith Bool. Import ListNotations.",
         "From Goom Require Import Model.IfaceMock.",
         "Definition wcode (w : word) : nat := match w with WNil => 0 | WReal r => 4 + r | WFake _ => 1 end.",
         "Definition ocode (o : outcome) : nat := match o with ORepl k => 10 + k | ONotImpl => 1 | ONilPanic => 2 | OReal r _ => 4 + r | OCrash => 3 | ONone => 0 end.",
         "Fixpoint trace (nm : nat -> nat) (s : st) (ops : list op) : list (nat * list nat) :=",
         "  match ops with [] => [] | o :: r => let '(s1, out) := step nm (fun v => v) s o in (ocode out, map wcode (vars s1)) :: trace nm s1 r end.",
         "Fixpoint leqb (a b : list nat) : bool := match a, b with [], [] => true | x :: a', y :: b' => Nat.eqb x y && leqb a' b' | _, _ => false end.",
         "Fixpoint first_diff (i : nat) (a b : list (nat * list nat)) : option nat :=",
         "  match a, b with [], [] => None | (x, xs) :: a', (y, ys) :: b' => if Nat.eqb x y && leqb xs ys then first_diff (S i) a' b' else Some i | _, _ => Some i end.",
         "Definition cases : list (nat * list word * list nat * nat * list op * list (nat * list nat)) := ["]
    rows = []
    for H in hs:
        h = H["h"]
        ws = "[" + "; ".join("WNil" if x == 0 else "WReal %d" % x for x in h["init"]) + "]"
        ops, obs = [], []
        for o in H["ops"]:
            vs = "[" + "; ".join("0" if x == "nil" else ("1" if x == "fake" else str(4 + int(x[4:]))) for x in o["vars"]) + "]"
            if o["op"] == "mock":
                if o.get("kept"):
                    ops.append("OMockKept %d %d %d" % (o["b"], o["v"], o["m"]))
                else:
                    ops.append("OMock %d %d %d %s" % (o["b"], o["v"], o["m"], "true" if o["pf"] else "false"))
                code = 0
            elif o["op"] == "call":
                ops.append("OCall %d %d" % (o["v"], o["m"]))
                if o["out"] == "ret":
                    r = o["ret"]
                    code = 10 + r // 1000 if r >= 0 else 4 + (-r) // 1000
                    if code > 4000:
                        code = 3    # a garbage answer: never write a large nat numeral into a generated case (unary: coqc ran out of memory on one)
                else:
                    code = {"notimpl": 1, "nilpanic": 2}.get(o["out"], 3)
            elif o["op"] == "reset":
                ops.append("OReset %d" % o["b"])
                code = 0
            elif o["op"] == "drop":
                ops.append("ODrop %d" % o["b"])
                code = 0
            else:
                ops.append("OGC")
                code = 0
            obs.append("(%d, %s)" % (code, vs))
        rows.append("  (%d, %s, [%s], %d, [%s], [%s])" % (h["h"], ws, "; ".join(str(x) for x in h["nmeth"]), h["nbuilders"], "; ".join(ops), "; ".join(obs)))
    L.append(";\n".join(rows))
    L.append("].")
    L.append("Definition bad (c : nat * list word * list nat * nat * list op * list (nat * list nat)) : nat * option nat :=")
    L.append("  let '(i, ws, nm, nb, ops, obs) := c in (i, first_diff 0 (trace (fun v => nth v nm 0) (init ws nb) ops) obs).")
    L.append("Definition M := Eval vm_compute in filter (fun r => match snd r with Some _ => true | None => false end) (map bad cases).")
    L.append("Eval vm_compute in M.")
    return "\n".join(L) + "\n"


def run(replay=None):
    ck = Check("C07", "proof")
    ck.assumptions = [
        "an interface variable is abstracted to its two words (nil / a real implementation / the fabricated iface of a context); a fabricated itab to its slot table; closures to identities; the collector to exact reachability from variables and live builders",
        "the frame condition of the 12-byte stub (it changes only RIP and RDX) is C15's theorem; that ABIInternal hands the receiver and arguments unchanged is C01",
        "a collected closure is detected through finalizers on an object only the callback captures, and through crashes/garbage after heap churn; absence of a finalizer run proves nothing and is never used as a verdict",
        "generator discipline: a dropped builder is not used again",
        "the whole-history theorem (C07_history_refines) covers histories in which each variable is mocked through one builder; the generator also lets two builders mock the same variable -- those histories are tied by the correspondence only",
    ]
    ok, failed, log = ck.prove(["Props/C07.vo"], label="Props/C07")
    if not ok:
        m_ok, _, mlog = vlib.coq_make(["Model/IfaceMock.vo"])
        if not m_ok:
            raise vlib.Infra("Model/IfaceMock.v does not compile:\n" + mlog[-1500:])
    hx, blog = vlib.build_hx()
    if hx is None:
        ck.obligation_broken("harness build", blog)
        return ck.finish()
    n = 250 if ck.tier == "quick" else 3000
    hist = {}
    start, crashes = 0, 0
    while start < n and crashes < 40:
        obs = os.path.join(ck.wd, "obs_%d.jsonl" % start)
        rc, out = vlib.run_hx(hx, ["c07", "-seed", str(ck.seed), "-tier", ck.tier, "-n", str(n), "-extra", "from:%d" % start, "-out", obs], timeout=3000)
        part = load_histories(obs) if os.path.exists(obs) else {}
        hist.update(part)
        for w in [r for r in (vlib.read_jsonl(obs) if os.path.exists(obs) else []) if r.get("kind") == "wide"]:
            ck.notes["wide_method"] = {k: v for k, v in w.items() if k != "kind"}
            if w.get("panic") or w.get("seen") != "[1 2 3 4 5 6 7 8 9 10 11]" or w.get("ret") != 1012 or w.get("when_ret") != 77:
                ck.impl_violation("arguments-altered:wide-method", "an interface method with 11 integer arguments: the replacement sees %s and returns %s, the conditional stub returns %s %s" % (
                    w.get("seen"), w.get("ret"), w.get("when_ret"), w.get("panic") or ""), w)
        if rc == 0:
            break
        crashes += 1
        last = max(part) if part else start
        hist.setdefault(last, {"h": {"h": last, "init": [0, 0, 0, 0], "nbuilders": 1, "nmeth": [4, 4, 1, 3], "methods": [[], [], [], []]}, "ops": [], "pending": None})
        if hist[last]["pending"] is None:
            hist[last]["pending"] = {"v": 0, "m": 0, "note": "crash outside a call: " + out[-300:]}
            hist[last]["h"]["methods"] = hist[last]["h"]["methods"] or [["?"]] * 4
        start = last + 1
    hs = [hist[k] for k in sorted(hist)]
    ck.coverage["evaluations"] = sum(len(H["ops"]) for H in hs)
    opmix = {}
    for H in hs:
        for o in H["ops"]:
            opmix[o["op"]] = opmix.get(o["op"], 0) + 1
    ck.notes["op_mix"] = opmix
    ck.notes["process_crashes"] = crashes
    ck.coverage["distinct_nontrivial"] = len({json.dumps([H["h"]["init"], [(o["op"], o.get("b"), o.get("v"), o.get("m")) for o in H["ops"]]]) for H in hs
                                              if any(o["op"] == "mock" for o in H["ops"]) and any(o["op"] == "call" for o in H["ops"])})
    ck.coverage["rule"] = ("random histories over 4 interface variables (two of one 4-method type with an unexported method and non-sorted declaration order, a 1-method type, "
                           "a type with an embedded interface and an unexported method; nil or holding a real implementation) and 1-2 builders: mock by Apply (capturing closure with a finalizer "
                           "witness) or As+Return, call any method of any variable, Reset, drop the builder, GC with heap churn; non-trivial = contains a mock and a call; distinct by ops")
    ck.coverage["samples"] = [{"init": H["h"]["init"], "ops": [{k: v for k, v in o.items() if k not in ("kind", "h", "i")} for o in H["ops"][:6]]} for H in hs[:2]]
    # A call through a STALE fake is outside the property: the variable holds the fabricated value of a context that was
    # cancelled. That is reachable only when two builders mock one variable and are reset out of order (the later Reset
    # "restores" the other builder's fake), where "the value before mocking" is not well defined; what such a call does
    # depends on the kind of the dead stub (an As+Return stub of a cancelled mocker has lost its values). Histories are
    # judged and compared up to the first such call.
    cut = 0
    for H in hs:
        h = H["h"]
        s0 = State(["nil" if x == 0 else ("real", x) for x in h["init"]], h["nmeth"], lambda v: v)
        for i, o in enumerate(H["ops"]):
            if o["op"] == "mock":
                s0.mock(o["b"], o["v"], o["m"], kept=o.get("kept", False))
            elif o["op"] == "reset":
                s0.reset(o["b"])
            elif o["op"] == "call":
                w = s0.vars[o["v"]]
                if w != "nil" and w[0] == "fake" and s0.ctxs[w[1]].canceled:
                    H["ops"] = H["ops"][:i]
                    cut += 1
                    break
    ck.notes["histories_cut_at_a_call_through_a_stale_fake"] = cut
    for H in hs:
        judge(ck, H)
    # correspondence with the Coq model (key_of = the variable, every closure retained by its context)
    evaluated, mism = 0, 0
    good = [H for H in hs if H["pending"] is None]
    for si in range(0, len(good), 400):
        part = good[si:si + 400]
        rc, out = vlib.coq_eval("c07_cases_%d" % si, coq_cases(part), ck.wd, timeout=900)
        flat = out.replace("\n", " ")
        m = re.search(r"=\s*(\[.*?\])\s*:\s*list \(nat \* option nat\)", flat)
        if rc != 0 or not m:
            ck.obligation_broken("correspondence C07 (coqc evaluation failed)", out[-1500:])
            break
        evaluated += len(part)
        for a, b in re.findall(r"\((\d+),\s*Some (\d+)\)", m.group(1)):
            mism += 1
            if mism <= 3:
                H = hist[int(a)]
                ck.obligation_broken("correspondence C07: model and implementation differ at step %s of history %s" % (b, a),
                                     json.dumps({"init": H["h"]["init"], "ops": [{k: v for k, v in o.items() if k not in ("kind", "h", "i")} for o in H["ops"][:int(b) + 1]]}))
    ck.coverage["traces_validated_against_impl"] = evaluated
    ck.notes["model_mismatches"] = mism
    if ck.violations:
        ck.broken = [b for b in ck.broken if not b["name"].startswith("correspondence C07: model")]
    return ck.finish()
