"""C05 -- result sequences are served in order and stick at the last element."""
import json
import os
import re

import vlib
from vlib import Check
from checks import c04


def coq_search():
    return """From Coq Require Import List ZArith. Import ListNotations.
From Goom Require Import Model.SeqConc.
From Goom Require Gen.Cursor.
Open Scope Z_scope.
Definition p := Gen.Cursor.BaseMatcher_Result_prog.
(* structured schedules: one call stalls after k steps while m others run to completion, then it resumes, then a late call *)
Definition full (i : nat) : list (option nat) := [None; Some i; Some i; Some i; Some i].
Definition stall (k m : nat) : list (option nat) :=
  None :: repeat (Some 0%nat) k ++ flat_map full (seq 1 m) ++ repeat (Some 0%nat) (4 - k) ++ full (S m).
Definition try (n : Z) (k m : nat) : option (list (option nat)) :=
  if kcfg_ok n (fold_left (ksched_step p n) (stall k m) kinit) then None else Some (stall k m).
Definition W := Eval vm_compute in
  filter (fun o => match o with Some _ => true | None => false end)
    (flat_map (fun n => flat_map (fun k => map (try n k) [1; 2; 3; 4; 5]%nat) [0; 1; 2; 3]%nat) [2; 3; 4]
     ++ [ksearch 9 p 2 2 kinit []; ksearch 9 p 3 2 kinit []]).
Print W.
"""


def run(replay=None):
    ck = Check("C05", "proof")
    ck.assumptions = [
        "atomic.LoadInt32/AddInt32 are single atomic actions; the int32 cursor does not wrap (sequence length + number of calls < 2^31)",
        "the plain read of the cursor happens only for sequences of at most one element, where it is never written (checked: Gen.Cursor.BaseMatcher_Result_guard = 1)",
        "real-time order in the harness is measured with one atomic ticket counter read immediately before and after each call",
    ]
    status = vlib.run_go2v()
    tr = [m for m in status if m["module"] == "Cursor"][0]
    ok, failed, log = ck.prove(["Props/C05.vo"], label="Props/C05 (incl. Tie/CursorTie: regenerated cursor program = proved program)")
    with_gen = not tr["failed"]
    if tr["failed"]:
        ck.notes["go2v_failed"] = tr["failed"]
    if not ok:
        ck.notes["proof_failed_at"] = failed
        deps = ["Model/StubSpec.vo", "Model/SeqConc.vo"] + (["Gen/Cursor.vo"] if with_gen else [])
        g_ok, _, glog = vlib.coq_make(deps)
        if not g_ok:
            with_gen = False
            m_ok, _, mlog = vlib.coq_make(["Model/StubSpec.vo", "Model/SeqConc.vo"])
            if not m_ok:
                raise vlib.Infra("models do not compile:\n" + mlog[-1500:])
    hx, blog = vlib.build_hx()
    if hx is None:
        ck.obligation_broken("harness build", blog)
        return ck.finish()
    # sequential histories with long sequences: same oracle + correspondence as C04
    rows = c04.run_stub_stream(ck, "c05", hx)
    if rows is None:
        return ck.finish()
    usable, evaluated, mism = c04.judge(ck, rows, "C05")
    # concurrent callers
    obs = os.path.join(ck.wd, "obs_conc.jsonl")
    rc, out = vlib.run_hx(hx, ["stub", "-extra", "c05conc", "-seed", str(ck.seed), "-tier", ck.tier, "-out", obs], timeout=3000)
    conc = []
    if rc != 0:
        ck.obligation_broken("harness run stub/c05conc (exit %d)" % rc, out[-2000:])
    else:
        conc = [r for r in vlib.read_jsonl(obs) if r.get("kind") == "conc"]
    for r in conc:
        if r["out_of_range"] or r["panics"]:
            ck.impl_violation("conc:out-of-range", "%d concurrent callers of a %d-element sequence: %d results outside the sequence, %d panics" % (r["g"], r["n"], r["out_of_range"], r["panics"]), r)
        if r["backwards"]:
            ck.impl_violation("conc:position-went-backwards", "%d concurrent callers of a %d-element sequence: position went backwards %d times (first: %s)" % (r["g"], r["n"], r["backwards"], json.dumps(r["first"])), r)
        if r["unsticky"] or r["final_bad"]:
            ck.impl_violation("conc:not-sticky", "%d concurrent callers of a %d-element sequence: an earlier element was served after the last one" % (r["g"], r["n"]), r)
    ck.notes["concurrent_rounds"] = len(conc)
    ck.notes["concurrent_calls"] = sum(r["calls"] for r in conc)
    # race detector run (thorough tier): the same concurrent driver under -race
    if ck.tier == "thorough":
        hxr, rlog = vlib.build_hx("_race", ["-race"])
        if hxr:
            obs2 = os.path.join(ck.wd, "obs_conc_race.jsonl")
            rc, out = vlib.run_hx(hxr, ["stub", "-extra", "c05conc", "-seed", str(ck.seed + 1), "-n", "300", "-out", obs2], timeout=3000)
            races = out.count("WARNING: DATA RACE")
            ck.notes["race_detector_reports"] = races
            if races and "matcher.go" in out:
                ck.impl_violation("conc:data-race", "race detector reports a data race in matcher.go under concurrent callers", {"report": out[:3000]})
    ck.coverage["evaluations"] = sum(len(r["calls"] or []) for r in rows) + sum(r["calls"] for r in conc)
    ck.coverage["traces_validated_against_impl"] = evaluated
    ck.coverage["distinct_nontrivial"] = len({json.dumps([r["target"], r["config"], r["calls"]]) for r in usable
                                              if any(len(c["rs"]) > 1 for c in (r["config"].get("clauses") or [])) or len(r["config"].get("default") or []) > 1})
    ck.coverage["rule"] = ("sequential: random configurations with sequences of 1-40 results per clause/default and 20-140 real calls; non-trivial = has a sequence of >= 2 results, "
                           "distinct by (target, config, calls). concurrent: rounds of 2-16 spin-started goroutines calling one sequenced stub (Returns / Return+AndReturn / sequence on a condition)")
    ck.coverage["samples"] = [{"target": r["target"], "config": r["config"], "calls": r["calls"][:6], "outs": r["outs"][:6]} for r in usable[:1]] + \
        [{k: r[k] for k in ("n", "g", "per", "calls", "backwards")} for r in conc[:2]]
    # model-side search when the regenerated cursor program is not the proved one
    if not ok and with_gen:
        rc, out = vlib.coq_eval("c05_search", coq_search(), ck.wd, timeout=900)
        flat = out.replace("\n", " ")
        ck.notes["model_search_output"] = flat[-500:]
        m = re.search(r"W\s*=\s*\[\s*Some\s*\[(.*?)\]\s*[;\]]", flat)
        if rc == 0 and m:
            sched = re.findall(r"(None|Some \d+)", m.group(1))
            impl = [r for r in conc if r["backwards"] or r["out_of_range"] or r["unsticky"]]
            ck.impl_violation("conc:position-went-backwards" if impl else "model-schedule",
                              "the cursor program regenerated from matcher.go admits a schedule violating range/monotonicity/stickiness: %s%s" % (
                                  " ".join(sched)[:300], " (reproduced on the implementation)" if impl else ""),
                              {"schedule": sched, "program": open(os.path.join(vlib.COQ, "Gen", "Cursor.v")).read(), "implementation_runs": impl[:2]})
    if ck.violations:
        ck.broken = [b for b in ck.broken if not b["name"].startswith("correspondence C05: implementation differs")]
    return ck.finish()
