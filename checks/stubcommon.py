"""Shared helpers for the stub checks (C04, C05, C12, C19): surface config -> Coq terms and a direct spec evaluator."""
import vlib


def coq_expr(e):
    if e["t"] == "any":
        return "EAny"
    if e["t"] == "in":
        return "EIn %s" % vlib.zlist(e.get("vs") or [])
    return "EEq %s" % vlib.zz(e.get("v", 0))


def coq_exprs(es):
    return "[" + "; ".join(coq_expr(e) for e in (es or [])) + "]"


def coq_config(cf):
    d = cf.get("default")
    nout = cf["nout"]
    if nout == 0:
        dflt = "None"
    elif d:
        dflt = "Some (%d, %s)" % (d[0], vlib.zlist(d[1:]))
    else:
        dflt = "None"
    fw = cf.get("first_when")
    if fw and not d and nout > 0:
        first = "Some (%s, %d, %s)" % (coq_exprs(fw.get("es")), fw["rs"][0], vlib.zlist(fw["rs"][1:]))
    else:
        first = "None"
    cls = []
    for c in cf.get("clauses") or []:
        if c["kind"] == "when":
            k = "KWhen %s" % coq_exprs(c.get("es"))
        else:
            k = "KIn [%s]" % "; ".join(coq_exprs(a) for a in c["alts"])
        rs = c["rs"] if nout > 0 else [-1]
        cls.append("{| cc_kind := %s; cc_first := %s; cc_more := %s |}" % (k, vlib.zz(rs[0]), vlib.zlist(rs[1:])))
    return "{| cf_nout := %d; cf_default := %s; cf_first_when := %s; cf_clauses := [%s] |}" % (nout, dflt, first, "; ".join(cls))


def enc_out(o):
    """observed outcome -> Z code used in the Coq comparison: result id, -1 empty, -10 NoSuitable, -11 other panic"""
    if isinstance(o, str):
        return -10 if o == "NoSuitable" else -11
    return int(o)


COQ_PRELUDE = """From Coq Require Import List ZArith Bool Arith. Import ListNotations.
From Goom Require Import Model.Stub Model.StubSpec. Open Scope Z_scope.
Definition enc (o : outcome) : Z := match o with ORet r => r | ONoSuitable => -10 | OPanic => -11 end.
Fixpoint first_diff (i : Z) (a b : list Z) : Z := match a, b with [], [] => -1 | x :: a', y :: b' => if x =? y then first_diff (i + 1) a' b' else i | _, _ => i end.
"""


def ev_expr(e, a):
    if e["t"] == "any":
        return True
    if e["t"] == "in":
        return a in (e.get("vs") or [])
    return e.get("v", 0) == a


def ev_all(es, args):
    es = es or []
    return len(es) == len(args) and all(ev_expr(e, a) for e, a in zip(es, args))


def spec_outputs(cf, calls):
    """The property executed directly: first registered matching clause (k-th selection -> k-th result, sticky), else default, else panic."""
    nout = cf["nout"]
    clauses = []
    d = cf.get("default")
    fw = cf.get("first_when")
    if fw and not d and nout > 0:
        clauses.append({"kind": "when", "es": fw.get("es"), "rs": fw["rs"], "pos": 0})
    for c in cf.get("clauses") or []:
        clauses.append({"kind": c["kind"], "es": c.get("es"), "alts": c.get("alts"), "rs": c["rs"] if nout > 0 else None, "pos": 0})
    dpos = 0
    outs = []
    for args in calls:
        hit = None
        for c in clauses:
            if c["kind"] == "when":
                m = ev_all(c["es"], args)
            else:
                m = any(ev_all(a, args) for a in c["alts"])
            if m:
                hit = c
                break
        if hit is not None:
            if nout == 0:
                outs.append(-1)
            else:
                outs.append(hit["rs"][min(hit["pos"], len(hit["rs"]) - 1)])
            hit["pos"] += 1
        elif nout == 0:
            outs.append(-1)
        elif d:
            outs.append(d[min(dpos, len(d) - 1)])
            dpos += 1
        else:
            outs.append(-10)
    return outs
