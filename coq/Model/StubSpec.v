(* The specification C04/C05 are stated against: an ordered list of clauses, each with its own result sequence and
   cursor, plus an optional default.  "First registered matching clause, else default, else panic". *)
From Coq Require Import List ZArith Bool Arith Lia.
From Goom Require Import Model.Stub.
Import ListNotations.
Open Scope Z_scope.

Record sclause := { sc_cond : cond; sc_results : list Z; sc_pos : nat }.   (* sc_pos = number of times selected so far *)
Record sstate := { ss_clauses : list sclause; ss_default : option sclause; ss_nout : nat }.

(* the k-th selection (k = sc_pos, counted from 0) yields element min k (n-1) of the sequence *)
Definition seq_result (c : sclause) : outcome :=
  match sc_cond c with
  | CEmpty => ORet EMPTY
  | _ => match nth_error (sc_results c) (Nat.min (sc_pos c) (length (sc_results c) - 1)) with
         | Some r => ORet r
         | None => OPanic
         end
  end.

Definition bump (c : sclause) : sclause := {| sc_cond := sc_cond c; sc_results := sc_results c; sc_pos := S (sc_pos c) |}.

Fixpoint select (cs : list sclause) (args : list Z) : option (outcome * list sclause) :=
  match cs with
  | [] => None
  | c :: r => if cond_match (sc_cond c) args then Some (seq_result c, bump c :: r)
              else match select r args with
                   | Some (o, r') => Some (o, c :: r')
                   | None => None
                   end
  end.

Definition spec_invoke (s : sstate) (args : list Z) : sstate * outcome :=
  match select (ss_clauses s) args with
  | Some (o, cs') => ({| ss_clauses := cs'; ss_default := ss_default s; ss_nout := ss_nout s |}, o)
  | None =>
    match ss_default s with
    | Some d => ({| ss_clauses := ss_clauses s; ss_default := Some (bump d); ss_nout := ss_nout s |}, seq_result d)
    | None => (s, if Nat.eqb (ss_nout s) 0 then OPanic else ONoSuitable)
    end
  end.

Fixpoint spec_calls (s : sstate) (cs : list (list Z)) : list outcome :=
  match cs with
  | [] => []
  | a :: r => let '(s', o) := spec_invoke s a in o :: spec_calls s' r
  end.

(* ---------- surface syntax of a well-formed configuration ---------- *)
Inductive ckind := KWhen (es : list expr) | KIn (alts : list (list expr)).
Record cclause := { cc_kind : ckind; cc_first : Z; cc_more : list Z }.
Record config := { cf_nout : nat; cf_default : option (Z * list Z); cf_first_when : option (list expr * Z * list Z);
                   cf_clauses : list cclause }.
(* cf_default = Some: mocker.Return(r0).AndReturn(more...) first;
   cf_default = None: mocker.When(es).Return(r).AndReturn(more...) first (cf_first_when), no default;
   then any number of .When(..)/.In(..) clauses, each .Return(r).AndReturn(more...) *)

Definition kind_cond (k : ckind) : cond := match k with KWhen es => CDefault es | KIn alts => CContains alts end.
Definition kind_op (k : ckind) : wop := match k with KWhen es => WWhen es | KIn alts => WIn alts end.

Definition clause_ops (c : cclause) : list wop :=
  kind_op (cc_kind c) :: WReturn (cc_first c) :: map WAndReturn (cc_more c).

Definition configure (cf : config) : whenst :=
  let w0 :=
    match cf_default cf, cf_first_when cf with
    | Some (r0, more), _ => wrun (create_when (cf_nout cf) (CrReturn r0)) (map WAndReturn more)
    | None, Some (es, r, more) => wrun (create_when (cf_nout cf) (CrWhen es)) (WReturn r :: map WAndReturn more)
    | None, None => create_when (cf_nout cf) CrReturns
    end in
  wrun w0 (flat_map clause_ops (cf_clauses cf)).

Definition spec_of (cf : config) : sstate :=
  let first := match cf_default cf, cf_first_when cf with
               | None, Some (es, r, more) => [{| sc_cond := CDefault es; sc_results := r :: more; sc_pos := 0 |}]
               | _, _ => []
               end in
  {| ss_clauses := first ++ map (fun c => {| sc_cond := kind_cond (cc_kind c); sc_results := cc_first c :: cc_more c; sc_pos := 0 |})
                                (cf_clauses cf);
     ss_default := match cf_default cf with
                   | Some (r0, more) => Some {| sc_cond := CAlways; sc_results := r0 :: more; sc_pos := 0 |}
                   | None => if Nat.eqb (cf_nout cf) 0 then Some {| sc_cond := CEmpty; sc_results := []; sc_pos := 0 |} else None
                   end;
     ss_nout := cf_nout cf |}.
