(* C10 -- internal/unexports2: FindFuncByName / FindVarByName over the symbol tables read from the executable file. *)
From Goom Require Import Base.MachineInt.
From Coq Require Import List ZArith Bool Lia.
Import ListNotations.
Open Scope Z_scope.

(* names are abstract identifiers; a table is a list of (name, address in the file) in file order *)
Record symtab := {
  t_readable : bool;                 (* the pclntab / ELF symbols could be read at all *)
  t_funcs : list (Z * Z);            (* gosym.Table.Funcs *)
  t_syms : list (Z * Z)              (* ELF symbols (empty when stripped) *)
}.

Fixpoint first_match (l : list (Z * Z)) (n : Z) : option Z :=
  match l with
  | [] => None
  | (n', a) :: r => if n =? n' then Some a else first_match r n
  end.

Definition lookup_func (t : symtab) (n : Z) : option Z := if t_readable t then first_match (t_funcs t) n else None.
Definition lookup_sym (t : symtab) (n : Z) : option Z := if t_readable t then first_match (t_syms t) n else None.

Section Lookup.
  Variable fn_anchor var_anchor : Z.         (* names of FindFuncByName and stubVar *)
  Variable fn_anchor_mem var_anchor_mem : Z. (* their run-time addresses, taken from the running process itself *)

  (* initAlignmentFunc: both slides stay 0 when the function anchor is missing; the variable slide stays 0 when only
     the variable anchor is missing *)
  Definition alignments (t : symtab) : Z * Z :=
    match lookup_func t fn_anchor with
    | None => (0, 0)
    | Some fe =>
        let fa := wrapu 64 (fn_anchor_mem - fe) in
        match lookup_sym t var_anchor with
        | None => (fa, 0)
        | Some ve => (fa, wrapu 64 (var_anchor_mem - ve))
        end
    end.

  Definition find_func (t : symtab) (n : Z) : option Z :=
    match lookup_func t n with
    | Some e => Some (wrapu 64 (e + fst (alignments t)))
    | None => None
    end.

  Definition find_var (t : symtab) (n : Z) : option Z :=
    match lookup_sym t n with
    | Some e => Some (wrapu 64 (e + snd (alignments t)))
    | None => None
    end.
End Lookup.
