(* C08 -- variable mocks (var.go, ue_var.go, Builder.Var / Builder.UnExportedVar / Builder.Reset).
   Values are opaque ids (the harness maps each variable's candidate values to indices). *)
From Coq Require Import List ZArith Bool Arith Lia.
Import ListNotations.
Open Scope Z_scope.

Record vmocker := { m_var : nat; m_origin : option Z; m_canceled : bool }.

Record vstate := {
  cells : nat -> Z;                       (* variable -> current value *)
  mockers : list vmocker;                 (* mocker id = position *)
  cache : nat -> nat -> option nat;       (* builder -> variable -> mocker id (the builder's map entry) *)
  handles : list nat                      (* handle number -> mocker id (what the caller holds on to) *)
}.

Inductive vop :=
| VLookup (b v : nat)        (* b.Var(&v) / b.UnExportedVar("pkg.v") : the caller receives a new handle *)
| VSet (h : nat) (x : Z)     (* handle.Set(x) and handle.Apply(func() T { return x }) *)
| VCancel (h : nat)          (* handle.Cancel() *)
| VReset (b : nat)           (* b.Reset() *)
| VWrite (v : nat) (x : Z).  (* the program itself assigns the variable (only meaningful while it is not mocked) *)

Definition upd {A} (f : nat -> A) (k : nat) (v : A) : nat -> A := fun x => if Nat.eqb x k then v else f x.

Fixpoint set_nth {A} (n : nat) (l : list A) (x : A) : list A :=
  match l, n with
  | [], _ => []
  | _ :: r, O => x :: r
  | y :: r, S n' => y :: set_nth n' r x
  end.

Definition get_m (s : vstate) (id : nat) : option vmocker := nth_error (mockers s) id.

(* Cancel of one mocker: restore what was saved (if anything), forget it, mark canceled *)
Definition cancel_m (s : vstate) (id : nat) : vstate :=
  match get_m s id with
  | None => s
  | Some m =>
    let cells' := match m_origin m with Some o => upd (cells s) (m_var m) o | None => cells s end in
    {| cells := cells';
       mockers := set_nth id (mockers s) {| m_var := m_var m; m_origin := None; m_canceled := true |};
       cache := cache s; handles := handles s |}
  end.

(* doSet: remember the value only if nothing is remembered yet, then write; a mocker that is set again is live again *)
Definition set_m (s : vstate) (id : nat) (x : Z) : vstate :=
  match get_m s id with
  | None => s
  | Some m =>
    let o := match m_origin m with Some o => Some o | None => Some (cells s (m_var m)) end in
    {| cells := upd (cells s) (m_var m) x;
       mockers := set_nth id (mockers s) {| m_var := m_var m; m_origin := o; m_canceled := false |};
       cache := cache s; handles := handles s |}
  end.

Definition lookup (s : vstate) (b v : nat) : vstate :=
  let fresh :=
    let id := length (mockers s) in
    {| cells := cells s;
       mockers := mockers s ++ [{| m_var := v; m_origin := None; m_canceled := false |}];
       cache := upd (cache s) b (upd (cache s b) v (Some id));
       handles := handles s ++ [id] |} in
  match cache s b v with
  | Some id =>
    match get_m s id with
    | Some m => if m_canceled m then fresh
                else {| cells := cells s; mockers := mockers s; cache := cache s; handles := handles s ++ [id] |}
    | None => fresh
    end
  | None => fresh
  end.

(* Reset cancels every mocker stored in the builder's map (one per variable the builder has seen) *)
Definition reset (nvars : nat) (s : vstate) (b : nat) : vstate :=
  fold_left (fun s v => match cache s b v with Some id => cancel_m s id | None => s end) (seq 0 nvars) s.

Definition vstep (nvars : nat) (s : vstate) (o : vop) : vstate :=
  match o with
  | VLookup b v => lookup s b v
  | VSet h x => match nth_error (handles s) h with Some id => set_m s id x | None => s end
  | VCancel h => match nth_error (handles s) h with Some id => cancel_m s id | None => s end
  | VReset b => reset nvars s b
  | VWrite v x => {| cells := upd (cells s) v x; mockers := mockers s; cache := cache s; handles := handles s |}
  end.

Definition vinit (c0 : nat -> Z) : vstate :=
  {| cells := c0; mockers := []; cache := fun _ _ => None; handles := [] |}.

(* observation after every step: the values of variables 0..nvars-1 *)
Definition observe (nvars : nat) (s : vstate) : list Z := map (cells s) (seq 0 nvars).

Fixpoint vtrace (nvars : nat) (s : vstate) (ops : list vop) : list (list Z) :=
  match ops with
  | [] => []
  | o :: r => let s' := vstep nvars s o in observe nvars s' :: vtrace nvars s' r
  end.

Definition vrun (nvars : nat) (s : vstate) (ops : list vop) : vstate := fold_left (vstep nvars) ops s.

(* ---------- the discipline under which "the value before the first mock" is well defined ---------- *)
Definition is_none {A} (o : option A) : bool := match o with None => true | Some _ => false end.

(* no mocker other than [id] remembers a value for variable v *)
Definition sole_holder (s : vstate) (id v : nat) : bool :=
  forallb (fun p => Nat.eqb (fst p) id || negb (Nat.eqb (m_var (snd p)) v) || is_none (m_origin (snd p)))
          (combine (seq 0 (length (mockers s))) (mockers s)).

(* no mocker at all remembers a value for v *)
Definition holder_free (s : vstate) (v : nat) : bool :=
  forallb (fun m => negb (Nat.eqb (m_var m) v) || is_none (m_origin m)) (mockers s).

Definition ok_op (s : vstate) (o : vop) : bool :=
  match o with
  | VSet h _ => match nth_error (handles s) h with
                | Some id => match get_m s id with Some m => sole_holder s id (m_var m) | None => true end
                | None => true
                end
  | VWrite v _ => holder_free s v
  | _ => true
  end.

(* ghost: base v = the value the program itself last gave to v (initially its initial value) *)
Definition gstep (nvars : nat) (g : vstate * (nat -> Z)) (o : vop) : vstate * (nat -> Z) :=
  (vstep nvars (fst g) o, match o with VWrite v x => upd (snd g) v x | _ => snd g end).

Fixpoint grun (nvars : nat) (g : vstate * (nat -> Z)) (ops : list vop) : option (vstate * (nat -> Z)) :=
  match ops with
  | [] => Some g
  | o :: r => if ok_op (fst g) o then grun nvars (gstep nvars g o) r else None
  end.
