(* C14 -- the function-extent scan (internal/bytecode/func_amd64.go GetFuncSize, minimal = false) and the refusal of
   functions that are too short for the entry jump (internal/patch/jumpdata.go genJumpData), over an abstract instruction
   stream: what the bundled decoder reports at each position. *)
From Coq Require Import List ZArith Bool Lia.
Import ListNotations.
Open Scope Z_scope.

Inductive item :=
| IOrd (len : Z) (prologue_next : bool)   (* an ordinary instruction; prologue_next: the bytes behind it equal funcPrologue *)
| IInt3 (prologue_next : bool)            (* a one-byte INT3 (0xCC): padding between functions *)
| IStop.                                  (* decode error, or the 1-byte pseudo instruction of a lone prefix *)

(* the loop of GetFuncSize: returns the accumulated length *)
Fixpoint scan (int3_found : bool) (cur : Z) (s : list item) : Z :=
  match s with
  | [] => cur                                    (* (the real loop reads on; streams are cut by IStop) *)
  | IStop :: _ => cur
  | IInt3 pn :: r => if pn then cur + 1 else scan true (cur + 1) r
  | IOrd len pn :: r =>
      if int3_found then cur                     (* first real instruction behind a padding run: the next function *)
      else if pn then cur + len else scan false (cur + len) r
  end.

Definition func_size (s : list item) : Z := scan false 0 s.

(* genJumpData: the jump is written only if the scanned size holds it *)
Definition jump_len : Z := 13.
Definition accepts (s : list item) : bool := jump_len <=? func_size s.

(* ---- the reference: the function's own instructions, then its padding *)
Fixpoint body_len (s : list item) : Z :=      (* instructions up to the first INT3 / stop / prologue match *)
  match s with
  | IOrd len pn :: r => if pn then len else len + body_len r
  | _ => 0
  end.

Fixpoint pad_len (s : list item) : Z :=       (* the INT3 run that follows *)
  match s with
  | IInt3 pn :: r => if pn then 1 else 1 + pad_len r
  | _ => 0
  end.

Fixpoint after_body (s : list item) : list item :=
  match s with
  | IOrd len pn :: r => if pn then [] else after_body r
  | _ => s
  end.
