(* C16 -- a static analysis of the decoding program (the table of internal/arch/x86asm/tables.go, regenerated into
   Gen/X86Table.v): abstract states (program counter, number of arguments written, width of the last marked immediate,
   "at least one byte consumed", "ModR/M already read"), their successors under every possible input, and a CHECKER that
   a set of abstract states is closed, safe (no table index out of range, no fifth argument, no internal error, every
   rel8/16/32 argument preceded by a marked immediate of at least that width, xMatch only after a consumed byte) and
   that every transition moves the program counter forward. The set itself is computed by an unverified exploration;
   only the checker is trusted by the proofs (Proofs/X86AbsProofs.v). *)
From Goom Require Import Base.MachineInt Gen.X86Table Model.X86Len.
From Coq Require Import List ZArith Bool Lia FMapPositive.
Import ListNotations.
Open Scope Z_scope.

(* the table as a function: decoder[i] *)
Fixpoint build_tbl (l : list Z) (i : positive) (m : PositiveMap.t Z) : PositiveMap.t Z :=
  match l with [] => m | x :: r => build_tbl r (Pos.succ i) (PositiveMap.add i x m) end.
Definition tbl_of (m : PositiveMap.t Z) (i : Z) : option Z := if i <? 0 then None else PositiveMap.find (Z.to_pos (i + 1)) m.

Record ast := { apc : Z; anarg : Z; aimw : Z; agot : bool; ahm : bool }.

Definition ast_eqb (a b : ast) : bool :=
  (apc a =? apc b) && (anarg a =? anarg b) && (aimw a =? aimw b) && Bool.eqb (agot a) (agot b) && Bool.eqb (ahm a) (ahm b).

Definition key (a : ast) : positive :=
  Z.to_pos (1 + ((((apc a * 5 + anarg a) * 9 + aimw a) * 2 + (if agot a then 1 else 0)) * 2 + (if ahm a then 1 else 0))).

Definition at_pc (a : ast) (p : Z) : ast := {| apc := p; anarg := anarg a; aimw := aimw a; agot := agot a; ahm := ahm a |}.
Definition got (a : ast) : ast := {| apc := apc a; anarg := anarg a; aimw := aimw a; agot := true; ahm := ahm a |}.
Definition with_hm (a : ast) : ast := {| apc := apc a; anarg := anarg a; aimw := aimw a; agot := true; ahm := true |}.
Definition marked (a : ast) (n : Z) : ast :=
  {| apc := apc a; anarg := anarg a; aimw := (if agot a then n else 0); agot := true; ahm := ahm a |}.
Definition add_arg (a : ast) (k : Z) : option (list ast) :=
  if anarg a + k >? 4 then None else Some [ {| apc := apc a; anarg := anarg a + k; aimw := aimw a; agot := agot a; ahm := ahm a |} ].

Section Abs.
  Variable tbl : Z -> option Z.

  Fixpoint pair_targets (n : nat) (p : Z) : option (list Z) :=
    match n with
    | O => Some []
    | S n' => match tbl p, tbl (p + 1) with
              | Some _, Some t => match pair_targets n' (p + 2) with Some l => Some (t :: l) | None => None end
              | _, _ => None
              end
    end.

  Fixpoint all_some (l : list (option Z)) : option (list Z) :=
    match l with
    | [] => Some []
    | Some x :: r => match all_some r with Some xs => Some (x :: xs) | None => None end
    | None :: _ => None
    end.

  Definition jumps (a : ast) (ix : list Z) : option (list ast) :=
    match all_some (map tbl ix) with Some ts => Some (map (at_pc a) ts) | None => None end.

  (* the abstract successors; None = a state from which the Go code could index out of range / report errInternal /
     record a relative field that was not read. The chain of tests is that of X86Len.exec. *)
  Definition aexec (x : Z) (a : ast) : option (list ast) :=
    let p := apc a in
    if x =? x_Fail then Some []
    else if x =? x_Match then (if agot a then Some [] else None)
    else if x =? x_Jump then jumps a [p]
    else if x =? x_CondByte then
      match tbl p with
      | None => None
      | Some n =>
          match pair_targets (Z.to_nat n) (p + 1) with
          | None => None
          | Some ts =>
              let p' := p + 1 + 2 * Z.of_nat (Z.to_nat n) in
              match tbl p' with
              | None => None
              | Some y =>
                  match (if y =? x_Jump then tbl (p' + 1) else Some p') with
                  | None => None
                  | Some p'' =>
                      match tbl p'' with
                      | None => None
                      | Some z => Some ((if z =? x_Fail then got (at_pc a p'') else at_pc a p'') :: map (fun t => got (at_pc a t)) ts)
                      end
                  end
              end
          end
      end
    else if x =? x_CondIs64 then jumps a [p + 1]
    else if x =? x_CondIsMem then jumps a [p; p + 1]
    else if x =? x_CondDataSize then jumps a [p; p + 1; p + 2]
    else if x =? x_CondAddrSize then jumps a [p + 1; p + 2]
    else if x =? x_CondPrefix then
      match tbl p with
      | None => None
      | Some n => match pair_targets (Z.to_nat n) (p + 1) with Some ts => Some (map (at_pc a) ts) | None => None end
      end
    else if x =? x_CondSlashR then jumps a [p; p + 1; p + 2; p + 3; p + 4; p + 5; p + 6; p + 7]
    else if x =? x_ReadSlashR then Some [a]
    else if x =? x_ReadIb then Some [got a]
    else if x =? x_ReadIw then Some [got a]
    else if x =? x_ReadID then Some [got a]
    else if x =? x_ReadIo then Some [got a]
    else if x =? x_ReadCb then Some [marked a 1]
    else if x =? x_ReadCw then Some [marked a 2]
    else if x =? x_ReadCm then Some [marked a 4]
    else if x =? x_ReadCd then Some [marked a 4]
    else if x =? x_ReadCp then Some [marked a 6]
    else if x =? x_SetOp then match tbl p with Some _ => Some [at_pc a (p + 1)] | None => None end
    else if is_in x mem_arg_ops then add_arg a 1
    else if is_in x rm_arg_ops then add_arg a 1
    else if (x =? x_ArgPtr16colon16) || (x =? x_ArgPtr16colon32) then add_arg a 2
    else if x =? x_ArgCR0dashCR7 then add_arg a 1
    else if x =? x_ArgSreg then add_arg a 1
    else if (x =? x_ArgMm2) || (x =? x_ArgXmm2) then add_arg a 1
    else if x =? x_ArgRel8 then (if aimw a >=? 1 then add_arg a 1 else None)
    else if x =? x_ArgRel16 then (if aimw a >=? 2 then add_arg a 1 else None)
    else if x =? x_ArgRel32 then (if aimw a >=? 4 then add_arg a 1 else None)
    else if is_in x plain_arg_ops then add_arg a 1
    else None.

  Definition asucc (a0 : ast) : option (list ast) :=
    match tbl (apc a0) with
    | None => None
    | Some x =>
        let is_m := (x =? x_CondSlashR) || (x =? x_ReadSlashR) in
        if is_m && ahm a0 then None
        else aexec x (if is_m then with_hm (at_pc a0 (apc a0 + 1)) else at_pc a0 (apc a0 + 1))
    end.

  (* ---- the checker *)
  Definition in_set (R : PositiveMap.t ast) (a : ast) : bool :=
    match PositiveMap.find (key a) R with Some b => ast_eqb a b | None => false end.

  (* rk: a ranking of the abstract states that every transition decreases (the program is a DAG, but its jumps are not
     all forward) *)
  Definition state_ok (R : PositiveMap.t ast) (rk : ast -> Z) (a : ast) : bool :=
    (0 <=? anarg a) && (anarg a <=? 4) &&
    match asucc a with
    | None => false
    | Some l => forallb (fun a' => in_set R a' && (0 <=? rk a') && (rk a' <? rk a)) l
    end.

  Definition closed_check (R : PositiveMap.t ast) (rk : ast -> Z) : bool :=
    forallb (fun ka => state_ok R rk (snd ka)) (PositiveMap.elements R).

  Definition rank_of (RK : PositiveMap.t Z) (a : ast) : Z := match PositiveMap.find (key a) RK with Some r => r | None => 0 end.

  (* (unverified) ranks by relaxation: rank a = 1 + max rank of the successors *)
  Definition relax (R : PositiveMap.t ast) (RK : PositiveMap.t Z) : PositiveMap.t Z :=
    fold_left (fun m ka => match asucc (snd ka) with
                           | Some l => PositiveMap.add (fst ka) (1 + fold_left (fun acc a' => Z.max acc (rank_of RK a')) l 0) m
                           | None => m end) (PositiveMap.elements R) RK.
  Fixpoint relax_n (n : nat) (R : PositiveMap.t ast) (RK : PositiveMap.t Z) : PositiveMap.t Z :=
    match n with O => RK | S n' => relax_n n' R (relax R RK) end.

  Definition init_ast : ast := {| apc := 1; anarg := 0; aimw := 0; agot := false; ahm := false |}.

  (* ---- the (unverified) exploration that produces the set *)
  Fixpoint explore (fuel : nat) (work : list ast) (R : PositiveMap.t ast) : (PositiveMap.t ast) + option ast :=
    match fuel with
    | O => inr None
    | S f =>
        match work with
        | [] => inl R
        | a :: w =>
            if PositiveMap.mem (key a) R then explore f w R
            else match asucc a with
                 | None => inr (Some a)
                 | Some l => explore f (l ++ w) (PositiveMap.add (key a) a R)
                 end
        end
    end.
End Abs.
