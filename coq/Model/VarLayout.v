(* C08, layout half -- how the two addressing modes of a variable mock write a value into the variable's words.

   var.go (by pointer): the target is a reflect.Value made from the user's *T, so the STATIC type of the variable is
   known and reflect converts the value to it (an interface variable receives the pair (type word, data word)).
   ue_var.go (by "package.name"): only an address is known; `set` takes the type of the VALUE that arrives boxed in an
   interface{} (reflect.TypeOf(value): its DYNAMIC type) and writes that type's representation at the address
   (reflect.NewAt(dynamicType, addr)).  For a variable whose static type is an interface type the two differ. *)
From Coq Require Import List ZArith Bool Arith Lia.
Import ListNotations.
Open Scope Z_scope.

(* static types by layout class *)
Inductive sty := SWord | SString | SSlice | SIface.   (* 1, 2, 3 words; interface = (type word, data word) *)

(* a boxed Go value: its dynamic (concrete) type is never an interface type *)
Record value := { v_tyword : Z;          (* the word that identifies its dynamic type inside an interface *)
                  v_class : sty;          (* layout class of the dynamic type (never SIface) *)
                  v_rep : list Z;         (* its representation, as many words as its class has *)
                  v_ifdata : Z }.         (* the data word an interface holding it carries (pointer to / the value) *)

Definition words (t : sty) : nat := match t with SWord => 1 | SString => 2 | SSlice => 3 | SIface => 2 end.
Definition wf_value (v : value) : Prop := v_class v <> SIface /\ length (v_rep v) = words (v_class v).

(* what a correct assignment `variable = v` stores, given the variable's static type *)
Definition stored (st : sty) (v : value) : list Z :=
  match st with SIface => [v_tyword v; v_ifdata v] | _ => v_rep v end.

Fixpoint overwrite (mem : list Z) (ws : list Z) : list Z :=
  match ws, mem with
  | [], _ => mem
  | w :: ws', _ :: mem' => w :: overwrite mem' ws'
  | w :: ws', [] => w :: overwrite [] ws'       (* writes past the variable: into whatever follows it *)
  end.

(* Var(&x).Set(v): reflect knows the static type *)
Definition set_by_pointer (st : sty) (mem : list Z) (v : value) : list Z := overwrite mem (stored st v).
(* UnExportedVar("pkg.x").Set(v): the dynamic type's representation at the address *)
Definition set_by_name (mem : list Z) (v : value) : list Z := overwrite mem (v_rep v).

(* a reader of the variable sees its first `words st` words *)
Definition read (st : sty) (mem : list Z) : list Z := firstn (words st) mem.
