(* C18 / C09 -- a universe of Go values and the `equal` cascade of arg/equals.go, Any / Equals / In. *)
From Coq Require Import List ZArith Bool Arith Lia.
Import ListNotations.
Open Scope Z_scope.

Inductive nilk := NPtr | NSlice | NMap | NFunc | NChan.

Inductive gval :=
| VInt (w z : Z)               (* signed integer of width w *)
| VUint (w z : Z)
| VFloat (w bits : Z)          (* IEEE-754 bit pattern *)
| VComplex (re im : Z)
| VString (s : list Z)
| VBool (b : bool)
| VNil (k : nilk)              (* typed nil pointer / slice / map / func / chan *)
| VNilIface                    (* nil interface value *)
| VPtr (addr : Z) (v : gval)   (* non-nil pointer and its pointee *)
| VIface (v : gval)            (* non-nil interface value and what it holds *)
| VStruct (fs : list gval)
| VArray (vs : list gval)
| VSlice (vs : list gval)      (* non-nil slice *)
| VMap (kvs : list (gval * gval))   (* non-nil map, entries sorted by key *)
| VFunc (id : Z)
| VChan (id : Z)
| VOther.

Definition nilk_eqb (a b : nilk) : bool :=
  match a, b with NPtr, NPtr | NSlice, NSlice | NMap, NMap | NFunc, NFunc | NChan, NChan => true | _, _ => false end.

Fixpoint zlist_eqb (a b : list Z) : bool :=
  match a, b with [], [] => true | x :: a', y :: b' => (x =? y) && zlist_eqb a' b' | _, _ => false end.

(* reflect.DeepEqual on same-typed values (ordinary floats: equality of bit patterns) *)
Fixpoint deep_eq (a b : gval) {struct a} : bool :=
  match a, b with
  | VInt w z, VInt w' z' => (w =? w') && (z =? z')
  | VUint w z, VUint w' z' => (w =? w') && (z =? z')
  | VFloat w x, VFloat w' y => (w =? w') && (x =? y)
  | VComplex r i, VComplex r' i' => (r =? r') && (i =? i')
  | VString s, VString s' => zlist_eqb s s'
  | VBool x, VBool y => Bool.eqb x y
  | VNil k, VNil k' => nilk_eqb k k'
  | VNilIface, VNilIface => true
  | VPtr _ v, VPtr _ v' => deep_eq v v'
  | VIface v, VIface v' => deep_eq v v'
  | VStruct fs, VStruct fs' =>
      (fix go (l l' : list gval) : bool :=
         match l, l' with [], [] => true | x :: r, y :: r' => deep_eq x y && go r r' | _, _ => false end) fs fs'
  | VArray fs, VArray fs' =>
      (fix go (l l' : list gval) : bool :=
         match l, l' with [], [] => true | x :: r, y :: r' => deep_eq x y && go r r' | _, _ => false end) fs fs'
  | VSlice fs, VSlice fs' =>
      (fix go (l l' : list gval) : bool :=
         match l, l' with [], [] => true | x :: r, y :: r' => deep_eq x y && go r r' | _, _ => false end) fs fs'
  | VMap kvs, VMap kvs' =>
      (fix go (l l' : list (gval * gval)) : bool :=
         match l, l' with
         | [], [] => true
         | (k, v) :: r, (k', v') :: r' => deep_eq k k' && deep_eq v v' && go r r'
         | _, _ => false
         end) kvs kvs'
  | VFunc _, VFunc _ => false                (* DeepEqual: func values are equal only if both are nil *)
  | VChan i, VChan j => i =? j
  | _, _ => false
  end.

Definition is_nil (v : gval) : bool := match v with VNil _ | VNilIface => true | _ => false end.
Definition deref (v : gval) : gval := match v with VPtr _ x => x | VIface x => x | _ => v end.
Definition is_num (v : gval) : bool := match v with VInt _ _ | VUint _ _ | VFloat _ _ => true | _ => false end.
Definition is_string (v : gval) : bool := match v with VString _ => true | _ => false end.
Definition is_bool (v : gval) : bool := match v with VBool _ => true | _ => false end.

Section Equal.
  (* library behaviour the cascade relies on; each is a Section variable, validated by the harness per run *)
  Variable fmtv : gval -> list Z.                         (* fmt.Sprintf("%v", v) *)
  Variable str_to_float : list Z -> option gval.          (* tryToFloat64 on a string *)
  Variable str_to_number : list Z -> option gval.         (* tryToNumber on a string *)
  Variable to_bool : gval -> option bool.                 (* tryToBool on a non-bool value *)

  Definition try_bool (v : gval) : option bool := match v with VBool b => Some b | _ => to_bool (deref v) end.

  (* numStringEqual: Some answer when one side is a number and the other a string *)
  Definition num_string (l r : gval) : option bool :=
    if is_num l && is_string r then
      match r with VString s => match str_to_float s with Some f => Some (deep_eq l f) | None => Some false end | _ => None end
    else if is_string l && is_num r then
      match l with VString s => match str_to_number s with Some n => Some (deep_eq n r) | None => Some false end | _ => None end
    else None.

  Definition bool_equals (l r : gval) : option bool :=
    if is_bool l || is_bool r then
      match try_bool l, try_bool r with
      | Some x, Some y => Some (Bool.eqb x y)
      | _, _ => Some false
      end
    else None.

  (* arg/equals.go: equal(lhsV, rhsV) *)
  Definition equal (l r : gval) : bool :=
    if is_nil l && is_nil r then true
    else if is_nil l || is_nil r then false
    else
      let l := deref l in
      let r := deref r in
      match num_string l r with
      | Some b => b
      | None =>
        if is_num l && is_num r then zlist_eqb (fmtv l) (fmtv r)
        else match bool_equals l r with
             | Some b => b
             | None => match l, r with
                       | VFunc i, VFunc j => i =? j
                       | _, _ => deep_eq l r
                       end
             end
      end.

  (* expressions (arg/expr.go). A simple expression is Any or Equals; an In expression holds, after Resolve,
     one list of simple expressions per alternative (InExpr.expressions). *)
  Inductive sexpr := SAny | SEq (x : gval).
  Inductive aexpr := AAny | AEquals (x : gval) | AIn (alts : list (list sexpr)).

  Definition seval (e : sexpr) (a : gval) : bool :=
    match e with SAny => true | SEq x => equal x a end.

  (* the inner loop of InExpr.Eval: lengths must agree and every parameter expression must accept its input *)
  Fixpoint all2 (es : list sexpr) (input : list gval) : bool :=
    match es, input with
    | [], [] => true
    | e :: es', a :: input' => seval e a && all2 es' input'
    | _, _ => false
    end.

  (* ExpandVariadic: the last input is the variadic slice *)
  Definition expand_variadic (input : list gval) : list gval :=
    match rev input with
    | [] => input
    | last :: front => rev front ++ match last with VSlice vs => vs | _ => [] end
    end.

  (* Eval: None = the "status error" result *)
  Definition aeval (e : aexpr) (input : list gval) (variadic : bool) : option bool :=
    match e with
    | AAny => Some true
    | AEquals x => match input with [a] => Some (equal x a) | _ => None end
    | AIn alts =>
        let input := if variadic then expand_variadic input else input in
        Some (existsb (fun one => all2 one input) alts)
    end.

  (* InExpr.Resolve for a non-variadic target with ntypes parameters: a plain value becomes the one-element
     alternative [v], a []interface{} its elements; ToExpr rejects an alternative of the wrong length *)
  Inductive inarg := IOne (s : sexpr) | IMany (ss : list sexpr).
  Definition alt_of (a : inarg) : list sexpr := match a with IOne s => [s] | IMany ss => ss end.
  Definition resolve_in (args : list inarg) (ntypes : nat) : option aexpr :=
    if forallb (fun a => Nat.eqb (length (alt_of a)) ntypes) args then Some (AIn (map alt_of args)) else None.
End Equal.

(* the reference the property names: two nils are equal; pointers by pointee; funcs by identity; everything else deep equality *)
Definition go_eq (l r : gval) : bool :=
  if is_nil l && is_nil r then true
  else if is_nil l || is_nil r then false
  else match deref l, deref r with
       | VFunc i, VFunc j => i =? j
       | _, _ => deep_eq (deref l) (deref r)
       end.

(* same (static and dynamic) type: same shape of constructors and widths *)
Fixpoint same_type (a b : gval) {struct a} : bool :=
  match a, b with
  | VInt w _, VInt w' _ => w =? w'
  | VUint w _, VUint w' _ => w =? w'
  | VFloat w _, VFloat w' _ => w =? w'
  | VComplex _ _, VComplex _ _ => true
  | VString _, VString _ => true
  | VBool _, VBool _ => true
  | VNil k, VNil k' => nilk_eqb k k'
  | VNilIface, VNilIface => true
  | VNilIface, VIface _ | VIface _, VNilIface => true
  | VNil NPtr, VPtr _ _ | VPtr _ _, VNil NPtr => true
  | VNil NSlice, VSlice _ | VSlice _, VNil NSlice => true
  | VNil NMap, VMap _ | VMap _, VNil NMap => true
  | VNil NFunc, VFunc _ | VFunc _, VNil NFunc => true
  | VNil NChan, VChan _ | VChan _, VNil NChan => true
  | VPtr _ v, VPtr _ v' => same_type v v'
  | VIface v, VIface v' => same_type v v'
  | VStruct _, VStruct _ | VArray _, VArray _ | VSlice _, VSlice _ | VMap _, VMap _ => true
  | VFunc _, VFunc _ | VChan _, VChan _ => true
  | _, _ => false
  end.

(* concrete library oracles used when the model is EVALUATED against the implementation (vm_compute):
   exact for same-kind numbers; cross-kind coercions (number vs string, bool vs non-bool, int vs float) are
   outside the property's statement and outside the evaluated domain *)
Fixpoint digits_pos (fuel : nat) (n : Z) (acc : list Z) : list Z :=
  match fuel with
  | O => acc
  | S f => if n <? 10 then (48 + n) :: acc else digits_pos f (n / 10) ((48 + n mod 10) :: acc)
  end.
Definition dec (z : Z) : list Z := if z <? 0 then 45 :: digits_pos 25 (- z) [] else digits_pos 25 z [].
Definition fmt_concrete (v : gval) : list Z :=
  match v with
  | VInt _ z => dec z
  | VUint _ z => dec z
  | VFloat w b => 0 :: w :: dec b
  | _ => []
  end.
Definition equal_c : gval -> gval -> bool :=
  equal fmt_concrete (fun _ => None) (fun _ => None) (fun _ => None).
Definition aeval_c := aeval fmt_concrete (fun _ => None) (fun _ => None) (fun _ => None).

(* ordinary values: no NaN, no negative zero anywhere (floats then compare by bit pattern) *)
Definition ordinary_float (w b : Z) : bool :=
  if w =? 64 then negb (b =? 9223372036854775808) && negb ((2047 =? (b / 4503599627370496) mod 2048) && negb (b mod 4503599627370496 =? 0))
  else negb (b =? 2147483648) && negb ((255 =? (b / 8388608) mod 256) && negb (b mod 8388608 =? 0)).
