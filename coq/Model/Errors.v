(* C13 -- decision rules of the configuration checks, the cause chain of erro values, and the
   check-before-write order of the apply pipeline. *)
From Coq Require Import List ZArith Bool Arith Lia String.
Import ListNotations.
Open Scope Z_scope.

(* ---------- signature check (internal/patch/signature.go) : sizes of parameters and results ---------- *)
Record sig := { s_ins : list Z; s_outs : list Z }.
Inductive sigres := SigOk | SigArgsLen | SigRetsLen | SigArgSize (i : nat) | SigRetSize (i : nat).

Fixpoint first_size_diff (i : nat) (a b : list Z) : option nat :=
  match a, b with
  | x :: a', y :: b' => if x =? y then first_size_diff (S i) a' b' else Some i
  | _, _ => None
  end.

Definition sig_equals (a b : sig) : sigres :=
  if negb (Nat.eqb (List.length (s_ins a)) (List.length (s_ins b))) then SigArgsLen
  else if negb (Nat.eqb (List.length (s_outs a)) (List.length (s_outs b))) then SigRetsLen
  else match first_size_diff 0 (s_ins a) (s_ins b) with
       | Some i => SigArgSize i
       | None => match first_size_diff 0 (s_outs a) (s_outs b) with
                 | Some i => SigRetSize i
                 | None => SigOk
                 end
       end.

(* ---------- interface callbacks (internal/proxy/interface.go: checkInterfaceImp) ----------
   the callback's first parameter is the *IContext; what follows is compared with the method slot by slot *)
Definition iface_imp_check (method imp : sig) : sigres :=
  match s_ins imp with
  | [] => SigArgsLen
  | _ctx :: rest => sig_equals method {| s_ins := rest; s_outs := s_outs imp |}
  end.

(* ---------- checkParams (when.go): counts of condition arguments and return values ---------- *)
Inductive cpres := CpOk | CpReturnsNotMatch | CpArgsNotMatch.
(* args / returns = Some n when a list of n values was given, None when not specified *)
Definition check_params (nin nout : nat) (is_method : bool) (args returns : option nat) : cpres :=
  match returns with
  | Some r => if Nat.ltb r nout then CpReturnsNotMatch else
              match args with
              | Some a => if Nat.ltb (a + (if is_method then 1 else 0)) nin then CpArgsNotMatch else CpOk
              | None => CpOk
              end
  | None => match args with
            | Some a => if Nat.ltb (a + (if is_method then 1 else 0)) nin then CpArgsNotMatch else CpOk
            | None => CpOk
            end
  end.

(* ---------- cause chains (erro/traceable.go) ---------- *)
Inductive err := Err (ty : string) (cause : option err).
Definition err_ty (e : err) : string := match e with Err t _ => t end.

Section Chain.
  Variable traceable_tab : list (string * bool).   (* which types implement Traceable: regenerated from the source *)

  Definition is_traceable (t : string) : bool :=
    match find (fun p => String.eqb (fst p) t) traceable_tab with Some p => snd p | None => false end.

  (* erro.Cause: only a Traceable hands out its cause *)
  Definition cause (e : err) : option err :=
    match e with Err t c => if is_traceable t then c else None end.

  Fixpoint chain (fuel : nat) (e : err) : list string :=
    match fuel with
    | O => []
    | S f => err_ty e :: match cause e with Some c => chain f c | None => [] end
    end.
End Chain.

(* ---------- the apply pipeline: which stages check, which write the executable image ---------- *)
Inductive stage := StSigCheck | StUnpatchOld | StSizeCheck | StCaptureSentinel | StBuildTramp | StWriteJump.

Definition stage_of_call (c : string) : option stage :=
  if String.eqb c "SignatureEquals" then Some StSigCheck
  else if String.eqb c "unpatchValue" then Some StUnpatchOld
  else if String.eqb c "genJumpData" then Some StSizeCheck
  else if String.eqb c "checkAndReadOriginBytes" then Some StCaptureSentinel
  else if String.eqb c "fixOrigin" then Some StBuildTramp
  else if String.eqb c "Apply" then Some StWriteJump
  else None.

(* does a stage that RAN TO COMPLETION change the text image?  (unpatching writes only if the target was mocked before) *)
Definition writes_text (mocked_before : bool) (s : stage) : bool :=
  match s with
  | StUnpatchOld => mocked_before
  | StBuildTramp | StWriteJump => true
  | _ => false
  end.

(* a call rejected at stage number [k]: the stages before it completed, stage k itself failed before writing *)
Definition image_changed_when_rejected_at (mocked_before : bool) (pipeline : list stage) (k : nat) : bool :=
  existsb (writes_text mocked_before) (firstn k pipeline).

Definition is_check (s : stage) : bool :=
  match s with StSigCheck | StSizeCheck | StCaptureSentinel | StBuildTramp => true | _ => false end.

(* the whole pipeline as assembled from the call orders of patchValue / replaceFunc / applyByFunc *)
Definition pipeline_of (patch_value replace_func apply_by : list string) : list stage :=
  flat_map (fun c => if String.eqb c "unsafePatchValue"
                     then flat_map (fun d => match stage_of_call d with Some s => [s] | None => [] end) replace_func
                     else match stage_of_call c with Some s => [s] | None => [] end) patch_value
  ++ flat_map (fun c => match stage_of_call c with Some StWriteJump => [StWriteJump] | _ => [] end) apply_by.
