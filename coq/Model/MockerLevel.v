(* C12 -- the mocker level (builder.go, cache.go, mocker.go): lookups through a builder's cache, Apply / Return /
   When..Return / Cancel / Reset / Pkg, and what a target does when it is called.  Reuses the When model of Stub.v. *)
From Coq Require Import List ZArith Bool Arith Lia.
From Goom Require Import Model.Stub.
Import ListNotations.
Open Scope Z_scope.

Inductive imp := ICallback (k : Z) | IStub (mid : nat).

Record mk := { k_target : nat; k_when : option whenst; k_canceled : bool }.

Record mstate := {
  installed : nat -> option imp;          (* target -> what its entry jump currently leads to *)
  mks : list mk;                          (* mocker id = position *)
  mcache : nat -> nat -> option nat;      (* builder -> target -> mocker id *)
  mhandles : list nat;                    (* handle -> mocker id *)
  mpkg : nat -> option Z                  (* builder -> pending Pkg override *)
}.

Inductive mop :=
| MLookup (b t : nat)              (* b.Func(f) / b.Struct(x).Method(m): a new handle *)
| MApply (h : nat) (k : Z)         (* handle.Apply(callback k) *)
| MReturn (h : nat) (r : Z)        (* handle.Return(r) *)
| MWhen (h : nat) (v r : Z)        (* handle.When(v).Return(r) *)
| MCancel (h : nat)
| MReset (b : nat)
| MPkg (b : nat) (p : Z)           (* b.Pkg(p) *)
| MVarLookup (b : nat)             (* b.Var(..): a lookup that does not consult the package *)
| MRejected (h : nat).             (* an instruction through handle h that goom refuses (ill-formed callback / values): it
                                      panics before anything is installed or forgotten (defect F12d was Apply forgetting the
                                      When of the mock that stays installed) *)

Definition upd {A} (f : nat -> A) (k : nat) (v : A) : nat -> A := fun x => if Nat.eqb x k then v else f x.

Fixpoint set_nth {A} (n : nat) (l : list A) (x : A) : list A :=
  match l, n with
  | [], _ => []
  | _ :: r, O => x :: r
  | y :: r, S n' => y :: set_nth n' r x
  end.

Definition with_mk (s : mstate) (id : nat) (m : mk) (inst : nat -> option imp) : mstate :=
  {| installed := inst; mks := set_nth id (mks s) m; mcache := mcache s; mhandles := mhandles s; mpkg := mpkg s |}.

Definition m_lookup (s : mstate) (b t : nat) : mstate :=
  let consume := upd (mpkg s) b None in
  let fresh :=
    let id := length (mks s) in
    {| installed := installed s; mks := mks s ++ [{| k_target := t; k_when := None; k_canceled := false |}];
       mcache := upd (mcache s) b (upd (mcache s b) t (Some id)); mhandles := mhandles s ++ [id]; mpkg := consume |} in
  match mcache s b t with
  | Some id =>
    match nth_error (mks s) id with
    | Some m => if k_canceled m then fresh
                else {| installed := installed s; mks := mks s; mcache := mcache s; mhandles := mhandles s ++ [id]; mpkg := consume |}
    | None => fresh
    end
  | None => fresh
  end.

Definition m_cancel (s : mstate) (id : nat) : mstate :=
  match nth_error (mks s) id with
  | Some m => with_mk s id {| k_target := k_target m; k_when := None; k_canceled := true |} (upd (installed s) (k_target m) None)
  | None => s
  end.

Definition m_reset (ntargets : nat) (s : mstate) (b : nat) : mstate :=
  fold_left (fun s t => match mcache s b t with Some id => m_cancel s id | None => s end) (seq 0 ntargets) s.

Definition mstep (ntargets : nat) (s : mstate) (o : mop) : mstate :=
  match o with
  | MLookup b t => m_lookup s b t
  | MApply h k =>
      match nth_error (mhandles s) h with
      | Some id => match nth_error (mks s) id with
                   | Some m => with_mk s id {| k_target := k_target m; k_when := None; k_canceled := false |}
                                       (upd (installed s) (k_target m) (Some (ICallback k)))
                   | None => s
                   end
      | None => s
      end
  | MReturn h r =>
      match nth_error (mhandles s) h with
      | Some id => match nth_error (mks s) id with
                   | Some m =>
                     match k_when m with
                     | Some w => with_mk s id {| k_target := k_target m; k_when := Some (wstep w (WReturn r)); k_canceled := k_canceled m |} (installed s)
                     | None => with_mk s id {| k_target := k_target m; k_when := Some (create_when 1 (CrReturn r)); k_canceled := false |}
                                       (upd (installed s) (k_target m) (Some (IStub id)))
                     end
                   | None => s
                   end
      | None => s
      end
  | MWhen h v r =>
      match nth_error (mhandles s) h with
      | Some id => match nth_error (mks s) id with
                   | Some m =>
                     match k_when m with
                     | Some w => with_mk s id {| k_target := k_target m; k_when := Some (wstep (wstep w (WWhen [EEq v])) (WReturn r)); k_canceled := k_canceled m |} (installed s)
                     | None => with_mk s id {| k_target := k_target m; k_when := Some (wstep (create_when 1 (CrWhen [EEq v])) (WReturn r)); k_canceled := false |}
                                       (upd (installed s) (k_target m) (Some (IStub id)))
                     end
                   | None => s
                   end
      | None => s
      end
  | MCancel h => match nth_error (mhandles s) h with Some id => m_cancel s id | None => s end
  | MReset b => m_reset ntargets s b
  | MPkg b p => {| installed := installed s; mks := mks s; mcache := mcache s; mhandles := mhandles s; mpkg := upd (mpkg s) b (Some p) |}
  | MVarLookup b => s
  | MRejected _ => s
  end.

Definition minit : mstate :=
  {| installed := fun _ => None; mks := []; mcache := fun _ _ => None; mhandles := []; mpkg := fun _ => None |}.

(* what a call of target t with argument a does: -1000 = the original runs; 500+k = callback k; else the stub's answer.
   A probe call advances the stub's cursors. *)
Inductive pout := POriginal | PCallback (k : Z) | PStub (o : outcome).

Definition probe (s : mstate) (t : nat) (a : Z) : mstate * pout :=
  match installed s t with
  | None => (s, POriginal)
  | Some (ICallback k) => (s, PCallback k)
  | Some (IStub id) =>
    match nth_error (mks s) id with
    | Some m =>
      match k_when m with
      | Some w => let '(w', o) := invoke w [a] in
                  (with_mk s id {| k_target := k_target m; k_when := Some w'; k_canceled := k_canceled m |} (installed s), PStub o)
      | None => (s, PStub ONoSuitable)
      end
    | None => (s, PStub ONoSuitable)
    end
  end.

(* a history step: an operation followed by probe calls of every target with arguments 0,1,2 *)
Definition probes (ntargets : nat) (s : mstate) : mstate * list pout :=
  fold_left (fun acc ta => let '(s, outs) := acc in let '(s', o) := probe s (fst ta) (snd ta) in (s', outs ++ [o]))
            (flat_map (fun t => [(t, 0); (t, 1); (t, 2)]) (seq 0 ntargets)) (s, []).

Fixpoint mtrace (ntargets nbuilders : nat) (s : mstate) (ops : list mop) : list (list pout * list (option Z)) :=
  match ops with
  | [] => []
  | o :: r => let s1 := mstep ntargets s o in
              let '(s2, outs) := probes ntargets s1 in
              (outs, map (mpkg s2) (seq 0 nbuilders)) :: mtrace ntargets nbuilders s2 r
  end.

(* ---------- the last-writer-wins reference ---------- *)
Inductive linstr := LNone | LApply (k : Z) | LStub (mid : nat).

Definition ref_step (ntargets : nat) (s : mstate) (last : nat -> linstr) (o : mop) : nat -> linstr :=
  match o with
  | MApply h k => match nth_error (mhandles s) h with
                  | Some id => match nth_error (mks s) id with Some m => upd last (k_target m) (LApply k) | None => last end
                  | None => last end
  | MReturn h _ | MWhen h _ _ =>
                  match nth_error (mhandles s) h with
                  | Some id => match nth_error (mks s) id with Some m => upd last (k_target m) (LStub id) | None => last end
                  | None => last end
  | MCancel h => match nth_error (mhandles s) h with
                 | Some id => match nth_error (mks s) id with Some m => upd last (k_target m) LNone | None => last end
                 | None => last end
  | MReset b => fun t => match mcache s b t with Some _ => LNone | None => last t end
  | _ => last
  end.
