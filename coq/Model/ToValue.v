(* C09 -- arg/value.go: toValue / cast / I2V / V2I over an abstract universe of Go types.
   toValue consults only: identity of types, Kind, Size, reflect's assignability (for boxing) and the one special
   type *iface.IContext. A type is therefore (identity, kind, size); a supplied value is (dynamic type, payload id,
   nil-ness). *)
From Coq Require Import List ZArith Bool Arith Lia.
Import ListNotations.
Open Scope Z_scope.

Inductive kind := KBool | KInt | KUint | KFloat | KComplex | KString | KPtr | KIface | KSlice | KMap | KChan | KFunc
                | KStruct | KArray | KUnsafePtr.

Definition kind_eqb (a b : kind) : bool :=
  match a, b with
  | KBool, KBool | KInt, KInt | KUint, KUint | KFloat, KFloat | KComplex, KComplex | KString, KString
  | KPtr, KPtr | KIface, KIface | KSlice, KSlice | KMap, KMap | KChan, KChan | KFunc, KFunc
  | KStruct, KStruct | KArray, KArray | KUnsafePtr, KUnsafePtr => true
  | _, _ => false
  end.

Record gtype := { t_id : Z; t_kind : kind; t_size : Z }.
Definition ty_eqb (a b : gtype) : bool := t_id a =? t_id b.

(* a non-nil interface{} handed to Return/When: dynamic type, payload identity, whether it is a typed nil *)
Record gvalue := { v_ty : gtype; v_payload : Z; v_nil : bool }.

(* what toValue produces (a reflect.Value) *)
Inductive rvalue :=
| RZero (ty : gtype)                                  (* reflect.Zero of ty *)
| RVal (ty : gtype) (payload : Z) (isnil : bool)      (* the supplied data, typed ty *)
| RBoxed (ity dyn : gtype) (payload : Z) (isnil : bool). (* interface value of type ity holding (dyn, payload) *)

Inductive outcome := Ok (r : rvalue) | Err | Panic.

Definition rtype (r : rvalue) : gtype :=
  match r with RZero ty => ty | RVal ty _ _ => ty | RBoxed ity _ _ _ => ity end.

(* kinds for which toValue turns an untyped nil into the typed zero value (arg/value.go) *)
Definition nil_ok (k : kind) : bool :=
  match k with KIface | KPtr | KSlice | KMap | KArray | KChan | KFunc => true | _ => false end.

(* the kinds the property names *)
Definition nilable (k : kind) : bool :=
  match k with KIface | KPtr | KSlice | KMap | KChan | KFunc => true | _ => false end.

Definition struct_or_ptr (k : kind) : bool := match k with KStruct | KPtr => true | _ => false end.

Section ToValue.
  Variable icontext_id : Z.                       (* identity of *iface.IContext *)
  Variable assignable : gtype -> gtype -> bool.   (* reflect: may a value of the first type be stored in the second (an interface type) *)

  Definition to_value (r : option gvalue) (out : gtype) : outcome :=
    match r with
    | None => if nil_ok (t_kind out) then Ok (RZero out) else Panic   (* v.Type() on the zero Value *)
    | Some v =>
        let ty := v_ty v in
        let needs_cast := negb (ty_eqb ty out) && struct_or_ptr (t_kind out) in
        if needs_cast && negb (t_size ty =? t_size out) then Err else
        let ty1 := if needs_cast then out else ty in
        if kind_eqb (t_kind ty1) KPtr && (t_id ty1 =? icontext_id) then Panic
        else if kind_eqb (t_kind out) KIface then
          (if ty_eqb ty1 out || assignable ty1 out then Ok (RBoxed out ty1 (v_payload v) (v_nil v)) else Panic)
        else if negb (t_size ty1 =? t_size out) then Err
        else Ok (RVal ty1 (v_payload v) (v_nil v))
    end.

  (* I2V: arity check, per-position type (the last type repeats; element type for the variadic tail), first error wins *)
  Definition type_at (types : list gtype) (elem_of_last : gtype) (variadic : bool) (i : nat) : option gtype :=
    if Nat.ltb (S i) (length types) then nth_error types i
    else if variadic then Some elem_of_last else nth_error types (length types - 1).

  Fixpoint convert_all (objs : list (option gvalue)) (tys : list (option gtype)) : option (list rvalue) + bool :=
    (* inl (Some vs) = ok, inr false = error, inr true = panic *)
    match objs, tys with
    | [], _ => inl (Some [])
    | o :: objs', Some t :: tys' =>
        match to_value o t with
        | Ok v => match convert_all objs' tys' with inl (Some vs) => inl (Some (v :: vs)) | other => other end
        | Err => inr false
        | Panic => inr true
        end
    | _ :: _, _ => inr true      (* types[len-1] with no types: index out of range *)
    end.

  Definition arity_ok (nobjs ntypes : nat) (variadic : bool) : bool :=
    if variadic then Nat.leb (ntypes - 1) nobjs else Nat.eqb nobjs ntypes.

  Definition i2v (objs : list (option gvalue)) (types : list gtype) (elem_of_last : gtype) (variadic : bool)
    : option (list rvalue) + bool :=
    if negb (arity_ok (length objs) (length types) variadic) then inr false
    else convert_all objs (map (type_at types elem_of_last variadic) (seq 0 (length objs))).

  (* what the caller of the stubbed function receives: reflect.MakeFunc refuses a result whose type is not the declared one *)
  Inductive received := Got (r : rvalue) | CallPanics.
  Definition deliver (r : rvalue) (out : gtype) : received :=
    if ty_eqb (rtype r) out then Got r else CallPanics.

  (* V2I: zero pointer / interface results become untyped nil *)
  Definition is_zero (r : rvalue) : bool :=
    match r with RZero _ => true | RVal _ _ n => n | RBoxed _ _ _ _ => false end.
  Inductive iface_back := BNil | BVal (r : rvalue).
  Definition v2i_one (r : rvalue) (ty : gtype) : iface_back :=
    if (kind_eqb (t_kind ty) KIface || kind_eqb (t_kind ty) KPtr) && is_zero r then BNil else BVal r.
End ToValue.
