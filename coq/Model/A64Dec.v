(* C17 -- internal/arch/arm64asm: first-match decoding over the instruction-format table, and the PC-relative label
   arguments goom's arm64 function scans depend on (B, BL, B.cond, CBZ/CBNZ, TBZ/TBNZ, ADR, ADRP). *)
From Goom Require Import Base.MachineInt.
From Coq Require Import List ZArith Bool Lia String.
Import ListNotations.
Open Scope Z_scope.

Definition fmt := (Z * Z * string * list string * string)%type.
Definition f_mask (f : fmt) : Z := fst (fst (fst (fst f))).
Definition f_value (f : fmt) : Z := snd (fst (fst (fst f))).
Definition f_op (f : fmt) : string := snd (fst (fst f)).
Definition f_args (f : fmt) : list string := snd (fst f).
Definition f_cd (f : fmt) : string := snd f.

Definition matches (f : fmt) (x : Z) : bool := Z.land x (f_mask f) =? f_value f.

(* the formats whose bit pattern admits x, in table order *)
Fixpoint first_pattern (tbl : list fmt) (i : nat) (x : Z) : option (nat * fmt) :=
  match tbl with
  | [] => None
  | f :: r => if matches f x then Some (i, f) else first_pattern r (S i) x
  end.

(* two formats can never both admit a word: some bit is fixed by both, to different values *)
Definition disjoint (f g : fmt) : bool :=
  negb (Z.land (Z.land (f_mask f) (f_mask g)) (Z.lxor (f_value f) (f_value g)) =? 0).

(* sign extension of the low n bits *)
Definition sext (n x : Z) : Z := let m := x mod 2 ^ n in if m <? 2 ^ (n - 1) then m else m - 2 ^ n.

(* the label arguments (decodeArg): the Go code computes ((int64(field) << a) << b) >> b *)
Definition field (x lo n : Z) : Z := (Z.shiftr x lo) mod 2 ^ n.
Definition label_imm26 (x : Z) : Z := sext 28 (field x 0 26 * 4).
Definition label_imm19 (x : Z) : Z := sext 21 (field x 5 19 * 4).
Definition label_imm14 (x : Z) : Z := sext 16 (field x 5 14 * 4).
Definition label_adr (x : Z) : Z := sext 21 (field x 5 19 * 4 + field x 29 2).
Definition label_adrp (x : Z) : Z := sext 33 ((field x 5 19 * 4 + field x 29 2) * 4096).

Definition label_of (kind : string) (x : Z) : option Z :=
  if String.eqb kind "arg_slabel_imm26_2" then Some (label_imm26 x)
  else if String.eqb kind "arg_slabel_imm19_2" then Some (label_imm19 x)
  else if String.eqb kind "arg_slabel_imm14_2" then Some (label_imm14 x)
  else if String.eqb kind "arg_slabel_immhi_immlo_0" then Some (label_adr x)
  else if String.eqb kind "arg_slabel_immhi_immlo_12" then Some (label_adrp x)
  else None.

(* argument kinds that decodeArg always decodes (registers, condition, the bit number of TBZ/TBNZ) *)
Definition always_decodable (kind : string) : bool :=
  existsb (String.eqb kind) ["arg_Xd"; "arg_Wt"; "arg_Xt"; "arg_conditional"; "arg_immediate_0_63_b5_b40"; "arg_Rt_31_1__W_0__X_1";
                             "arg_slabel_imm26_2"; "arg_slabel_imm19_2"; "arg_slabel_imm14_2";
                             "arg_slabel_immhi_immlo_0"; "arg_slabel_immhi_immlo_12"]%string.

Definition simple_format (f : fmt) : bool := String.eqb (f_cd f) "nil" && forallb always_decodable (f_args f).

(* the result goom's scans look at: opcode name and the PC-relative displacement (first label argument) *)
Definition decode_branch (tbl : list fmt) (x : Z) : option (string * option Z) :=
  match first_pattern tbl 0 x with
  | Some (_, f) =>
      if simple_format f then
        Some (f_op f, match filter (fun k => match label_of k x with Some _ => true | None => false end) (f_args f) with
                      | k :: _ => label_of k x
                      | [] => None
                      end)
      else None      (* not a format this model speaks about *)
  | None => None
  end.
