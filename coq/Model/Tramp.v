(* C03 -- internal/patch/fix_addr_amd64.go (fixRelativeAddr, fixBlock, fixIns, checkJumpBetween) and
   internal/bytecode/addr.go (EncodeAddress) over a decoded instruction stream.
   An instruction is what goom's decoder reports about it: its bytes split at the PC-relative field
   (pre = prefixes/opcode/ModRM..., the displacement field of width w, post = trailing immediate), whether its
   Opcode field is zero, whether it prints as RET, or that decoding fails at this position. *)
From Goom Require Import Base.MachineInt.
From Coq Require Import List ZArith Bool Lia.
Import ListNotations.
Open Scope Z_scope.

Record dins := {
  d_pre : list Z;          (* bytes before the PC-relative field (all bytes when there is none) *)
  d_w : Z;                 (* width of the PC-relative field: 0 (none), 1, 2, 4 or 8 *)
  d_disp : Z;              (* signed value of the field *)
  d_post : list Z;         (* bytes after the field *)
  d_opzero : bool;         (* decoder's Opcode field is 0 *)
  d_isret : bool;          (* prints as "RET" *)
  d_bad : bool             (* decoding fails here (ParseIns returns an error) *)
}.

Definition disp_bytes (w d : Z) : list Z := bytes_le (Z.to_nat w) (wrapu (8 * w) d).
Definition d_bytes (i : dins) : list Z := d_pre i ++ disp_bytes (d_w i) (d_disp i) ++ d_post i.
Definition d_len (i : dins) : Z := lenZ (d_pre i) + d_w i + lenZ (d_post i).

Fixpoint lookup_expand (tbl : list (Z * list Z)) (k : Z) : option (list Z) :=
  match tbl with
  | [] => None
  | (k', v) :: r => if k =? k' then Some v else lookup_expand r k
  end.

Section Tramp.
  Variable op_expand : list (Z * list Z).          (* bytecode.opExpand, regenerated from the source *)

  (* bytecode.isInt32Overflow on an int64 (the sums below stay far inside 64 bits for |val| < 2^32, |add| < 2^63) *)
  Definition int32_overflow (v : Z) : bool := if v >? 0 then v >? 2147483647 else v <? -2147483648.

  (* bytecode.EncodeAddress(ops, addr, addrLen, val, add): None = panic *)
  Definition encode_address (ops : list Z) (w val add : Z) : option (list Z) :=
    if w =? 1 then
      let v := wraps 32 (wraps 32 (wraps 8 val) + wraps 32 add) in
      if negb ((if v >? 0 then v >? 127 else v <? -128)) then
        Some (ops ++ [wrapu 8 (wraps 8 val + add)])
      else match lookup_expand op_expand (nthZ ops 0) with
           | Some ops_new =>
               if int32_overflow (wraps 8 val + add - 3 - (lenZ ops_new - lenZ ops)) then None else
               Some (ops_new ++ bytes_le 4 (wrapu 32 (wraps 32 (wraps 32 (wraps 32 (wraps 32 (wraps 8 val) + wraps 32 add) - 3)
                                                              - wraps 32 (lenZ ops_new - lenZ ops)))))
           | None => None
           end
    else if w =? 2 then
      let v := wraps 32 (wraps 32 (wraps 8 val) + wraps 32 add) in
      if negb ((if v >? 0 then v >? 32767 else v <? -32768)) then
        Some (ops ++ bytes_le 2 (wrapu 16 (wraps 16 val + wraps 16 add)))
      else match lookup_expand op_expand (Z.shiftl (nthZ ops 0) 16 + nthZ ops 1) with
           | Some ops_new =>
               Some (ops_new ++ bytes_le 4 (wrapu 32 (wraps 32 (wraps 32 (wraps 32 (wraps 32 (wraps 8 val) + wraps 32 add) - 2)
                                                              - wraps 32 (lenZ ops_new - lenZ ops)))))
           | None => None
           end
    else if w =? 4 then
      if int32_overflow (val + add) then None else Some (ops ++ bytes_le 4 (wrapu 32 (wraps 32 val + wraps 32 add)))
    else if w =? 8 then Some (ops ++ bytes_le 8 (wrapu 64 (val + add)))
    else None.

  Inductive fixres (A : Type) := FOk (a : A) | FErr | FPanic.
  Arguments FOk {A}. Arguments FErr {A}. Arguments FPanic {A}.

  (* fixIns: pos = offset of the instruction in the function, block_size = limit outside of which targets are re-encoded,
     delta = from - trampoline (minus the growth so far when tracked) *)
  Definition fix_ins (i : dins) (pos block_size delta : Z) : fixres (list Z) :=
    if d_w i <=? 0 then FOk (d_bytes i)
    else
      let addr := d_disp i in
      let tgt := addr + pos + d_len i in
      if ((addr >? 0) && (tgt >=? block_size)) || ((addr <? 0) && (tgt <? 0)) then
        match encode_address (d_pre i) (d_w i) addr delta with
        | None => FPanic
        | Some r => if lenZ r >? d_w i then FOk (r ++ d_post i) else FOk (d_bytes i)
        end
      else FOk (d_bytes i).

  (* innerTarget: the target of a PC-relative instruction that fixIns leaves as it is *)
  Definition inner_target (i : dins) (pos block_size : Z) : option Z :=
    if d_w i <=? 0 then None
    else
      let addr := d_disp i in
      let tgt := addr + pos + d_len i in
      if ((addr >? 0) && (tgt >=? block_size)) || ((addr <? 0) && (tgt <? 0)) then None else Some tgt.

  Fixpoint pm_lookup (pm : list (Z * Z)) (k : Z) : option Z :=
    match pm with [] => None | (k', v) :: r => if k =? k' then Some v else pm_lookup r k end.

  (* checkInnerRefs: every kept relative reference into the copied range still spans the same distance *)
  Definition check_inner_refs (refs : list (Z * Z * Z)) (pm : list (Z * Z)) (copied : Z) : bool :=
    forallb (fun r => let '(old_end, tgt, new_end) := r in
                      if tgt >? copied then true
                      else match pm_lookup pm tgt with
                           | Some nt => nt - new_end =? tgt - old_end
                           | None => false
                           end) refs.

  (* fixBlock: returns (fixed bytes, size). pm maps old positions to new ones (the latest entry for a key wins),
     refs collects the kept inner references *)
  Fixpoint fix_block (is : list dins) (pos : Z) (acc : list Z) (pm : list (Z * Z)) (refs : list (Z * Z * Z))
           (least block_size delta : Z) : fixres (list Z * Z) :=
    match is with
    | [] => if check_inner_refs refs ((pos, lenZ acc) :: pm) pos then FOk (acc, lenZ acc) else FErr
    | i :: rest =>
        if d_bad i then FPanic else
        let r := if d_opzero i then FOk (acc, pm, refs)
                 else match fix_ins i pos block_size (delta - (lenZ acc - pos)) with
                      | FOk bs =>
                          let acc' := acc ++ bs in
                          FOk (acc', (pos, lenZ acc) :: pm,
                               match inner_target i pos block_size with
                               | Some t => refs ++ [(pos + d_len i, t, lenZ acc')]
                               | None => refs
                               end)
                      | FErr => FErr | FPanic => FPanic end in
        match r with
        | FOk (acc', pm', refs') =>
            let pos' := pos + d_len i in
            if (least >? 0) && (pos' >=? least) then
              match rest with
              | [] => if check_inner_refs refs' ((pos', lenZ acc') :: pm') pos' then FOk (acc', lenZ acc') else FErr
              | nxt :: _ =>
                  if d_bad nxt then FPanic
                  else if negb (d_isret nxt) then
                    (if check_inner_refs refs' ((pos', lenZ acc') :: pm') pos' then FOk (acc', pos') else FErr)
                  else fix_block rest pos' acc' pm' refs' least block_size delta
              end
            else fix_block rest pos' acc' pm' refs' least block_size delta
        | FErr => FErr
        | FPanic => FPanic
        end
    end.

  (* checkJumpBetween: an instruction anywhere in the function whose target lies strictly inside (0, to) *)
  Fixpoint check_jump_between (is : list dins) (pos to func_size : Z) : fixres unit :=
    match is with
    | [] => FOk tt
    | i :: rest =>
        if pos >? func_size then FOk tt
        else if d_bad i then FPanic
        else if d_w i <=? 0 then check_jump_between rest (pos + d_len i) to func_size
        else
          let t := d_disp i + pos + d_len i in
          if (t <? to) && (t >? 0) then FErr
          else check_jump_between rest (pos + d_len i) to func_size
    end.

  (* fixRelativeAddr *)
  Definition fix_relative_addr (is : list dins) (from tramp func_size least : Z) : fixres (list Z * Z) :=
    let delta := wraps 64 (from - tramp) in
    match fix_block is 0 [] [] [] least func_size delta with
    | FOk (_, size) =>
        match check_jump_between is 0 size func_size with
        | FOk _ => match fix_block is 0 [] [] [] size size delta with
                   | FOk (data, _) => FOk (data, size)
                   | FErr => FErr | FPanic => FPanic
                   end
        | FErr => FErr
        | FPanic => FPanic
        end
    | FErr => FErr
    | FPanic => FPanic
    end.
End Tramp.

Arguments FOk {A}. Arguments FErr {A}. Arguments FPanic {A}.
