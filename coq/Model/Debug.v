(* C19 -- debug.go: the wrapper interceptDebugInfo puts around a callback (imp variant: reflect.MakeFunc + Call /
   CallSlice; pFunc variant: direct call), followed by rendering of arguments and results with arg.SprintV. *)
From Coq Require Import List ZArith Bool Arith Lia.
Import ListNotations.
Open Scope Z_scope.

(* what SprintV looks at: validity of the reflect.Value, kind pointer/interface, zero-ness *)
Inductive lval :=
| LInvalid                      (* the zero reflect.Value: Interface() panics on it *)
| LNilPtr | LNilIface
| LPtr (id : Z) | LIface (id : Z)
| LSlice (elems : list Z)       (* the variadic tail arrives as one slice *)
| LOther (id : Z).

Inductive res := Ret (rs : list lval) | Pan (p : Z).

(* a replacement with observable state (the calls it has seen) *)
Definition callee (S : Type) := S -> list lval -> S * res.

Inductive callform := CCall | CCallSlice.
Definition reflect_panic : Z := -1.
Definition log_panic : Z := -2.

(* reflect.Value.Call / CallSlice applied to the original callback with the parameters MakeFunc delivered
   (for a variadic type the last parameter is already the slice) *)
Definition reflect_invoke {S} (variadic : bool) (form : callform) (f : callee S) (st : S) (ps : list lval) : S * res :=
  match form, variadic with
  | CCall, false => f st ps
  | CCallSlice, true => f st ps
  | CCall, true => (st, Pan reflect_panic)        (* Call would wrap the slice into another slice: type mismatch *)
  | CCallSlice, false => (st, Pan reflect_panic)  (* CallSlice of a non-variadic function *)
  end.

Definition choose_form (variadic : bool) : callform := if variadic then CCallSlice else CCall.

(* arg.SprintV: "nil" for zero pointers / interfaces, otherwise fmt of a.Interface(); None = it panics *)
Section Sprint.
  Variable fmt_ok : lval -> bool.     (* fmt.Sprintf("%v", x) returns (library behaviour, explored by the harness) *)
  Definition sprint_one (a : lval) : bool :=
    match a with
    | LNilPtr | LNilIface => true           (* guarded: rendered as "nil" without calling Interface() *)
    | LInvalid => false                     (* Interface() on the zero Value panics *)
    | _ => fmt_ok a
    end.
  Definition sprint_v (vs : list lval) : bool := forallb sprint_one vs.

  (* interceptDebugInfo, imp variant *)
  Definition intercept {S} (debug excluded variadic : bool) (f : callee S) : callee S :=
    if debug then
      fun st ps =>
        match reflect_invoke variadic (choose_form variadic) f st ps with
        | (st', Ret rs) =>
            if excluded then (st', Ret rs)
            else if sprint_v ps && sprint_v rs then (st', Ret rs) else (st', Pan log_panic)
        | (st', Pan p) => (st', Pan p)
        end
    else f.

  (* pFunc variant (interface mocks with When): a plain call of the original PFunc, then the same logging *)
  Definition intercept_pfunc {S} (debug excluded : bool) (f : callee S) : callee S :=
    if debug then
      fun st ps =>
        match f st ps with
        | (st', Ret rs) =>
            if excluded then (st', Ret rs)
            else if sprint_v ps && sprint_v rs then (st', Ret rs) else (st', Pan log_panic)
        | (st', Pan p) => (st', Pan p)
        end
    else f.

  (* a sequence of calls through a replacement: final state and the results/panics the callers saw *)
  Fixpoint run_calls {S} (f : callee S) (st : S) (calls : list (list lval)) : S * list res :=
    match calls with
    | [] => (st, [])
    | ps :: rest => let '(st', r) := f st ps in let '(st'', rs) := run_calls f st' rest in (st'', r :: rs)
    end.
End Sprint.

Definition valid (a : lval) : bool := match a with LInvalid => false | _ => true end.
