(* C14 -- memory.WriteTo as a sequence of atomic steps over byte memory and per-page permissions. *)
From Goom Require Import Base.MachineInt.
Open Scope Z_scope.

Record perm := { p_r : bool; p_w : bool; p_x : bool }.
Definition perm_of (prot : Z) : perm :=
  {| p_r := Z.testbit prot 0; p_w := Z.testbit prot 1; p_x := Z.testbit prot 2 |}.   (* PROT_READ=1 WRITE=2 EXEC=4 *)

Record mem := { bytes : Z -> Z; perms : Z -> perm }.   (* perms is indexed by page start address *)

Inductive wstep := Mprot (page : Z) (prot : Z) | Copy (addr : Z) (data : list Z).

(* the structure of WriteTo as extracted from the source: mprotect pass with a protection, the copy, ... *)
Inductive wkind := SProt (prot : Z) | SCopy.
Definition writeto_shape : list wkind := [SProt 7; SCopy; SProt 5].

Definition page_start (ps addr : Z) : Z := addr - addr mod ps.

(* the loop of mProtectCrossPage: p := PageStart(addr); p < addr+len; p += pagesize *)
Fixpoint pages_from (fuel : nat) (ps p bound : Z) : list Z :=
  match fuel with
  | O => []
  | S f => if p <? bound then p :: pages_from f ps (p + ps) bound else []
  end.

Definition pages_of (ps addr len : Z) : list Z :=
  pages_from (Z.to_nat (len / ps + 2)) ps (page_start ps addr) (addr + len).

Definition steps_of (ps addr : Z) (data : list Z) (shape : list wkind) : list wstep :=
  flat_map (fun k => match k with
                     | SProt prot => map (fun p => Mprot p prot) (pages_of ps addr (lenZ data))
                     | SCopy => [Copy addr data]
                     end) shape.

Fixpoint write_bytes (f : Z -> Z) (a : Z) (d : list Z) : Z -> Z :=
  match d with
  | [] => f
  | b :: r => write_bytes (fun x => if x =? a then b else f x) (a + 1) r
  end.

Definition apply_step (m : mem) (s : wstep) : mem :=
  match s with
  | Mprot p prot => {| bytes := bytes m; perms := fun q => if q =? p then perm_of prot else perms m q |}
  | Copy a d => {| bytes := write_bytes (bytes m) a d; perms := perms m |}
  end.

(* all intermediate states, first = initial, last = final *)
Fixpoint trace (m : mem) (ss : list wstep) : list mem :=
  match ss with
  | [] => [m]
  | s :: r => m :: trace (apply_step m s) r
  end.

Definition run_steps (m : mem) (ss : list wstep) : mem := fold_left apply_step ss m.

Definition write_to (ps : Z) (m : mem) (addr : Z) (data : list Z) : mem :=
  run_steps m (steps_of ps addr data writeto_shape).

(* the fallback writer memory.writeTo (mwrite_prot.go), taken when mprotect(RWX) is refused (macOS, W^X policies):
   pages become read+WRITE (no EXEC) for the copy, then read+exec *)
Definition fallback_shape : list wkind := [SProt 3; SCopy; SProt 5].
Definition write_to_fallback (ps : Z) (m : mem) (addr : Z) (data : list Z) : mem :=
  run_steps m (steps_of ps addr data fallback_shape).

