(* Stubbing DSL (when.go, matcher.go, mocker.go): When objects with shared matcher ids, cursors, invoke.
   Values are opaque ids compared by equality (the per-kind equality itself is C18's model). A call is the
   receiver-stripped, variadic-flattened argument list; a result is the id of a result tuple. *)
From Coq Require Import List ZArith Bool Arith Lia.
Import ListNotations.
Open Scope Z_scope.

Inductive expr := EAny | EEq (v : Z) | EIn (vs : list Z).

Inductive cond :=
| CDefault (es : list expr)              (* When(e1..en): DefaultMatcher, one expression per argument *)
| CContains (alts : list (list expr))    (* When.In(alt1..altk): ContainsMatcher, a list of alternatives *)
| CAlways                                (* default results *)
| CEmpty.                                (* function without results *)

Record matcher := { m_cond : cond; m_results : list Z; m_cur : nat }.

Record whenst := {
  w_store : list matcher;        (* matcher id = position; goom shares matcher pointers, hence ids *)
  w_matches : list nat;          (* the w.matches slice (may contain an id more than once) *)
  w_default : option nat;        (* w.defaultReturns *)
  w_cur : option nat;            (* w.curMatch *)
  w_nout : nat                   (* number of results of the target's type *)
}.

Inductive outcome := ORet (r : Z) | ONoSuitable | OPanic.
Definition EMPTY : Z := -1.    (* the empty result tuple of a result-less function *)

Definition eval_expr (e : expr) (a : Z) : bool :=
  match e with
  | EAny => true
  | EEq v => v =? a
  | EIn vs => existsb (fun v => v =? a) vs
  end.

Fixpoint eval_all (es : list expr) (args : list Z) : bool :=
  match es, args with
  | [], [] => true
  | e :: es', a :: args' => eval_expr e a && eval_all es' args'
  | _, _ => false
  end.

Definition cond_match (c : cond) (args : list Z) : bool :=
  match c with
  | CDefault es => eval_all es args
  | CContains alts => existsb (fun es => eval_all es args) alts
  | CAlways => true
  | CEmpty => true
  end.

(* BaseMatcher.Result (sequential reading): returns the result and the new cursor *)
Definition result (m : matcher) : outcome * nat :=
  match m_cond m with
  | CEmpty => (ORet EMPTY, m_cur m)
  | _ =>
    let n := length (m_results m) in
    if (n <=? 1)%nat then
      match nth_error (m_results m) (m_cur m) with
      | Some r => (ORet r, m_cur m)
      | None => (OPanic, m_cur m)            (* index out of range *)
      end
    else if (n <=? m_cur m)%nat then
      (match nth_error (m_results m) (n - 1) with Some r => ORet r | None => OPanic end, m_cur m)
    else
      (match nth_error (m_results m) (m_cur m) with Some r => ORet r | None => OPanic end, S (m_cur m))
  end.

Fixpoint set_nth {A} (n : nat) (l : list A) (x : A) : list A :=
  match l, n with
  | [], _ => []
  | _ :: r, O => x :: r
  | y :: r, S n' => y :: set_nth n' r x
  end.

Definition with_store (w : whenst) (st : list matcher) : whenst :=
  {| w_store := st; w_matches := w_matches w; w_default := w_default w; w_cur := w_cur w; w_nout := w_nout w |}.

Definition fire (w : whenst) (id : nat) : whenst * outcome :=
  match nth_error (w_store w) id with
  | Some m => let '(o, c) := result m in
              (with_store w (set_nth id (w_store w) {| m_cond := m_cond m; m_results := m_results m; m_cur := c |}), o)
  | None => (w, OPanic)
  end.

Definition matches_id (w : whenst) (args : list Z) (id : nat) : bool :=
  match nth_error (w_store w) id with Some m => cond_match (m_cond m) args | None => false end.

(* When.invoke *)
Definition invoke (w : whenst) (args : list Z) : whenst * outcome :=
  match find (matches_id w args) (w_matches w) with
  | Some id => fire w id
  | None =>
    match w_default w with
    | Some id => fire w id
    | None => (w, if Nat.eqb (w_nout w) 0 then OPanic else ONoSuitable)
    end
  end.

(* ---------- configuration operations on a When ---------- *)
Inductive wop :=
| WWhen (es : list expr)          (* .When(...) *)
| WIn (alts : list (list expr))   (* .In(...) *)
| WReturn (r : Z)                 (* .Return(...) *)
| WAndReturn (r : Z).             (* .AndReturn(...) ; Returns(v1..vn) = Return v1; AndReturn v2.. *)

Definition push (w : whenst) (m : matcher) : whenst * nat :=
  ({| w_store := w_store w ++ [m]; w_matches := w_matches w; w_default := w_default w; w_cur := w_cur w;
      w_nout := w_nout w |}, length (w_store w)).

Definition add_result (w : whenst) (id : nat) (r : Z) : whenst :=
  match nth_error (w_store w) id with
  | Some m => with_store w (set_nth id (w_store w)
                 {| m_cond := m_cond m; m_results := m_results m ++ [r]; m_cur := m_cur m |})
  | None => w
  end.

Definition wstep (w : whenst) (o : wop) : whenst :=
  match o with
  | WWhen es =>
      let '(w', id) := push w {| m_cond := CDefault es; m_results := []; m_cur := 0 |} in
      {| w_store := w_store w'; w_matches := w_matches w'; w_default := w_default w'; w_cur := Some id; w_nout := w_nout w' |}
  | WIn alts =>
      let '(w', id) := push w {| m_cond := CContains alts; m_results := []; m_cur := 0 |} in
      {| w_store := w_store w'; w_matches := w_matches w'; w_default := w_default w'; w_cur := Some id; w_nout := w_nout w' |}
  | WReturn r =>
      match w_cur w with
      | Some id =>
          let w1 := add_result w id r in
          {| w_store := w_store w1; w_matches := w_matches w1 ++ [id]; w_default := w_default w1; w_cur := w_cur w1; w_nout := w_nout w1 |}
      | None =>
          match w_default w with
          | Some d => add_result w d r
          | None =>
              let '(w', id) := push w {| m_cond := CAlways; m_results := [r]; m_cur := 0 |} in
              {| w_store := w_store w'; w_matches := w_matches w'; w_default := Some id; w_cur := w_cur w'; w_nout := w_nout w' |}
          end
      end
  | WAndReturn r =>
      match w_cur w with
      | Some id => add_result w id r
      | None =>
          match w_default w with
          | Some d => add_result w d r
          | None =>
              let '(w', id) := push w {| m_cond := CAlways; m_results := [r]; m_cur := 0 |} in
              {| w_store := w_store w'; w_matches := w_matches w'; w_default := Some id; w_cur := w_cur w'; w_nout := w_nout w' |}
          end
      end
  end.

(* CreateWhen(m, funcDef, args, defaultReturns): how mocker.Return(r) / mocker.When(es) create the When *)
Inductive create := CrReturn (r : Z) | CrWhen (es : list expr) | CrReturns.

Definition create_when (nout : nat) (c : create) : whenst :=
  let empty := {| w_store := []; w_matches := []; w_default := None; w_cur := None; w_nout := nout |} in
  let base :=
    match c with
    | CrReturn r =>
        {| w_store := [{| m_cond := CAlways; m_results := [r]; m_cur := 0 |}]; w_matches := [];
           w_default := Some 0%nat; w_cur := Some 0%nat; w_nout := nout |}
    | _ =>
        if Nat.eqb nout 0
        then {| w_store := [{| m_cond := CEmpty; m_results := []; m_cur := 0 |}]; w_matches := [];
                w_default := Some 0%nat; w_cur := Some 0%nat; w_nout := nout |}
        else empty
    end in
  match c with
  | CrWhen es =>
      let '(w', id) := push base {| m_cond := CDefault es; m_results := []; m_cur := 0 |} in
      {| w_store := w_store w'; w_matches := w_matches w'; w_default := w_default w'; w_cur := Some id; w_nout := nout |}
  | _ => base
  end.

Definition wrun (w : whenst) (ops : list wop) : whenst := fold_left wstep ops w.

Fixpoint calls (w : whenst) (cs : list (list Z)) : list outcome :=
  match cs with
  | [] => []
  | a :: r => let '(w', o) := invoke w a in o :: calls w' r
  end.
