(* Hand-written reference encoders for the jump sequences goom emits (C15, C01, C03).
   Tied to the source by Tie/JumpTie.v (Gen = Model) and by the correspondence run of check C15. *)
From Goom Require Import Base.MachineInt.
Open Scope Z_scope.

(* amd64: MOVABS RDX, to ; JMP [RDX] *)
Definition abs_jump_rdx (to : Z) : list Z := [72; 186] ++ bytes_le 8 to ++ [255; 34].
(* the entry patch: NOP sentinel first *)
Definition entry_jump (to : Z) : list Z := 144 :: abs_jump_rdx to.

(* JMP rel32: the displacement d counts from the end of the 5-byte instruction *)
Definition rel_disp (from to : Z) : Z := wraps 64 (wrapu 64 (to - from - 5)).
Definition rel_fits (from to : Z) : bool :=
  (- 2147483648 <=? rel_disp from to) && (rel_disp from to <=? 2147483647).
Definition rel_jump (from to : Z) : list Z := 233 :: bytes_le 4 (wrapu 32 (to - from - 5)).

(* JMP [RIP+0] followed by the destination as an inline 8-byte literal: the far form of the trampoline return
   (its destination is a CODE address, so the function-value form above would jump to the bytes stored there) *)
Definition abs_jump_rip (to : Z) : list Z := [255; 37; 0; 0; 0; 0] ++ bytes_le 8 to.

Definition origin_jump (from to : Z) : list Z :=
  if rel_fits from to then rel_jump from to else abs_jump_rip to.
(* the form goom emitted before the repair F15b *)
Definition origin_jump_pre_repair (from to : Z) : list Z :=
  if rel_fits from to then rel_jump from to else abs_jump_rdx to.

(* i386: MOV EDX, to ; JMP [EDX] *)
Definition abs_jump_edx (to : Z) : list Z := [186] ++ bytes_le 4 to ++ [255; 34].

(* arm64 *)
Definition mov_word (opc hw imm : Z) : Z :=
  26 + imm * 32 + hw * 2097152 + 310378496 + opc * 536870912 + 2147483648.
Definition a64_lane (x k : Z) : Z := (x / 2 ^ (16 * k)) mod 65536.
Definition a64_load_addr (x : Z) : list Z :=
  bytes_le 4 (mov_word 2 0 (a64_lane x 0)) ++ bytes_le 4 (mov_word 3 1 (a64_lane x 1)) ++
  bytes_le 4 (mov_word 3 2 (a64_lane x 2)) ++ bytes_le 4 (mov_word 3 3 (a64_lane x 3)).
Definition a64_jump (tmp : Z) (x : Z) : list Z :=
  a64_load_addr x ++ bytes_le 4 (4181721088 + 26 * 32 + tmp) ++ bytes_le 4 (3592355840 + tmp * 32).
