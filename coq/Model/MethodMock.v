(* C06 -- method mocks: a method is patched at the code address its (type, receiver kind, name) resolves to
   (reflect's method table for exported methods, the symbol table for unexported ones, the shared shape body for
   instantiations of generic types). *)
From Coq Require Import List ZArith Bool Lia.
Import ListNotations.
Open Scope Z_scope.

Inductive beh := Original (m : nat) | Mocked (r : nat).

(* what a call observes: which code ran, with which receiver and argument *)
Inductive obs := RanOriginal (m : nat) (recv x : Z) | RanReplacement (r : nat) (recv x : Z).

Fixpoint assoc (l : list (Z * nat)) (a : Z) : option nat :=
  match l with [] => None | (a', r) :: t => if a =? a' then Some r else assoc t a end.

Fixpoint remove_addr (l : list (Z * nat)) (a : Z) : list (Z * nat) :=
  match l with [] => [] | (a', r) :: t => if a =? a' then remove_addr t a else (a', r) :: remove_addr t a end.

Section Methods.
  Variable resolve : nat -> Z.        (* method id -> the code address goom patches for it *)

  Definition behaviour (patched : list (Z * nat)) (m : nat) : beh :=
    match assoc patched (resolve m) with Some r => Mocked r | None => Original m end.

  (* a call of method m on the instance whose receiver word is recv: the entry jump leaves every argument register
     untouched (C15 / C01), so the replacement is entered with the receiver as its first argument *)
  Definition call (patched : list (Z * nat)) (m : nat) (recv x : Z) : obs :=
    match behaviour patched m with
    | Mocked r => RanReplacement r recv x
    | Original m' => RanOriginal m' recv x
    end.

  Definition apply_mock (patched : list (Z * nat)) (m r : nat) : list (Z * nat) :=
    (resolve m, r) :: remove_addr patched (resolve m).
  Definition cancel_mock (patched : list (Z * nat)) (m : nat) : list (Z * nat) := remove_addr patched (resolve m).
End Methods.

(* generic types: an instantiation resolves to the body of its GC shape *)
Definition resolve_generic (shape_of : nat -> nat) (body : nat -> Z) (inst : nat) : Z := body (shape_of inst).
