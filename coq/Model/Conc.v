(* C11 -- threads, mutexes and accesses to shared locations; the lock discipline goom relies on. *)
From Coq Require Import List Arith Bool Lia.
Import ListNotations.

Inductive ev := Acq (l : nat) | Rel (l : nat) | Acc (loc : nat) (write : bool).

Section Conc.
  Variable protects : nat -> nat.          (* shared location -> the mutex that guards it *)

  (* a thread's remaining program is well locked w.r.t. the set of mutexes it holds *)
  Fixpoint wl (held : list nat) (p : list ev) : bool :=
    match p with
    | [] => true
    | Acq l :: r => negb (existsb (Nat.eqb l) held) && wl (l :: held) r
    | Rel l :: r => existsb (Nat.eqb l) held && wl (filter (fun x => negb (Nat.eqb l x)) held) r
    | Acc loc _ :: r => existsb (Nat.eqb (protects loc)) held && wl held r
    end.

  Record thread := { t_held : list nat; t_prog : list ev }.
  Record cstate := { threads : list thread; owner : nat -> option nat }.

  Definition set_thread (ts : list thread) (i : nat) (t : thread) : list thread :=
    firstn i ts ++ t :: skipn (S i) ts.

  (* one step of thread i: a mutex can only be taken when it is free *)
  Inductive cstep : cstate -> cstate -> Prop :=
  | SAcq s i t l r : nth_error (threads s) i = Some t -> t_prog t = Acq l :: r -> owner s l = None ->
      cstep s {| threads := set_thread (threads s) i {| t_held := l :: t_held t; t_prog := r |};
                 owner := fun x => if Nat.eqb x l then Some i else owner s x |}
  | SRel s i t l r : nth_error (threads s) i = Some t -> t_prog t = Rel l :: r -> owner s l = Some i ->
      cstep s {| threads := set_thread (threads s) i {| t_held := filter (fun x => negb (Nat.eqb l x)) (t_held t); t_prog := r |};
                 owner := fun x => if Nat.eqb x l then None else owner s x |}
  | SAcc s i t loc w r : nth_error (threads s) i = Some t -> t_prog t = Acc loc w :: r ->
      cstep s {| threads := set_thread (threads s) i {| t_held := t_held t; t_prog := r |}; owner := owner s |}.

  Inductive creach : cstate -> cstate -> Prop :=
  | CRefl s : creach s s
  | CStep s s1 s2 : creach s s1 -> cstep s1 s2 -> creach s s2.

  Definition init_state (progs : list (list ev)) : cstate :=
    {| threads := map (fun p => {| t_held := []; t_prog := p |}) progs; owner := fun _ => None |}.
End Conc.
