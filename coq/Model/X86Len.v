(* C16 -- the length / PC-relative skeleton of internal/arch/x86asm/decode.go (decode1, mode 64, gnuCompat = false):
   prefix scan, REX / VEX, the interpreter of the decoding program (tables.go), ModR/M - SIB - displacement,
   immediates, and the PCRel / PCRelOff bookkeeping added for goom. Every array access of the Go code is explicit:
   an out-of-range index is the outcome RPanic. The decoding program and the numbering of its operations come from
   the REGENERATED Gen/X86Table.v. *)
From Goom Require Import Base.MachineInt Gen.X86Table.
From Coq Require Import List ZArith Bool Lia.
Import ListNotations.
Open Scope Z_scope.

Inductive result :=
| ROk (len opcode op pcrel pcreloff : Z)      (* a decoded instruction *)
| RPrefix                                      (* instPrefix: a 1-byte pseudo instruction, no error (also 'truncated') *)
| RTruncated                                   (* empty input: ErrTruncated, Len 0 *)
| RUnrecognized (len : Z)                      (* ErrUnrecognized, Len = pos *)
| RInternal (len : Z)                          (* errInternal, Len = pos *)
| RPanic                                       (* an index out of range in the Go code *)
| RFuel.                                       (* the interpreter did not stop within the given number of steps *)

Record st := {
  pos : Z;
  (* prefixes *)
  has_lock : bool; rep : Z (* 0 = none, else the last F2/F3 byte *); seg : Z (* 0 = none, else the last 64/65 byte *);
  has_data : bool; has_addr : bool; nprefix : Z;
  rex : Z; vex : Z; vex1 : Z; vex2 : Z;
  data_mode : Z; addr_mode : Z;
  (* ModR/M *)
  have_modrm : bool; modrm : Z; md : Z; regop : Z; rm : Z; have_mem : bool; riprel : bool;
  displen : Z; dispoff : Z;
  immcpos : Z;
  (* output *)
  opshift : Z; opcode : Z; op : Z; narg : Z; pcrel : Z; pcreloff : Z;
  pc : Z
}.

Definition byte_at (src : list Z) (i : Z) : Z := nth (Z.to_nat i) src 0.
Definition lenZs (src : list Z) : Z := Z.of_nat (length src).

Definition is_in (x : Z) (l : list Z) : bool := existsb (Z.eqb x) l.

Definition legacy_prefix (b : Z) : bool := is_in b [240; 242; 243; 38; 46; 54; 62; 100; 101; 102; 103].

Definition set_pos (s : st) (p : Z) : st :=
  {| pos := p; has_lock := has_lock s; rep := rep s; seg := seg s; has_data := has_data s; has_addr := has_addr s; nprefix := nprefix s;
     rex := rex s; vex := vex s; vex1 := vex1 s; vex2 := vex2 s; data_mode := data_mode s; addr_mode := addr_mode s;
     have_modrm := have_modrm s; modrm := modrm s; md := md s; regop := regop s; rm := rm s; have_mem := have_mem s; riprel := riprel s;
     displen := displen s; dispoff := dispoff s; immcpos := immcpos s; opshift := opshift s; opcode := opcode s; op := op s;
     narg := narg s; pcrel := pcrel s; pcreloff := pcreloff s; pc := pc s |}.

Definition set_pc (s : st) (p : Z) : st :=
  {| pos := pos s; has_lock := has_lock s; rep := rep s; seg := seg s; has_data := has_data s; has_addr := has_addr s; nprefix := nprefix s;
     rex := rex s; vex := vex s; vex1 := vex1 s; vex2 := vex2 s; data_mode := data_mode s; addr_mode := addr_mode s;
     have_modrm := have_modrm s; modrm := modrm s; md := md s; regop := regop s; rm := rm s; have_mem := have_mem s; riprel := riprel s;
     displen := displen s; dispoff := dispoff s; immcpos := immcpos s; opshift := opshift s; opcode := opcode s; op := op s;
     narg := narg s; pcrel := pcrel s; pcreloff := pcreloff s; pc := p |}.

(* the opcode accumulator: a byte is or-ed in at opshift while opshift >= 0 *)
Definition push_opcode (s : st) (b : Z) : st :=
  if opshift s >=? 0 then
    {| pos := pos s; has_lock := has_lock s; rep := rep s; seg := seg s; has_data := has_data s; has_addr := has_addr s; nprefix := nprefix s;
       rex := rex s; vex := vex s; vex1 := vex1 s; vex2 := vex2 s; data_mode := data_mode s; addr_mode := addr_mode s;
       have_modrm := have_modrm s; modrm := modrm s; md := md s; regop := regop s; rm := rm s; have_mem := have_mem s; riprel := riprel s;
       displen := displen s; dispoff := dispoff s; immcpos := immcpos s;
       opshift := opshift s - 8; opcode := Z.lor (opcode s) (Z.shiftl b (opshift s)); op := op s;
       narg := narg s; pcrel := pcrel s; pcreloff := pcreloff s; pc := pc s |}
  else s.

Definition with_out (s : st) (o na pr po : Z) : st :=
  {| pos := pos s; has_lock := has_lock s; rep := rep s; seg := seg s; has_data := has_data s; has_addr := has_addr s; nprefix := nprefix s;
     rex := rex s; vex := vex s; vex1 := vex1 s; vex2 := vex2 s; data_mode := data_mode s; addr_mode := addr_mode s;
     have_modrm := have_modrm s; modrm := modrm s; md := md s; regop := regop s; rm := rm s; have_mem := have_mem s; riprel := riprel s;
     displen := displen s; dispoff := dispoff s; immcpos := immcpos s; opshift := opshift s; opcode := opcode s; op := o;
     narg := na; pcrel := pr; pcreloff := po; pc := pc s |}.

Definition with_regop (s : st) (r : Z) : st :=
  {| pos := pos s; has_lock := has_lock s; rep := rep s; seg := seg s; has_data := has_data s; has_addr := has_addr s; nprefix := nprefix s;
     rex := rex s; vex := vex s; vex1 := vex1 s; vex2 := vex2 s; data_mode := data_mode s; addr_mode := addr_mode s;
     have_modrm := have_modrm s; modrm := modrm s; md := md s; regop := r; rm := rm s; have_mem := have_mem s; riprel := riprel s;
     displen := displen s; dispoff := dispoff s; immcpos := immcpos s; opshift := opshift s; opcode := opcode s; op := op s;
     narg := narg s; pcrel := pcrel s; pcreloff := pcreloff s; pc := pc s |}.

Definition with_immcpos (s : st) (p : Z) : st :=
  {| pos := pos s; has_lock := has_lock s; rep := rep s; seg := seg s; has_data := has_data s; has_addr := has_addr s; nprefix := nprefix s;
     rex := rex s; vex := vex s; vex1 := vex1 s; vex2 := vex2 s; data_mode := data_mode s; addr_mode := addr_mode s;
     have_modrm := have_modrm s; modrm := modrm s; md := md s; regop := regop s; rm := rm s; have_mem := have_mem s; riprel := riprel s;
     displen := displen s; dispoff := dispoff s; immcpos := p; opshift := opshift s; opcode := opcode s; op := op s;
     narg := narg s; pcrel := pcrel s; pcreloff := pcreloff s; pc := pc s |}.

(* ---------------------------------------------------------------- prefixes (mode 64) *)
(* returns the state after the prefix scan, or an early result *)
Fixpoint scan_prefixes (fuel : nat) (src : list Z) (s : st) : st + result :=
  match fuel with
  | O => inl s                                 (* cannot happen: at most 15 bytes *)
  | S f =>
      let p := pos s in
      if p >=? lenZs src then inl s            (* ran off the end: nprefix stays as it is *)
      else
        let b := byte_at src p in
        let upd (lk : bool) (rp sg : Z) (hd ha : bool) (dm am : Z) : st :=
          {| pos := p + 1; has_lock := lk; rep := rp; seg := sg; has_data := hd; has_addr := ha; nprefix := nprefix s;
             rex := rex s; vex := vex s; vex1 := vex1 s; vex2 := vex2 s; data_mode := dm; addr_mode := am;
             have_modrm := have_modrm s; modrm := modrm s; md := md s; regop := regop s; rm := rm s; have_mem := have_mem s; riprel := riprel s;
             displen := displen s; dispoff := dispoff s; immcpos := immcpos s; opshift := opshift s; opcode := opcode s; op := op s;
             narg := narg s; pcrel := pcrel s; pcreloff := pcreloff s; pc := pc s |} in
        let stop : st + result :=
          inl {| pos := p; has_lock := has_lock s; rep := rep s; seg := seg s; has_data := has_data s; has_addr := has_addr s; nprefix := p;
                 rex := rex s; vex := vex s; vex1 := vex1 s; vex2 := vex2 s; data_mode := data_mode s; addr_mode := addr_mode s;
                 have_modrm := have_modrm s; modrm := modrm s; md := md s; regop := regop s; rm := rm s; have_mem := have_mem s; riprel := riprel s;
                 displen := displen s; dispoff := dispoff s; immcpos := immcpos s; opshift := opshift s; opcode := opcode s; op := op s;
                 narg := narg s; pcrel := pcrel s; pcreloff := pcreloff s; pc := pc s |} in
        if legacy_prefix b then
          (* inst.Prefix[pos] = p is preceded by the bound test against len(inst.Prefix) = 14 *)
          if p >=? 14 then inr RPrefix
          else
            scan_prefixes f src
              (if b =? 240 then upd true (rep s) (seg s) (has_data s) (has_addr s) (data_mode s) (addr_mode s)
               else if (b =? 242) || (b =? 243) then upd (has_lock s) b (seg s) (has_data s) (has_addr s) (data_mode s) (addr_mode s)
               else if (b =? 100) || (b =? 101) then upd (has_lock s) (rep s) b (has_data s) (has_addr s) (data_mode s) (addr_mode s)
               else if b =? 102 then upd (has_lock s) (rep s) (seg s) true (has_addr s) 16 (addr_mode s)
               else if b =? 103 then upd (has_lock s) (rep s) (seg s) (has_data s) true (data_mode s) 32
               else upd (has_lock s) (rep s) (seg s) (has_data s) (has_addr s) (data_mode s) (addr_mode s))   (* 26 2E 36 3E: ignored in 64-bit mode *)
        else if b =? 197 then       (* C5: two-byte VEX, only as the very first byte *)
          if (p =? 0) && (p + 1 <? lenZs src) then
            scan_prefixes f src
              {| pos := p + 2; has_lock := has_lock s; rep := rep s; seg := seg s; has_data := has_data s; has_addr := has_addr s; nprefix := nprefix s;
                 rex := rex s; vex := 197; vex1 := byte_at src (p + 1); vex2 := vex2 s; data_mode := data_mode s; addr_mode := addr_mode s;
                 have_modrm := have_modrm s; modrm := modrm s; md := md s; regop := regop s; rm := rm s; have_mem := have_mem s; riprel := riprel s;
                 displen := displen s; dispoff := dispoff s; immcpos := immcpos s; opshift := opshift s; opcode := opcode s; op := op s;
                 narg := narg s; pcrel := pcrel s; pcreloff := pcreloff s; pc := pc s |}
          else stop
        else if b =? 196 then       (* C4: three-byte VEX *)
          if (p =? 0) && (p + 2 <? lenZs src) then
            scan_prefixes f src
              {| pos := p + 3; has_lock := has_lock s; rep := rep s; seg := seg s; has_data := has_data s; has_addr := has_addr s; nprefix := nprefix s;
                 rex := rex s; vex := 196; vex1 := byte_at src (p + 1); vex2 := byte_at src (p + 2); data_mode := data_mode s; addr_mode := addr_mode s;
                 have_modrm := have_modrm s; modrm := modrm s; md := md s; regop := regop s; rm := rm s; have_mem := have_mem s; riprel := riprel s;
                 displen := displen s; dispoff := dispoff s; immcpos := immcpos s; opshift := opshift s; opcode := opcode s; op := op s;
                 narg := narg s; pcrel := pcrel s; pcreloff := pcreloff s; pc := pc s |}
          else stop
        else stop
  end.

Definition read_rex (src : list Z) (s : st) : st + result :=
  let p := pos s in
  if (p <? lenZs src) && (Z.land (byte_at src p) 240 =? 64) && (vex s =? 0) then
    if p >=? 14 then inr RPrefix
    else
      let r := byte_at src p in
      inl {| pos := p + 1; has_lock := has_lock s; rep := rep s; seg := seg s; has_data := has_data s; has_addr := has_addr s; nprefix := nprefix s;
             rex := r; vex := vex s; vex1 := vex1 s; vex2 := vex2 s; data_mode := (if Z.land r 8 =? 0 then data_mode s else 64); addr_mode := addr_mode s;
             have_modrm := have_modrm s; modrm := modrm s; md := md s; regop := regop s; rm := rm s; have_mem := have_mem s; riprel := riprel s;
             displen := displen s; dispoff := dispoff s; immcpos := immcpos s; opshift := opshift s; opcode := opcode s; op := op s;
             narg := narg s; pcrel := pcrel s; pcreloff := pcreloff s; pc := pc s |}
  else inl s.

(* 'truncated': empty input -> ErrTruncated, otherwise the 1-byte pseudo instruction *)
Definition truncated (src : list Z) : result := match src with [] => RTruncated | _ => RPrefix end.

(* ---------------------------------------------------------------- ModR/M, SIB, displacement (32/64-bit addressing) *)
Definition read_modrm (src : list Z) (s : st) : st + result :=
  if have_modrm s then inr (RInternal (pos s))
  else if pos s >=? lenZs src then inr (truncated src)
  else
    let m := byte_at src (pos s) in
    let s1 := push_opcode (set_pos s (pos s + 1)) m in
    let mo := Z.shiftr m 6 in
    let rg := Z.land (Z.shiftr m 3) 7 in
    let r := Z.land m 7 in
    let rg' := if Z.land (rex s) 4 =? 0 then rg else Z.lor rg 8 in
    (* SIB *)
    let need_sib := (r =? 4) && negb (mo =? 3) in
    if need_sib && (pos s1 >=? lenZs src) then inr (truncated src)
    else
      let sib := byte_at src (pos s1) in
      let s2 := if need_sib then push_opcode (set_pos s1 (pos s1 + 1)) sib else s1 in
      let base := Z.land sib 7 in
      let r' := if need_sib then r else if Z.land (rex s) 1 =? 0 then r else Z.lor r 8 in
      (* displacement *)
      let disp32 := ((mo =? 0) && ((Z.land r' 7 =? 5) || (need_sib && (base =? 5)))) || (mo =? 2) in
      let disp8 := mo =? 1 in
      if disp32 && (pos s2 + 4 >? lenZs src) then inr (truncated src)
      else if disp8 && (pos s2 >=? lenZs src) then inr (truncated src)
      else
        let dl := if disp32 then 4 else if disp8 then 1 else displen s in
        let dof := if disp32 || disp8 then pos s2 else dispoff s in
        let p3 := pos s2 + (if disp32 then 4 else if disp8 then 1 else 0) in
        inl {| pos := p3; has_lock := has_lock s2; rep := rep s2; seg := seg s2; has_data := has_data s2; has_addr := has_addr s2; nprefix := nprefix s2;
               rex := rex s2; vex := vex s2; vex1 := vex1 s2; vex2 := vex2 s2; data_mode := data_mode s2; addr_mode := addr_mode s2;
               have_modrm := true; modrm := m; md := mo; regop := rg'; rm := r'; have_mem := negb (mo =? 3);
               (* mod = 0, rm = 5 is RIP-relative in 64-bit mode; with a 32-bit address size the base is EIP, which is not RIP *)
               riprel := (mo =? 0) && (Z.land r' 7 =? 5) && (addr_mode s2 =? 64);
               displen := dl; dispoff := dof; immcpos := immcpos s2; opshift := opshift s2; opcode := opcode s2; op := op s2;
               narg := narg s2; pcrel := pcrel s2; pcreloff := pcreloff s2; pc := pc s2 |}.

(* ---------------------------------------------------------------- the interpreter *)
Section Interp.
  Variable tbl : Z -> option Z.      (* decoder[i] *)

  Definition mem_arg_ops : list Z :=
    [x_ArgM; x_ArgM128; x_ArgM256; x_ArgM1428byte; x_ArgM16; x_ArgM16and16; x_ArgM16and32; x_ArgM16and64; x_ArgM16colon16;
     x_ArgM16colon32; x_ArgM16colon64; x_ArgM16int; x_ArgM2byte; x_ArgM32; x_ArgM32and32; x_ArgM32fp; x_ArgM32int; x_ArgM512byte;
     x_ArgM64; x_ArgM64fp; x_ArgM64int; x_ArgM8; x_ArgM80bcd; x_ArgM80dec; x_ArgM80fp; x_ArgM94108byte; x_ArgMem].
  Definition rm_arg_ops : list Z :=
    [x_ArgRM8; x_ArgRM16; x_ArgRM32; x_ArgRM64; x_ArgR32M16; x_ArgR32M8; x_ArgR64M16; x_ArgMmM32; x_ArgMmM64; x_ArgMm2M64;
     x_ArgXmm2M16; x_ArgXmm2M32; x_ArgXmm2M64; x_ArgXmmM64; x_ArgXmmM128; x_ArgXmmM32; x_ArgXmm2M128; x_ArgYmm2M256].
  Definition plain_arg_ops : list Z :=
    [x_Arg1; x_Arg3; x_ArgAL; x_ArgAX; x_ArgCL; x_ArgCS; x_ArgDS; x_ArgDX; x_ArgEAX; x_ArgEDX; x_ArgES; x_ArgFS; x_ArgGS; x_ArgRAX;
     x_ArgRDX; x_ArgSS; x_ArgST; x_ArgXMM0; x_ArgImm8; x_ArgImm8u; x_ArgImm16; x_ArgImm16u; x_ArgImm32; x_ArgImm64;
     x_ArgMoffs8; x_ArgMoffs16; x_ArgMoffs32; x_ArgMoffs64; x_ArgYmm1; x_ArgR8; x_ArgR16; x_ArgR32; x_ArgR64; x_ArgXmm; x_ArgXmm1;
     x_ArgDR0dashDR7; x_ArgMm; x_ArgMm1; x_ArgTR0dashTR7; x_ArgRmf16; x_ArgRmf32; x_ArgRmf64; x_ArgR8op; x_ArgR16op; x_ArgR32op;
     x_ArgR64op; x_ArgSTi].

  (* one argument written to inst.Args[narg] (a [4]Arg array) *)
  Definition put_arg (s : st) (k : Z) (pr po : Z) : st + result :=
    if narg s + k >? 4 then inr RPanic else inl (with_out s (op s) (narg s + k) pr po).

  Definition finish (src : list Z) (s : st) : result :=
    if op s =? 0 then (if nprefix s >? 0 then RPrefix else RUnrecognized (pos s))
    else ROk (pos s) (opcode s) (op s) (pcrel s) (pcreloff s).

  Definition fail (src : list Z) (s : st) : st + result := inr (finish src (with_out s 0 (narg s) (pcrel s) (pcreloff s))).

  (* scan the pairs of an xCondByte: Some new pc on a match *)
  Fixpoint cond_byte_scan (n : nat) (p : Z) (b : Z) : option (option Z) * Z :=
    (* returns (Some (Some target)) on match, (Some None) when a table access fails, None when no entry matched; and the pc after the pairs *)
    match n with
    | O => (None, p)
    | S n' =>
        match tbl p, tbl (p + 1) with
        | Some xb, Some xpc => if b =? Z.land xb 255 then (Some (Some xpc), p + 2) else cond_byte_scan n' (p + 2) b
        | _, _ => (Some None, p)
        end
    end.

  (* xCondPrefix: Some (inl target) = branch, Some (inr tt) = instruction invalid (Op = 0), None = table access failed *)
  Fixpoint cond_prefix_scan (n : nat) (p : Z) (s : st) : option (Z + unit) :=
    match n with
    | O => Some (inr tt)
    | S n' =>
        match tbl p, tbl (p + 1) with
        | Some pf, Some target =>
            if Z.land pf 240 =? 64 then                     (* a REX.x entry *)
              if Z.land (rex s) pf =? pf then Some (inl target) else cond_prefix_scan n' (p + 2) s
            else
              let vex_sel := negb (vex s =? 0) && is_in pf [15; 3896; 3898; 102; 242; 243] in
              let vexM := if vex s =? 197 then 1 else vex1 s in
              let vexP := if vex s =? 197 then vex1 s else vex2 s in
              if pf =? 0 then Some (inl target)
              else if (pf =? 197) || (pf =? 196) then (if vex s =? pf then Some (inl target) else cond_prefix_scan n' (p + 2) s)
              else if vex_sel then
                let ok := if pf =? 102 then Z.land vexP 3 =? 1 else if pf =? 243 then Z.land vexP 3 =? 2
                          else if pf =? 242 then Z.land vexP 3 =? 3 else if pf =? 15 then Z.land vexM 3 =? 1
                          else if pf =? 3896 then Z.land vexM 3 =? 2 else Z.land vexM 3 =? 3 in
                if ok then Some (inl target) else cond_prefix_scan n' (p + 2) s
              else if pf =? 240 then (if has_lock s then Some (inl target) else cond_prefix_scan n' (p + 2) s)
              else if (pf =? 242) || (pf =? 243) then (if rep s =? pf then Some (inl target) else cond_prefix_scan n' (p + 2) s)
              else if is_in pf [38; 46; 54; 62; 100; 101] then (if seg s =? pf then Some (inl target) else cond_prefix_scan n' (p + 2) s)
              else if pf =? 102 then
                (if negb (rep s =? 0) then Some (inr tt)
                 else if has_data s then Some (inl target) else cond_prefix_scan n' (p + 2) s)
              else if pf =? 103 then (if has_addr s then Some (inl target) else cond_prefix_scan n' (p + 2) s)
              else cond_prefix_scan n' (p + 2) s
        | _, _ => None
        end
    end.

  Definition read_bytes (src : list Z) (s : st) (n : Z) (mark : bool) : st + result :=
    if pos s + n >? lenZs src then inr (truncated src)
    else inl (set_pos (if mark then with_immcpos s (pos s) else s) (pos s + n)).

  (* the operation x executed on the state after the ModR/M handling *)
  Definition exec (src : list Z) (x : Z) (s : st) : st + result :=
    let p := pc s in
    if x =? x_Fail then fail src s
    else if x =? x_Match then inr (finish src s)
    else if x =? x_Jump then match tbl p with Some t => inl (set_pc s t) | None => inr RPanic end
    else if x =? x_CondByte then
      if pos s >=? lenZs src then inr (truncated src)
      else
        match tbl p with
        | None => inr RPanic
        | Some n =>
            let b := byte_at src (pos s) in
            match cond_byte_scan (Z.to_nat n) (p + 1) b with
            | (Some (Some t), _) => inl (set_pc (push_opcode (set_pos s (pos s + 1)) b) t)
            | (Some None, _) => inr RPanic
            | (None, p') =>
                (* fall through: follow one xJump, and step over the byte if the continuation is xFail *)
                match tbl p' with
                | None => inr RPanic
                | Some y =>
                    match (if y =? x_Jump then tbl (p' + 1) else Some p') with
                    | None => inr RPanic
                    | Some p'' =>
                        match tbl p'' with
                        | None => inr RPanic
                        | Some z => inl (set_pc (if z =? x_Fail then set_pos s (pos s + 1) else s) p'')
                        end
                    end
                end
            end
        end
    else if x =? x_CondIs64 then match tbl (p + 1) with Some t => inl (set_pc s t) | None => inr RPanic end
    else if x =? x_CondIsMem then
      if negb (have_modrm s) && (pos s >=? lenZs src) then inr RPrefix
      else
        let m := if have_modrm s then have_mem s else negb (Z.shiftr (byte_at src (pos s)) 6 =? 3) in
        match tbl (if m then p + 1 else p) with Some t => inl (set_pc s t) | None => inr RPanic end
    else if x =? x_CondDataSize then
      match tbl (if data_mode s =? 16 then p else if data_mode s =? 32 then p + 1 else p + 2) with
      | Some t => inl (set_pc s t) | None => inr RPanic end
    else if x =? x_CondAddrSize then
      match tbl (if addr_mode s =? 32 then p + 1 else p + 2) with Some t => inl (set_pc s t) | None => inr RPanic end
    else if x =? x_CondPrefix then
      match tbl p with
      | None => inr RPanic
      | Some n =>
          match cond_prefix_scan (Z.to_nat n) (p + 1) s with
          | None => inr RPanic
          | Some (inl t) => inl (set_pc s t)
          | Some (inr _) => fail src s
          end
      end
    else if x =? x_CondSlashR then
      match tbl (p + Z.land (regop s) 7) with Some t => inl (set_pc s t) | None => inr RPanic end
    else if x =? x_ReadSlashR then inl s
    else if x =? x_ReadIb then read_bytes src s 1 false
    else if x =? x_ReadIw then read_bytes src s 2 false
    else if x =? x_ReadID then read_bytes src s 4 false
    else if x =? x_ReadIo then read_bytes src s 8 false
    else if x =? x_ReadCb then read_bytes src s 1 true
    else if x =? x_ReadCw then read_bytes src s 2 true
    else if x =? x_ReadCm then read_bytes src s (if addr_mode s =? 32 then 4 else 8) true
    else if x =? x_ReadCd then read_bytes src s 4 true
    else if x =? x_ReadCp then read_bytes src s 6 true
    else if x =? x_SetOp then
      match tbl p with Some o => inl (set_pc (with_out s o (narg s) (pcrel s) (pcreloff s)) (p + 1)) | None => inr RPanic end
    else if is_in x mem_arg_ops then
      if have_mem s then
        (if riprel s then put_arg s 1 (displen s) (dispoff s) else put_arg s 1 (pcrel s) (pcreloff s))
      else fail src s
    else if is_in x rm_arg_ops then
      if have_mem s && riprel s then put_arg s 1 (displen s) (dispoff s) else put_arg s 1 (pcrel s) (pcreloff s)
    else if (x =? x_ArgPtr16colon16) || (x =? x_ArgPtr16colon32) then put_arg s 2 (pcrel s) (pcreloff s)
    else if x =? x_ArgCR0dashCR7 then put_arg (if has_lock s then with_regop s (regop s + 8) else s) 1 (pcrel s) (pcreloff s)
    else if x =? x_ArgSreg then
      let r := Z.land (regop s) 7 in
      if r >=? 6 then fail src (with_regop s r) else put_arg (with_regop s r) 1 (pcrel s) (pcreloff s)
    else if (x =? x_ArgMm2) || (x =? x_ArgXmm2) then
      if have_mem s then fail src s else put_arg s 1 (pcrel s) (pcreloff s)
    else if x =? x_ArgRel8 then put_arg s 1 1 (immcpos s)
    else if x =? x_ArgRel16 then put_arg s 1 2 (immcpos s)
    else if x =? x_ArgRel32 then put_arg s 1 4 (immcpos s)
    else if is_in x plain_arg_ops then put_arg s 1 (pcrel s) (pcreloff s)
    else inr (RInternal (pos s))       (* default: bad op *).

  (* one iteration of the Decode loop *)
  Definition step (src : list Z) (s0 : st) : st + result :=
    match tbl (pc s0) with
    | None => inr RPanic
    | Some x =>
        let s1 := set_pc s0 (pc s0 + 1) in
        (* Read and decode ModR/M if needed by the operation *)
        match (if (x =? x_CondSlashR) || (x =? x_ReadSlashR) then read_modrm src s1 else inl s1) with
        | inr r => inr r
        | inl s => exec src x s
        end
    end.

  Fixpoint run (fuel : nat) (src : list Z) (s : st) : result :=
    match fuel with
    | O => RFuel
    | S f => match step src s with inr r => r | inl s' => run f src s' end
    end.

  Definition init_st : st :=
    {| pos := 0; has_lock := false; rep := 0; seg := 0; has_data := false; has_addr := false; nprefix := 0;
       rex := 0; vex := 0; vex1 := 0; vex2 := 0; data_mode := 32; addr_mode := 64;
       have_modrm := false; modrm := 0; md := 0; regop := 0; rm := 0; have_mem := false; riprel := false;
       displen := 0; dispoff := 0; immcpos := 0; opshift := 24; opcode := 0; op := 0; narg := 0; pcrel := 0; pcreloff := 0; pc := 1 |}.

  (* Decode(src, 64) *)
  Definition decode (fuel : nat) (src0 : list Z) : result :=
    let src := firstn 15 src0 in
    match scan_prefixes 16 src init_st with
    | inr r => r
    | inl s1 =>
        match read_rex src s1 with
        | inr r => r
        | inl s2 => run fuel src s2
        end
    end.
End Interp.
