(* C07 -- interface-variable mocks: builder.go Interface, iface.go, internal/proxy/interface.go,
   internal/iface/make_interface.go (fake itab, backup / Cancel, retention of the closures the stubs embed). *)
From Coq Require Import List Arith Bool Lia.
Import ListNotations.

(* the two words of an interface variable *)
Inductive word := WNil | WReal (r : nat) | WFake (c : nat).   (* nil / a real implementation r / the fabricated iface of context c *)

Record ctx := {
  c_var : nat;                    (* the variable this context was created for *)
  c_backup : option word;         (* value found at the first mock (originIfaceValue) *)
  c_canceled : bool;
  c_slots : list (option nat);    (* fabricated itab: slot -> closure the stub jumps through; None = notImplement *)
  c_retained : list nat           (* closures kept reachable from the context *)
}.

Record st := {
  vars : list word;
  ctxs : list ctx;
  cache : list (nat * nat * nat);         (* (builder, key, context) -- most recent first *)
  mimp : list (nat * nat * nat * nat);    (* (builder, context, method, closure): baseMocker.imp of the per-method mocker *)
  alive : list bool;                      (* builder still referenced by the program *)
  live : list bool                        (* closure not yet collected *)
}.

Inductive op :=
| OMock (b v m : nat) (pfunc : bool)      (* b.Interface(&v).Method(m).Apply(cb)  /  .As(f).Return(..) (pfunc) -- a fresh closure each time *)
| OMockKept (b v m : nat)                 (* the same through the handle kept from the latest b.Interface(&v), even if it was cancelled since *)
| OCall (v m : nat)
| OReset (b : nat)
| ODrop (b : nat)
| OGC.

Inductive outcome := ORepl (k : nat) | ONotImpl | ONilPanic | OReal (r m : nat) | OCrash | ONone.

Fixpoint upd {A} (l : list A) (i : nat) (x : A) : list A :=
  match l, i with
  | [], _ => []
  | _ :: t, O => x :: t
  | h :: t, S i' => h :: upd t i' x
  end.

Definition get_ctx (s : st) (c : nat) : option ctx := nth_error (ctxs s) c.
Definition get_var (s : st) (v : nat) : word := nth v (vars s) WNil.

Section Iface.
  Variable nmeth : nat -> nat.            (* number of methods of the interface type of variable v *)
  Variable key_of : nat -> nat.           (* cache key the builder computes for variable v *)

  Fixpoint cache_lookup (l : list (nat * nat * nat)) (b k : nat) : option nat :=
    match l with
    | [] => None
    | (b', k', c) :: r => if Nat.eqb b b' && Nat.eqb k k' then Some c else cache_lookup r b k
    end.

  Definition fresh_ctx (v : nat) : ctx :=
    {| c_var := v; c_backup := None; c_canceled := false; c_slots := repeat None (nmeth v); c_retained := [] |}.

  (* Builder.Interface: the cached, not cancelled mocker of this key, else a new one with a new context *)
  Definition lookup (s : st) (b v : nat) : st * nat :=
    match cache_lookup (cache s) b (key_of v) with
    | Some c =>
        match get_ctx s c with
        | Some x => if c_canceled x then
                      let c' := length (ctxs s) in
                      ({| vars := vars s; ctxs := ctxs s ++ [fresh_ctx v]; cache := (b, key_of v, c') :: cache s;
                          mimp := mimp s; alive := alive s; live := live s |}, c')
                    else (s, c)
        | None => (s, c)
        end
    | None =>
        let c' := length (ctxs s) in
        ({| vars := vars s; ctxs := ctxs s ++ [fresh_ctx v]; cache := (b, key_of v, c') :: cache s;
            mimp := mimp s; alive := alive s; live := live s |}, c')
    end.

  (* a handle kept by the caller: the context of the latest lookup for this key, cancelled or not *)
  Definition lookup_kept (s : st) (b v : nat) : st * nat :=
    match cache_lookup (cache s) b (key_of v) with
    | Some c => (s, c)
    | None => lookup s b v
    end.

  Definition set_mimp (l : list (nat * nat * nat * nat)) (b c m k : nat) : list (nat * nat * nat * nat) :=
    (b, c, m, k) :: filter (fun e => let '(b', c', m', _) := e in negb (Nat.eqb b b' && Nat.eqb c c' && Nat.eqb m m')) l.

  (* proxy.Interface on the context: backup on first use, new stub in slot m, variable := fabricated iface.
     NOTE the context keeps writing to ITS variable (c_var), whatever variable the caller named. *)
  Definition mock_on (s1 : st) (b c m : nat) : st :=
    match get_ctx s1 c with
    | None => s1
    | Some x =>
        let k := length (live s1) in
        let tv := c_var x in
        (* a cancelled context that is applied again takes a new backup and a fresh fabricated itab, and is live again *)
        let x' := {| c_var := c_var x;
                     c_backup := if c_canceled x then Some (get_var s1 tv)
                                 else match c_backup x with Some w => Some w | None => Some (get_var s1 tv) end;
                     c_canceled := false;
                     c_slots := upd (if c_canceled x then repeat None (length (c_slots x)) else c_slots x) m (Some k);
                     c_retained := k :: c_retained x |} in
        {| vars := upd (vars s1) tv (WFake c); ctxs := upd (ctxs s1) c x'; cache := cache s1;
           mimp := set_mimp (mimp s1) b c m k; alive := alive s1; live := live s1 ++ [true] |}
    end.

  Definition mock (s : st) (b v m : nat) : st := let '(s1, c) := lookup s b v in mock_on s1 b c m.
  Definition mock_kept (s : st) (b v m : nat) : st := let '(s1, c) := lookup_kept s b v in mock_on s1 b c m.

  Definition call (s : st) (v m : nat) : outcome :=
    match get_var s v with
    | WNil => ONilPanic
    | WReal r => OReal r m
    | WFake c =>
        match get_ctx s c with
        | None => OCrash
        | Some x => match nth m (c_slots x) None with
                    | None => ONotImpl
                    | Some k => if nth k (live s) false then ORepl k else OCrash
                    end
        end
    end.

  (* IContext.Cancel through every per-method mocker of the builder's cached interface mockers *)
  Definition cancel_ctx (s : st) (c : nat) : st :=
    match get_ctx s c with
    | None => s
    | Some x =>
        match c_backup x with
        | None => s
        | Some w =>
            {| vars := upd (vars s) (c_var x) w;
               ctxs := upd (ctxs s) c {| c_var := c_var x; c_backup := c_backup x; c_canceled := true;
                                         c_slots := c_slots x; c_retained := c_retained x |};
               cache := cache s; mimp := mimp s; alive := alive s; live := live s |}
        end
    end.

  Definition reset (s : st) (b : nat) : st :=
    fold_left (fun acc e => let '(b', _, c) := e in
                            if Nat.eqb b b' then
                              match get_ctx acc c with
                              | Some x => if c_canceled x then acc else cancel_ctx acc c
                              | None => acc
                              end
                            else acc) (rev (cache s)) s.

  (* what the collector can reach: closures retained by a context that some variable holds or some live builder caches;
     callbacks held by the per-method mockers of live builders *)
  Definition ctx_reachable_direct (s : st) (c : nat) : bool :=
    existsb (fun w => match w with WFake c' => Nat.eqb c c' | _ => false end) (vars s) ||
    existsb (fun e => let '(b, _, c') := e in Nat.eqb c c' && nth b (alive s) false) (cache s).

  (* a context's backup is the interface value the variable held before: when that value is itself a fabricated interface
     (another builder had mocked the variable), its data word points at the earlier context, which stays reachable *)
  Definition backup_points (s : st) (c' c : nat) : bool :=
    match get_ctx s c' with
    | Some x => match c_backup x with Some (WFake d) => Nat.eqb d c | _ => false end
    | None => false
    end.

  Fixpoint ctx_reach (n : nat) (s : st) (c : nat) : bool :=
    ctx_reachable_direct s c ||
    match n with
    | O => false
    | S n' => existsb (fun c' => if backup_points s c' c then ctx_reach n' s c' else false) (seq 0 (length (ctxs s)))
                (* the test of the edge comes first and guards the recursion: evaluated the other way round (or with the strict
                   &&) the search visits every context at every level, (number of contexts)^(number of contexts) calls *)
    end.

  Definition ctx_reachable (s : st) (c : nat) : bool := ctx_reach (length (ctxs s)) s c.

  Definition closure_reachable (s : st) (k : nat) : bool :=
    existsb (fun e => let '(b, _, _, k') := e in Nat.eqb k k' && nth b (alive s) false) (mimp s) ||
    existsb (fun c => ctx_reachable s c &&
                      match get_ctx s c with Some x => existsb (Nat.eqb k) (c_retained x) | None => false end)
            (seq 0 (length (ctxs s))).

  Definition gc (s : st) : st :=
    {| vars := vars s; ctxs := ctxs s; cache := cache s; mimp := mimp s; alive := alive s;
       live := map (fun k => nth k (live s) false && closure_reachable s k) (seq 0 (length (live s))) |}.

  Definition step (s : st) (o : op) : st * outcome :=
    match o with
    | OMock b v m _ => (mock s b v m, ONone)
    | OMockKept b v m => (mock_kept s b v m, ONone)
    | OCall v m => (s, call s v m)
    | OReset b => (reset s b, ONone)
    | ODrop b => ({| vars := vars s; ctxs := ctxs s; cache := cache s; mimp := mimp s; alive := upd (alive s) b false; live := live s |}, ONone)
    | OGC => (gc s, ONone)
    end.

  Fixpoint run (s : st) (ops : list op) : st * list outcome :=
    match ops with
    | [] => (s, [])
    | o :: r => let '(s1, out) := step s o in let '(s2, outs) := run s1 r in (s2, out :: outs)
    end.
End Iface.

Definition init (ws : list word) (nbuilders : nat) : st :=
  {| vars := ws; ctxs := []; cache := []; mimp := []; alive := repeat true nbuilders; live := [] |}.
