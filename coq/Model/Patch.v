(* C02 / C13 / C01 -- the patch state machine (internal/patch/patch.go, guard.go, monkey.go; mocker.go, builder.go):
   the text image as cells relative to the pristine image, the patch table, guards, mockers and builders. *)
From Coq Require Import List ZArith Bool Arith Lia.
Import ListNotations.
Open Scope Z_scope.

Inductive cell := Pristine | Jump (cb : Z).                   (* the 13 entry bytes of a target *)
Inductive phcell := PhPristine | PhTramp (t : nat).            (* the body of an origin placeholder *)

Record prec := {
  p_target : nat;
  p_cb : Z;
  p_captured : cell;          (* originBytes, read when the patch was created *)
  p_applied : bool            (* Guard.applied (never reset) *)
}.

Record mkr := { r_target : nat; r_guard : option nat; r_has_when : bool; r_canceled : bool; r_origin : option nat }.

Record pstate := {
  entry : nat -> cell;                  (* target -> its entry bytes *)
  phs : nat -> phcell;                  (* placeholder -> its body *)
  table : nat -> option nat;            (* patches map: target -> patch id *)
  precs : list prec;                    (* patch id = position *)
  mkrs : list mkr;                      (* mocker id = position *)
  pcache : nat -> nat -> option nat;    (* builder -> target -> mocker id *)
  phandles : list nat
}.

Inductive pop :=
| PLookup (b t : nat)
| PApply (h : nat) (k : Z)            (* handle.Apply(callback k) *)
| PStub (h : nat)                     (* handle.Return(..)/When(..): patches only if the mocker has no When yet *)
| POrigin (h : nat) (ph : nat)        (* handle.Origin(&placeholder) *)
| PCancel (h : nat)
| PReset (b : nat)
| PRejected (h : nat).                (* an instruction through handle h that goom refuses (ill-formed callback, bad origin
                                         placeholder): it panics before the patch layer is reached and changes nothing *)

Definition upd {A} (f : nat -> A) (k : nat) (v : A) : nat -> A := fun x => if Nat.eqb x k then v else f x.

Fixpoint set_nth {A} (n : nat) (l : list A) (x : A) : list A :=
  match l, n with
  | [], _ => []
  | _ :: r, O => x :: r
  | y :: r, S n' => y :: set_nth n' r x
  end.

(* Guard.Unpatch: if applied, write back what was captured *)
Definition unpatch_entry (s : pstate) (pid : nat) : nat -> cell :=
  match nth_error (precs s) pid with
  | Some p => if p_applied p then upd (entry s) (p_target p) (p_captured p) else entry s
  | None => entry s
  end.

(* replaceFunc + Guard.Apply for target t with replacement cb and optional placeholder.
   Returns the new state and Some pid on success, None when the target is refused as already patched (NOP sentinel). *)
Definition do_patch (s : pstate) (t : nat) (cb : Z) (ph : option nat) : pstate * option nat :=
  (* 1. unpatch whatever the table holds for t, drop it from the table *)
  let e1 := match table s t with Some old => unpatch_entry s old | None => entry s end in
  let pid := length (precs s) in
  (* 2. the new patch enters the table before any check *)
  let tb := upd (table s) t (Some pid) in
  (* 3. capture the current entry bytes; refuse if they start with the NOP sentinel (i.e. hold a jump) *)
  match e1 t with
  | Jump _ =>
      ({| entry := e1; phs := phs s; table := tb;
          precs := precs s ++ [{| p_target := t; p_cb := cb; p_captured := Pristine; p_applied := false |}];
          mkrs := mkrs s; pcache := pcache s; phandles := phandles s |}, None)
  | c =>
      (* 4. build the trampoline in the placeholder, 5. Guard.Apply writes the jump *)
      ({| entry := upd e1 t (Jump cb);
          phs := match ph with Some q => upd (phs s) q (PhTramp t) | None => phs s end;
          table := tb;
          precs := precs s ++ [{| p_target := t; p_cb := cb; p_captured := c; p_applied := true |}];
          mkrs := mkrs s; pcache := pcache s; phandles := phandles s |}, Some pid)
  end.

Definition p_lookup (s : pstate) (b t : nat) : pstate :=
  let fresh :=
    let id := length (mkrs s) in
    {| entry := entry s; phs := phs s; table := table s; precs := precs s;
       mkrs := mkrs s ++ [{| r_target := t; r_guard := None; r_has_when := false; r_canceled := false; r_origin := None |}];
       pcache := upd (pcache s) b (upd (pcache s b) t (Some id)); phandles := phandles s ++ [id] |} in
  match pcache s b t with
  | Some id =>
    match nth_error (mkrs s) id with
    | Some m => if r_canceled m then fresh
                else {| entry := entry s; phs := phs s; table := table s; precs := precs s; mkrs := mkrs s;
                        pcache := pcache s; phandles := phandles s ++ [id] |}
    | None => fresh
    end
  | None => fresh
  end.

Definition with_mkr (s : pstate) (id : nat) (m : mkr) : pstate :=
  {| entry := entry s; phs := phs s; table := table s; precs := precs s; mkrs := set_nth id (mkrs s) m;
     pcache := pcache s; phandles := phandles s |}.

(* any instruction that (re)patches: a fresh patch, remembered as the mocker's guard *)
Definition mk_patch (s : pstate) (id : nat) (m : mkr) (cb : Z) (has_when : bool) : pstate :=
  let '(s1, r) := do_patch s (r_target m) cb (r_origin m) in
  match r with
  | Some pid => with_mkr s1 id {| r_target := r_target m; r_guard := Some pid; r_has_when := has_when; r_canceled := false; r_origin := r_origin m |}
  | None => s1       (* the instruction panicked: the mocker is unchanged *)
  end.

Definition p_cancel (s : pstate) (id : nat) : pstate :=
  match nth_error (mkrs s) id with
  | Some m =>
    let e := match r_guard m with Some pid => unpatch_entry s pid | None => entry s end in
    {| entry := e; phs := phs s; table := table s; precs := precs s;
       (* a guard that has been used to restore is dropped: a second Cancel / Reset must not restore again *)
       mkrs := set_nth id (mkrs s) {| r_target := r_target m; r_guard := None; r_has_when := false; r_canceled := true; r_origin := None |};
       pcache := pcache s; phandles := phandles s |}
  | None => s
  end.

Definition p_reset (ntargets : nat) (s : pstate) (b : nat) : pstate :=
  fold_left (fun s t => match pcache s b t with Some id => p_cancel s id | None => s end) (seq 0 ntargets) s.

Definition STUB_BASE : Z := 1000.   (* the callback id of mocker m's MakeFunc stub closure is STUB_BASE + m *)

Definition pstep (ntargets : nat) (s : pstate) (o : pop) : pstate :=
  match o with
  | PLookup b t => p_lookup s b t
  | PApply h k =>
      match nth_error (phandles s) h with
      | Some id => match nth_error (mkrs s) id with Some m => mk_patch s id m k false | None => s end
      | None => s
      end
  | PStub h =>
      match nth_error (phandles s) h with
      | Some id => match nth_error (mkrs s) id with
                   | Some m => if r_has_when m then s else mk_patch s id m (STUB_BASE + Z.of_nat id) true
                   | None => s
                   end
      | None => s
      end
  | POrigin h ph =>
      match nth_error (phandles s) h with
      | Some id => match nth_error (mkrs s) id with
                   | Some m => with_mkr s id {| r_target := r_target m; r_guard := r_guard m; r_has_when := r_has_when m;
                                                r_canceled := r_canceled m; r_origin := Some ph |}
                   | None => s
                   end
      | None => s
      end
  | PCancel h => match nth_error (phandles s) h with Some id => p_cancel s id | None => s end
  | PReset b => p_reset ntargets s b
  | PRejected _ => s
  end.

Definition pinit : pstate :=
  {| entry := fun _ => Pristine; phs := fun _ => PhPristine; table := fun _ => None; precs := []; mkrs := [];
     pcache := fun _ _ => None; phandles := [] |}.

Definition prun (ntargets : nat) (s : pstate) (ops : list pop) : pstate := fold_left (pstep ntargets) ops s.

(* observation: per target 0 = pristine entry, else 1 + callback id; per placeholder 0 = untouched, 1 + t = trampoline of t *)
Definition obs_cell (c : cell) : Z := match c with Pristine => 0 | Jump cb => 1 + cb end.
Definition obs_ph (c : phcell) : Z := match c with PhPristine => 0 | PhTramp t => 1 + Z.of_nat t end.
Definition pobserve (ntargets nph : nat) (s : pstate) : list Z :=
  map (fun t => obs_cell (entry s t)) (seq 0 ntargets) ++ map (fun q => obs_ph (phs s q)) (seq 0 nph).

Fixpoint ptrace (ntargets nph : nat) (s : pstate) (ops : list pop) : list (list Z) :=
  match ops with
  | [] => []
  | o :: r => let s' := pstep ntargets s o in pobserve ntargets nph s' :: ptrace ntargets nph s' r
  end.
