(* Fixed-width integer arithmetic over Z, as Go performs it.
   All wrap reasoning goes through lemmas over an abstract modulus (DESIGN 6.1). *)
From Coq Require Export ZArith List Lia Bool.
From Coq Require Import ZifyBool.
Export ListNotations.
Open Scope Z_scope.

Definition wrapu (n : Z) (x : Z) : Z := x mod 2 ^ n.
Definition wraps (n : Z) (x : Z) : Z := (x + 2 ^ (n - 1)) mod 2 ^ n - 2 ^ (n - 1).

Definition in_u (n x : Z) : Prop := 0 <= x < 2 ^ n.
Definition in_s (n x : Z) : Prop := - 2 ^ (n - 1) <= x < 2 ^ (n - 1).

(* little-endian byte lanes *)
Definition lane (x k : Z) : Z := (Z.shiftr x (8 * k)) mod 256.
Fixpoint bytes_le (n : nat) (x : Z) : list Z :=
  match n with
  | O => []
  | S n' => (x mod 256) :: bytes_le n' (x / 256)
  end.
Fixpoint le (bs : list Z) : Z :=
  match bs with
  | [] => 0
  | b :: r => b + 256 * le r
  end.

(* store of the low [n] bytes of [v] at offset [off] of [l] (the Go idiom that stores a uintN through an unsafe pointer to l[off]) *)
Definition put_le (n : nat) (v : Z) (off : nat) (l : list Z) : list Z :=
  firstn off l ++ bytes_le n v ++ skipn (off + n) l.

Definition nthZ (l : list Z) (i : Z) : Z := nth (Z.to_nat i) l 0.
Definition lenZ {A} (l : list A) : Z := Z.of_nat (length l).
Definition sliceZ {A} (l : list A) (lo hi : Z) : list A :=
  firstn (Z.to_nat hi - Z.to_nat lo) (skipn (Z.to_nat lo) l).

(* ---- abstract-modulus lemmas ---- *)
Lemma mod_small_M (M x : Z) : 0 <= x < M -> x mod M = x.
Proof. intros; apply Z.mod_small; lia. Qed.

Lemma mod_neg_M (M x : Z) : 0 < M -> - M <= x < 0 -> x mod M = x + M.
Proof.
  intros HM Hx. symmetry. apply Z.mod_unique with (q := -1); lia.
Qed.

Lemma mod_over_M (M x : Z) : 0 < M -> M <= x < 2 * M -> x mod M = x - M.
Proof.
  intros HM Hx. symmetry. apply Z.mod_unique with (q := 1); lia.
Qed.

Lemma pow2_pos (n : Z) : 0 <= n -> 0 < 2 ^ n.
Proof. intros; apply Z.pow_pos_nonneg; lia. Qed.

Lemma wrapu_range n x : 0 <= n -> 0 <= wrapu n x < 2 ^ n.
Proof. intros; unfold wrapu; apply Z.mod_pos_bound; apply pow2_pos; lia. Qed.

Lemma wrapu_small n x : 0 <= x < 2 ^ n -> wrapu n x = x.
Proof. intros; unfold wrapu; apply Z.mod_small; lia. Qed.

Lemma wrapu_idem n x : 0 <= n -> wrapu n (wrapu n x) = wrapu n x.
Proof. intros; unfold wrapu; apply Z.mod_mod. pose proof (pow2_pos n); lia. Qed.

Lemma wraps_range n x : 1 <= n -> - 2 ^ (n - 1) <= wraps n x < 2 ^ (n - 1).
Proof.
  intros Hn; unfold wraps.
  assert (H2 : 2 ^ n = 2 * 2 ^ (n - 1)).
  { replace n with (Z.succ (n - 1)) at 1 by lia. rewrite Z.pow_succ_r; lia. }
  pose proof (pow2_pos (n - 1)).
  pose proof (Z.mod_pos_bound (x + 2 ^ (n - 1)) (2 ^ n)). lia.
Qed.

Lemma wraps_small n x : 1 <= n -> - 2 ^ (n - 1) <= x < 2 ^ (n - 1) -> wraps n x = x.
Proof.
  intros Hn Hx; unfold wraps.
  assert (H2 : 2 ^ n = 2 * 2 ^ (n - 1)).
  { replace n with (Z.succ (n - 1)) at 1 by lia. rewrite Z.pow_succ_r; lia. }
  rewrite Z.mod_small; lia.
Qed.

Lemma wraps_cong n x : 1 <= n -> (wraps n x - x) mod 2 ^ n = 0.
Proof.
  intros Hn; unfold wraps.
  pose proof (pow2_pos n).
  rewrite (Z.mod_eq (x + 2 ^ (n - 1)) (2 ^ n)) by lia.
  replace (x + 2 ^ (n - 1) - 2 ^ n * ((x + 2 ^ (n - 1)) / 2 ^ n) - 2 ^ (n - 1) - x)
    with ((- ((x + 2 ^ (n - 1)) / 2 ^ n)) * 2 ^ n) by ring.
  apply Z.mod_mul; lia.
Qed.

Lemma wrapu_wraps n x : 1 <= n -> wrapu n (wraps n x) = wrapu n x.
Proof.
  intros Hn. unfold wrapu.
  pose proof (pow2_pos n).
  pose proof (wraps_cong n x Hn) as Hc.
  replace (wraps n x) with (x + (wraps n x - x)) by ring.
  rewrite Z.add_mod by lia. rewrite Hc, Z.add_0_r. apply Z.mod_mod; lia.
Qed.

(* ---- byte lanes ---- *)
Lemma bytes_le_length n x : length (bytes_le n x) = n.
Proof. revert x; induction n as [|n IH]; intros x; simpl; [reflexivity | now rewrite IH]. Qed.

Lemma le_bytes_le n x : le (bytes_le n x) = x mod 256 ^ (Z.of_nat n).
Proof.
  revert x; induction n as [|n IH]; intros x.
  - simpl. now rewrite Z.mod_1_r.
  - cbn [bytes_le le]. rewrite IH.
    rewrite Nat2Z.inj_succ, Z.pow_succ_r by lia.
    assert (Hp : 0 < 256 ^ Z.of_nat n) by (apply Z.pow_pos_nonneg; lia).
    rewrite Z.rem_mul_r by lia. reflexivity.
Qed.

Lemma lane_div x k : 0 <= k -> lane x k = (x / 2 ^ (8 * k)) mod 256.
Proof. intros; unfold lane; rewrite Z.shiftr_div_pow2 by lia; reflexivity. Qed.

Lemma bytes_le_lanes8 x :
  bytes_le 8 x = [lane x 0; lane x 1; lane x 2; lane x 3; lane x 4; lane x 5; lane x 6; lane x 7].
Proof.
  unfold lane. rewrite !Z.shiftr_div_pow2 by lia. cbn [bytes_le].
  rewrite !Z.div_div by lia.
  change (8 * 0) with 0; change (2 ^ 0) with 1; rewrite Z.div_1_r.
  repeat f_equal.
Qed.

Lemma bytes_le_lanes4 x :
  bytes_le 4 x = [lane x 0; lane x 1; lane x 2; lane x 3].
Proof.
  unfold lane. rewrite !Z.shiftr_div_pow2 by lia. cbn [bytes_le].
  rewrite !Z.div_div by lia.
  change (8 * 0) with 0; change (2 ^ 0) with 1; rewrite Z.div_1_r.
  repeat f_equal.
Qed.

Lemma le_lanes8 x : 0 <= x < 2 ^ 64 ->
  le [lane x 0; lane x 1; lane x 2; lane x 3; lane x 4; lane x 5; lane x 6; lane x 7] = x.
Proof.
  intros Hx. rewrite <- bytes_le_lanes8, le_bytes_le.
  change (256 ^ Z.of_nat 8) with (2 ^ 64). apply Z.mod_small; lia.
Qed.

Lemma le_lanes4 x : 0 <= x < 2 ^ 32 ->
  le [lane x 0; lane x 1; lane x 2; lane x 3] = x.
Proof.
  intros Hx. rewrite <- bytes_le_lanes4, le_bytes_le.
  change (256 ^ Z.of_nat 4) with (2 ^ 32). apply Z.mod_small; lia.
Qed.

(* byte(x >> 8k) as go2v emits it *)
Lemma wrapu8_shiftr x k : wrapu 8 (Z.shiftr x (8 * k)) = lane x k.
Proof. reflexivity. Qed.

Lemma lane_range x k : 0 <= lane x k < 256.
Proof. unfold lane; apply Z.mod_pos_bound; lia. Qed.
