(* A decoder + small-step semantics for exactly the x86 encodings goom emits
   (NOP; REX.W MOV r64,imm64; JMP [r64]; JMP [RIP+disp32]; JMP rel32; and the i386 MOV r32,imm32).
   Validated against the Go toolchain's x86asm by the harness (check C15), not trusted blindly. *)
From Goom Require Import Base.MachineInt.
Open Scope Z_scope.

Inductive ins :=
| Nop
| MovImm (r : Z) (imm : Z)      (* r = register number 0..7 (REX.B = 0) *)
| JmpInd (r : Z)                (* jmp qword/dword ptr [r] , mod=00, no SIB/disp *)
| JmpRel (d : Z)                (* signed displacement, relative to next instruction *)
| JmpRipInd (d : Z).            (* 64-bit mode: jmp qword ptr [rip+d], d relative to the next instruction *)

Record mstate := { rip : Z; regs : Z -> Z; mem : Z -> Z }.

(* [mode] = 64 or 32 *)
Definition decode (mode : Z) (bs : list Z) : option (ins * Z) :=
  match bs with
  | b0 :: r0 =>
    if b0 =? 144 then Some (Nop, 1)
    else if (mode =? 64) && (b0 =? 72) then
      match r0 with
      | b1 :: i0 :: i1 :: i2 :: i3 :: i4 :: i5 :: i6 :: i7 :: _ =>
        if (184 <=? b1) && (b1 <=? 191) then Some (MovImm (b1 - 184) (le [i0;i1;i2;i3;i4;i5;i6;i7]), 10) else None
      | _ => None
      end
    else if (mode =? 32) && (184 <=? b0) && (b0 <=? 191) then
      match r0 with
      | i0 :: i1 :: i2 :: i3 :: _ => Some (MovImm (b0 - 184) (le [i0;i1;i2;i3]), 5)
      | _ => None
      end
    else if b0 =? 255 then
      match r0 with
      | m :: _ =>
        (* mod=00 reg=/4 rm not in {4 (SIB), 5 (disp32 / RIP)} *)
        if (Z.land m 248 =? 32) && negb (Z.land m 7 =? 4) && negb (Z.land m 7 =? 5)
        then Some (JmpInd (Z.land m 7), 2)
        else if (mode =? 64) && (m =? 37) then     (* FF 25 disp32: mod=00 reg=/4 rm=101 = RIP-relative in 64-bit mode *)
          match r0 with
          | _ :: d0 :: d1 :: d2 :: d3 :: _ => Some (JmpRipInd (wraps 32 (le [d0;d1;d2;d3])), 6)
          | _ => None
          end
        else None
      | _ => None
      end
    else if b0 =? 233 then
      match r0 with
      | d0 :: d1 :: d2 :: d3 :: _ => Some (JmpRel (wraps 32 (le [d0;d1;d2;d3])), 5)
      | _ => None
      end
    else None
  | [] => None
  end.

Definition upd (f : Z -> Z) (k v : Z) : Z -> Z := fun x => if x =? k then v else f x.

Fixpoint fetch (m : Z -> Z) (a : Z) (n : nat) : list Z :=
  match n with O => [] | S n' => m a :: fetch m (a + 1) n' end.

Definition memw (mode : Z) (m : Z -> Z) (a : Z) : Z := le (fetch m a (Z.to_nat (mode / 8))).

Definition exec (mode : Z) (s : mstate) (i : ins) (len : Z) : mstate :=
  match i with
  | Nop => {| rip := wrapu mode (rip s + len); regs := regs s; mem := mem s |}
  | MovImm r v => {| rip := wrapu mode (rip s + len); regs := upd (regs s) r v; mem := mem s |}
  | JmpInd r => {| rip := memw mode (mem s) (regs s r); regs := regs s; mem := mem s |}
  | JmpRel d => {| rip := wrapu mode (rip s + len + d); regs := regs s; mem := mem s |}
  | JmpRipInd d => {| rip := memw mode (mem s) (wrapu mode (rip s + len + d)); regs := regs s; mem := mem s |}
  end.

Definition step (mode : Z) (s : mstate) : option mstate :=
  match decode mode (fetch (mem s) (rip s) 15) with
  | Some (i, len) => Some (exec mode s i len)
  | None => None
  end.

Fixpoint run (mode : Z) (n : nat) (s : mstate) : option mstate :=
  match n with
  | O => Some s
  | S n' => match step mode s with Some s' => run mode n' s' | None => None end
  end.

(* code [c] is present in memory at address [a] *)
Definition code_at (m : Z -> Z) (a : Z) (c : list Z) : Prop := fetch m a (length c) = c.

Definition RDX : Z := 2.
