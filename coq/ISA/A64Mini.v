(* Decoder + semantics for the arm64 encodings goom emits: MOVZ/MOVK (64-bit), LDR Xt,[Xn] (imm12=0), BR Xn. *)
From Goom Require Import Base.MachineInt.
Open Scope Z_scope.

Inductive ains :=
| Movz (rd hw imm : Z)
| Movk (rd hw imm : Z)
| Ldr (rt rn : Z)
| Br (rn : Z).

Definition field (w lo width : Z) : Z := (w / 2 ^ lo) mod 2 ^ width.

Definition adecode (w : Z) : option ains :=
  (* MOVZ/MOVK: sf=1 opc 100101 hw imm16 Rd *)
  if (field w 31 1 =? 1) && (field w 23 6 =? 37) then
    let opc := field w 29 2 in
    if opc =? 2 then Some (Movz (field w 0 5) (field w 21 2) (field w 5 16))
    else if opc =? 3 then Some (Movk (field w 0 5) (field w 21 2) (field w 5 16))
    else None
  (* LDR Xt,[Xn,#0]: 1111 1001 01 imm12=0 Rn Rt *)
  else if field w 10 22 =? 4083712 (* 0xF9400000 >> 10 *) then Some (Ldr (field w 0 5) (field w 5 5))
  (* BR Xn: 1101 0110 0001 1111 0000 00 Rn 00000 *)
  else if (field w 10 22 =? 3508160 (* 0xD61F0000 >> 10 *)) && (field w 0 5 =? 0) then Some (Br (field w 5 5))
  else None.

Record astate := { pc : Z; xr : Z -> Z; amem : Z -> Z }.

Definition upd (f : Z -> Z) (k v : Z) : Z -> Z := fun x => if x =? k then v else f x.

Fixpoint fetch (m : Z -> Z) (a : Z) (n : nat) : list Z :=
  match n with O => [] | S n' => m a :: fetch m (a + 1) n' end.

Definition mem64 (m : Z -> Z) (a : Z) : Z := le (fetch m a 8).

(* keep: value with the 16-bit lane [hw] cleared *)
Definition clear_lane (x hw : Z) : Z := x - ((x / 2 ^ (16 * hw)) mod 65536) * 2 ^ (16 * hw).

Definition aexec (s : astate) (i : ains) : astate :=
  match i with
  | Movz rd hw imm => {| pc := pc s + 4; xr := upd (xr s) rd (imm * 2 ^ (16 * hw)); amem := amem s |}
  | Movk rd hw imm => {| pc := pc s + 4; xr := upd (xr s) rd (clear_lane (xr s rd) hw + imm * 2 ^ (16 * hw)); amem := amem s |}
  | Ldr rt rn => {| pc := pc s + 4; xr := upd (xr s) rt (mem64 (amem s) (xr s rn)); amem := amem s |}
  | Br rn => {| pc := xr s rn; xr := xr s; amem := amem s |}
  end.

Definition astep (s : astate) : option astate :=
  match adecode (le (fetch (amem s) (pc s) 4)) with
  | Some i => Some (aexec s i)
  | None => None
  end.

Fixpoint arun (n : nat) (s : astate) : option astate :=
  match n with
  | O => Some s
  | S n' => match astep s with Some s' => arun n' s' | None => None end
  end.

Definition code_at (m : Z -> Z) (a : Z) (c : list Z) : Prop := fetch m a (length c) = c.
