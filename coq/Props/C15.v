(* C15 -- emitted jump sequences transfer control to exactly the requested address.
   Statements are about the Gallina REGENERATED from the Go source (the Gen modules), for all 64-bit addresses. *)
From Goom Require Import Base.MachineInt ISA.X86Mini Model.JumpEnc Proofs.JumpEncProofs Proofs.A64Proofs
  Tie.JumpTie Tie.A64Tie.
From Goom Require ISA.A64Mini Gen.JumpAmd64 Gen.IfaceJmpAmd64 Gen.Jump386 Gen.JumpArm64 Gen.IfaceJmpArm64.
Open Scope Z_scope.

(* amd64 entry patch: NOP; MOVABS RDX,to; JMP [RDX] -- only RIP and RDX change *)
Theorem C15_amd64_entry_jump : forall from to s,
  0 <= to < 2 ^ 64 -> 0 <= rip s -> rip s + 13 < 2 ^ 64 ->
  code_at (mem s) (rip s) (Gen.JumpAmd64.jmpToFunctionValue from to) ->
  exists s', run 64 3 s = Some s' /\ rip s' = memw 64 (mem s) to /\
             regs s' = upd (regs s) RDX to /\ mem s' = mem s.
Proof. intros from to s. rewrite tie_entry_jump. exact (entry_jump_runs s to). Qed.
Print Assumptions C15_amd64_entry_jump.

(* amd64 interface stub: MOVABS RDX,ctx; JMP [RDX] *)
Theorem C15_amd64_iface_stub : forall dx s,
  0 <= dx < 2 ^ 64 -> 0 <= rip s -> rip s + 12 < 2 ^ 64 ->
  code_at (mem s) (rip s) (Gen.IfaceJmpAmd64.jmpWithRdx dx) ->
  exists s', run 64 2 s = Some s' /\ rip s' = memw 64 (mem s) dx /\
             regs s' = upd (regs s) RDX dx /\ mem s' = mem s.
Proof. intros dx s. rewrite tie_iface_jump. exact (abs_jump_rdx_runs s dx). Qed.
Print Assumptions C15_amd64_iface_stub.

(* amd64 trampoline return: the destination is a CODE address; the form chosen is rel32 or JMP [RIP+0] with the
   destination as an inline literal; whichever is chosen lands on [to] itself and changes no register *)
Theorem C15_amd64_origin_jump : forall to s,
  0 <= rip s -> rip s + 14 < 2 ^ 64 -> 0 <= to < 2 ^ 64 ->
  code_at (mem s) (rip s) (Gen.JumpAmd64.jmpToOriginFunctionValue (rip s) to) ->
  exists s', run 64 1 s = Some s' /\ rip s' = to /\ regs s' = regs s /\ mem s' = mem s.
Proof.
  intros to s Hr0 Hr1 Hto. rewrite tie_origin_jump.
  destruct (origin_jump_forms (rip s) to) as [[-> Hf]|[-> Hf]]; intros Hc.
  - apply rel_jump_runs; try assumption. lia.
  - apply abs_jump_rip_runs; assumption.
Qed.
Print Assumptions C15_amd64_origin_jump.

Theorem C15_amd64_origin_jump_length : forall from to,
  length (Gen.JumpAmd64.jmpToOriginFunctionValue from to) = 5%nat \/
  length (Gen.JumpAmd64.jmpToOriginFunctionValue from to) = 14%nat.
Proof. intros. rewrite tie_origin_jump. apply origin_jump_length. Qed.

(* the far form emitted before the repair F15b (the function-value form MOVABS RDX,to; JMP [RDX]) did NOT reach the
   destination and overwrote the context register: kept as a refutation of the pre-repair encoder *)
Theorem C15_amd64_origin_jump_pre_repair_refuted :
  exists to s, rel_fits (rip s) to = false /\ code_at (mem s) (rip s) (origin_jump_pre_repair (rip s) to) /\
    forall s', run 64 2 s = Some s' -> rip s' <> to /\ regs s' RDX <> regs s RDX.
Proof. exact origin_jump_pre_repair_refuted. Qed.

(* i386: MOV EDX,to; JMP [EDX] *)
Theorem C15_i386_jump : forall from to s,
  0 <= to < 2 ^ 32 -> 0 <= rip s -> rip s + 7 < 2 ^ 32 ->
  code_at (mem s) (rip s) (Gen.Jump386.jmpToFunctionValue from to) ->
  exists s', run 32 2 s = Some s' /\ rip s' = memw 32 (mem s) to /\
             regs s' = upd (regs s) RDX to /\ mem s' = mem s.
Proof. intros from to s. rewrite tie_386. exact (abs_jump_edx_runs s to). Qed.
Print Assumptions C15_i386_jump.

(* arm64: MOVZ/MOVK x4 reassemble the address in x26; LDR x10,[x26]; BR x10 *)
Theorem C15_arm64_patch_jump : forall from x s,
  0 <= x < 2 ^ 64 ->
  A64Mini.code_at (A64Mini.amem s) (A64Mini.pc s) (Gen.JumpArm64.jmpToFunctionValue from x) ->
  exists s', A64Mini.arun 6 s = Some s' /\ A64Mini.pc s' = A64Mini.mem64 (A64Mini.amem s) x /\
             A64Mini.xr s' 26 = x /\ A64Mini.amem s' = A64Mini.amem s /\
             (forall r, r <> 26 -> r <> 10 -> A64Mini.xr s' r = A64Mini.xr s r).
Proof. intros from x s Hx. rewrite tie_a64_patch_jump. apply a64_jump_runs; lia. Qed.
Print Assumptions C15_arm64_patch_jump.

Theorem C15_arm64_iface_stub : forall x s,
  0 <= x < 2 ^ 64 ->
  A64Mini.code_at (A64Mini.amem s) (A64Mini.pc s) (Gen.IfaceJmpArm64.jmpWithRdx x) ->
  exists s', A64Mini.arun 6 s = Some s' /\ A64Mini.pc s' = A64Mini.mem64 (A64Mini.amem s) x /\
             A64Mini.xr s' 26 = x /\ A64Mini.amem s' = A64Mini.amem s /\
             (forall r, r <> 26 -> r <> 27 -> A64Mini.xr s' r = A64Mini.xr s r).
Proof. intros x s Hx. rewrite tie_a64_iface_jump. apply a64_jump_runs; lia. Qed.
Print Assumptions C15_arm64_iface_stub.

(* non-vacuity: a concrete memory holding the entry jump for a far address meets the hypotheses *)
Definition demo_to : Z := 140737488355327.
Definition demo_mem : Z -> Z := fun a => nthZ (Gen.JumpAmd64.jmpToFunctionValue 0 demo_to) (a - 4096).
Example C15_nonvacuous :
  code_at demo_mem 4096 (Gen.JumpAmd64.jmpToFunctionValue 0 demo_to) /\
  Gen.JumpAmd64.relative 4096 (4096 + 2147483647 + 5) = true /\
  Gen.JumpAmd64.relative 4096 (4096 + 2147483648 + 5) = false /\
  Gen.JumpAmd64.relative 4294967296 (4294967296 - 2147483648 + 5) = true /\
  Gen.JumpAmd64.relative 4294967296 (4294967296 - 2147483648 + 4) = false.
Proof. vm_compute. repeat split. Qed.
