(* C18 -- argument expressions form a consistent predicate algebra. *)
From Coq Require Import List ZArith Bool Arith Lia.
From Goom Require Import Model.ArgExpr Proofs.ArgExprProofs.
Import ListNotations.
Open Scope Z_scope.

Section C18.
  (* library behaviour the cascade of arg/equals.go consults: fmt's %v, strconv parsing, bool coercion.
     They are Section variables, not axioms; the only fact used is that %v is injective on numbers of one type
     (ordinary values), which the harness validates on every run against the real fmt. *)
  Variable fmtv : gval -> list Z.
  Variable str_to_float : list Z -> option gval.
  Variable str_to_number : list Z -> option gval.
  Variable to_bool : gval -> option bool.
  Hypothesis fmt_inj : forall l r, is_num l = true -> is_num r = true -> same_type l r = true ->
    zlist_eqb (fmtv l) (fmtv r) = deep_eq l r.

  (* Any accepts everything *)
  Theorem C18_any_true : forall input variadic,
    aeval fmtv str_to_float str_to_number to_bool AAny input variadic = Some true.
  Proof. exact (any_true fmtv str_to_float str_to_number to_bool). Qed.

  (* Equals(x) accepts a same-typed argument exactly when it equals x: two nils are equal, pointers and interfaces by
     what they hold, funcs by identity, everything else deep equality *)
  Theorem C18_equals_same_type : forall x a, same_type x a = true ->
    equal fmtv str_to_float str_to_number to_bool x a = go_eq x a.
  Proof. exact (equal_same_type fmtv str_to_float str_to_number to_bool fmt_inj). Qed.

  (* ... and is symmetric in x and the argument *)
  Theorem C18_equals_symmetric : forall x a, same_type x a = true ->
    equal fmtv str_to_float str_to_number to_bool x a = equal fmtv str_to_float str_to_number to_bool a x.
  Proof. exact (equal_sym fmtv str_to_float str_to_number to_bool fmt_inj). Qed.

  (* In(x1..xn) accepts exactly the union of Equals(xi) *)
  Theorem C18_in_is_union : forall (xs : list gval) a e,
    resolve_in (map (fun x => IOne (SEq x)) xs) 1 = Some e ->
    aeval fmtv str_to_float str_to_number to_bool e [a] false =
    Some (existsb (fun x => match aeval fmtv str_to_float str_to_number to_bool (AEquals x) [a] false with
                            | Some b => b | None => false end) xs).
  Proof. exact (in_values_is_union_of_equals fmtv str_to_float str_to_number to_bool). Qed.

  (* mixed alternatives (Any inside In) as well *)
  Theorem C18_in_is_union_sexpr : forall (ss : list sexpr) a e,
    resolve_in (map IOne ss) 1 = Some e ->
    aeval fmtv str_to_float str_to_number to_bool e [a] false =
    Some (existsb (fun s => seval fmtv str_to_float str_to_number to_bool s a) ss).
  Proof. exact (in_is_union fmtv str_to_float str_to_number to_bool). Qed.

  (* an earlier alternative that does not match (e.g. of another length) never stops the scan *)
  Theorem C18_in_scan_continues : forall alts1 one alts2 input,
    existsb (fun o => all2 fmtv str_to_float str_to_number to_bool o input) alts1 = false ->
    all2 fmtv str_to_float str_to_number to_bool one input = true ->
    aeval fmtv str_to_float str_to_number to_bool (AIn (alts1 ++ one :: alts2)) input false = Some true.
  Proof. exact (in_scan_continues fmtv str_to_float str_to_number to_bool). Qed.

  (* evaluation on one well-typed input always yields an answer (no error outcome); being a function of the
     expression and the input only, a later evaluation gives the same answer *)
  Theorem C18_eval_total : forall e a, exists b, aeval fmtv str_to_float str_to_number to_bool e [a] false = Some b.
  Proof. exact (eval_total fmtv str_to_float str_to_number to_bool). Qed.
End C18.

(* what "deep equality" means: equality of the values up to pointer addresses (on values containing no func) *)
Theorem C18_deep_eq_is_equality : forall a, func_free a = true -> forall b, deep_eq a b = true <-> erase a = erase b.
Proof. exact deep_eq_spec. Qed.

Theorem C18_go_eq_symmetric : forall a b, go_eq a b = go_eq b a.
Proof. exact go_eq_sym. Qed.

Print Assumptions C18_any_true.
Print Assumptions C18_equals_same_type.
Print Assumptions C18_equals_symmetric.
Print Assumptions C18_in_is_union.
Print Assumptions C18_in_is_union_sexpr.
Print Assumptions C18_in_scan_continues.
Print Assumptions C18_eval_total.
Print Assumptions C18_deep_eq_is_equality.

(* non-vacuity: the hypothesis on %v is satisfiable, and the statements speak about non-trivial values *)
Example C18_hypothesis_satisfiable : forall l r, is_num l = true -> is_num r = true -> same_type l r = true ->
  zlist_eqb (fmt_tagged l) (fmt_tagged r) = deep_eq l r.
Proof. exact fmt_tagged_inj. Qed.

Example C18_nonvacuous :
  let s1 := VStruct [VInt 64 1; VString [97]; VFloat 64 4609434218613702656] in
  let s2 := VStruct [VInt 64 2; VString [97]; VFloat 64 4609434218613702656] in
  same_type (VPtr 100 s1) (VPtr 200 s1) = true /\
  equal_c (VPtr 100 s1) (VPtr 200 s1) = true /\ equal_c (VPtr 100 s1) (VPtr 200 s2) = false /\
  equal_c (VNil NPtr) (VNil NPtr) = true /\ equal_c (VNil NPtr) (VPtr 100 s1) = false /\
  equal_c (VFunc 5) (VFunc 5) = true /\ equal_c (VFunc 5) (VFunc 6) = false /\
  equal_c (VUint 64 18446744073709551615) (VUint 64 18446744073709551614) = false /\
  aeval_c (AIn [[SEq (VInt 64 1)]; [SEq (VInt 64 2)]]) [VInt 64 2] false = Some true /\
  aeval_c (AIn [[SEq (VInt 64 1); SEq (VInt 64 1)]; [SEq (VInt 64 2)]]) [VInt 64 2] false = Some true.
Proof. vm_compute. repeat split; reflexivity. Qed.
