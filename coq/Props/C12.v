(* C12 -- within a builder the most recent instruction for a target wins. *)
From Coq Require Import List ZArith Bool Arith Lia.
From Goom Require Import Model.Stub Model.MockerLevel Proofs.MockerLevelProofs Proofs.MockerHistory Tie.MockerUniformTie.
From Goom Require Gen.MockerSkeleton.
Import ListNotations.
Open Scope Z_scope.

Theorem C12_cache_continues : forall s b t id m,
  mcache s b t = Some id -> nth_error (mks s) id = Some m -> k_canceled m = false ->
  mhandles (m_lookup s b t) = mhandles s ++ [id] /\ mks (m_lookup s b t) = mks s /\
  installed (m_lookup s b t) = installed s.
Proof. exact cache_continues. Qed.
Print Assumptions C12_cache_continues.

Theorem C12_fresh_after_cancel : forall s b t id m,
  mcache s b t = Some id -> nth_error (mks s) id = Some m -> k_canceled m = true ->
  mhandles (m_lookup s b t) = mhandles s ++ [length (mks s)] /\
  nth_error (mks (m_lookup s b t)) (length (mks s)) = Some {| k_target := t; k_when := None; k_canceled := false |}.
Proof. exact lookup_after_cancel_is_fresh. Qed.

Theorem C12_apply_supersedes_stubs : forall s h id m k,
  nth_error (mhandles s) h = Some id -> nth_error (mks s) id = Some m ->
  let s' := mstep 0 s (MApply h k) in
  installed s' (k_target m) = Some (ICallback k) /\
  nth_error (mks s') id = Some {| k_target := k_target m; k_when := None; k_canceled := false |} /\
  (forall t, t <> k_target m -> installed s' t = installed s t).
Proof. exact apply_supersedes. Qed.

Theorem C12_return_supersedes_callback : forall s h id m r,
  nth_error (mhandles s) h = Some id -> nth_error (mks s) id = Some m -> k_when m = None ->
  installed (mstep 0 s (MReturn h r)) (k_target m) = Some (IStub id).
Proof. exact return_installs_stub. Qed.

Theorem C12_when_supersedes_callback : forall s h id m v r,
  nth_error (mhandles s) h = Some id -> nth_error (mks s) id = Some m -> k_when m = None ->
  installed (mstep 0 s (MWhen h v r)) (k_target m) = Some (IStub id).
Proof. exact when_installs_stub. Qed.

Theorem C12_cancel_restores_original : forall s id m,
  nth_error (mks s) id = Some m ->
  (installed (m_cancel s id) (k_target m) = None) /\
  (nth_error (mks (m_cancel s id)) id = Some {| k_target := k_target m; k_when := None; k_canceled := true |}) /\
  (forall t, t <> k_target m -> installed (m_cancel s id) t = installed s t).
Proof. exact cancel_restores_original. Qed.

Theorem C12_pkg_applies_to_next_lookup_only : forall s b t p,
  mpkg (mstep 0 s (MPkg b p)) b = Some p /\
  mpkg (m_lookup (mstep 0 s (MPkg b p)) b t) b = None /\
  (forall b', b' <> b -> mpkg (m_lookup s b t) b' = mpkg s b') /\
  mpkg (mstep 0 s (MVarLookup b)) = mpkg s.
Proof. exact pkg_applies_to_next_lookup_only. Qed.

(* THE WHOLE-HISTORY STATEMENT. For every history of lookups, Apply, Return, When..Return, Cancel, Reset, Pkg and calls,
   in any order and of any length, over any number of builders, targets and handles, that respects the property's domain
   (each target is used through one builder -- owner -- and an instruction or Cancel goes through a handle of the
   target's CURRENT mocker; a handle whose mocker was cancelled and then superseded by a newer lookup is stale), a call
   of any target t behaves according to the most recent instruction for t as computed by the last-writer-wins
   reference ref_step: the original after Cancel/Reset or when nothing was said, the callback of the latest Apply, or
   the answer of the live stub configuration of the latest Return/When (continued, not discarded, by repeated lookups). *)
Theorem C12_last_instruction_wins : forall ntargets owner xs t a,
  disciplined ntargets owner (minit, fun _ => LNone) xs ->
  let s := fst (hrun ntargets (minit, fun _ => LNone) xs) in
  match snd (hrun ntargets (minit, fun _ => LNone) xs) t with
  | LNone => snd (probe s t a) = POriginal
  | LApply k => snd (probe s t a) = PCallback k
  | LStub id => exists m w, nth_error (mks s) id = Some m /\ k_target m = t /\ k_when m = Some w /\
                            snd (probe s t a) = PStub (snd (invoke w [a]))
  end.
Proof. exact last_instruction_wins. Qed.
Print Assumptions C12_last_instruction_wins.

(* the hypothesis is satisfiable by a history that exercises continuation, supersession in both directions, cancel,
   a fresh mocker after cancel, reset and interleaved calls (two targets, two builders) *)
Example C12_history_nonvacuous :
  let xs := [HOp (MLookup 0 0); HOp (MWhen 0 1 11); HProbe 0 1; HOp (MApply 0 3); HOp (MReturn 0 33); HOp (MLookup 0 0);
             HOp (MReturn 1 34); HProbe 0 0; HProbe 0 0; HOp (MLookup 1 1); HOp (MApply 2 7); HOp (MCancel 1);
             HOp (MLookup 0 0); HOp (MReturn 3 44); HOp (MReset 1); HProbe 1 2] in
  disciplined 2 (fun t => t) (minit, fun _ => LNone) xs /\
  snd (hrun 2 (minit, fun _ => LNone) xs) 0%nat = LStub 2 /\ snd (hrun 2 (minit, fun _ => LNone) xs) 1%nat = LNone.
Proof.
  split; [|split; vm_compute; reflexivity].
  apply disciplinedb_sound. vm_compute. reflexivity.
Qed.

(* the model has ONE kind of mocker; goom has five (function, method, unexported function, unexported method, interface
   method) on one base mocker. What the model's Apply / re-apply rules need from each of them -- every Apply discards
   the stale When before installing, every applyBy* installs the guard, records the callback and clears the cancelled
   mark -- is checked on the skeletons regenerated from mocker.go / iface.go (findings F12b and F12c were one kind
   diverging from its siblings) *)
Theorem C12_mocker_kinds_uniform :
  forallb apply_ok apply_skeletons = true /\ forallb applyby_ok applyby_skeletons = true /\
  cancel_ok Gen.MockerSkeleton.baseMocker_Cancel_skeleton = true.
Proof. exact mocker_kinds_uniform. Qed.
Print Assumptions C12_mocker_kinds_uniform.

(* non-vacuity / the history of finding F12: When; Apply; Return -- the Return must win *)
Example C12_when_apply_return :
  let ops := [MLookup 0 0; MWhen 0 1 11; MApply 0 3; MReturn 0 33; MLookup 0 0; MCancel 1; MLookup 0 0; MReturn 2 44] in
  map (fun r => map (fun p => match p with POriginal => -1000 | PCallback k => 500 + k | PStub (ORet r) => r | PStub _ => -10 end)
                    (firstn 3 (fst r))) (mtrace 1 1 minit ops) =
  [[-1000; -1000; -1000]; [-10; 11; -10]; [503; 503; 503]; [33; 33; 33]; [33; 33; 33];
   [-1000; -1000; -1000]; [-1000; -1000; -1000]; [44; 44; 44]].
Proof. vm_compute. reflexivity. Qed.
