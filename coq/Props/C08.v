(* C08 -- variable mocks take effect for every type and restore the pre-mock value. *)
From Coq Require Import List ZArith Bool Arith Lia.
From Goom Require Import Model.VarMock Proofs.VarMockProofs Tie.SkeletonTie Model.VarLayout Proofs.VarLayoutProofs.
From Goom Require Gen.MockerSkeleton.
Import ListNotations.
Open Scope Z_scope.

(* For every history (any number of builders, variables, handles; Set/Apply repeated any number of times;
   Cancel/Reset any number of times; re-lookups; direct assignments while un-mocked) that respects the
   single-holder discipline: every remembered value is the value the program itself last gave the variable,
   and whenever nothing is remembered for v, v holds exactly that value. *)
Theorem C08_restore_first : forall nvars c0 ops s base,
  grun nvars (vinit c0, c0) ops = Some (s, base) ->
  (forall id m o, get_m s id = Some m -> m_origin m = Some o -> o = base (m_var m)) /\
  (forall v, (forall id m, get_m s id = Some m -> m_var m = v -> m_origin m = None) -> cells s v = base v).
Proof. exact restore_first. Qed.
Print Assumptions C08_restore_first.

Theorem C08_cancel_restores : forall s base h id m,
  Inv s base -> nth_error (handles s) h = Some id -> get_m s id = Some m -> Sole s id (m_var m) ->
  cells (vstep 0 s (VCancel h)) (m_var m) = base (m_var m).
Proof. exact cancel_restores. Qed.

Theorem C08_readers_see_mock : forall s id m x,
  get_m s id = Some m -> cells (set_m s id x) (m_var m) = x /\
  (forall w, w <> m_var m -> cells (set_m s id x) w = cells s w).
Proof. exact readers_see_mock. Qed.

Theorem C08_cancel_never_set_untouched : forall s id m,
  get_m s id = Some m -> m_origin m = None -> cells (cancel_m s id) = cells s.
Proof. exact cancel_never_set_untouched. Qed.

Theorem C08_cancel_twice : forall s id, cells (cancel_m (cancel_m s id) id) = cells (cancel_m s id).
Proof. exact cancel_twice. Qed.

Theorem C08_cancel_frame : forall s id m w,
  get_m s id = Some m -> w <> m_var m -> cells (cancel_m s id) w = cells s w.
Proof. exact cancel_frame. Qed.

Theorem C08_lookup_continues : forall s b v id m,
  cache s b v = Some id -> get_m s id = Some m -> m_canceled m = false ->
  handles (lookup s b v) = handles s ++ [id] /\ mockers (lookup s b v) = mockers s.
Proof. exact lookup_continues. Qed.

(* non-vacuity: a disciplined history with Set;Set;Reset, a never-set Cancel and a re-mock exists, and restores *)
Example C08_nonvacuous :
  let ops := [VLookup 0 0; VLookup 1 1; VSet 0 5; VSet 0 6; VCancel 1; VReset 0; VReset 0;
              VWrite 0 9; VLookup 0 0; VSet 2 3; VCancel 2] in
  match grun 2 (vinit (fun _ => 7), fun _ => 7) ops with
  | Some (s, base) => observe 2 s = [9; 7] /\ base 0%nat = 9
  | None => False
  end.
Proof. vm_compute. split; reflexivity. Qed.

(* the save-once / restore-once structure the model transcribes is the source's: control skeletons of
   defaultVarMocker.doSet and .Cancel regenerated from var.go by go2v on every run (Tie/SkeletonTie) *)
Theorem C08_save_restore_structure_is_source :
  List.length Gen.MockerSkeleton.defaultVarMocker_doSet_skeleton = 10%nat /\
  List.length Gen.MockerSkeleton.defaultVarMocker_Cancel_skeleton = 4%nat.
Proof. rewrite var_doset_skeleton_tie, var_cancel_skeleton_tie. split; reflexivity. Qed.
Print Assumptions C08_save_restore_structure_is_source.

(* ---- layout half (Model/VarLayout.v): what each addressing mode writes into the variable's words ---- *)
(* addressed by pointer the static type is known: every reader observes the value, whatever the variable's type *)
Theorem C08_by_pointer_every_type : forall st mem v,
  wf_value v -> (st = SIface \/ st = v_class v) -> read st (set_by_pointer st mem v) = stored st v.
Proof. exact by_pointer_exact. Qed.
Print Assumptions C08_by_pointer_every_type.
(* addressed by name it is exact when the variable's static type is the value's dynamic type ... *)
Theorem C08_by_name_same_type : forall mem v, wf_value v -> read (v_class v) (set_by_name mem v) = stored (v_class v) v.
Proof. exact by_name_exact_same_type. Qed.
Print Assumptions C08_by_name_same_type.
(* ... and REFUTED for a variable of interface type: the full property ("for any variable type", by 'package.name' too)
   does not hold of the code. The witness replays on the implementation (stream ue-iface: readers of varzoo.uErr /
   varzoo.uAny fault or see garbage after UnExportedVar(..).Set(..)): known finding F08c *)
Theorem C08_by_name_interface_refuted :
  exists (mem : list Z) (v : value), wf_value v /\ List.length mem = words SIface /\
    read SIface (set_by_name mem v) <> stored SIface v.
Proof. exact by_name_interface_refuted. Qed.
Print Assumptions C08_by_name_interface_refuted.
Theorem C08_by_name_is_source :
  List.length Gen.MockerSkeleton.unExportedVarMocker_set_skeleton = 3%nat.
Proof. rewrite uevar_set_skeleton_tie. reflexivity. Qed.
