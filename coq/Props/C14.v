(* C14 -- a patch touches only the target's entry bytes and leaves pages read+execute.
   Statements are about PageStart / the mProtectCrossPage loop / the WriteTo step order REGENERATED from the source. *)
From Goom Require Import Base.MachineInt Model.WriteTo Model.JumpEnc Proofs.WriteToProofs Tie.PageTie Tie.JumpTie Model.FuncSize Proofs.FuncSizeProofs.
From Goom Require Gen.Page Gen.JumpAmd64 Gen.LocksMemory Tie.LocksTie.
Open Scope Z_scope.

(* WriteTo as the source has it: protection passes over the pages produced by the source's loop, in the source's order *)
Definition gen_pages (ps addr len : Z) : list Z :=
  pages_from (Z.to_nat (len / ps + 2)) (Gen.Page.mProtectCrossPage_stride ps addr len)
             (Gen.Page.mProtectCrossPage_init ps addr len) (Gen.Page.mProtectCrossPage_bound ps addr len).
Definition gen_steps (ps addr : Z) (data : list Z) : list wstep :=
  flat_map (fun k => match k with
                     | SProt prot => map (fun p => Mprot p prot) (gen_pages ps addr (lenZ data))
                     | SCopy => [Copy addr data]
                     end) Gen.Page.WriteTo_shape.

Lemma gen_steps_model k addr data :
  1 <= k <= 62 -> 0 <= addr -> addr + lenZ data < 2 ^ 64 ->
  gen_steps (2 ^ k) addr data = steps_of (2 ^ k) addr data writeto_shape.
Proof.
  intros Hk Ha Hs. unfold gen_steps, steps_of, gen_pages, pages_of. rewrite tie_shape.
  assert (Hl : 0 <= lenZ data) by (unfold lenZ; lia).
  destruct (tie_loop k addr (lenZ data) Hk Ha Hl Hs) as (-> & -> & ->). reflexivity.
Qed.

(* any address, any data length, any page offset, across any number of page boundaries *)
Theorem C14_write_frame : forall k m addr data x,
  1 <= k <= 62 -> 0 <= addr -> addr + lenZ data < 2 ^ 64 ->
  bytes (run_steps m (gen_steps (2 ^ k) addr data)) x =
  if (addr <=? x) && (x <? addr + lenZ data) then nth (Z.to_nat (x - addr)) data 0 else bytes m x.
Proof. intros k m addr data x Hk Ha Hs. rewrite gen_steps_model by assumption. apply write_frame. Qed.
Print Assumptions C14_write_frame.

Theorem C14_pages_exact : forall k addr len q,
  1 <= k <= 62 -> 0 <= addr -> 0 <= len -> addr + len < 2 ^ 64 ->
  (In q (gen_pages (2 ^ k) addr len) <->
   exists j : nat, q = page_start (2 ^ k) addr + Z.of_nat j * 2 ^ k /\ q < addr + len).
Proof.
  intros k addr len q Hk Ha Hl Hs. unfold gen_pages.
  destruct (tie_loop k addr len Hk Ha Hl Hs) as (-> & -> & ->).
  apply pages_exact; [apply pow2_pos; lia | exact Hl].
Qed.

Theorem C14_final_rx : forall k m addr data q,
  1 <= k <= 62 -> 0 <= addr -> addr + lenZ data < 2 ^ 64 ->
  perms (run_steps m (gen_steps (2 ^ k) addr data)) q =
  if existsb (fun p => q =? p) (pages_of (2 ^ k) addr (lenZ data)) then {| p_r := true; p_w := false; p_x := true |}
  else perms m q.
Proof. intros k m addr data q Hk Ha Hs. rewrite gen_steps_model by assumption. apply final_rx. Qed.

(* pages remain executable in EVERY intermediate state, and no byte outside the range changes at any time *)
Theorem C14_always_exec : forall k m addr data mi q,
  1 <= k <= 62 -> 0 <= addr -> addr + lenZ data < 2 ^ 64 ->
  In mi (trace m (gen_steps (2 ^ k) addr data)) -> p_x (perms m q) = true -> p_x (perms mi q) = true.
Proof. intros k m addr data mi q Hk Ha Hs. rewrite gen_steps_model by assumption. apply always_exec. Qed.

Theorem C14_intermediate_frame : forall k m addr data mi x,
  1 <= k <= 62 -> 0 <= addr -> addr + lenZ data < 2 ^ 64 ->
  In mi (trace m (gen_steps (2 ^ k) addr data)) -> ~ (addr <= x < addr + lenZ data) -> bytes mi x = bytes m x.
Proof. intros k m addr data mi x Hk Ha Hs. rewrite gen_steps_model by assumption. apply intermediate_frame. Qed.

(* installing a mock = WriteTo(origin, entry jump): exactly the 13 entry bytes change *)
Theorem C14_apply_footprint : forall k m origin from to x,
  1 <= k <= 62 -> 0 <= origin -> origin + 13 < 2 ^ 64 ->
  ~ (origin <= x < origin + 13) ->
  bytes (run_steps m (gen_steps (2 ^ k) origin (Gen.JumpAmd64.jmpToFunctionValue from to))) x = bytes m x.
Proof.
  intros k m origin from to x Hk Ho Hs Hx.
  assert (Hlen : lenZ (Gen.JumpAmd64.jmpToFunctionValue from to) = 13).
  { rewrite tie_entry_jump. reflexivity. }
  rewrite C14_write_frame by (try assumption; rewrite Hlen; lia).
  rewrite Hlen. destruct ((origin <=? x) && (x <? origin + 13)) eqn:E; [|reflexivity].
  apply andb_prop in E as [E1 E2]. apply Z.leb_le in E1. apply Z.ltb_lt in E2. lia.
Qed.
Print Assumptions C14_apply_footprint.

Example C14_nonvacuous :
  let m0 := {| bytes := fun _ => 204; perms := fun _ => perm_of 5 |} in
  let d := [1; 2; 3; 4; 5; 6; 7; 8; 9; 10; 11; 12; 13] in
  gen_pages 4096 8190 13 = [4096; 8192] /\
  map (bytes (run_steps m0 (gen_steps 4096 8190 d))) [8189; 8190; 8202; 8203] = [204; 1; 13; 204] /\
  length (gen_steps 4096 8190 d) = 5%nat.
Proof. vm_compute. repeat split. Qed.

(* ---- the extent scan and the refusal of short functions (GetFuncSize / genJumpData over the decoder's report) ---- *)
(* the scan reports exactly the function's own instructions plus the INT3 padding behind them: it never includes a byte
   of the first real instruction behind the padding, nor anything behind a prologue match or an undecodable position *)
Theorem C14_extent_exact : forall s, func_size s = body_len s + pad_len (after_body s).
Proof. exact func_size_exact. Qed.
Print Assumptions C14_extent_exact.

(* so an accepted patch writes its 13 bytes inside [entry, entry + body + padding); a function (with its padding) shorter
   than the jump is refused, and so is one whose entry the decoder does not know *)
Theorem C14_accepted_jump_inside : forall s, accepts s = true -> jump_len <= body_len s + pad_len (after_body s).
Proof. exact accepted_jump_inside. Qed.
Theorem C14_too_short_refused : forall s, body_len s + pad_len (after_body s) < jump_len -> accepts s = false.
Proof. exact too_short_refused. Qed.
Theorem C14_undecodable_entry_refused : forall r, accepts (IStop :: r) = false.
Proof. exact undecodable_entry_refused. Qed.

Example C14_extent_nonvacuous :
  func_size [IOrd 3 false; IOrd 5 false; IOrd 1 false; IInt3 false; IInt3 false; IOrd 4 false; IOrd 2 false] = 11 /\
  accepts [IOrd 3 false; IOrd 5 false; IOrd 1 false; IInt3 false; IInt3 false; IOrd 4 false] = false /\
  accepts [IOrd 7 false; IOrd 5 false; IOrd 1 true; IOrd 9 false] = true.
Proof. vm_compute. repeat split; reflexivity. Qed.

(* ---- one write is one critical section (regenerated lock sites of package memory, Tie/LocksTie) ---- *)
(* "a write lands intact ... pages remain executable throughout" also needs that the sequence mprotect(RWX); copy;
   mprotect(RX) of one writer cannot interleave with that of another writer of the same page (the second mprotect of one
   would take the write permission away under the copy of the other): every step of WriteTo is under memoryAccessLock *)
Theorem C14_write_sequence_is_one_critical_section : Tie.LocksTie.write_sequence_atomic_stmt.
Proof. exact Tie.LocksTie.write_sequence_atomic. Qed.
Print Assumptions C14_write_sequence_is_one_critical_section.

(* ---- the fallback writer (memory.writeTo, taken when the kernel refuses mprotect(RWX)) ---- *)
(* what the property asks of a write holds for its bytes and its final protections ... *)
Theorem C14_fallback_write_frame : forall ps m addr data x,
  bytes (run_steps m (steps_of ps addr data Gen.Page.writeTo_fallback_shape)) x =
  if (addr <=? x) && (x <? addr + lenZ data) then nth (Z.to_nat (x - addr)) data 0 else bytes m x.
Proof. intros. rewrite tie_fallback_shape. apply fallback_write_frame. Qed.
Theorem C14_fallback_final_rx : forall ps m addr data q,
  perms (run_steps m (steps_of ps addr data Gen.Page.writeTo_fallback_shape)) q =
  if existsb (fun p => q =? p) (pages_of ps addr (lenZ data)) then {| p_r := true; p_w := false; p_x := true |}
  else perms m q.
Proof. intros. rewrite tie_fallback_shape. apply fallback_final_rx. Qed.
(* ... but "pages remain executable throughout" is REFUTED on this path (known finding F14a): the regenerated first pass
   asks for PROT_READ|PROT_WRITE. The witness replays on the implementation: the syscall trace of the fallback on a
   sacrificial page shows mprotect(page, PROT_READ|PROT_WRITE) before the copy (stream c14 -extra fallback-trace) *)
Theorem C14_fallback_always_exec_refuted :
  exists ps m addr data mi q,
    In mi (trace m (steps_of ps addr data Gen.Page.writeTo_fallback_shape)) /\ p_x (perms m q) = true /\ p_x (perms mi q) = false.
Proof. rewrite tie_fallback_shape. exact fallback_drops_exec_refuted. Qed.
Print Assumptions C14_fallback_always_exec_refuted.

