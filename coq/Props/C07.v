(* C07 -- interface-variable mocks dispatch each method to its own replacement and restore. *)
From Coq Require Import List Arith Bool Lia.
From Goom Require Import Model.IfaceMock Proofs.IfaceMockProofs Proofs.IfaceHistory.
Import ListNotations.

Section C07.
  Variable nmeth : nat -> nat.       (* number of methods of the interface type of each variable: any interface shape *)
  Variable key_of : nat -> nat.      (* the builder's cache key *)
  Hypothesis key_inj : forall v w, key_of v = key_of w -> v = w.   (* ... distinguishes variables (builder.go after the repair) *)

  (* mocking method m of variable v -- whatever its position in the method set -- makes the variable non-nil, makes a
     call of m reach exactly the new replacement, and changes no other variable *)
  Theorem C07_dispatch : forall s b v m,
    wf key_of s -> v < length (vars s) -> m < nmeth v ->
    (forall c x, get_ctx s c = Some x -> length (c_slots x) = nmeth (c_var x)) ->
    let s' := mock nmeth key_of s b v m in
    get_var s' v <> WNil /\ call s' v m = ORepl (length (live s)) /\
    (forall w, w <> v -> get_var s' w = get_var s w).
  Proof. exact (mock_dispatch nmeth key_of key_inj). Qed.

  (* exactly one slot of exactly one fabricated itab changes *)
  Theorem C07_slot_exact : forall s b v m s1 c x,
    wf key_of s -> v < length (vars s) -> lookup nmeth key_of s b v = (s1, c) -> get_ctx s1 c = Some x -> c_canceled x = false ->
    let s' := mock nmeth key_of s b v m in
    (exists x', get_ctx s' c = Some x' /\ forall m', m' <> m -> nth m' (c_slots x') None = nth m' (c_slots x) None) /\
    (forall c', c' <> c -> get_ctx s' c' = get_ctx s1 c').
  Proof. exact (mock_slot_exact nmeth key_of). Qed.

  (* a method that was not mocked panics with 'method not implements' *)
  Theorem C07_unmocked_not_implemented : forall s v c x m,
    get_var s v = WFake c -> get_ctx s c = Some x -> nth m (c_slots x) None = None -> call s v m = ONotImpl.
  Proof. exact unmocked_not_implemented. Qed.

  (* Cancel puts back the value the variable held before its first mock, touches no other variable, and marks the
     context so that Reset never applies it again *)
  Theorem C07_cancel_restores : forall s c x w,
    get_ctx s c = Some x -> c_backup x = Some w -> c_var x < length (vars s) ->
    get_var (cancel_ctx s c) (c_var x) = w /\
    (forall v, v <> c_var x -> get_var (cancel_ctx s c) v = get_var s v) /\
    (exists x', get_ctx (cancel_ctx s c) c = Some x' /\ c_canceled x' = true).
  Proof. exact cancel_restores. Qed.

  (* whatever happened to the builders: after a collection every replacement a call through a variable can reach is alive *)
  Theorem C07_gc_no_dangling : forall s v c x m k,
    get_var s v = WFake c -> v < length (vars s) -> get_ctx s c = Some x -> slots_retained x ->
    nth m (c_slots x) None = Some k -> k < length (live s) -> nth k (live s) false = true ->
    call (gc s) v m = ORepl k.
  Proof. exact gc_no_dangling. Qed.

  (* the retention invariant holds for a new context and is kept by every mock *)
  Theorem C07_retention_kept : forall s b c m x,
    get_ctx s c = Some x -> slots_retained x ->
    exists x', get_ctx (mock_on s b c m) c = Some x' /\ slots_retained x'.
  Proof. exact mock_keeps_retention. Qed.

  Theorem C07_retention_fresh : forall v, slots_retained (fresh_ctx nmeth v).
  Proof. exact (fresh_ctx_retention nmeth). Qed.
End C07.

Print Assumptions C07_dispatch.
Print Assumptions C07_slot_exact.
Print Assumptions C07_cancel_restores.
Print Assumptions C07_gc_no_dangling.
Print Assumptions C07_retention_kept.

(* THE WHOLE-HISTORY STATEMENT (refinement to an abstract specification). The reference machine of Proofs/IfaceHistory.v
   knows nothing about contexts, fabricated itabs, backups, the builder cache or the collector: it keeps, per variable,
   whether it is mocked and a table method -> latest replacement; Reset of a builder unmocks its variables; dropping a
   builder and collections do nothing. For EVERY history of mocks through fresh handles, mocks through kept handles
   (cancelled or not), calls, resets, dropped builders and collections at arbitrary points, over any number of
   variables, interface shapes and builders, in which every variable is mocked through one builder (owner) and method
   indices lie in the method set, the outcomes of all calls in the model equal those of the reference: each mocked
   method reaches its own latest replacement whatever its position, an unmocked method of a mocked variable gives
   'method not implements', an unmocked variable behaves as it did before the history (Reset restores it), different
   variables are independent, and no call ever reaches a collected closure or a missing context (never OCrash). *)
Theorem C07_history_refines : forall nmeth key_of owner nvars init0,
  (forall v w, key_of v = key_of w -> v = w) -> (forall v c, init0 v <> WFake c) ->
  forall ws nb ops,
  length ws = nvars -> (forall v, v < nvars -> nth v ws WNil = init0 v) -> Forall (ok nmeth owner nvars) ops ->
  snd (run nmeth key_of (init ws nb) ops) = ref_run owner init0 rinit ops.
Proof. exact history_refines. Qed.
Print Assumptions C07_history_refines.

Theorem C07_never_crashes : forall nmeth owner nvars init0,
  (forall v c, init0 v <> WFake c) -> forall ops r, Forall (ok nmeth owner nvars) ops -> ~ In OCrash (ref_run owner init0 r ops).
Proof. exact never_crashes. Qed.
Print Assumptions C07_never_crashes.

(* the hypotheses are satisfiable: the history of C07_nonvacuous below (two variables of a 4-method interface and two
   others, one builder, drop + collection + kept handle) is disciplined and the reference gives the same outcomes *)
Example C07_history_nonvacuous :
  let nm := fun v => nth v [4; 4; 1; 3] 0 in
  let ops := [OMock 0 0 2 false; OMock 0 1 0 true; OCall 0 2; OCall 1 0; OCall 1 3; ODrop 0; OGC; OCall 0 2; OCall 1 0; OReset 0; OCall 0 2;
              OMockKept 0 0 1; OCall 0 1; OCall 0 2; OReset 0] in
  Forall (ok nm (fun _ => 0) 4) ops /\
  ref_run (fun _ => 0) (fun v => nth v [WNil; WReal 2; WNil; WNil] WNil) rinit ops
    = [ONone; ONone; ORepl 0; ORepl 1; ONotImpl; ONone; ONone; ORepl 0; ORepl 1; ONone; ONilPanic;
       ONone; ORepl 2; ONotImpl; ONone].
Proof. split; [repeat constructor; cbn; lia|vm_compute; reflexivity]. Qed.

(* non-vacuity, and the finding F07b at the level of the model: with the OLD key (type of the variable: a1 and a2 share
   it) the second variable is routed to the first; with the variable as key both are mocked independently, survive
   dropping the builder and a collection, and Reset restores them *)
Example C07_nonvacuous :
  let nm := fun v => nth v [4; 4; 1; 3] 0 in
  let ops := [OMock 0 0 2 false; OMock 0 1 0 true; OCall 0 2; OCall 1 0; OCall 1 3; ODrop 0; OGC; OCall 0 2; OCall 1 0; OReset 0; OCall 0 2;
              OMockKept 0 0 1; OCall 0 1; OCall 0 2; OReset 0] in
  snd (run nm (fun v => v) (init [WNil; WReal 2; WNil; WNil] 1) ops)
    = [ONone; ONone; ORepl 0; ORepl 1; ONotImpl; ONone; ONone; ORepl 0; ORepl 1; ONone; ONilPanic;
       ONone; ORepl 2; ONotImpl; ONone] /\
  vars (fst (run nm (fun v => v) (init [WNil; WReal 2; WNil; WNil] 1) ops)) = [WNil; WReal 2; WNil; WNil].
Proof. vm_compute. split; reflexivity. Qed.

Example C07_type_key_refuted :
  let nm := fun v => nth v [4; 4; 1; 3] 0 in
  let type_of := fun v => nth v [0; 0; 1; 2] 0 in
  snd (run nm type_of (init [WNil; WNil; WNil; WNil] 1) [OMock 0 0 2 false; OMock 0 1 0 false; OCall 1 0])
    = [ONone; ONone; ONilPanic].
Proof. vm_compute. reflexivity. Qed.
