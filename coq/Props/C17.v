(* C17 -- the arm64 decoder is total and agrees with the reference on all 2^32 words.   (PARTIAL) *)
From Goom Require Import Base.MachineInt Model.A64Dec Proofs.A64DecProofs Gen.A64Table Tie.A64TableTie.
From Coq Require Import List ZArith Bool String Lia.
Import ListNotations.
Open Scope Z_scope.

(* the facts goom's arm64 function-extent and wrapper scans depend on, for the table REGENERATED from tables.go and for
   EVERY word of each branch / address class (B, B.cond, BL, CBZ, CBNZ, TBZ, TBNZ, ADR, ADRP -- 11 formats): first-match
   decoding selects that class's own format (all earlier formats are bit-disjoint from it: a computed check lifted by
   disjoint_sound), it has no canDecode predicate and only always-decodable arguments, so decoding succeeds with that
   opcode and the class's label displacement *)
Theorem C17_branch_class_exact : forall k f x,
  In k branch_classes -> nth_error a64_formats k = Some f -> matches f x = true ->
  decode_branch a64_formats x =
    Some (f_op f, match filter (fun a => match label_of a x with Some _ => true | None => false end) (f_args f) with
                  | a :: _ => label_of a x | [] => None end).
Proof.
  intros k f x Hin Hk Hm. apply (class_decodes a64_formats k f x); [|exact Hk|exact Hm].
  destruct branch_classes_ok as [H _]. rewrite forallb_forall in H. apply H. exact Hin.
Qed.
Print Assumptions C17_branch_class_exact.

(* the displacement of B/BL is 4 x the signed 26-bit field (so it reaches +-128 MiB in steps of 4); of B.cond, CBZ,
   CBNZ 4 x the signed 19-bit field; of TBZ/TBNZ 4 x the signed 14-bit field *)
Theorem C17_label_imm26 : forall x, label_imm26 x = 4 * sext 26 (field x 0 26).
Proof. exact label_imm26_spec. Qed.
Theorem C17_label_imm19 : forall x, label_imm19 x = 4 * sext 19 (field x 5 19).
Proof. exact label_imm19_spec. Qed.
Theorem C17_label_imm14 : forall x, label_imm14 x = 4 * sext 14 (field x 5 14).
Proof. exact label_imm14_spec. Qed.
Theorem C17_label_imm26_bounds : forall x, - 2 ^ 27 <= label_imm26 x < 2 ^ 27 /\ label_imm26 x mod 4 = 0.
Proof. exact label_imm26_bounds. Qed.

(* two formats that disagree on a commonly fixed bit never both admit a word (the lemma behind the computed check) *)
Theorem C17_disjoint_sound : forall f g x, disjoint f g = true -> matches f x = true -> matches g x = false.
Proof. exact disjoint_sound. Qed.

(* non-vacuity: BL +0x1234 and a backwards CBZ, decoded through the regenerated table *)
Example C17_nonvacuous :
  decode_branch a64_formats 2483029133 = Some ("BL"%string, Some 4660) /\       (* 0x9400048d: BL .+0x1234 *)
  decode_branch a64_formats 3053453249 = Some ("CBNZ"%string, Some (-8)) /\      (* 0xb5ffffc1: CBNZ x1, .-8 *)
  decode_branch a64_formats 2415919104 = Some ("ADRP"%string, Some 0).
Proof. vm_compute. repeat split; reflexivity. Qed.
