(* C06 -- method mocks replace exactly the named method for every instance. *)
From Coq Require Import List ZArith Bool Lia.
From Goom Require Import Model.MethodMock Proofs.MethodMockProofs Model.SymLookup Proofs.SymLookupProofs.
Import ListNotations.
Open Scope Z_scope.

Section C06.
  (* resolve: method -> the code address goom patches for it. How reflect's method table and the linker assign these
     addresses is not modelled: injectivity on non-generic methods is a hypothesis the harness validates on the corpus. *)
  Variable resolve : nat -> Z.

  Theorem C06_mock_exact : forall p m r m',
    behaviour resolve (apply_mock resolve p m r) m' = if resolve m' =? resolve m then Mocked r else behaviour resolve p m'.
  Proof. exact (mock_exact resolve). Qed.

  Theorem C06_only_the_named_method : forall p m r m', (forall a b, resolve a = resolve b -> a = b) ->
    behaviour resolve (apply_mock resolve p m r) m' = if Nat.eqb m' m then Mocked r else behaviour resolve p m'.
  Proof. exact (mock_only_named resolve). Qed.

  (* for every instance (receiver word) and argument: the replacement runs, with the receiver unchanged as first argument *)
  Theorem C06_all_instances_receiver_unchanged : forall p m r recv x,
    call resolve (apply_mock resolve p m r) m recv x = RanReplacement r recv x.
  Proof. exact (all_instances_receiver_unchanged resolve). Qed.

  Theorem C06_other_methods_untouched : forall p m r m' recv x, resolve m' <> resolve m ->
    call resolve (apply_mock resolve p m r) m' recv x = call resolve p m' recv x.
  Proof. exact (other_methods_untouched resolve). Qed.

  Theorem C06_cancel_restores : forall p m recv x, call resolve (cancel_mock resolve p m) m recv x = RanOriginal m recv x.
  Proof. exact (cancel_restores resolve). Qed.
End C06.

(* generic instantiations: affected exactly when they share the GC shape of the mocked one *)
Theorem C06_generic_shape : forall shape_of body p inst r inst',
  (forall s s', body s = body s' -> s = s') ->
  behaviour (resolve_generic shape_of body) (apply_mock (resolve_generic shape_of body) p inst r) inst'
  = if Nat.eqb (shape_of inst') (shape_of inst) then Mocked r else behaviour (resolve_generic shape_of body) p inst'.
Proof. exact generic_shape. Qed.

(* unexported methods are found by symbol name (package, receiver type with or without a star, method): the lookup compares names for equality, so a name
   that is a prefix of another ("get" / "getMore") cannot resolve to the other's address (C10's soundness theorem) *)
Theorem C06_name_exact : forall fa va fm vm t n a,
  find_func fa va fm vm t n = Some a -> exists e, In (n, e) (t_funcs t) /\ a = MachineInt.wrapu 64 (e + fst (alignments fa va fm vm t)).
Proof. exact find_func_sound. Qed.

Print Assumptions C06_mock_exact.
Print Assumptions C06_all_instances_receiver_unchanged.
Print Assumptions C06_generic_shape.
Print Assumptions C06_name_exact.

Example C06_nonvacuous :
  let resolve := fun m => Z.of_nat (4096 + 32 * m) in
  let p := apply_mock resolve (apply_mock resolve [] 3 7) 5 9 in
  call resolve p 3 1000 42 = RanReplacement 7 1000 42 /\ call resolve p 4 1000 42 = RanOriginal 4 1000 42 /\
  call resolve (cancel_mock resolve p 3) 3 1 2 = RanOriginal 3 1 2 /\ call resolve (cancel_mock resolve p 3) 5 1 2 = RanReplacement 9 1 2.
Proof. vm_compute. repeat split; reflexivity. Qed.
