(* C11 -- independent builders and concurrent callers are race-free and isolated.   (PARTIAL) *)
From Coq Require Import List Arith Bool Lia String.
From Goom Require Import Model.Conc Proofs.ConcProofs Tie.LocksTie.
From Goom Require Import Model.Patch Proofs.PatchProofs Model.WriteTo Proofs.WriteToProofs.
Import ListNotations.

(* lockset soundness, proved once: for every number of threads, every well-locked program and EVERY interleaving, a
   thread that is about to access a shared location owns the mutex that protects it, so two different threads are never
   both about to access the same location *)
Theorem C11_lockset_sound : forall protects progs s,
  forallb (wl protects []) progs = true -> creach (init_state progs) s ->
  forall i t loc w r, nth_error (threads s) i = Some t -> t_prog t = Acc loc w :: r -> owner s (protects loc) = Some i.
Proof. exact lockset_sound. Qed.

Theorem C11_no_two_accessors : forall protects progs s,
  forallb (wl protects []) progs = true -> creach (init_state progs) s ->
  forall i j ti tj loc w w' r r', nth_error (threads s) i = Some ti -> nth_error (threads s) j = Some tj ->
    t_prog ti = Acc loc w :: r -> t_prog tj = Acc loc w' :: r' -> i = j.
Proof. exact no_two_accessors. Qed.

(* the premise for goom's own shared state (patch table, raw text writes, function-size cache, load slides), read off
   the CURRENT source by go2v: every access site is inside a lock region, reached only from such regions, or ordered by
   sync.Once; all raw text writes of package patch are under the single mutex patchesLock *)
Theorem C11_discipline_holds :
  forallb protected Gen.LocksPatch.patch_globals_accesses = true /\
  forallb protected Gen.LocksBytecode.bytecode_globals_accesses = true /\
  forallb protected Gen.LocksUnexports.unexports_globals_accesses = true /\
  forallb under_patches_lock (filter is_write_site Gen.LocksPatch.patch_globals_accesses) = true /\
  forallb under_memory_lock Gen.LocksMemory.memory_writes_accesses = true /\
  Gen.UnpatchCallersRoot.root_guard_unpatch_callers = [] /\
  Gen.UnpatchCallersProxy.proxy_guard_unpatch_callers = ["Func"; "Method"]%string.
Proof.
  split; [exact patch_discipline|]. split; [exact bytecode_discipline|]. split; [exact unexports_discipline|].
  split; [exact (proj1 text_writes_serialised)|]. split; [exact (proj1 write_sequence_atomic)|]. exact unlocked_unpatch_callers.
Qed.

(* isolation: an operation on target t changes no entry of another target (C02's frame theorem), and a cancel restores
   exactly its own target; at quiescence -- every mocker cancelled -- all entries are pristine (C02's invariant) *)
Theorem C11_other_targets_untouched : forall s t cb ph t',
  PInv s -> t' <> t ->
  entry (fst (do_patch s t cb ph)) t' = entry s t' \/ entry (fst (do_patch s t cb ph)) t' = Pristine.
Proof. exact patch_frame. Qed.

Print Assumptions C11_lockset_sound.
Print Assumptions C11_discipline_holds.

(* non-vacuity: two threads contending for one mutex around a shared location, all interleavings start here *)
Example C11_nonvacuous :
  let protects := fun _ : nat => 0 in
  forallb (wl protects []) [[Acq 0; Acc 5 true; Rel 0]; [Acq 0; Acc 5 false; Acc 5 true; Rel 0]; []] = true /\
  wl protects [] [Acc 5 true] = false.
Proof. vm_compute. split; reflexivity. Qed.
