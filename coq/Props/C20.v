(* C20 -- executable stub space is never handed out twice or outside its reserve.
   Statements are about the IR program REGENERATED from holder.go on every run (Gen.Holder). *)
From Goom Require Import Base.MachineInt Model.StubSpace Proofs.StubSpaceProofs Tie.HolderTie.
From Goom Require Gen.Holder.
Open Scope Z_scope.

(* every number of concurrent requesters, every request size, EVERY schedule:
   returned regions lie inside the reserve and are pairwise disjoint *)
Theorem C20_concurrent_regions_disjoint_inbounds : forall max lo ns c,
  0 <= lo <= max -> Forall (fun n => 0 <= n) ns -> lo + fold_right Z.add 0 ns < 2 ^ 64 ->
  creach max (init_cfg Gen.Holder.acquireFromHolder_prog lo ns) c ->
  (forall i t a, nth_error (c_thr c) i = Some t -> res t = Some (Some a) -> lo <= a /\ a + len t <= max) /\
  (forall i j t1 t2 a1 a2, i <> j ->
       nth_error (c_thr c) i = Some t1 -> nth_error (c_thr c) j = Some t2 ->
       res t1 = Some (Some a1) -> res t2 = Some (Some a2) -> disj (a1, len t1) (a2, len t2)).
Proof. rewrite tie_holder_prog. exact conc_regions_disjoint_inbounds. Qed.
Print Assumptions C20_concurrent_regions_disjoint_inbounds.

(* a sequential request: success is exactly [off, off+n) with the bump pointer advanced and still <= max;
   a request that does not fit is an error and leaves the bump pointer where it was *)
Theorem C20_sequential_request : forall max off n off' r,
  0 <= off <= max -> 0 <= n -> max + n < 2 ^ 64 ->
  acquire Gen.Holder.acquireFromHolder_prog max off n = (off', r) ->
  match r with
  | Some a => a = off /\ off' = off + n /\ off' <= max
  | None => off' = off /\ off + n > max
  end.
Proof. rewrite tie_holder_prog. exact seq_acquire_sound. Qed.
Print Assumptions C20_sequential_request.

(* dispatch: the reserve is consulted iff the mapping failed; a mapped region is returned untouched *)
Theorem C20_mmap_dispatch : forall prog max off m n,
  match m with
  | MFresh a => space_acquire prog max off m n = (off, Some (SMmap a))
  | MFail => fst (space_acquire prog max off m n) = fst (acquire prog max off n) /\
             match snd (space_acquire prog max off m n) with
             | Some (SMmap _) => False
             | Some (SHolder a) => snd (acquire prog max off n) = Some a
             | None => snd (acquire prog max off n) = None
             end
  end.
Proof.
  intros prog max off m n. destruct m as [a|]; [reflexivity|].
  unfold space_acquire. destruct (acquire prog max off n) as [off' [a|]]; cbn; auto.
Qed.

(* the program as it stood before the repair is refuted by an explicit schedule *)
Theorem C20_pre_repair_program_refuted :
  cfg_ok 100 1000 (run_sched 1000 (init_cfg holder_prog_buggy 100 [8; 8]) buggy_witness) = false.
Proof. exact buggy_prog_refuted. Qed.

(* non-vacuity: reachable configurations with two returned regions exist *)
Example C20_nonvacuous :
  returned (run_sched 1000 (init_cfg Gen.Holder.acquireFromHolder_prog 100 [8; 8]) buggy_witness) = [(100, 8); (108, 8)].
Proof. rewrite tie_holder_prog. exact repaired_same_schedule. Qed.
