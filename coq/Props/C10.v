(* C10 -- symbol lookup by name yields the exact run-time address or an error. *)
From Goom Require Import Base.MachineInt Model.SymLookup Proofs.SymLookupProofs.
From Coq Require Import List ZArith Bool Lia.
Import ListNotations.
Open Scope Z_scope.

Section C10.
  (* the two anchor symbols and their run-time addresses (taken by goom from the running process itself) *)
  Variable fn_anchor var_anchor fn_anchor_mem var_anchor_mem : Z.
  Local Notation find_func := (find_func fn_anchor var_anchor fn_anchor_mem var_anchor_mem).
  Local Notation find_var := (find_var fn_anchor var_anchor fn_anchor_mem var_anchor_mem).

  (* for every table and every name: a lookup never yields some other symbol's address *)
  Theorem C10_never_another_symbol : forall t n a, find_func t n = Some a ->
    exists e, In (n, e) (t_funcs t) /\ a = wrapu 64 (e + fst (alignments fn_anchor var_anchor fn_anchor_mem var_anchor_mem t)).
  Proof. exact (find_func_sound fn_anchor var_anchor fn_anchor_mem var_anchor_mem). Qed.

  Theorem C10_never_another_variable : forall t n a, find_var t n = Some a ->
    exists e, In (n, e) (t_syms t) /\ a = wrapu 64 (e + snd (alignments fn_anchor var_anchor fn_anchor_mem var_anchor_mem t)).
  Proof. exact (find_var_sound fn_anchor var_anchor fn_anchor_mem var_anchor_mem). Qed.

  (* absent and near-miss names give an error *)
  Theorem C10_absent_is_error : forall t n, (forall e, ~ In (n, e) (t_funcs t)) -> find_func t n = None.
  Proof. exact (absent_is_error fn_anchor var_anchor fn_anchor_mem var_anchor_mem). Qed.
  Theorem C10_absent_var_is_error : forall t n, (forall e, ~ In (n, e) (t_syms t)) -> find_var t n = None.
  Proof. exact (absent_var_is_error fn_anchor var_anchor fn_anchor_mem var_anchor_mem). Qed.

  (* when the symbol table cannot be read every lookup errs; in a stripped binary variables err *)
  Theorem C10_unreadable_is_error : forall t n, t_readable t = false -> find_func t n = None /\ find_var t n = None.
  Proof. exact (unreadable_is_error fn_anchor var_anchor fn_anchor_mem var_anchor_mem). Qed.
  Theorem C10_stripped_vars_error : forall t n, t_syms t = [] -> find_var t n = None.
  Proof. exact (stripped_vars_error fn_anchor var_anchor fn_anchor_mem var_anchor_mem). Qed.

  (* exactness under the loader hypothesis (one slide for all text symbols, one for all data symbols, arithmetic
     modulo 2^64 -- measured for every symbol of the binary on every run): every present name resolves to exactly its
     run-time address *)
  Theorem C10_lookup_exact : forall t (mem : Z -> Z) delta n e,
    t_readable t = true -> NoDup (map fst (t_funcs t)) ->
    (forall n' e', In (n', e') (t_funcs t) -> mem n' = wrapu 64 (e' + delta)) ->
    (exists ae, In (fn_anchor, ae) (t_funcs t)) -> fn_anchor_mem = mem fn_anchor ->
    In (n, e) (t_funcs t) -> find_func t n = Some (mem n).
  Proof. exact (lookup_exact fn_anchor var_anchor fn_anchor_mem var_anchor_mem). Qed.

  Theorem C10_lookup_var_exact : forall t (mem : Z -> Z) delta n e,
    t_readable t = true -> NoDup (map fst (t_syms t)) ->
    (forall n' e', In (n', e') (t_syms t) -> mem n' = wrapu 64 (e' + delta)) ->
    (exists fe, In (fn_anchor, fe) (t_funcs t)) -> NoDup (map fst (t_funcs t)) ->
    (exists ae, In (var_anchor, ae) (t_syms t)) -> var_anchor_mem = mem var_anchor ->
    In (n, e) (t_syms t) -> find_var t n = Some (mem n).
  Proof. exact (lookup_var_exact fn_anchor var_anchor fn_anchor_mem var_anchor_mem). Qed.
End C10.

Print Assumptions C10_never_another_symbol.
Print Assumptions C10_absent_is_error.
Print Assumptions C10_unreadable_is_error.
Print Assumptions C10_lookup_exact.
Print Assumptions C10_lookup_var_exact.

(* non-vacuity: a position-independent load (slide 0x5555_0000_0000 mod 2^64) of a three-function table *)
Example C10_nonvacuous :
  let t := {| t_readable := true; t_funcs := [(1, 4198400); (2, 4198464); (7, 4200000)]; t_syms := [(9, 5000000); (1, 4198400)] |} in
  let d := 93823560581120 in
  find_func 7 9 (4200000 + d) (5000000 + d) t 2 = Some (4198464 + d) /\
  find_var 7 9 (4200000 + d) (5000000 + d) t 9 = Some (5000000 + d) /\
  find_func 7 9 (4200000 + d) (5000000 + d) t 3 = None.
Proof. vm_compute. repeat split; reflexivity. Qed.
