(* C16 -- the x86-64 decoder is total and exact on compiler-emitted code.   (PARTIAL) *)
From Goom Require Import Base.MachineInt Gen.X86Table Model.X86Len Model.X86Abs Proofs.X86LenProofs Proofs.X86AbsProofs Tie.X86TableTie Tie.X86ArmsTie.
From Coq Require Import List ZArith Bool Lia FMapPositive.
Import ListNotations.
Open Scope Z_scope.

(* Decode(src, 64) over the decoding program REGENERATED from tables.go, for EVERY byte string: the interpreter never
   indexes the program or inst.Args out of range (RPanic), never reports errInternal, stops within x86_fuel = 32
   iterations (RFuel), a decoded instruction has 1 <= Len <= 15 and Len <= len(src), an unrecognised one Len <= 15 and
   <= len(src), and a PC-relative field (PCRel > 0) starts behind at least one byte and ends inside the instruction *)
Theorem C16_total_and_well_formed : forall src,
  match decode x86_tbl x86_fuel src with
  | ROk len _ _ pr po => 1 <= len <= 15 /\ len <= lenZs src /\ (pr = 0 \/ (0 < po /\ po + pr <= len))
  | RUnrecognized len => 0 <= len <= 15 /\ len <= lenZs src
  | RPrefix | RTruncated => True
  | RInternal _ | RPanic | RFuel => False
  end.
Proof. exact x86_decode_total_wf. Qed.
Print Assumptions C16_total_and_well_formed.

(* the same for ANY decoding program that the checker accepts (the checker, not the exploration, is what is trusted) *)
Theorem C16_checker_sound : forall tbl R rk fuel src,
  closed_check tbl R rk = true -> in_set R init_ast = true -> 0 <= rk init_ast < Z.of_nat fuel ->
  match decode tbl fuel src with
  | ROk len _ _ pr po => 1 <= len <= 15 /\ len <= lenZs src /\ (pr = 0 \/ (0 < po /\ po + pr <= len))
  | RUnrecognized len => 0 <= len <= 15 /\ len <= lenZs src
  | RPrefix | RTruncated => True
  | RInternal _ | RPanic | RFuel => False
  end.
Proof. exact decode_total_wf. Qed.
Print Assumptions C16_checker_sound.

(* what holds of the prefix / ModR/M / immediate skeleton whatever the decoding program is (even one the checker
   rejects): lengths never pass 15 or the input, a RIP-relative displacement field lies inside the instruction *)
Theorem C16_bounds_for_any_program : forall tbl fuel src len oc o pr po,
  decode tbl fuel src = ROk len oc o pr po ->
  0 <= len <= 15 /\ len <= lenZs src /\
  (pr = 0 \/ (0 < po /\ po + pr <= len) \/ (0 <= po <= len /\ (pr = 1 \/ pr = 2 \/ pr = 4))).
Proof. exact decode_ok_bounds. Qed.
Print Assumptions C16_bounds_for_any_program.

(* the program the theorems speak about is the list extracted from tables.go *)
Theorem C16_program_is_source : forall i, x86_tbl i = if i <? 0 then None else nth_error x86_decoder (Z.to_nat i).
Proof. exact x86_tbl_is_source. Qed.
Print Assumptions C16_program_is_source.

(* the model's classification of the argument operations is the shape of decode1's case clauses, regenerated from
   decode.go: which clauses require / exclude a memory operand, which record the RIP-relative displacement
   (inst.PCRel = displen, inst.PCRelOff = dispoff under mem.Base == RIP), which the rel8/16/32 immediate
   (inst.PCRelOff = immcpos, inst.PCRel = 1/2/4), how many inst.Args slots each fills, and that there is no clause the
   model does not know *)
Theorem C16_model_classification_is_source : arms_check x86_arms = true.
Proof. exact x86_arms_ok. Qed.
Print Assumptions C16_model_classification_is_source.

(* non-vacuity: CMPQ $0, 0x04030201(IP) (field of width 4 at offset 3 of 8), JBE .+12 (width 1 at offset 1),
   CALL rel32, a lone operand-size prefix, MOVSD xmm0, [rip+16] *)
Example C16_nonvacuous :
  (match decode x86_tbl x86_fuel [72; 131; 61; 1; 2; 3; 4; 0; 144] with ROk 8 _ _ 4 3 => true | _ => false end) = true /\
  (match decode x86_tbl x86_fuel [118; 12] with ROk 2 _ _ 1 1 => true | _ => false end) = true /\
  (match decode x86_tbl x86_fuel [232; 1; 0; 0; 0; 204] with ROk 5 _ _ 4 1 => true | _ => false end) = true /\
  decode x86_tbl x86_fuel [102; 102] = RPrefix /\
  (match decode x86_tbl x86_fuel [242; 15; 16; 5; 16; 0; 0; 0] with ROk 8 _ _ 4 4 => true | _ => false end) = true /\
  decode x86_tbl x86_fuel [] = RTruncated.
Proof. vm_compute. repeat split; reflexivity. Qed.
