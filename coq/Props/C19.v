(* C19 -- debug and trace logging never change what a mock does. *)
From Coq Require Import List ZArith Bool Arith Lia.
From Goom Require Import Model.Debug Proofs.DebugProofs.
Import ListNotations.
Open Scope Z_scope.

Section C19.
  (* fmt's behaviour is library code: a Section variable with the hypothesis that it renders every valid value
     without panicking (fmt recovers panics of String/Error methods itself); explored by the harness on nil pointers,
     nil interfaces, self-referential and unexported-field structures *)
  Variable fmt_ok : lval -> bool.
  Hypothesis fmt_total : forall a, valid a = true -> fmt_ok a = true.

  (* one call through the debug wrapper: the replacement runs exactly once with exactly the caller's parameters (same
     final state) and the caller sees the same results or the same panic -- for every replacement, every state, every
     parameter list, variadic or not, logging on or off *)
  Theorem C19_debug_transparent : forall (S : Type) debug excluded variadic (f : callee S) st ps,
    forallb valid ps = true ->
    (forall st' rs, f st ps = (st', Ret rs) -> forallb valid rs = true) ->
    intercept fmt_ok debug excluded variadic f st ps = f st ps.
  Proof. exact (@intercept_transparent fmt_ok fmt_total). Qed.

  Theorem C19_debug_transparent_pfunc : forall (S : Type) debug excluded (f : callee S) st ps,
    forallb valid ps = true ->
    (forall st' rs, f st ps = (st', Ret rs) -> forallb valid rs = true) ->
    intercept_pfunc fmt_ok debug excluded f st ps = f st ps.
  Proof. exact (@intercept_pfunc_transparent fmt_ok fmt_total). Qed.

  (* any sequence of calls: identical transcript *)
  Theorem C19_transcript_transparent : forall (S : Type) debug excluded variadic (f : callee S),
    (forall st ps st' rs, f st ps = (st', Ret rs) -> forallb valid rs = true) ->
    forall calls st, forallb (forallb valid) calls = true ->
    run_calls (intercept fmt_ok debug excluded variadic f) st calls = run_calls f st calls.
  Proof. exact (@transcript_transparent fmt_ok fmt_total). Qed.

  (* rendering for the log cannot fail on values reflect hands to a MakeFunc body (never the zero Value) *)
  Theorem C19_sprint_total : forall vs, forallb valid vs = true -> sprint_v fmt_ok vs = true.
  Proof. exact (sprint_total fmt_ok fmt_total). Qed.

  Theorem C19_sprint_fails_only_on_invalid : forall vs,
    sprint_v fmt_ok vs = false -> existsb (fun a => negb (valid a)) vs = true.
  Proof. exact (sprint_fails_only_on_invalid fmt_ok fmt_total). Qed.
End C19.

(* the choice between Call and CallSlice is what makes variadic targets work: the other form fails on every call *)
Theorem C19_wrong_form_breaks : forall (S : Type) variadic (f : callee S) st ps,
  reflect_invoke variadic (choose_form (negb variadic)) f st ps = (st, Pan reflect_panic).
Proof. exact @wrong_form_breaks. Qed.

Print Assumptions C19_debug_transparent.
Print Assumptions C19_debug_transparent_pfunc.
Print Assumptions C19_transcript_transparent.
Print Assumptions C19_sprint_total.
Print Assumptions C19_wrong_form_breaks.

(* non-vacuity: a counting replacement that panics on its second call, called three times through the wrapper *)
Example C19_nonvacuous :
  let f : callee nat := fun n ps => (S n, if Nat.eqb n 1 then Pan 7 else Ret (LNilPtr :: ps)) in
  let calls := [[LOther 1; LSlice [1; 2]]; [LNilIface]; [LPtr 3]] in
  run_calls (intercept (fun _ => true) true false true f) 0%nat calls = run_calls f 0%nat calls /\
  snd (run_calls f 0%nat calls) = [Ret [LNilPtr; LOther 1; LSlice [1; 2]]; Pan 7; Ret [LNilPtr; LPtr 3]] /\
  fst (run_calls f 0%nat calls) = 3%nat.
Proof. vm_compute. repeat split; reflexivity. Qed.
