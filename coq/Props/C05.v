(* C05 -- result sequences are served in order and stick at the last element. *)
From Coq Require Import List ZArith Bool Arith Lia.
From Goom Require Import Model.Stub Model.StubSpec Model.SeqConc Proofs.StubProofs Proofs.StubSpecProofs
  Proofs.SeqConcProofs Tie.CursorTie.
From Goom Require Gen.Cursor.
Import ListNotations.
Open Scope Z_scope.

(* sequential: goom's cursor bookkeeping = the clause-list specification, for every configuration and call history *)
Theorem C05_cursors_refine_spec : forall cf cs, calls (configure cf) cs = spec_calls (spec_of cf) cs.
Proof. exact invoke_refines_spec. Qed.
Print Assumptions C05_cursors_refine_spec.

(* in the specification the k-th selection of a clause yields its k-th result, then the last one for ever *)
Theorem C05_kth_selection : forall c,
  sc_cond c <> CEmpty -> sc_results c <> [] ->
  seq_result c = ORet (nth (Nat.min (sc_pos c) (length (sc_results c) - 1)) (sc_results c) 0).
Proof. exact seq_kth. Qed.

Theorem C05_sticky_at_last : forall c,
  sc_cond c <> CEmpty -> sc_results c <> [] -> (length (sc_results c) - 1 <= sc_pos c)%nat ->
  seq_result c = ORet (last (sc_results c) 0).
Proof. exact seq_sticky. Qed.

(* sequences advance independently: a call bumps exactly the clause it selected (or the default), nothing else *)
Theorem C05_independent_cursors : forall s pre c post args,
  ss_clauses s = pre ++ c :: post ->
  (forall x, In x pre -> cond_match (sc_cond x) args = false) -> cond_match (sc_cond c) args = true ->
  spec_invoke s args =
  ({| ss_clauses := pre ++ bump c :: post; ss_default := ss_default s; ss_nout := ss_nout s |}, seq_result c).
Proof. exact spec_first_match. Qed.

Theorem C05_default_cursor_independent : forall s d args,
  (forall x, In x (ss_clauses s) -> cond_match (sc_cond x) args = false) -> ss_default s = Some d ->
  spec_invoke s args =
  ({| ss_clauses := ss_clauses s; ss_default := Some (bump d); ss_nout := ss_nout s |}, seq_result d).
Proof. exact spec_else_default. Qed.

Theorem C05_repeated_selection : forall j s pre c post args,
  ss_clauses s = pre ++ c :: post ->
  (forall x, In x pre -> cond_match (sc_cond x) args = false) -> cond_match (sc_cond c) args = true ->
  sc_cond c <> CEmpty -> sc_results c <> [] ->
  spec_calls s (repeat args j) =
  map (fun i => ORet (nth (Nat.min (sc_pos c + i) (length (sc_results c) - 1)) (sc_results c) 0)) (seq 0 j).
Proof. exact repeated_selection. Qed.

(* concurrent callers of one stub, every schedule, any number of calls started at any time -- stated for the cursor
   program REGENERATED from matcher.go: every returned position is in range; a call that starts after another
   has completed never gets an earlier position; once the last position has been returned it is the only one *)
Theorem C05_concurrent_callers : forall n c,
  2 <= n -> kreach Gen.Cursor.BaseMatcher_Result_prog n kinit c ->
  (forall e, In e (k_done c) -> 0 <= lidx e < n) /\
  (forall a b, In a (k_done c) -> In b (k_done c) -> (lfin a < lstart b)%nat ->
               lidx a <= lidx b /\ (lidx a = n - 1 -> lidx b = n - 1)).
Proof. rewrite tie_result_prog. exact conc_sequence_safe. Qed.
Print Assumptions C05_concurrent_callers.

(* a lost-update variant (Store of loaded+1 instead of Add) is refuted by an explicit schedule *)
Theorem C05_lost_update_refuted :
  kcfg_ok 3 (fold_left (ksched_step store_prog 3) store_witness kinit) = false.
Proof. exact store_prog_refuted. Qed.

Example C05_nonvacuous :
  kcfg_ok 3 (fold_left (ksched_step Gen.Cursor.BaseMatcher_Result_prog 3) store_witness kinit) = true /\
  length (k_done (fold_left (ksched_step Gen.Cursor.BaseMatcher_Result_prog 3) store_witness kinit)) = 5%nat.
Proof. rewrite tie_result_prog. vm_compute. split; reflexivity. Qed.
