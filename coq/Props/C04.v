(* C04 -- conditional stubs select results by first matching condition, else default, else panic. *)
From Coq Require Import List ZArith Bool Arith Lia.
From Goom Require Import Model.Stub Model.StubSpec Proofs.StubProofs Proofs.StubSpecProofs.
Import ListNotations.
Open Scope Z_scope.

(* For every well-formed configuration history (default-first or When-first, any number of When/In clauses with
   Return/AndReturn sequences) and every sequence of calls (receiver-stripped, variadic-flattened argument lists),
   goom's id-based When state (shared matcher pointers, cursors) answers exactly as the clause-list specification. *)
Theorem C04_invoke_refines_spec : forall cf cs, calls (configure cf) cs = spec_calls (spec_of cf) cs.
Proof. exact invoke_refines_spec. Qed.
Print Assumptions C04_invoke_refines_spec.

(* ... and the specification is what the property says: *)
Theorem C04_first_registered_match_wins : forall s pre c post args,
  ss_clauses s = pre ++ c :: post ->
  (forall x, In x pre -> cond_match (sc_cond x) args = false) -> cond_match (sc_cond c) args = true ->
  spec_invoke s args =
  ({| ss_clauses := pre ++ bump c :: post; ss_default := ss_default s; ss_nout := ss_nout s |}, seq_result c).
Proof. exact spec_first_match. Qed.

Theorem C04_else_default : forall s d args,
  (forall x, In x (ss_clauses s) -> cond_match (sc_cond x) args = false) -> ss_default s = Some d ->
  spec_invoke s args =
  ({| ss_clauses := ss_clauses s; ss_default := Some (bump d); ss_nout := ss_nout s |}, seq_result d).
Proof. exact spec_else_default. Qed.

Theorem C04_else_no_suitable_condition_panic : forall s args,
  (forall x, In x (ss_clauses s) -> cond_match (sc_cond x) args = false) -> ss_default s = None ->
  ss_nout s <> 0%nat -> spec_invoke s args = (s, ONoSuitable).
Proof. exact spec_else_panic. Qed.

(* never garbage: a returned value is a configured result of the selected clause *)
Theorem C04_no_garbage : forall c r,
  seq_result c = ORet r -> sc_cond c = CEmpty /\ r = EMPTY \/ In r (sc_results c).
Proof. exact seq_result_configured. Qed.

(* matching semantics of the expressions: plain value by equality, Any always, In by membership;
   a condition matches iff arities agree and every expression accepts its argument *)
Theorem C04_expr_semantics : forall a v vs,
  eval_expr EAny a = true /\ (eval_expr (EEq v) a = true <-> v = a) /\
  (eval_expr (EIn vs) a = true <-> In a vs).
Proof.
  intros a v vs. split; [reflexivity|]. split.
  - cbn. apply Z.eqb_eq.
  - cbn. rewrite existsb_exists. split.
    + intros [x [Hx He]]. apply Z.eqb_eq in He. now subst.
    + intros H. exists a. split; [exact H | apply Z.eqb_refl].
Qed.

Theorem C04_condition_all_args : forall es args,
  eval_all es args = true <-> length es = length args /\ Forall2 (fun e a => eval_expr e a = true) es args.
Proof.
  induction es as [|e es IH]; intros [|a args]; cbn [eval_all length]; split; try discriminate; try (intros [H _]; discriminate).
  - intros _. split; [reflexivity | constructor].
  - reflexivity.
  - intros H. apply andb_prop in H as [H1 H2]. apply IH in H2 as [H2 H3]. split; [congruence|]. now constructor.
  - intros [H1 H2]. inversion H2; subst. apply andb_true_intro. split; [assumption|]. apply IH. split; [congruence | assumption].
Qed.

Example C04_nonvacuous :
  let cf := {| cf_nout := 1; cf_default := Some (100, [101]); cf_first_when := None;
               cf_clauses := [ {| cc_kind := KWhen [EEq 1; EAny]; cc_first := 11; cc_more := [12; 13] |};
                               {| cc_kind := KIn [[EEq 2; EEq 2]; [EEq 1; EEq 5]]; cc_first := 21; cc_more := [] |} ] |} in
  calls (configure cf) [[1; 5]; [1; 5]; [2; 2]; [9; 9]; [1; 1]; [9; 9]; [9; 9]] =
  [ORet 11; ORet 12; ORet 21; ORet 100; ORet 13; ORet 101; ORet 101].
Proof. vm_compute. reflexivity. Qed.
