(* placeholder until the refinement proof lands *)
From Goom Require Import Model.Stub Model.StubSpec.
