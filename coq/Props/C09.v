(* C09 -- stubbed values reach callers unaltered and typed as the function declares. *)
From Coq Require Import List ZArith Bool Arith Lia.
From Goom Require Import Model.ToValue Proofs.ToValueProofs Tie.SkeletonTie.
From Goom Require Gen.ArgSkeleton.
Import ListNotations.
Open Scope Z_scope.

Section C09.
  (* identity of the one special type *iface.IContext and reflect's assignability relation (library behaviour, observed
     by the harness for every pair it runs) -- Section variables, not axioms *)
  Variable icontext_id : Z.
  Variable assignable : gtype -> gtype -> bool.
  Local Notation to_value := (to_value icontext_id assignable).

  (* nil becomes the typed zero value for pointer, interface, slice, map, channel and func results *)
  Theorem C09_nil_zero : forall out, nilable (t_kind out) = true -> to_value None out = Ok (RZero out).
  Proof. exact (nil_zero icontext_id assignable). Qed.

  (* ... and is never turned into a value of a kind that has no nil *)
  Theorem C09_nil_other : forall out, nil_ok (t_kind out) = false -> to_value None out = Panic.
  Proof. exact (nil_other icontext_id assignable). Qed.

  (* a value of the declared type is handed on as it is *)
  Theorem C09_unaltered : forall v out,
    ty_eqb (v_ty v) out = true -> t_kind (v_ty v) = t_kind out -> t_size (v_ty v) = t_size out ->
    is_icontext icontext_id out = false -> t_kind out <> KIface ->
    to_value (Some v) out = Ok (RVal out (v_payload v) (v_nil v)).
  Proof. exact (unaltered icontext_id assignable). Qed.

  (* concrete values are boxed into interface results with their dynamic type intact *)
  Theorem C09_boxing : forall v out,
    t_kind out = KIface -> ty_eqb (v_ty v) out = false -> is_icontext icontext_id (v_ty v) = false ->
    assignable (v_ty v) out = true ->
    to_value (Some v) out = Ok (RBoxed out (v_ty v) (v_payload v) (v_nil v)).
  Proof. exact (boxing icontext_id assignable). Qed.

  (* a struct or struct pointer of identical size stands in for the declared type: retyped, data kept *)
  Theorem C09_standin : forall v out,
    struct_or_ptr (t_kind out) = true -> ty_eqb (v_ty v) out = false -> t_size (v_ty v) = t_size out ->
    is_icontext icontext_id out = false ->
    to_value (Some v) out = Ok (RVal out (v_payload v) (v_nil v)).
  Proof. exact (standin icontext_id assignable). Qed.

  (* a value whose size differs from the declared type is rejected rather than reinterpreted *)
  Theorem C09_size_mismatch : forall v out,
    t_kind out <> KIface -> t_size (v_ty v) <> t_size out -> forall r, to_value (Some v) out <> Ok r.
  Proof. exact (size_mismatch icontext_id assignable). Qed.

  (* whatever is accepted carries exactly the supplied data ... *)
  Theorem C09_data_unaltered : forall v out res,
    to_value (Some v) out = Ok res -> payload_of res = Some (v_payload v, v_nil v).
  Proof. exact (data_unaltered icontext_id assignable). Qed.

  (* ... an interface result holds the supplied dynamic type (or the declared one it stands in for) ... *)
  Theorem C09_boxed_dyn_intact : forall v out ity dyn p n,
    to_value (Some v) out = Ok (RBoxed ity dyn p n) ->
    ity = out /\ (dyn = v_ty v \/ (dyn = out /\ struct_or_ptr (t_kind out) = true)).
  Proof. exact (boxed_dyn_intact icontext_id assignable). Qed.

  (* ... and has the declared type, or is a same-size value of another type, which reflect refuses at call time:
     the caller never receives a value of a type other than the declared one *)
  Theorem C09_accepted_typed : forall r out res,
    to_value r out = Ok res ->
    ty_eqb (rtype res) out = true \/
    (t_size (rtype res) = t_size out /\ struct_or_ptr (t_kind out) = false /\ t_kind out <> KIface).
  Proof. exact (accepted_typed icontext_id assignable). Qed.

  Theorem C09_delivered_typed : forall res out g, deliver res out = Got g -> g = res /\ ty_eqb (rtype g) out = true.
  Proof. exact delivered_typed. Qed.

  (* conversion back for Eval: a zero pointer / interface result maps to untyped nil, anything else is kept *)
  Theorem C09_v2i_nil : forall out, (t_kind out = KPtr \/ t_kind out = KIface) -> v2i_one (RZero out) out = BNil.
  Proof. exact v2i_nil. Qed.
  Theorem C09_v2i_keeps : forall r out, is_zero r = false -> v2i_one r out = BVal r.
  Proof. exact v2i_keeps. Qed.

  (* lists of values (Return(a, b, ...), When(a, b, ...)): accepted only when the count fits, every value converted
     against the type of its own position *)
  Theorem C09_i2v_accepts : forall objs types el variadic vs,
    i2v icontext_id assignable objs types el variadic = inl (Some vs) ->
    arity_ok (length objs) (length types) variadic = true /\ length vs = length objs /\
    forall i o, nth_error objs i = Some o ->
      exists t v, type_at types el variadic i = Some t /\ nth_error vs i = Some v /\ to_value o t = Ok v.
  Proof. exact (i2v_accepts icontext_id assignable). Qed.

  Theorem C09_i2v_count_rejected : forall objs types el variadic,
    arity_ok (length objs) (length types) variadic = false ->
    i2v icontext_id assignable objs types el variadic = inr false.
  Proof. exact (i2v_count_rejected icontext_id assignable). Qed.
End C09.

Print Assumptions C09_nil_zero.
Print Assumptions C09_unaltered.
Print Assumptions C09_boxing.
Print Assumptions C09_standin.
Print Assumptions C09_size_mismatch.
Print Assumptions C09_data_unaltered.
Print Assumptions C09_accepted_typed.
Print Assumptions C09_i2v_accepts.

(* non-vacuity: error (an interface) <- nil; *S <- *S2 of equal size; []byte result <- int rejected *)
Example C09_nonvacuous :
  let err := {| t_id := 1; t_kind := KIface; t_size := 16 |} in
  let ps := {| t_id := 2; t_kind := KPtr; t_size := 8 |} in
  let ps2 := {| t_id := 3; t_kind := KPtr; t_size := 8 |} in
  let bytes := {| t_id := 4; t_kind := KSlice; t_size := 24 |} in
  let int_ := {| t_id := 5; t_kind := KInt; t_size := 8 |} in
  let fn := {| t_id := 6; t_kind := KFunc; t_size := 8 |} in
  let asg := fun a b => (t_id a =? 2) && (t_id b =? 1) in
  to_value 99 asg None err = Ok (RZero err) /\
  to_value 99 asg None fn = Ok (RZero fn) /\
  to_value 99 asg (Some {| v_ty := ps2; v_payload := 7; v_nil := false |}) ps = Ok (RVal ps 7 false) /\
  to_value 99 asg (Some {| v_ty := ps; v_payload := 7; v_nil := false |}) err = Ok (RBoxed err ps 7 false) /\
  to_value 99 asg (Some {| v_ty := int_; v_payload := 7; v_nil := false |}) bytes = Err /\
  to_value 99 asg (Some {| v_ty := int_; v_payload := 7; v_nil := false |}) err = Panic /\
  deliver (RVal int_ 7 false) fn = CallPanics.
Proof. vm_compute. repeat split; reflexivity. Qed.

(* the decision structure the model transcribes is the source's: control skeletons of arg.toValue and arg.V2I regenerated
   from arg/value.go by go2v on every run (Tie/SkeletonTie) *)
Theorem C09_decision_structure_is_source :
  List.length Gen.ArgSkeleton.toValue_skeleton = 19%nat /\ List.length Gen.ArgSkeleton.V2I_skeleton = 7%nat.
Proof. rewrite tovalue_skeleton_tie, v2i_skeleton_tie. split; reflexivity. Qed.
Print Assumptions C09_decision_structure_is_source.
