(* C01 -- a mocked function runs the replacement with exact arguments and results.   (PARTIAL) *)
From Goom Require Import Base.MachineInt ISA.X86Mini Model.JumpEnc Proofs.JumpEncProofs Tie.JumpTie.
From Goom Require Import Model.Patch Proofs.PatchProofs Proofs.PatchRetain.
From Goom Require Gen.JumpAmd64.
From Coq Require Import List ZArith Bool Arith Lia.
Import ListNotations.
Open Scope Z_scope.

(* the entry jump as a frame condition. For the bytes REGENERATED from monkey_amd64.go, for every 64-bit address of the
   replacement's function value and every machine state: after the three instructions control is at the code pointer
   stored in the function value, RDX (the closure-context register of ABIInternal) holds the function value, and every
   other register -- all integer and floating-point argument registers, RSP -- and all of memory (hence every
   stack-passed argument) are exactly as the caller left them. So whatever the caller set up for ANY signature is
   what the replacement finds. *)
Theorem C01_entry_jump_frame : forall from to s,
  0 <= to < 2 ^ 64 -> 0 <= rip s -> rip s + 13 < 2 ^ 64 ->
  code_at (mem s) (rip s) (Gen.JumpAmd64.jmpToFunctionValue from to) ->
  exists s', run 64 3 s = Some s' /\ rip s' = memw 64 (mem s) to /\
             (forall r, r <> RDX -> regs s' r = regs s r) /\ regs s' RDX = to /\ mem s' = mem s.
Proof.
  intros from to s Hto H0 H1 Hc. rewrite tie_entry_jump in Hc.
  destruct (entry_jump_runs s to Hto H0 H1 Hc) as (s' & Hrun & Hrip & Hregs & Hmem).
  exists s'. split; [exact Hrun|]. split; [exact Hrip|]. split; [|split; [|exact Hmem]].
  - intros r Hr. rewrite Hregs. unfold X86Mini.upd. destruct (r =? RDX) eqn:E; [|reflexivity].
    apply Z.eqb_eq in E. contradiction.
  - rewrite Hregs. unfold X86Mini.upd. rewrite Z.eqb_refl. reflexivity.
Qed.
Print Assumptions C01_entry_jump_frame.

(* at every point of every history (any builders, targets, handles; apply, re-apply, stub, Origin, Cancel, Reset, re-mock):
   an entry that holds a jump holds the jump to the replacement of exactly the patch the table keeps for that target, so
   the replacement (whose address inside the machine code the collector cannot see) is reachable from the table for as long
   as calls are diverted to it. Collections and stack moves are not transitions of this model because they change neither
   the text nor the table: Go's heap does not move, and the jump embeds a heap (closure object) address, never a stack one. *)
Theorem C01_mocked_means_retained : forall n ops t cb,
  entry (prun n pinit ops) t = Jump cb ->
  exists pid p, table (prun n pinit ops) t = Some pid /\ nth_error (precs (prun n pinit ops)) pid = Some p /\
                p_cb p = cb /\ p_target p = t /\ p_applied p = true.
Proof. intros n ops t cb H. exact (ri_owned _ (retained_invariant n ops) t cb H). Qed.
Print Assumptions C01_mocked_means_retained.

(* from a reachable state an apply is never refused as 'already patched', and it installs exactly the new jump *)
Theorem C01_apply_installs_jump : forall n ops t cb ph,
  exists pid, snd (do_patch (prun n pinit ops) t cb ph) = Some pid /\
              entry (fst (do_patch (prun n pinit ops) t cb ph)) t = Jump cb.
Proof.
  intros n ops t cb ph. destruct (never_refused n ops t cb ph) as [pid H]. exists pid. split; [exact H|].
  unfold do_patch in *.
  destruct ((match table (prun n pinit ops) t with Some old => unpatch_entry (prun n pinit ops) old | None => entry (prun n pinit ops) end) t) eqn:E;
    cbn [fst snd entry] in *; [apply PatchProofs.upd_same|discriminate].
Qed.

(* the MakeFunc closure installed for stubs is the mocker's own (identified by the mocker id) *)
Example C01_nonvacuous :
  let s := prun 2 pinit [PLookup 0 0; PApply 0 7; PLookup 0 1; PStub 1; PApply 0 9] in
  entry s 0%nat = Jump 9 /\ entry s 1%nat = Jump (STUB_BASE + 1) /\ table s 0%nat = Some 2%nat.
Proof. vm_compute. repeat split; reflexivity. Qed.
