(* C03 -- calling the origin placeholder runs the unmodified original function. *)
From Goom Require Import Base.MachineInt Model.Tramp Proofs.TrampProofs Tie.TrampTie.
From Goom Require Gen.Addr Gen.PatchOrder.
From Coq Require Import List ZArith Bool Lia.
From Coq Require String.
Import ListNotations.
Open Scope Z_scope.

(* For the short-to-long opcode table REGENERATED from internal/bytecode/addr.go, for every instruction stream that
   satisfies the decoder interface (C16), every function address and every placeholder address within +-2 GiB (minus
   a margin proportional to the number of instructions): if fixRelativeAddr succeeds with (data, size), then
   - data is, instruction by instruction and in order, the relocation of a prefix `pre` of the function: nothing is
     dropped or truncated; an instruction whose PC-relative operand stays inside the copied range is copied verbatim;
     every other one keeps its opcode bytes (or their long form) and its trailing bytes, and its operand -- read back
     from the new bytes at the new address -- denotes exactly the absolute address it denoted before;
   - no instruction of the whole function targets the interior (0, size) of the overwritten range;
   - when the function is longer than the copied prefix, size is exactly the length of `pre` (so the jump back to
     origin+size lands on the instruction boundary right after the last copied instruction) and size >= 13. *)
Theorem C03_trampoline_faithful : forall is from tramp fs data size,
  Forall wf_ins is ->
  - 2 ^ 31 + 4 * Z.of_nat (length is) <= from - tramp ->
  from - tramp + 12 * Z.of_nat (length is) < 2 ^ 31 ->
  fix_relative_addr Gen.Addr.opExpand is from tramp fs 13 = FOk (data, size) ->
  exists pre rest,
    is = pre ++ rest /\
    reloc Gen.Addr.opExpand (from - tramp) size pre 0 0 data /\
    no_jump_into is 0 size fs /\
    (stop_pos is 0 13 <> None -> rest <> [] /\ size = sum_len pre /\ 13 <= size).
Proof. exact (fix_relative_addr_faithful Gen.Addr.opExpand op_expand_small). Qed.
Print Assumptions C03_trampoline_faithful.

(* what "moved" means to the processor: executed at its new place the instruction addresses what the original addressed *)
Theorem C03_moved_same_target : forall delta i pos np ops' w' d' from tramp,
  delta = from - tramp -> moved Gen.Addr.opExpand delta i pos np ops' w' d' ->
  (tramp + np + (lenZ ops' + w' + lenZ (d_post i))) + wraps (8 * w') (le (disp_bytes w' d'))
  = (from + pos + d_len i) + d_disp i.
Proof. exact (moved_same_target Gen.Addr.opExpand). Qed.
Print Assumptions C03_moved_same_target.

(* EncodeAddress alone: the new field holds old value + shift exactly, in the same or the long form; otherwise it panics *)
Theorem C03_encode_exact : forall ops w val add r,
  (w = 1 \/ w = 4) -> in_s (8 * w) val -> in_s 32 add ->
  encode_address Gen.Addr.opExpand ops w val add = Some r ->
  exists ops' w' d', r = ops' ++ disp_bytes w' d' /\ in_s (8 * w') d' /\ (w' = 1 \/ w' = 4) /\
     lenZ ops' + w' + d' = lenZ ops + w + val + add /\
     ((ops' = ops /\ w' = w) \/ (w = 1 /\ w' = 4 /\ lookup_expand Gen.Addr.opExpand (nthZ ops 0) = Some ops')).
Proof. exact (encode_ok Gen.Addr.opExpand). Qed.

(* a branch back into the overwritten range makes the build fail *)
Theorem C03_jump_into_prefix_refused : forall is to fs,
  check_jump_between is 0 to fs = FOk tt -> no_jump_into is 0 to fs.
Proof. intros is to fs. apply check_jump_between_sound. Qed.

(* kept references inside the copied range still span the same distance (else the build fails) *)
Theorem C03_inner_refs_checked : forall refs pm copied,
  check_inner_refs refs pm copied = true ->
  Forall (fun r => let '(old_end, tgt, new_end) := r in
                   tgt > copied \/ exists nt, pm_lookup pm tgt = Some nt /\ nt - new_end = tgt - old_end) refs.
Proof. exact check_inner_refs_sound. Qed.

(* build failure is inert: in fixOriginFuncToTrampoline the pure computation precedes the only write (regenerated) *)
Theorem C03_build_before_write :
  Gen.PatchOrder.fixOriginFuncToTrampoline_calls = tramp_expected_order.
Proof. exact tramp_build_order. Qed.

(* non-vacuity: CMP RAX,5 ; JBE +9 (widened) ; CALL +0x100 ; ADD RAX,1 ; RET-less tail -- the F03a shape *)
Example C03_nonvacuous :
  let I := Build_dins in
  let is := [I [72; 131; 248; 5] 0 0 [] false false false;           (* cmp rax, 5 *)
             I [118] 1 9 [] false false false;                        (* jbe +9  -> beyond the prefix *)
             I [232] 4 256 [] false false false;                      (* call +0x100 *)
             I [72; 131; 192; 1] 0 0 [] false false false;            (* add rax, 1 *)
             I [72; 131; 192; 2] 0 0 [] false false false;
             I [195] 0 0 [] false true false] in
  Forall wf_ins is /\
  fix_relative_addr Gen.Addr.opExpand is 4198400 4202496 20 13
  = FOk ([72; 131; 248; 5; 15; 134; 5; 240; 255; 255; 232; 252; 240; 255; 255; 72; 131; 192; 1], 15).
Proof.
  split; [|vm_compute; reflexivity].
  repeat constructor; cbn; try lia; try (left; reflexivity);
    right; (split; [first [left; reflexivity|right; reflexivity]|]); unfold in_s; cbn; lia.
Qed.

(* F03c (known finding), at the level of the model: a branch of the original body that targets the function's own
   first byte is NOT refused -- checkJumpBetween only looks at the open interval (0, size) -- although after the patch
   that byte is the jump to the mock. The shape is the synthetic function branch-to-own-entry of the harness
   (cmp rax,3 ; jg +15 ; add rax,4 ; add rax,0 ; nop ; jmp entry ; ...): never_reenters is refuted by it. *)
Example C03_never_reenters_refuted :
  let I := Build_dins in
  let is := [I [72; 131; 248; 3] 0 0 [] false false false;
             I [127] 1 15 [] false false false;
             I [72; 131; 192; 4] 0 0 [] false false false;
             I [72; 131; 192; 0] 0 0 [] false false false;
             I [144] 0 0 [] false false false;
             I [235] 1 (-17) [] false false false;       (* at offset 15: jmp -> offset 0 *)
             I [144] 0 0 [] false false false; I [144] 0 0 [] false false false;
             I [144] 0 0 [] false false false; I [144] 0 0 [] false false false;
             I [195] 0 0 [] false true false] in
  (exists data, fix_relative_addr Gen.Addr.opExpand is 4198400 4202496 22 13 = FOk (data, 14)) /\
  (-17) + 15 + 2 = 0.
Proof. split; [eexists; vm_compute; reflexivity|reflexivity]. Qed.
