(* C13 -- configuration mistakes are rejected up front and leave nothing patched. *)
From Coq Require Import List ZArith Bool Arith Lia String.
From Goom Require Import Model.Errors Model.Patch Proofs.PatchProofs Tie.OrderTie Tie.SkeletonTie.
From Goom Require Gen.Erro Gen.PatchOrder Gen.SigSkeleton Gen.ArgSkeleton Gen.ProxySkeleton.
Import ListNotations.
Open Scope Z_scope.

(* ---- decision rules, as equivalences ---- *)
Lemma first_size_diff_none : forall a b i, List.length a = List.length b ->
  (first_size_diff i a b = None <-> a = b).
Proof.
  induction a as [|x a IH]; intros [|y b] i Hl; cbn in *; try discriminate.
  - split; reflexivity.
  - destruct (x =? y) eqn:E.
    + apply Z.eqb_eq in E. subst. rewrite IH by lia. split; [intros ->; reflexivity | intros H; inversion H; reflexivity].
    + split; [discriminate|]. intros H. inversion H. subst. rewrite Z.eqb_refl in E. discriminate.
Qed.

Theorem C13_sig_equals_iff : forall a b,
  sig_equals a b = SigOk <-> s_ins a = s_ins b /\ s_outs a = s_outs b.
Proof.
  intros a b. unfold sig_equals.
  destruct (Nat.eqb (List.length (s_ins a)) (List.length (s_ins b))) eqn:E1; cbn [negb].
  2: { split; [discriminate|]. intros [H _]. rewrite H, Nat.eqb_refl in E1. discriminate. }
  destruct (Nat.eqb (List.length (s_outs a)) (List.length (s_outs b))) eqn:E2; cbn [negb].
  2: { split; [discriminate|]. intros [_ H]. rewrite H, Nat.eqb_refl in E2. discriminate. }
  apply Nat.eqb_eq in E1, E2.
  pose proof (first_size_diff_none (s_ins a) (s_ins b) 0 E1) as H1.
  pose proof (first_size_diff_none (s_outs a) (s_outs b) 0 E2) as H2.
  destruct (first_size_diff 0 (s_ins a) (s_ins b)) as [i|].
  - split; [discriminate|]. intros [H _]. apply H1 in H. discriminate.
  - destruct (first_size_diff 0 (s_outs a) (s_outs b)) as [i|].
    + split; [discriminate|]. intros [_ H]. apply H2 in H. discriminate.
    + split; [|reflexivity]. intros _. split; [apply H1 | apply H2]; reflexivity.
Qed.
Print Assumptions C13_sig_equals_iff.

Theorem C13_check_params_iff : forall nin nout m args returns,
  check_params nin nout m args returns = CpOk <->
  (forall r, returns = Some r -> (nout <= r)%nat) /\
  (forall a, args = Some a -> (nin <= a + (if m then 1 else 0))%nat).
Proof.
  intros nin nout m args returns. unfold check_params.
  destruct returns as [r|]; destruct args as [a|].
  - destruct (Nat.ltb_spec r nout); [|destruct (Nat.ltb_spec (a + (if m then 1 else 0)) nin)].
    + split; [discriminate|]. intros [H1 _]. specialize (H1 _ eq_refl). lia.
    + split; [discriminate|]. intros [_ H2]. specialize (H2 _ eq_refl). lia.
    + split; [|reflexivity]. intros _. split; intros ? E; inversion E; subst; lia.
  - destruct (Nat.ltb_spec r nout).
    + split; [discriminate|]. intros [H1 _]. specialize (H1 _ eq_refl). lia.
    + split; [|reflexivity]. intros _. split; intros ? E; inversion E; subst; lia.
  - destruct (Nat.ltb_spec (a + (if m then 1 else 0)) nin).
    + split; [discriminate|]. intros [_ H2]. specialize (H2 _ eq_refl). lia.
    + split; [|reflexivity]. intros _. split; intros ? E; inversion E; subst; lia.
  - split; [|reflexivity]. intros _. split; intros ? E; inversion E.
Qed.

(* ---- rejected calls are inert: every check stage precedes every stage that writes the image ---- *)
Theorem C13_rejected_is_inert : forall k,
  (k < List.length gen_pipeline)%nat -> is_check (nth k gen_pipeline StWriteJump) = true ->
  image_changed_when_rejected_at false gen_pipeline k = false.
Proof.
  rewrite tie_pipeline. intros k Hk Hc.
  do 6 (destruct k as [|k]; [try reflexivity; try discriminate|]). cbn in Hk. lia.
Qed.
Print Assumptions C13_rejected_is_inert.

(* on an already mocked target only the signature check is guaranteed to come before the old mock is removed *)
Theorem C13_signature_mistake_keeps_existing_mock :
  image_changed_when_rejected_at true gen_pipeline 0 = false /\ nth 0 gen_pipeline StWriteJump = StSigCheck.
Proof. rewrite tie_pipeline. split; reflexivity. Qed.

(* the model-level counterpart on Patch.v: a refused patch of a target that was not in the table writes nothing *)
Theorem C13_refused_patch_writes_nothing : forall s t cb ph,
  snd (do_patch s t cb ph) = None -> table s t = None ->
  entry (fst (do_patch s t cb ph)) = entry s /\ phs (fst (do_patch s t cb ph)) = phs s.
Proof. exact refused_patch_is_inert. Qed.

(* ---- cause chains: with the Traceable table REGENERATED from package erro ---- *)
Definition gchain := chain Gen.Erro.traceable 8.
Open Scope string_scope.

Theorem C13_constructors_build_their_type :
  In ("NewArgsNotMatchError", "ArgsNotMatch") Gen.Erro.constructs /\
  In ("NewReturnsNotMatchError", "ReturnsNotMatch") Gen.Erro.constructs /\
  In ("NewIllegalParamTypeError", "IllegalParamType") Gen.Erro.constructs /\
  In ("NewIllegalParamCError", "IllegalParam") Gen.Erro.constructs /\
  In ("NewTraceableErrorc", "TraceableError") Gen.Erro.constructs.
Proof. repeat split; vm_compute; tauto. Qed.

(* 'interface As()' error: IllegalParam caused by ArgsNotMatch, wrapped in a TraceableError by the mocker *)
Theorem C13_cause_chain_reaches_typed_cause :
  In "ArgsNotMatch" (gchain (Err "TraceableError" (Some (Err "IllegalParam" (Some (Err "ArgsNotMatch" None)))))) /\
  In "IllegalParamType" (gchain (Err "TraceableError" (Some (Err "IllegalParamType" None)))) /\
  gchain (Err "ReturnsNotMatch" None) = ["ReturnsNotMatch"] /\
  gchain (Err "ArgsNotMatch" None) = ["ArgsNotMatch"].
Proof. vm_compute. repeat split; tauto. Qed.
Print Assumptions C13_cause_chain_reaches_typed_cause.

(* the two decision procedures the rules above transcribe are the source's: control skeletons regenerated by go2v *)
Theorem C13_signature_check_is_source :
  List.length Gen.SigSkeleton.SignatureEquals_skeleton = 11%nat /\ List.length Gen.ArgSkeleton.I2V_skeleton = 20%nat.
Proof. rewrite sig_skeleton_tie, i2v_skeleton_tie. split; reflexivity. Qed.
Print Assumptions C13_signature_check_is_source.

(* ---- interface callbacks: accepted exactly when, after the *IContext, they have the method's shape ---- *)
Theorem C13_iface_callback_iff : forall method imp,
  iface_imp_check method imp = SigOk <->
  exists ctx, s_ins imp = ctx :: s_ins method /\ s_outs imp = s_outs method.
Proof.
  intros method imp. unfold iface_imp_check. destruct (s_ins imp) as [|c rest] eqn:E.
  - split; [discriminate|]. intros [ctx [H _]]. discriminate.
  - rewrite C13_sig_equals_iff. cbn [s_ins s_outs]. split.
    + intros [H1 H2]. exists c. rewrite H1, H2. split; reflexivity.
    + intros [ctx [H1 H2]]. inversion H1. subst. split; [reflexivity|symmetry; exact H2].
Qed.
Print Assumptions C13_iface_callback_iff.
(* that rule and the refusal of unknown method names are the source's, and both precede every statement of
   proxy.Interface that touches the variable or the context (regenerated skeletons, Tie/SkeletonTie) *)
Theorem C13_iface_checks_are_source_and_precede_writes :
  List.length Gen.ProxySkeleton.checkInterfaceImp_skeleton = 13%nat /\
  List.length Gen.ProxySkeleton.methodIndexOf_skeleton = 4%nat /\
  forallb (fun c => forallb (fun w => sk_before c w Gen.ProxySkeleton.Interface_skeleton) iface_writes) iface_checks = true.
Proof.
  rewrite iface_imp_skeleton_tie, method_index_skeleton_tie. split; [reflexivity|]. split; [reflexivity|].
  exact iface_checks_before_writes.
Qed.
Print Assumptions C13_iface_checks_are_source_and_precede_writes.
Example C13_iface_callback_nonvacuous :
  iface_imp_check {| s_ins := [8]; s_outs := [8] |} {| s_ins := [8; 8]; s_outs := [8] |} = SigOk /\
  iface_imp_check {| s_ins := [8]; s_outs := [8] |} {| s_ins := [8; 8; 8]; s_outs := [8] |} = SigArgsLen /\
  iface_imp_check {| s_ins := [8]; s_outs := [8] |} {| s_ins := [8; 8]; s_outs := [8; 8] |} = SigRetsLen /\
  iface_imp_check {| s_ins := [8]; s_outs := [8] |} {| s_ins := [8; 16]; s_outs := [8] |} = SigArgSize 0 /\
  iface_imp_check {| s_ins := [8]; s_outs := [8] |} {| s_ins := [8; 8]; s_outs := [1] |} = SigRetSize 0.
Proof. vm_compute. repeat split; reflexivity. Qed.
