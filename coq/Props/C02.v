(* C02 -- Reset/Cancel restores original behaviour and the exact original code bytes. *)
From Coq Require Import List ZArith Bool Arith Lia.
From Goom Require Import Model.Patch Proofs.PatchProofs.
Import ListNotations.
Open Scope Z_scope.

(* At every point of every finite history (any number of builders, targets, handles incl. stale ones, placeholders;
   apply, re-apply, stub, Origin, Cancel, Reset, second Reset, re-mock): whatever a guard captured is the pristine
   entry, and every entry that differs from the pristine image holds the jump of an applied patch of that target. *)
Theorem C02_image_invariant : forall n ops,
  let s := prun n pinit ops in
  (forall pid p, nth_error (precs s) pid = Some p -> p_captured p = Pristine) /\
  (forall t cb, entry s t = Jump cb ->
     exists pid p, nth_error (precs s) pid = Some p /\ p_target p = t /\ p_cb p = cb /\ p_applied p = true).
Proof. intros n ops s. destruct (image_invariant n ops) as [H1 H2]. split; assumption. Qed.
Print Assumptions C02_image_invariant.

Theorem C02_cancel_restores_exact_bytes : forall s id m pid p,
  PInv s -> nth_error (mkrs s) id = Some m -> r_guard m = Some pid ->
  nth_error (precs s) pid = Some p -> p_applied p = true ->
  entry (p_cancel s id) (p_target p) = Pristine /\
  (forall t, t <> p_target p -> entry (p_cancel s id) t = entry s t) /\
  phs (p_cancel s id) = phs s.
Proof. exact cancel_restores. Qed.

Theorem C02_cancel_without_patch_changes_nothing : forall s id m,
  nth_error (mkrs s) id = Some m -> r_guard m = None ->
  entry (p_cancel s id) = entry s /\ phs (p_cancel s id) = phs s.
Proof. exact cancel_without_guard. Qed.

(* mocking one function never alters another: any other entry is unchanged or restored to pristine
   (the latter when a stale jump of that very target's table entry ... cannot happen for t' <> t; see patch_frame) *)
Theorem C02_no_cross_effect : forall s t cb ph t',
  PInv s -> t' <> t ->
  entry (fst (do_patch s t cb ph)) t' = entry s t' \/ entry (fst (do_patch s t cb ph)) t' = Pristine.
Proof. exact patch_frame. Qed.

Theorem C02_placeholder_frame : forall s t cb ph q,
  (forall q0, ph = Some q0 -> q <> q0) -> phs (fst (do_patch s t cb ph)) q = phs s q.
Proof. exact patch_frame_ph. Qed.

Example C02_nonvacuous :
  ptrace 2 1 pinit [PLookup 0 0; PApply 0 3; PLookup 1 0; POrigin 1 0; PApply 1 2; PReset 0; PReset 1; PReset 1; PLookup 0 0; PStub 2; PCancel 2] =
  [[0; 0; 0]; [4; 0; 0]; [4; 0; 0]; [4; 0; 0]; [3; 0; 1]; [0; 0; 1]; [0; 0; 1]; [0; 0; 1]; [0; 0; 1]; [1003; 0; 1]; [0; 0; 1]].
Proof. vm_compute. reflexivity. Qed.
