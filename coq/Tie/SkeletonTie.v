(* C13 tie: the control skeletons of patch.SignatureEquals and arg.I2V, regenerated from the source by go2v on every run,
   are the ones Model/Errors.v (sig_equals: count checks first, then EVERY parameter slot 0..NumIn-1 and EVERY result
   slot 0..NumOut-1 compared by size, first difference panics) and the conversion loop of I2V (count check, then each
   value converted in order and the FIRST conversion error returned from inside the loop) transcribe. A slot that is
   skipped (e.g. the variadic one) or an error test moved out of the loop changes the skeleton. *)
From Coq Require Import List String.
From Goom Require Import Gen.SigSkeleton Gen.ArgSkeleton.
Import ListNotations.
Open Scope string_scope.

Lemma sig_skeleton_tie : SignatureEquals_skeleton =
  ["if typeA.NumIn() != typeB.NumIn()";
   "  panic";
   "if typeA.NumOut() != typeB.NumOut()";
   "  panic";
   "for i := 0; i < typeA.NumIn(); i++";
   "  if typeA.In(i).Size() != typeB.In(i).Size()";
   "    panic";
   "for i := 0; i < typeA.NumOut(); i++";
   "  if typeA.Out(i).Size() != typeB.Out(i).Size()";
   "    panic";
   "return true"].
Proof. reflexivity. Qed.

Lemma i2v_skeleton_tie : I2V_skeleton =
  ["if isVariadic";
   "  if len(objs) < len(types) - 1";
   "    return nil, fmt.Errorf(..)";
   "else";
   "  if len(objs) != len(types)";
   "    return nil, fmt.Errorf(..)";
   "values := make([]reflect.Value, len(objs))";
   "var e";
   "var typ";
   "range i, a := objs";
   "  if i < len(types) - 1";
   "    typ = types[i]";
   "  else";
   "    typ = types[len(types) - 1]";
   "    if isVariadic";
   "      typ = typ.Elem()";
   "  values[i], e = toValue(a, typ, isVariadic)";
   "  if e != nil";
   "    return nil, e";
   "return values, nil"].
Proof. reflexivity. Qed.
