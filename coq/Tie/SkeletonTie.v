(* C13 tie: the control skeletons of patch.SignatureEquals and arg.I2V, regenerated from the source by go2v on every run,
   are the ones Model/Errors.v (sig_equals: count checks first, then EVERY parameter slot 0..NumIn-1 and EVERY result
   slot 0..NumOut-1 compared by size, first difference panics) and the conversion loop of I2V (count check, then each
   value converted in order and the FIRST conversion error returned from inside the loop) transcribe. A slot that is
   skipped (e.g. the variadic one) or an error test moved out of the loop changes the skeleton. *)
From Coq Require Import List String.
From Goom Require Import Gen.SigSkeleton Gen.ArgSkeleton Gen.MockerSkeleton Gen.ProxySkeleton.
Import ListNotations.
Open Scope string_scope.

Lemma sig_skeleton_tie : SignatureEquals_skeleton =
  ["if typeA.NumIn() != typeB.NumIn()";
   "  panic";
   "if typeA.NumOut() != typeB.NumOut()";
   "  panic";
   "for i := 0; i < typeA.NumIn(); i++";
   "  if typeA.In(i).Size() != typeB.In(i).Size()";
   "    panic";
   "for i := 0; i < typeA.NumOut(); i++";
   "  if typeA.Out(i).Size() != typeB.Out(i).Size()";
   "    panic";
   "return true"].
Proof. reflexivity. Qed.

Lemma i2v_skeleton_tie : I2V_skeleton =
  ["if isVariadic";
   "  if len(objs) < len(types) - 1";
   "    return nil, fmt.Errorf(..)";
   "else";
   "  if len(objs) != len(types)";
   "    return nil, fmt.Errorf(..)";
   "values := make([]reflect.Value, len(objs))";
   "var e";
   "var typ";
   "range i, a := objs";
   "  if i < len(types) - 1";
   "    typ = types[i]";
   "  else";
   "    typ = types[len(types) - 1]";
   "    if isVariadic";
   "      typ = typ.Elem()";
   "  values[i], e = toValue(a, typ, isVariadic)";
   "  if e != nil";
   "    return nil, e";
   "return values, nil"].
Proof. reflexivity. Qed.

(* C09: arg.toValue and arg.V2I as Model/ToValue.v transcribes them: the stand-in cast only after the size check, nil to
   the typed zero of the seven nilable kinds, boxing into interface results, otherwise the size check; V2I hands back
   nil only for zero values of interface / pointer type *)
Lemma tovalue_skeleton_tie : toValue_skeleton =
  ["v := reflect.ValueOf(r)";
   "if r != nil && v.Type() != out && (out.Kind() == reflect.Struct || out.Kind() == reflect.Ptr)";
   "  if v.Type().Size() != out.Size()";
   "    return reflect.Value{}, fmt.Errorf(..)";
   "  v = cast(v, out)";
   "if r == nil && (out.Kind() == reflect.Interface || out.Kind() == reflect.Ptr || out.Kind() == reflect.Slice || out.Kind() == reflect.Map || out.Kind() == reflect.Array || out.Kind() == reflect.Chan || out.Kind() == reflect.Func)";
   "  v = reflect.Zero(reflect.SliceOf(out).Elem())";
   "else";
   "  if v.Type().Kind() == reflect.Ptr && v.Type() == reflect.TypeOf(&iface.IContext{})";
   "    panic";
   "  else";
   "    if r != nil && out.Kind() == reflect.Interface";
   "      ptr := reflect.New(out)";
   "      ptr.Elem().Set(v)";
   "      v = ptr.Elem()";
   "    else";
   "      if v.Type().Size() != out.Size()";
   "        return reflect.Value{}, fmt.Errorf(..)";
   "return v, nil"].
Proof. reflexivity. Qed.

Lemma v2i_skeleton_tie : V2I_skeleton =
  ["values := make([]interface{}, len(params))";
   "range i, a := params";
   "  if (types[i].Kind() == reflect.Interface || types[i].Kind() == reflect.Ptr) && isZero(a)";
   "    values[i] = nil";
   "  else";
   "    values[i] = a.Interface()";
   "return values"].
Proof. reflexivity. Qed.

(* C08: var.go as Model/VarMock.v transcribes it: the pre-mock value is saved at the FIRST Set/Apply only, every Set
   writes the variable and makes the mocker live again, Cancel restores the saved value once and forgets it *)
Lemma var_doset_skeleton_tie : defaultVarMocker_doSet_skeleton =
  ["target := m.targetValue.Elem()";
   "if !m.saved";
   "  origin := reflect.New(target.Type()).Elem()";
   "  origin.Set(target)";
   "  m.originValue = origin";
   "  m.saved = true";
   "d := reflect.ValueOf(value)";
   "target.Set(d)";
   "m.mockValue = value";
   "m.canceled = false"].
Proof. reflexivity. Qed.

Lemma var_cancel_skeleton_tie : defaultVarMocker_Cancel_skeleton =
  ["if m.saved";
   "  m.targetValue.Elem().Set(m.originValue)";
   "  m.saved = false";
   "m.canceled = true"].
Proof. reflexivity. Qed.

(* C08, by-name addressing (ue_var.go) as Model/VarLayout.set_by_name transcribes it: the type written at the address is
   the type of the VALUE (its dynamic type), nothing else is known about the variable *)
Lemma uevar_set_skeleton_tie : unExportedVarMocker_set_skeleton =
  ["m.typ = reflect.TypeOf(value)";
   "m.targetValue = reflect.NewAt(m.typ, m.target)";
   "m.defaultVarMocker.doSet(value)"].
Proof. reflexivity. Qed.

(* C13, interface callbacks (internal/proxy/interface.go) as Model/Errors.iface_imp_check transcribes them: counts first
   (the callback has one parameter more: the *IContext), then sizes slot by slot, parameters shifted by one *)
Lemma iface_imp_skeleton_tie : checkInterfaceImp_skeleton =
  ["impType := reflect.TypeOf(imp)";
   "illegal := (func(cause error) error literal)";
   "if impType.NumIn() != methodType.NumIn() + 1";
   "  return illegal(erro.NewArgsNotMatchError(imp, impType.NumIn(), methodType.NumIn() + 1))";
   "if impType.NumOut() != methodType.NumOut()";
   "  return illegal(erro.NewReturnsNotMatchError(imp, impType.NumOut(), methodType.NumOut()))";
   "for i := 0; i < methodType.NumIn(); i++";
   "  if impType.In(i + 1).Size() != methodType.In(i).Size()";
   "    return illegal(fmt.Errorf(""args %d's size must:%d, actual:%d"", i + 1, methodType.In(i).Size(), impType.In(i + 1).Size()))";
   "for i := 0; i < methodType.NumOut(); i++";
   "  if impType.Out(i).Size() != methodType.Out(i).Size()";
   "    return illegal(fmt.Errorf(""returns %d's size must:%d, actual:%d"", i, methodType.Out(i).Size(), impType.Out(i).Size()))";
   "return nil"].
Proof. reflexivity. Qed.

Lemma method_index_skeleton_tie : methodIndexOf_skeleton =
  ["for i := 0; i < typ.NumMethod(); i++";
   "  if method == typ.Method(i).Name";
   "    return i, true";
   "return 0, false"].
Proof. reflexivity. Qed.

(* check-before-write in proxy.Interface: the unknown-method refusal and the shape check come before the first statement
   that touches the interface variable or the context (BackUpTo, the cached fake's table, applyIfaceTo) *)
Fixpoint sk_index (p : string -> bool) (l : list string) (i : nat) : option nat :=
  match l with [] => None | x :: r => if p x then Some i else sk_index p r (S i) end.
Definition sk_before (a b : string) (l : list string) : bool :=
  match sk_index (String.prefix a) l 0, sk_index (String.prefix b) l 0 with
  | Some i, Some j => Nat.ltb i j
  | _, _ => false
  end.
Definition iface_writes : list string :=
  ["iface.BackUpTo("; "  fakeIface.Tab.Fun["; "  fakeIface.Data ="; "  applyIfaceTo("; "  fakeIface = iface.MakeInterface("; "  ctx.Cache("].
Definition iface_checks : list string :=
  ["if interfaceType.Kind() != reflect.Ptr"; "if typ.Kind() != reflect.Interface"; "if !found"; "if err := checkInterfaceImp("].
Lemma iface_checks_before_writes :
  forallb (fun c => forallb (fun w => sk_before c w Interface_skeleton) iface_writes) iface_checks = true.
Proof. vm_compute. reflexivity. Qed.
