(* C11 tie: the access sites of goom's shared state and the way each is protected, regenerated from the source by go2v
   on every run: no site is unprotected, and the protecting locks are the ones the model assumes. *)
From Coq Require Import List String Bool.
From Goom Require Import Gen.LocksPatch Gen.LocksBytecode Gen.LocksUnexports.
Import ListNotations.
Open Scope string_scope.

Definition protected (e : string * string * string) : bool := negb (String.eqb (snd e) "UNPROTECTED").

Lemma patch_discipline : forallb protected patch_globals_accesses = true.
Proof. vm_compute. reflexivity. Qed.
Lemma bytecode_discipline : forallb protected bytecode_globals_accesses = true.
Proof. vm_compute. reflexivity. Qed.
Lemma unexports_discipline : forallb protected unexports_globals_accesses = true.
Proof. vm_compute. reflexivity. Qed.

(* every raw write of the text issued by package patch happens under the one mutex patchesLock *)
Definition is_write_site (e : string * string * string) : bool := String.eqb (fst (fst e)) "call:WriteTo".
Definition under_patches_lock (e : string * string * string) : bool :=
  String.eqb (snd e) "lock:patchesLock" || String.eqb (snd e) "callers:patchesLock".
Lemma text_writes_serialised :
  forallb under_patches_lock (filter is_write_site patch_globals_accesses) = true /\
  filter is_write_site patch_globals_accesses <> [].
Proof. split; [vm_compute; reflexivity|vm_compute; discriminate]. Qed.

(* the raw writer: both mprotect calls and the copy are inside one critical section of memoryAccessLock, so the
   sequence mprotect(RWX); copy; mprotect(RX) of one write cannot interleave with that of another *)
From Goom Require Import Gen.LocksMemory Gen.UnpatchCallersRoot Gen.UnpatchCallersProxy.
Definition under_memory_lock (e : string * string * string) : bool :=
  String.eqb (snd e) "lock:memoryAccessLock" || String.eqb (snd e) "callers:memoryAccessLock".
Definition write_sequence_atomic_stmt : Prop :=
  forallb under_memory_lock memory_writes_accesses = true /\
  existsb (fun e => String.eqb (fst (fst e)) "call:mProtectCrossPage" && String.eqb (snd (fst e)) "WriteTo") memory_writes_accesses = true.
Lemma write_sequence_atomic : write_sequence_atomic_stmt.
Proof. split; vm_compute; reflexivity. Qed.

(* Guard.Unpatch does not take the patch lock itself: outside package patch it may only be reached where the guard was
   never applied (the two error paths of package proxy); the mocker level must go through UnpatchWithLock *)
Lemma unlocked_unpatch_callers :
  root_guard_unpatch_callers = [] /\ proxy_guard_unpatch_callers = ["Func"; "Method"].
Proof. split; reflexivity. Qed.
