(* Tie: the IR program regenerated from internal/bytecode/stub/holder.go is the program the theorems are about. *)
From Goom Require Import Base.MachineInt Model.StubSpace.
From Goom Require Gen.Holder.

Lemma tie_holder_prog : Gen.Holder.acquireFromHolder_prog = holder_prog.
Proof. reflexivity. Qed.
