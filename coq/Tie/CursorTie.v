(* Tie: the cursor program regenerated from matcher.go (BaseMatcher.Result) is the program the theorems are about. *)
From Coq Require Import ZArith.
From Goom Require Import Model.SeqConc.
From Goom Require Gen.Cursor.

Lemma tie_result_prog : Gen.Cursor.BaseMatcher_Result_prog = result_prog.
Proof. reflexivity. Qed.

(* the plain (non-atomic) read of the cursor is confined to sequences of at most one element, where it is never written *)
Lemma tie_result_guard : Gen.Cursor.BaseMatcher_Result_guard = 1%Z.
Proof. reflexivity. Qed.
