(* Tie lemmas for the arm64 jump encoders (Gen = Model, for all 64-bit addresses). *)
From Goom Require Import Base.MachineInt Model.JumpEnc Proofs.A64Proofs.
From Goom Require Gen.JumpArm64 Gen.IfaceJmpArm64.
Open Scope Z_scope.

Lemma testbit_small a k i : 0 <= a < 2 ^ k -> 0 <= k <= i -> Z.testbit a i = false.
Proof.
  intros Ha Hk. destruct (Z.eq_dec a 0) as [->|Hn]; [apply Z.bits_0|].
  apply Z.bits_above_log2; [lia|].
  assert (Z.log2 a < k) by (apply Z.log2_lt_pow2; lia). lia.
Qed.

Lemma lor_disjoint_add a c k : 0 <= k -> 0 <= a < 2 ^ k -> Z.lor a (c * 2 ^ k) = a + c * 2 ^ k.
Proof.
  intros Hk Ha.
  assert (Hl : Z.land a (c * 2 ^ k) = 0).
  { apply Z.bits_inj'. intros i Hi. rewrite Z.land_spec, Z.bits_0.
    destruct (Z_lt_le_dec i k).
    - rewrite Z.mul_pow2_bits_low by lia. apply andb_false_r.
    - rewrite (testbit_small a k i) by lia. reflexivity. }
  rewrite <- Z.lxor_lor by exact Hl. symmetry. apply Z.add_nocarry_lxor. exact Hl.
Qed.

Lemma land_65535 y : Z.land y 65535 = y mod 65536.
Proof. change 65535 with (Z.ones 16). rewrite Z.land_ones by lia. reflexivity. Qed.

Lemma lane_of_shift x k : 0 <= k -> Z.land (Z.shiftr x (16 * k)) 65535 = a64_lane x k.
Proof. intros. rewrite land_65535, Z.shiftr_div_pow2 by lia. reflexivity. Qed.

(* the generated movImm on the four (opc, hw) pairs goom uses *)
Lemma gen_movImm_eq (movImm : Z -> Z -> Z -> list Z) :
  (forall opc shift v, movImm opc shift v =
     put_le 4 (Z.lor (Z.lor (Z.lor (Z.lor (Z.lor 26 (wrapu 32 (Z.shiftl (wrapu 32 v) 5)))
        (wrapu 32 (Z.shiftl (wrapu 32 (Z.land shift 3)) 21))) 310378496)
        (wrapu 32 (Z.shiftl (wrapu 32 (Z.land opc 3)) 29))) 2147483648) (Z.to_nat 0) (repeat 0 (Z.to_nat 4))) ->
  forall opc hw v, 0 <= v < 65536 -> (opc = 2 \/ opc = 3) -> (hw = 0 \/ hw = 1 \/ hw = 2 \/ hw = 3) ->
  movImm opc hw v = bytes_le 4 (mov_word opc hw v).
Proof.
  intros Hdef opc hw v Hv Hopc Hhw. rewrite Hdef.
  assert (Ev : wrapu 32 (Z.shiftl (wrapu 32 v) 5) = v * 2 ^ 5).
  { rewrite (wrapu_small 32 v) by (change (2 ^ 32) with 4294967296; lia).
    rewrite Z.shiftl_mul_pow2 by lia. apply wrapu_small.
    change (2 ^ 32) with 4294967296; change (2 ^ 5) with 32; lia. }
  rewrite Ev.
  assert (Eh : wrapu 32 (Z.shiftl (wrapu 32 (Z.land hw 3)) 21) = hw * 2 ^ 21).
  { destruct Hhw as [->|[->|[->| ->]]]; reflexivity. }
  assert (Eo : wrapu 32 (Z.shiftl (wrapu 32 (Z.land opc 3)) 29) = opc * 2 ^ 29).
  { destruct Hopc as [->| ->]; reflexivity. }
  rewrite Eh, Eo.
  rewrite (lor_disjoint_add 26 v 5) by (change (2 ^ 5) with 32; lia).
  rewrite (lor_disjoint_add _ hw 21) by (change (2 ^ 5) with 32; change (2 ^ 21) with 2097152; lia).
  change 310378496 with (37 * 2 ^ 23) at 1.
  rewrite (lor_disjoint_add _ 37 23)
    by (change (2 ^ 5) with 32; change (2 ^ 21) with 2097152; change (2 ^ 23) with 8388608; lia).
  rewrite (lor_disjoint_add _ opc 29)
    by (change (2 ^ 5) with 32; change (2 ^ 21) with 2097152; change (2 ^ 23) with 8388608;
        change (2 ^ 29) with 536870912; lia).
  change 2147483648 with (1 * 2 ^ 31) at 1.
  rewrite (lor_disjoint_add _ 1 31)
    by (change (2 ^ 5) with 32; change (2 ^ 21) with 2097152; change (2 ^ 23) with 8388608;
        change (2 ^ 29) with 536870912; change (2 ^ 31) with 2147483648; lia).
  unfold put_le. change (Z.to_nat 0) with 0%nat. change (Z.to_nat 4) with 4%nat.
  cbn [firstn skipn repeat Nat.add app]. rewrite app_nil_r.
  f_equal.
Qed.

Lemma tie_movImm_patch : forall opc hw v, 0 <= v < 65536 -> (opc = 2 \/ opc = 3) ->
  (hw = 0 \/ hw = 1 \/ hw = 2 \/ hw = 3) ->
  Gen.JumpArm64.movImm opc hw v = bytes_le 4 (mov_word opc hw v).
Proof. apply gen_movImm_eq. intros; reflexivity. Qed.

Lemma tie_movImm_iface : forall opc hw v, 0 <= v < 65536 -> (opc = 2 \/ opc = 3) ->
  (hw = 0 \/ hw = 1 \/ hw = 2 \/ hw = 3) ->
  Gen.IfaceJmpArm64.movImm opc hw v = bytes_le 4 (mov_word opc hw v).
Proof. apply gen_movImm_eq. intros; reflexivity. Qed.

Lemma lane0 x : Z.land x 65535 = a64_lane x 0.
Proof. rewrite land_65535. unfold a64_lane. change (2 ^ (16 * 0)) with 1. now rewrite Z.div_1_r. Qed.

Lemma tie_a64_patch_jump from_ x : Gen.JumpArm64.jmpToFunctionValue from_ x = a64_jump 10 x.
Proof.
  unfold Gen.JumpArm64.jmpToFunctionValue, a64_jump, a64_load_addr. cbv zeta.
  change 16 with (16 * 1) at 1. change 32 with (16 * 2) at 1. change 48 with (16 * 3) at 1.
  rewrite lane0, (lane_of_shift x 1), (lane_of_shift x 2), (lane_of_shift x 3) by lia.
  rewrite !tie_movImm_patch by (try apply a64_lane_range; auto).
  change (repeat 0 (Z.to_nat 0)) with (@nil Z). cbn [app].
  repeat rewrite <- app_assoc. reflexivity.
Qed.

Lemma tie_a64_iface_jump x : Gen.IfaceJmpArm64.jmpWithRdx x = a64_jump 27 x.
Proof.
  unfold Gen.IfaceJmpArm64.jmpWithRdx, a64_jump, a64_load_addr. cbv zeta.
  change 16 with (16 * 1) at 1. change 32 with (16 * 2) at 1. change 48 with (16 * 3) at 1.
  rewrite lane0, (lane_of_shift x 1), (lane_of_shift x 2), (lane_of_shift x 3) by lia.
  rewrite !tie_movImm_iface by (try apply a64_lane_range; auto).
  change (repeat 0 (Z.to_nat 0)) with (@nil Z). cbn [app].
  repeat rewrite <- app_assoc. reflexivity.
Qed.

Lemma tie_a64_iface_jump_ctx x a b : Gen.IfaceJmpArm64.jmpWithRdxAndCtx x a b = a64_jump 27 x.
Proof.
  unfold Gen.IfaceJmpArm64.jmpWithRdxAndCtx, a64_jump, a64_load_addr. cbv zeta.
  change 16 with (16 * 1) at 1. change 32 with (16 * 2) at 1. change 48 with (16 * 3) at 1.
  rewrite lane0, (lane_of_shift x 1), (lane_of_shift x 2), (lane_of_shift x 3) by lia.
  rewrite !tie_movImm_iface by (try apply a64_lane_range; auto).
  change (repeat 0 (Z.to_nat 0)) with (@nil Z). cbn [app].
  repeat rewrite <- app_assoc. reflexivity.
Qed.
