(* Tie: PageStart / mProtectCrossPage loop / WriteTo step order regenerated from internal/bytecode/memory = Model.WriteTo. *)
From Goom Require Import Base.MachineInt Model.WriteTo.
From Goom Require Gen.Page.
Open Scope Z_scope.

Lemma testbit_mask k i : 0 <= k <= 64 -> 0 <= i ->
  Z.testbit (2 ^ 64 - 2 ^ k) i = (k <=? i) && (i <? 64).
Proof.
  intros Hk Hi.
  assert (E : 2 ^ 64 - 2 ^ k = Z.shiftl (Z.ones (64 - k)) k).
  { rewrite Z.shiftl_mul_pow2 by lia. rewrite Z.ones_equiv. rewrite Z.mul_pred_l.
    rewrite <- Z.pow_add_r by lia. replace (64 - k + k) with 64 by lia. reflexivity. }
  rewrite E. destruct (Z_lt_le_dec i k).
  - rewrite Z.shiftl_spec_low by lia. lia.
  - rewrite Z.shiftl_spec by lia. destruct (Z_lt_le_dec (i - k) (64 - k)).
    + rewrite Z.ones_spec_low by lia. lia.
    + rewrite Z.ones_spec_high by lia. lia.
Qed.

(* PageStart for any power-of-two page size *)
Lemma tie_page_start k addr : 1 <= k <= 62 -> 0 <= addr < 2 ^ 64 ->
  Gen.Page.PageStart (2 ^ k) addr = page_start (2 ^ k) addr.
Proof.
  intros Hk Ha. unfold Gen.Page.PageStart, page_start.
  assert (Hp : 2 <= 2 ^ k < 2 ^ 63).
  { split.
    - change 2 with (2 ^ 1) at 1. apply Z.pow_le_mono_r; lia.
    - apply Z.pow_lt_mono_r; lia. }
  rewrite (wraps_small 64 (2 ^ k - 1)) by (change (2 ^ (64 - 1)) with (2 ^ 63); lia).
  rewrite (wrapu_small 64 (2 ^ k - 1)) by (assert (2 ^ 63 < 2 ^ 64) by reflexivity; lia).
  assert (El : Z.lnot (2 ^ k - 1) = - 2 ^ k) by (unfold Z.lnot; lia).
  rewrite El.
  assert (Ew : wrapu 64 (- 2 ^ k) = 2 ^ 64 - 2 ^ k).
  { unfold wrapu. rewrite (mod_neg_M (2 ^ 64) (- 2 ^ k)); [lia | reflexivity |].
    assert (2 ^ 63 < 2 ^ 64) by reflexivity. lia. }
  rewrite Ew.
  apply Z.bits_inj'. intros i Hi.
  rewrite Z.land_spec, testbit_mask by lia.
  rewrite (Z.mod_eq addr (2 ^ k)) by lia.
  replace (addr - (addr - 2 ^ k * (addr / 2 ^ k))) with (addr / 2 ^ k * 2 ^ k) by ring.
  destruct (Z_lt_le_dec i k).
  - rewrite Z.mul_pow2_bits_low by lia.
    assert (E : (k <=? i) = false) by lia. rewrite E. cbn. apply andb_false_r.
  - rewrite Z.mul_pow2_bits by lia. rewrite Z.div_pow2_bits by lia.
    replace (i - k + k) with i by lia.
    destruct (Z_lt_le_dec i 64).
    + assert (E : (k <=? i) && (i <? 64) = true) by lia. rewrite E. apply andb_true_r.
    + assert (E : (k <=? i) && (i <? 64) = false) by lia. rewrite E. rewrite andb_false_r.
      symmetry. destruct (Z.eq_dec addr 0) as [->|Hn]; [apply Z.bits_0|].
      apply Z.bits_above_log2; [lia|]. assert (Z.log2 addr < 64) by (apply Z.log2_lt_pow2; lia). lia.
Qed.

Lemma tie_loop k addr len : 1 <= k <= 62 -> 0 <= addr -> 0 <= len -> addr + len < 2 ^ 64 ->
  Gen.Page.mProtectCrossPage_init (2 ^ k) addr len = page_start (2 ^ k) addr /\
  Gen.Page.mProtectCrossPage_bound (2 ^ k) addr len = addr + len /\
  Gen.Page.mProtectCrossPage_stride (2 ^ k) addr len = 2 ^ k.
Proof.
  intros Hk Ha Hl Hs. unfold Gen.Page.mProtectCrossPage_init, Gen.Page.mProtectCrossPage_bound,
    Gen.Page.mProtectCrossPage_stride. cbv zeta.
  assert (Hp : 2 <= 2 ^ k < 2 ^ 63).
  { split.
    - change 2 with (2 ^ 1) at 1. apply Z.pow_le_mono_r; lia.
    - apply Z.pow_lt_mono_r; lia. }
  assert (2 ^ 63 < 2 ^ 64) by reflexivity.
  split; [apply tie_page_start; lia|]. split.
  - rewrite (wrapu_small 64 len) by lia. apply wrapu_small. lia.
  - apply wrapu_small. lia.
Qed.

Lemma tie_shape : Gen.Page.WriteTo_shape = writeto_shape.
Proof. reflexivity. Qed.

(* the fallback writer's step order and protections, regenerated from mwrite_prot.go *)
Lemma tie_fallback_shape : Gen.Page.writeTo_fallback_shape = fallback_shape.
Proof. reflexivity. Qed.

