(* C03 tie: the pieces of internal/bytecode/addr.go that go2v regenerates on every run are the ones Model/Tramp.v uses *)
From Goom Require Import Base.MachineInt Model.Tramp Proofs.TrampProofs.
From Goom Require Gen.Addr Gen.PatchOrder.
From Coq Require Import List ZArith Bool Lia String.
Import ListNotations.
Open Scope Z_scope.

(* the overflow test EncodeAddress now applies to a relocated rel32 displacement *)
Lemma int32_overflow_tie v : Gen.Addr.isInt32Overflow v = int32_overflow v.
Proof. unfold Gen.Addr.isInt32Overflow, int32_overflow. destruct (v >? 0); [destruct (v >? 2147483647)|destruct (v <? -2147483648)]; reflexivity. Qed.

Lemma byte_overflow_tie v : Gen.Addr.isByteOverflow v = (if v >? 0 then v >? 127 else v <? -128).
Proof. unfold Gen.Addr.isByteOverflow. destruct (v >? 0); [destruct (v >? 127)|destruct (v <? -128)]; reflexivity. Qed.

(* the short-to-long opcode table: every long form has at most two opcode bytes (growth of a widened branch <= 4) *)
Lemma op_expand_small : forall k v, lookup_expand Gen.Addr.opExpand k = Some v -> lenZ v <= 2.
Proof. apply expand_small_sound. vm_compute. reflexivity. Qed.

(* ... and is the table of two-byte Jcc rel32 / one-byte JMP rel32 forms of the same condition *)
Lemma op_expand_forms :
  Forall (fun kv => match snd kv with
                    | [15; b] => b = fst kv + 16 /\ 112 <= fst kv < 128        (* 7x -> 0F 8x *)
                    | [233] => fst kv = 235                                     (* EB -> E9 *)
                    | _ => False
                    end) Gen.Addr.opExpand.
Proof. repeat constructor; cbn; lia. Qed.

(* inside the trampoline builder the pure computation precedes the only write *)
Open Scope string_scope.
Definition tramp_expected_order : list string := ["fixRelativeAddr"; "jmpToOriginFunctionValue"; "WriteTo"].
Lemma tramp_build_order : Gen.PatchOrder.fixOriginFuncToTrampoline_calls = tramp_expected_order.
Proof. reflexivity. Qed.
