(* Tie lemmas: the Gallina regenerated from the Go source equals the hand-written model, for all inputs.
   Compiled separately by the checks; a failure here is handled by the verdict ladder (DESIGN 3). *)
From Goom Require Import Base.MachineInt Proofs.JumpEncProofs Proofs.WrapTac Model.JumpEnc.
From Goom Require Gen.JumpAmd64 Gen.IfaceJmpAmd64 Gen.Jump386.
Open Scope Z_scope.

Lemma lanes8_of_wrap to_ :
  [wrapu 8 to_; wrapu 8 (Z.shiftr to_ 8); wrapu 8 (Z.shiftr to_ 16); wrapu 8 (Z.shiftr to_ 24);
   wrapu 8 (Z.shiftr to_ 32); wrapu 8 (Z.shiftr to_ 40); wrapu 8 (Z.shiftr to_ 48); wrapu 8 (Z.shiftr to_ 56)]
  = bytes_le 8 to_.
Proof. rewrite bytes_le_lanes8. reflexivity. Qed.

Lemma lanes4_of_wrap to_ :
  [wrapu 8 to_; wrapu 8 (Z.shiftr to_ 8); wrapu 8 (Z.shiftr to_ 16); wrapu 8 (Z.shiftr to_ 24)]
  = bytes_le 4 to_.
Proof. rewrite bytes_le_lanes4. reflexivity. Qed.

Lemma tie_entry_jump from_ to_ : Gen.JumpAmd64.jmpToFunctionValue from_ to_ = entry_jump to_.
Proof.
  unfold Gen.JumpAmd64.jmpToFunctionValue, entry_jump, abs_jump_rdx.
  rewrite <- lanes8_of_wrap. reflexivity.
Qed.

Lemma tie_iface_jump dx : Gen.IfaceJmpAmd64.jmpWithRdx dx = abs_jump_rdx dx.
Proof.
  unfold Gen.IfaceJmpAmd64.jmpWithRdx, abs_jump_rdx.
  rewrite <- lanes8_of_wrap. reflexivity.
Qed.

Lemma tie_386 from_ to_ : Gen.Jump386.jmpToFunctionValue from_ to_ = abs_jump_edx to_.
Proof.
  unfold Gen.Jump386.jmpToFunctionValue, abs_jump_edx.
  rewrite <- lanes4_of_wrap. reflexivity.
Qed.

Lemma tie_relative from_ to_ : Gen.JumpAmd64.relative from_ to_ = rel_fits from_ to_.
Proof.
  unfold Gen.JumpAmd64.relative, rel_fits, rel_disp. cbv zeta. cbv iota.
  assert (E : wraps 64 (wrapu 64 (wrapu 64 (to_ - from_) - 5)) = wraps 64 (wrapu 64 (to_ - from_ - 5)))
    by wrap_eq.
  rewrite E. rewrite Z.geb_leb. reflexivity.
Qed.

Lemma tie_origin_jump from_ to_ : Gen.JumpAmd64.jmpToOriginFunctionValue from_ to_ = origin_jump from_ to_.
Proof.
  unfold Gen.JumpAmd64.jmpToOriginFunctionValue, origin_jump.
  rewrite tie_relative. destruct (rel_fits from_ to_).
  - cbv zeta. unfold rel_jump.
    destruct (to_ >? from_).
    + rewrite lanes4_of_wrap. do 2 f_equal. wrap_eq.
    + rewrite lanes4_of_wrap. do 2 f_equal. wrap_eq.
  - unfold abs_jump_rip. rewrite <- lanes8_of_wrap. reflexivity.
Qed.
