(* C16 -- the obligations on the REGENERATED decoding program (Gen/X86Table.v, from internal/arch/x86asm/tables.go):
   the set of abstract states reachable from the initial one is computed here, on every run, and the verified checker
   must accept it. A change to tables.go that lets the interpreter index out of range, loop, write a fifth argument,
   record a relative field it did not read, or reach xMatch before a byte was consumed breaks x86_closed. *)
From Goom Require Import Base.MachineInt Gen.X86Table Model.X86Len Model.X86Abs Proofs.X86LenProofs Proofs.X86AbsProofs.
From Coq Require Import List ZArith Bool FMapPositive.
Import ListNotations.
Open Scope Z_scope.

Definition x86_T : PositiveMap.t Z := Eval vm_compute in build_tbl x86_decoder 1%positive (PositiveMap.empty Z).
Definition x86_tbl : Z -> option Z := tbl_of x86_T.

Lemma x86_tbl_is_source i : x86_tbl i = if i <? 0 then None else nth_error x86_decoder (Z.to_nat i).
Proof. unfold x86_tbl. replace x86_T with (build_tbl x86_decoder 1%positive (PositiveMap.empty Z)) by (vm_compute; reflexivity). apply tbl_of_build. Qed.

Definition x86_explored := Eval vm_compute in explore x86_tbl (Z.to_nat 400000) [init_ast] (PositiveMap.empty ast).
Definition x86_R : PositiveMap.t ast := match x86_explored with inl r => r | inr _ => PositiveMap.empty ast end.
Definition x86_RK : PositiveMap.t Z := Eval vm_compute in relax_n x86_tbl 20 x86_R (PositiveMap.empty Z).
Definition x86_rank := rank_of x86_RK.
Definition x86_fuel : nat := 32.

(* for the evidence: number of abstract states, rank of the initial one (= bound on loop iterations - 1), and the
   offending state if the exploration found an unsafe one *)
Definition x86_summary : Z * Z * option ast :=
  Eval vm_compute in (Z.of_nat (PositiveMap.cardinal x86_R), x86_rank init_ast,
                      match x86_explored with inl _ => None | inr None => Some init_ast | inr (Some a) => Some a end).

Lemma x86_closed : closed_check x86_tbl x86_R x86_rank = true.
Proof. vm_compute. reflexivity. Qed.
Lemma x86_init : in_set x86_R init_ast = true.
Proof. vm_compute. reflexivity. Qed.
Lemma x86_rank_init : 0 <= x86_rank init_ast < Z.of_nat x86_fuel.
Proof. vm_compute. split; [discriminate|reflexivity]. Qed.

Theorem x86_decode_total_wf src :
  match decode x86_tbl x86_fuel src with
  | ROk len _ _ pr po => 1 <= len <= 15 /\ len <= lenZs src /\ (pr = 0 \/ (0 < po /\ po + pr <= len))
  | RUnrecognized len => 0 <= len <= 15 /\ len <= lenZs src
  | RPrefix | RTruncated => True
  | RInternal _ | RPanic | RFuel => False
  end.
Proof. exact (decode_total_wf x86_tbl x86_R x86_rank x86_fuel src x86_closed x86_init x86_rank_init). Qed.
