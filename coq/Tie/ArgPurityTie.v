(* C18 tie: Eval of every expression, equal and everything they reach inside package arg, as regenerated from the
   current source by go2v, contain no write to state that outlives the call -- so the model's pure functions are
   faithful in this respect and an answer cannot depend on earlier evaluations. *)
From Coq Require Import List String.
From Goom Require Import Gen.ArgPurity.
Import ListNotations.
Open Scope string_scope.

Lemma arg_eval_pure : arg_eval_writes = [].
Proof. reflexivity. Qed.

Lemma arg_eval_covers :
  In "EqualsExpr.Eval" arg_eval_reach /\ In "InExpr.Eval" arg_eval_reach /\ In "AnyExpr.Eval" arg_eval_reach /\ In "equal" arg_eval_reach.
Proof. cbv. tauto. Qed.
