(* C17 tie: on the decode table REGENERATED from internal/arch/arm64asm/tables.go, every format of the branch and
   address classes (B, B.cond, BL, CBZ, CBNZ, TBZ, TBNZ, ADR, ADRP) is bit-disjoint from all formats that precede it
   in match order, has no canDecode predicate and only arguments that always decode. *)
From Goom Require Import Base.MachineInt Model.A64Dec Proofs.A64DecProofs Gen.A64Table.
From Coq Require Import List ZArith Bool String.
Import ListNotations.
Open Scope Z_scope.

Definition branch_ops : list string := ["B"; "BL"; "CBZ"; "CBNZ"; "TBZ"; "TBNZ"; "ADR"; "ADRP"]%string.

Fixpoint indices_of (tbl : list fmt) (i : nat) : list nat :=
  match tbl with
  | [] => []
  | f :: r => if existsb (String.eqb (f_op f)) branch_ops then i :: indices_of r (S i) else indices_of r (S i)
  end.

Definition branch_classes : list nat := Eval vm_compute in indices_of a64_formats 0.

Lemma branch_classes_ok : forallb (class_ok a64_formats) branch_classes = true /\ List.length branch_classes = 11%nat.
Proof. split; vm_compute; reflexivity. Qed.

(* the table is well formed: every value lies inside its mask (a format that could never match would be dead) *)
Lemma values_inside_masks : forallb (fun f => Z.land (f_value f) (f_mask f) =? f_value f) a64_formats = true.
Proof. vm_compute. reflexivity. Qed.
