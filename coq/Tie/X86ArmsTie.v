(* C16 -- the hand-written classification of the argument operations in Model/X86Len.v (which operations require a
   memory operand, which record a RIP-relative displacement, which a rel8/16/32 field, how many inst.Args slots each
   fills, which fail) against the SHAPE of decode1's case clauses, REGENERATED from decode.go by go2v on every run.
   A clause that loses or changes its PCRel / PCRelOff bookkeeping, gains a second narg++, or a new argument clause that
   the model does not know makes x86_arms_ok fail. *)
From Goom Require Import Base.MachineInt Gen.X86Table Model.X86Len.
From Coq Require Import List ZArith Bool.
Import ListNotations.
Open Scope Z_scope.

Definition arm := (list Z * Z * Z * bool * Z)%type.
Definition a_labels (a : arm) : list Z := let '(l, _, _, _, _) := a in l.
Definition a_narg (a : arm) : Z := let '(_, n, _, _, _) := a in n.
Definition a_pcrel (a : arm) : Z := let '(_, _, p, _, _) := a in p.
Definition a_memreset (a : arm) : bool := let '(_, _, _, m, _) := a in m.
Definition a_fails (a : arm) : Z := let '(_, _, _, _, f) := a in f.

Definition arm_of (arms : list arm) (x : Z) : option arm := find (fun a => is_in x (a_labels a)) arms.

Definition all_in (arms : list arm) (xs : list Z) (p : arm -> bool) : bool :=
  forallb (fun x => match arm_of arms x with Some a => p a | None => false end) xs.

(* the effective PC-relative behaviour of a clause: an `if mem.Base == RIP` guard after `mem = Mem{Disp: ...}` is dead *)
Definition eff_pcrel (a : arm) : Z := if a_memreset a then (if a_pcrel a =? 1 then 0 else a_pcrel a) else a_pcrel a.

Definition model_arg_ops : list Z :=
  mem_arg_ops ++ rm_arg_ops ++ [x_ArgPtr16colon16; x_ArgPtr16colon32; x_ArgCR0dashCR7; x_ArgSreg; x_ArgMm2; x_ArgXmm2;
                                x_ArgRel8; x_ArgRel16; x_ArgRel32] ++ plain_arg_ops.

Definition control_ops : list Z :=
  [x_Fail; x_Match; x_Jump; x_CondByte; x_CondIs64; x_CondIsMem; x_CondDataSize; x_CondAddrSize; x_CondPrefix; x_CondSlashR;
   x_ReadSlashR; x_ReadIb; x_ReadIw; x_ReadID; x_ReadIo; x_ReadCb; x_ReadCw; x_ReadCm; x_ReadCd; x_ReadCp; x_SetOp].

Definition arms_check (arms : list arm) : bool :=
  (* memory-only operands: one slot, displacement recorded when RIP-relative, invalid without a memory operand *)
  all_in arms mem_arg_ops (fun a => (a_narg a =? 1) && (eff_pcrel a =? 1) && (a_fails a =? 1)) &&
  (* register-or-memory operands: one slot, displacement recorded when RIP-relative *)
  all_in arms rm_arg_ops (fun a => (a_narg a =? 1) && (eff_pcrel a =? 1) && (a_fails a =? 0)) &&
  all_in arms [x_ArgPtr16colon16; x_ArgPtr16colon32] (fun a => (a_narg a =? 2) && (eff_pcrel a =? 0) && (a_fails a =? 0)) &&
  all_in arms [x_ArgCR0dashCR7] (fun a => (a_narg a =? 1) && (eff_pcrel a =? 0) && (a_fails a =? 0)) &&
  all_in arms [x_ArgSreg] (fun a => (a_narg a =? 1) && (eff_pcrel a =? 0) && (a_fails a =? 3)) &&
  all_in arms [x_ArgMm2; x_ArgXmm2] (fun a => (a_narg a =? 1) && (eff_pcrel a =? 0) && (a_fails a =? 2)) &&
  all_in arms [x_ArgRel8] (fun a => (a_narg a =? 1) && (eff_pcrel a =? 2) && (a_fails a =? 0)) &&
  all_in arms [x_ArgRel16] (fun a => (a_narg a =? 1) && (eff_pcrel a =? 3) && (a_fails a =? 0)) &&
  all_in arms [x_ArgRel32] (fun a => (a_narg a =? 1) && (eff_pcrel a =? 4) && (a_fails a =? 0)) &&
  all_in arms plain_arg_ops (fun a => (a_narg a =? 1) && (eff_pcrel a =? 0) && (a_fails a =? 0)) &&
  (* the control operations fill no slot and never touch the PC-relative fields *)
  all_in arms control_ops (fun a => (a_narg a =? 0) && (a_pcrel a =? 0)) &&
  (* nothing else: every label of every clause is an operation the model knows *)
  forallb (fun a => forallb (fun x => is_in x model_arg_ops || is_in x control_ops) (a_labels a)) arms.

Lemma x86_arms_ok : arms_check x86_arms = true.
Proof. vm_compute. reflexivity. Qed.
