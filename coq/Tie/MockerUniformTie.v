(* C12 tie: goom has five kinds of function / method / interface mockers that share one base mocker; the property
   (the most recent instruction wins, a re-applied mocker is live again) needs every kind to do the same two things:
   - every Apply discards the stale When, and does so only AFTER the callback was installed (an Apply that goom refuses
     panics before that line, so the mock that stays installed keeps its configuration: defect F12d);
   - every applyBy* of the base mocker installs the guard, records the callback and clears the cancelled mark.
   The skeletons are regenerated from mocker.go / iface.go by go2v on every run. (The two defects F12b and F12c were
   exactly one kind diverging from its siblings.) *)
From Coq Require Import List String Bool Arith.
From Goom Require Import Gen.MockerSkeleton.
Import ListNotations.
Open Scope string_scope.

Fixpoint index_of (p : string -> bool) (l : list string) (i : nat) : option nat :=
  match l with [] => None | x :: r => if p x then Some i else index_of p r (S i) end.

Definition has (s : string) (l : list string) : bool := existsb (String.eqb s) l.
Definition before (a : string) (bpre : string) (l : list string) : bool :=
  match index_of (String.eqb a) l 0, index_of (String.prefix bpre) l 0 with
  | Some i, Some j => Nat.ltb i j
  | _, _ => false
  end.

Definition after (a : string) (bpre : string) (l : list string) : bool :=
  match index_of (String.eqb a) l 0, index_of (String.prefix bpre) l 0 with
  | Some i, Some j => Nat.ltb j i
  | _, _ => false
  end.

Definition apply_skeletons : list (list string) :=
  [DefMocker_Apply_skeleton; MethodMocker_Apply_skeleton; UnexportedMethodMocker_Apply_skeleton;
   UnexportedFuncMocker_Apply_skeleton; DefaultInterfaceMocker_Apply_skeleton].

Definition applyby_skeletons : list (list string) :=
  [baseMocker_applyByName_skeleton; baseMocker_applyByFunc_skeleton; baseMocker_applyByMethod_skeleton;
   baseMocker_applyByIFaceMethod_skeleton].

Definition installs (l : list string) : bool :=
  existsb (fun pre => existsb (String.prefix pre) l) ["m.doApply("; "m.applyByName("; "m.applyByFunc("; "m.applyByMethod("; "m.applyByIFaceMethod("].

Definition apply_ok (l : list string) : bool :=
  has "m.when = nil" l && installs l &&
  (after "m.when = nil" "m.doApply(" l || after "m.when = nil" "m.applyBy" l).

Definition applyby_ok (l : list string) : bool :=
  has "m.guard.Apply()" l && has "m.imp = callback" l && has "m.canceled = false" l && negb (has "m.canceled = true" l).

Definition cancel_ok (l : list string) : bool :=
  has "m.when = nil" l && has "m.canceled = true" l && has "  m.guard.Cancel()" l.

Lemma mocker_kinds_uniform :
  forallb apply_ok apply_skeletons = true /\ forallb applyby_ok applyby_skeletons = true /\ cancel_ok baseMocker_Cancel_skeleton = true.
Proof. vm_compute. repeat split; reflexivity. Qed.
