(* Tie: call orders and the Traceable table regenerated from the source. *)
From Coq Require Import List String.
From Goom Require Import Model.Errors.
From Goom Require Gen.PatchOrder Gen.MockerOrder Gen.Erro.
Import ListNotations.
Open Scope string_scope.

Definition gen_pipeline : list stage :=
  pipeline_of Gen.PatchOrder.patch_patchValue_calls Gen.PatchOrder.patch_replaceFunc_calls Gen.MockerOrder.baseMocker_applyByFunc_calls.

Lemma tie_pipeline :
  gen_pipeline = [StSigCheck; StUnpatchOld; StSizeCheck; StCaptureSentinel; StBuildTramp; StWriteJump].
Proof. reflexivity. Qed.

(* the method and name paths apply in the same order *)
Lemma tie_apply_paths :
  Gen.MockerOrder.baseMocker_applyByMethod_calls = ["Method"; "Apply"] /\
  Gen.MockerOrder.baseMocker_applyByName_calls = ["FuncName"; "Apply"].
Proof. split; reflexivity. Qed.

(* inside the trampoline builder every check precedes the single write *)
Lemma tie_tramp_order :
  Gen.PatchOrder.fixOriginFuncToTrampoline_calls = ["fixRelativeAddr"; "jmpToOriginFunctionValue"; "WriteTo"].
Proof. reflexivity. Qed.
