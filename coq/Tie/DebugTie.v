(* C19 tie: the skeleton of interceptDebugInfo's two function literals, regenerated from debug.go by go2v on every run,
   is the one Model/Debug.v transcribes:
   - logging off: the callback and the PFunc are returned unchanged (guard);
   - pFunc variant: the original is invoked exactly once, with the delivered params, and its results are returned;
   - imp variant: CallSlice(params) when the type is variadic, else Call(params), once; results returned unchanged;
   - no assignment to params or results in between. *)
From Coq Require Import List String.
From Goom Require Import Gen.DebugShape Model.Debug.
Import ListNotations.
Open Scope string_scope.

Lemma debug_guard_tie : interceptDebugInfo_guard = ["if !logger.IsDebugOpen() return imp, pFunc"].
Proof. reflexivity. Qed.

Lemma debug_pfunc_tie : interceptDebugInfo_lit0 = ["originPFunc(params)"; "return results"; "return results"].
Proof. reflexivity. Qed.

Lemma debug_imp_tie : interceptDebugInfo_lit1 =
  ["if impType.IsVariadic()"; "IsVariadic()"; "CallSlice(params)"; "Call(params)"; "return results"; "return results"].
Proof. reflexivity. Qed.

(* reading of the skeleton: the call form chosen in each branch *)
Definition form_of (ev : string) : option callform :=
  if String.eqb ev "CallSlice(params)" then Some CCallSlice else if String.eqb ev "Call(params)" then Some CCall else None.

Lemma debug_choose_form_tie :
  form_of (nth 2 interceptDebugInfo_lit1 "") = Some (choose_form true) /\
  form_of (nth 3 interceptDebugInfo_lit1 "") = Some (choose_form false).
Proof. split; reflexivity. Qed.
