(* C12 -- the WHOLE-HISTORY statement: after every disciplined history each target behaves according to the most recent
   instruction (last-writer-wins reference ref_step), by induction over histories with probe calls interleaved.
   Discipline (the property's domain, also the generator's): every target is used through one builder (owner), and an
   instruction or Cancel goes through a handle of the CURRENT mocker of its target (a handle of a mocker that was
   cancelled and then superseded by a newer lookup is stale and outside the property). *)
From Coq Require Import List ZArith Bool Arith Lia.
From Goom Require Import Model.Stub Model.MockerLevel Proofs.MockerLevelProofs.
Import ListNotations.
Open Scope Z_scope.

Section History.
  Variable ntargets : nat.
  Variable owner : nat -> nat.          (* the one builder through which a target is used *)

  Inductive hop := HOp (o : mop) | HProbe (t : nat) (a : Z).

  Definition current (s : mstate) (id : nat) (m : mk) : Prop := mcache s (owner (k_target m)) (k_target m) = Some id.

  Definition handle_ok (s : mstate) (h : nat) : Prop :=
    exists id m, nth_error (mhandles s) h = Some id /\ nth_error (mks s) id = Some m /\ current s id m.

  Definition ok (s : mstate) (x : hop) : Prop :=
    match x with
    | HOp (MLookup b t) => b = owner t /\ (t < ntargets)%nat
    | HOp (MApply h _) | HOp (MReturn h _) | HOp (MWhen h _ _) | HOp (MCancel h) => handle_ok s h
    | _ => True
    end.

  Definition hstep (sl : mstate * (nat -> linstr)) (x : hop) : mstate * (nat -> linstr) :=
    match x with
    | HOp o => (mstep ntargets (fst sl) o, ref_step ntargets (fst sl) (snd sl) o)
    | HProbe t a => (fst (probe (fst sl) t a), snd sl)
    end.

  Fixpoint disciplined (sl : mstate * (nat -> linstr)) (xs : list hop) : Prop :=
    match xs with [] => True | x :: r => ok (fst sl) x /\ disciplined (hstep sl x) r end.

  Definition hrun (sl : mstate * (nat -> linstr)) (xs : list hop) := fold_left hstep xs sl.

  (* the same discipline as a boolean (for concrete histories: decided by computation) *)
  Definition handle_okb (s : mstate) (h : nat) : bool :=
    match nth_error (mhandles s) h with
    | Some id => match nth_error (mks s) id with
                 | Some m => match mcache s (owner (k_target m)) (k_target m) with Some id' => Nat.eqb id' id | None => false end
                 | None => false end
    | None => false
    end.

  Definition okb (s : mstate) (x : hop) : bool :=
    match x with
    | HOp (MLookup b t) => Nat.eqb b (owner t) && Nat.ltb t ntargets
    | HOp (MApply h _) | HOp (MReturn h _) | HOp (MWhen h _ _) | HOp (MCancel h) => handle_okb s h
    | _ => true
    end.

  Fixpoint disciplinedb (sl : mstate * (nat -> linstr)) (xs : list hop) : bool :=
    match xs with [] => true | x :: r => okb (fst sl) x && disciplinedb (hstep sl x) r end.

  Lemma handle_okb_sound s h : handle_okb s h = true -> handle_ok s h.
  Proof.
    unfold handle_okb, handle_ok, current. destruct (nth_error (mhandles s) h) as [id|]; [|discriminate].
    destruct (nth_error (mks s) id) as [m|] eqn:Em; [|discriminate].
    destruct (mcache s (owner (k_target m)) (k_target m)) as [id'|] eqn:E; [|discriminate].
    intros H. apply Nat.eqb_eq in H. subst id'. exists id, m. split; [reflexivity|]. split; [exact Em|exact E].
  Qed.

  Lemma okb_sound s x : okb s x = true -> ok s x.
  Proof.
    destruct x as [o|t a]; [|intros _; exact I]. destruct o; cbn [okb ok]; try (intros _; exact I); try apply handle_okb_sound.
    intros H. apply andb_prop in H. destruct H as [H1 H2]. apply Nat.eqb_eq in H1. apply Nat.ltb_lt in H2. split; assumption.
  Qed.

  Lemma disciplinedb_sound xs : forall sl, disciplinedb sl xs = true -> disciplined sl xs.
  Proof.
    induction xs as [|x r IH]; intros sl; cbn [disciplinedb disciplined]; [intros _; exact I|].
    intros H. apply andb_prop in H. destruct H as [H1 H2]. split; [apply okb_sound; exact H1|apply IH; exact H2].
  Qed.

  (* ---- the invariant *)
  Record Inv (s : mstate) (last : nat -> linstr) : Prop := {
    i_last : forall t, match last t with
                       | LNone => installed s t = None
                       | LApply k => installed s t = Some (ICallback k)
                       | LStub id => installed s t = Some (IStub id)
                       end;
    i_when : forall id m, nth_error (mks s) id = Some m -> k_when m <> None -> installed s (k_target m) = Some (IStub id);
    i_stub : forall t id, installed s t = Some (IStub id) -> exists m, nth_error (mks s) id = Some m /\ k_target m = t /\ k_when m <> None;
    i_cache : forall b t id, mcache s b t = Some id -> (exists m, nth_error (mks s) id = Some m /\ k_target m = t) /\ b = owner t /\ (t < ntargets)%nat;
    i_old : forall id m, nth_error (mks s) id = Some m -> ~ current s id m -> k_when m = None;
    i_canc : forall id m, nth_error (mks s) id = Some m -> k_canceled m = true -> k_when m = None
  }.

  Lemma inv_init : Inv minit (fun _ => LNone).
  Proof.
    split; cbn; intros; try reflexivity; try discriminate.
    - destruct id; discriminate.
    - destruct id; discriminate.
    - destruct id; discriminate.
  Qed.

  Lemma nth_set_same {A} (l : list A) id (x y : A) : nth_error l id = Some y -> nth_error (set_nth id l x) id = Some x.
  Proof.
    intros H. rewrite nth_error_set_nth, Nat.eqb_refl.
    assert (Hl : (id <? length l)%nat = true) by (apply Nat.ltb_lt; apply nth_error_Some; congruence). now rewrite Hl.
  Qed.
  Lemma nth_set_other {A} (l : list A) id k (x : A) : k <> id -> nth_error (set_nth id l x) k = nth_error l k.
  Proof. intros H. rewrite nth_error_set_nth. apply Nat.eqb_neq in H. now rewrite H. Qed.

  (* the generic update: mocker id (current, target t) gets a new record with the same target, and t's entry a new
     content that is consistent with it *)
  Lemma inv_update s last id m m' inst' l' :
    Inv s last -> nth_error (mks s) id = Some m -> current s id m -> k_target m' = k_target m ->
    (k_canceled m' = true -> k_when m' = None) ->
    (forall t, t <> k_target m -> inst' t = installed s t) ->
    (forall t, t <> k_target m -> l' t = last t) ->
    match l' (k_target m) with
    | LNone => inst' (k_target m) = None /\ k_when m' = None
    | LApply k => inst' (k_target m) = Some (ICallback k) /\ k_when m' = None
    | LStub j => inst' (k_target m) = Some (IStub j) /\ j = id /\ k_when m' <> None
    end ->
    Inv (with_mk s id m' inst') l'.
  Proof.
    intros I Hm Hcur Ht Hc Hi Hl Hnew. destruct I as [I1 I2 I3 I4 I5 I6].
    assert (Hid : forall k, k <> id -> nth_error (mks (with_mk s id m' inst')) k = nth_error (mks s) k)
      by (intros k Hk; cbn; now apply nth_set_other).
    assert (Hid' : nth_error (mks (with_mk s id m' inst')) id = Some m') by (cbn; eapply nth_set_same; eassumption).
    (* any other mocker with the same target is not current, so it has no When *)
    assert (Hoth : forall k mk0, k <> id -> nth_error (mks s) k = Some mk0 -> k_target mk0 = k_target m -> k_when mk0 = None).
    { intros k mk0 Hk Hk0 Htt. apply (I5 k mk0 Hk0). unfold current. rewrite Htt. unfold current in Hcur. rewrite Hcur. congruence. }
    split.
    - intros t. destruct (Nat.eq_dec t (k_target m)) as [->|Hne].
      + destruct (l' (k_target m)); tauto.
      + rewrite (Hl t Hne). specialize (I1 t). cbn [with_mk installed]. rewrite (Hi t Hne). exact I1.
    - intros k mk0 Hk Hw. destruct (Nat.eq_dec k id) as [->|Hne].
      + rewrite Hid' in Hk. injection Hk as <-. rewrite Ht. cbn [with_mk installed].
        destruct (l' (k_target m)) as [|kk|j]; [tauto|tauto|]. destruct Hnew as (E & -> & _). exact E.
      + rewrite (Hid k Hne) in Hk. destruct (Nat.eq_dec (k_target mk0) (k_target m)) as [E|E].
        * exfalso. apply Hw. exact (Hoth k mk0 Hne Hk E).
        * cbn [with_mk installed]. rewrite (Hi _ E). exact (I2 k mk0 Hk Hw).
    - intros t j Hj. cbn [with_mk installed] in Hj. destruct (Nat.eq_dec t (k_target m)) as [->|Hne].
      + destruct (l' (k_target m)) as [|kk|j']; [destruct Hnew as [E _]; congruence|destruct Hnew as [E _]; congruence|].
        destruct Hnew as (E & -> & Hw). rewrite E in Hj. injection Hj as <-. exists m'. repeat split; assumption.
      + rewrite (Hi t Hne) in Hj. destruct (I3 t j Hj) as (mj & Hmj & Htj & Hwj).
        assert (j <> id) by (intros ->; rewrite Hm in Hmj; injection Hmj as <-; congruence).
        exists mj. rewrite (Hid j H). repeat split; assumption.
    - intros b t j Hj. cbn [with_mk mcache] in Hj. destruct (I4 b t j Hj) as ((mj & Hmj & Htj) & Hb & Hlt). split; [|split; assumption].
      destruct (Nat.eq_dec j id) as [->|Hne].
      + exists m'. rewrite Hid'. split; [reflexivity|]. rewrite Hm in Hmj. injection Hmj as <-. congruence.
      + exists mj. rewrite (Hid j Hne). split; assumption.
    - intros k mk0 Hk Hnc. destruct (Nat.eq_dec k id) as [->|Hne].
      + exfalso. apply Hnc. rewrite Hid' in Hk. injection Hk as <-. unfold current in *. cbn [with_mk mcache]. rewrite Ht. exact Hcur.
      + rewrite (Hid k Hne) in Hk. apply (I5 k mk0 Hk). exact Hnc.
    - intros k mk0 Hk Hcn. destruct (Nat.eq_dec k id) as [->|Hne].
      + rewrite Hid' in Hk. injection Hk as <-. exact (Hc Hcn).
      + rewrite (Hid k Hne) in Hk. exact (I6 k mk0 Hk Hcn).
  Qed.

  Lemma inv_cancel s last id m :
    Inv s last -> nth_error (mks s) id = Some m -> current s id m ->
    Inv (m_cancel s id) (upd last (k_target m) LNone).
  Proof.
    intros I Hm Hc. unfold m_cancel. rewrite Hm.
    apply (inv_update s last id m); try assumption; try reflexivity.
    - intros t Ht. now apply upd_other.
    - intros t Ht. now apply upd_other.
    - rewrite !upd_same. split; reflexivity.
  Qed.

  Lemma cancel_keeps_cache s id : mcache (m_cancel s id) = mcache s.
  Proof. unfold m_cancel. destruct (nth_error (mks s) id); reflexivity. Qed.

  Lemma inv_ext s l l' : Inv s l -> (forall t, l t = l' t) -> Inv s l'.
  Proof. intros [I1 I2 I3 I4 I5 I6] E. split; try assumption. intros t. rewrite <- E. apply I1. Qed.

  (* Reset = cancel the cached mocker of every target of the builder *)
  Definition reset_fold (b : nat) (l : list nat) (s : mstate) : mstate :=
    fold_left (fun s t => match mcache s b t with Some id => m_cancel s id | None => s end) l s.

  Lemma inv_reset_list b (l : list nat) : forall s last,
    Inv s last ->
    Inv (reset_fold b l s)
        (fun t => if existsb (Nat.eqb t) l then match mcache s b t with Some _ => LNone | None => last t end else last t) /\
    mcache (reset_fold b l s) = mcache s.
  Proof.
    induction l as [|t0 l IH]; intros s last I; unfold reset_fold; cbn [fold_left existsb].
    - split; [|reflexivity]. exact I.
    - fold (reset_fold b l). destruct (mcache s b t0) as [id|] eqn:Ec.
      + destruct (i_cache s last I b t0 id Ec) as ((m & Hm & Ht) & Hb & Hlt).
        assert (Hcur : current s id m) by (unfold current; rewrite Ht, <- Hb; exact Ec).
        assert (I' := inv_cancel s last id m I Hm Hcur).
        destruct (IH (m_cancel s id) _ I') as [IH1 IH2]. rewrite cancel_keeps_cache in IH1, IH2. split; [|exact IH2].
        apply (inv_ext _ _ _ IH1). intros t. rewrite Ht. unfold upd.
        destruct (Nat.eqb t t0) eqn:E; cbn [orb].
        * apply Nat.eqb_eq in E. subst t. rewrite Ec. destruct (existsb (Nat.eqb t0) l); reflexivity.
        * reflexivity.
      + destruct (IH s last I) as [IH1 IH2]. split; [|exact IH2]. apply (inv_ext _ _ _ IH1). intros t.
        destruct (Nat.eqb t t0) eqn:E; cbn [orb]; [|reflexivity].
        apply Nat.eqb_eq in E. subst t. rewrite Ec. destruct (existsb (Nat.eqb t0) l); reflexivity.
  Qed.

  Lemma existsb_seq t n : existsb (Nat.eqb t) (seq 0 n) = (t <? n)%nat.
  Proof.
    destruct (t <? n)%nat eqn:E.
    - apply existsb_exists. exists t. split; [apply in_seq; apply Nat.ltb_lt in E; lia|apply Nat.eqb_refl].
    - destruct (existsb (Nat.eqb t) (seq 0 n)) eqn:E2; [|reflexivity]. apply existsb_exists in E2. destruct E2 as (x & Hx & Hxe).
      apply Nat.eqb_eq in Hxe. subst x. apply in_seq in Hx. apply Nat.ltb_ge in E. lia.
  Qed.

  Lemma inv_reset s last b : Inv s last -> Inv (m_reset ntargets s b) (ref_step ntargets s last (MReset b)).
  Proof.
    intros I. destruct (inv_reset_list b (seq 0 ntargets) s last I) as [H _]. unfold m_reset. fold (reset_fold b (seq 0 ntargets) s).
    apply (inv_ext _ _ _ H). intros t. cbn [ref_step]. rewrite existsb_seq.
    destruct (t <? ntargets)%nat eqn:E; [reflexivity|].
    destruct (mcache s b t) as [id|] eqn:Ec; [|reflexivity].
    destruct (i_cache s last I b t id Ec) as (_ & _ & Hlt). apply Nat.ltb_ge in E. lia.
  Qed.

  (* a lookup: continues the live mocker or starts a fresh one; the entries do not change *)
  Lemma inv_lookup s last b t : Inv s last -> b = owner t -> (t < ntargets)%nat -> Inv (m_lookup s b t) last.
  Proof.
    intros I Hb Hlt. assert (I0 := I). destruct I as [I1 I2 I3 I4 I5 I6].
    set (fresh := {| installed := installed s; mks := mks s ++ [{| k_target := t; k_when := None; k_canceled := false |}];
                     mcache := upd (mcache s) b (upd (mcache s b) t (Some (length (mks s)))); mhandles := mhandles s ++ [length (mks s)];
                     mpkg := upd (mpkg s) b None |}).
    assert (Hfresh : (mcache s b t = None \/ exists id m, mcache s b t = Some id /\ nth_error (mks s) id = Some m /\ k_canceled m = true) -> Inv fresh last).
    { intros Hold.
      assert (Hc : forall b' t' id, mcache fresh b' t' = Some id ->
                   (b' = b /\ t' = t /\ id = length (mks s)) \/ ((b' <> b \/ t' <> t) /\ mcache s b' t' = Some id)).
      { intros b' t' id. cbn [fresh mcache]. unfold upd. destruct (Nat.eqb b' b) eqn:E1.
        - apply Nat.eqb_eq in E1. subst b'. destruct (Nat.eqb t' t) eqn:E2.
          + apply Nat.eqb_eq in E2. subst t'. intros [= <-]. left. tauto.
          + apply Nat.eqb_neq in E2. intros H. right. tauto.
        - apply Nat.eqb_neq in E1. intros H. right. tauto. }
      assert (Hn : forall id m, nth_error (mks fresh) id = Some m ->
                   (id < length (mks s))%nat /\ nth_error (mks s) id = Some m \/ id = length (mks s) /\ m = {| k_target := t; k_when := None; k_canceled := false |}).
      { intros id m. cbn [fresh mks]. destruct (Nat.lt_ge_cases id (length (mks s))) as [L|L].
        - rewrite nth_error_app1 by exact L. intros H. left. tauto.
        - rewrite nth_error_app2 by exact L. destruct (id - length (mks s))%nat eqn:E; cbn.
          + intros [= <-]. right. split; [lia|reflexivity].
          + destruct n; discriminate. }
      split.
      - exact I1.
      - intros id m Hm Hw. destruct (Hn id m Hm) as [[_ H]|[_ ->]]; [exact (I2 id m H Hw)|cbn in Hw; congruence].
      - intros t' id Hi. destruct (I3 t' id Hi) as (m & Hm & Ht & Hw). exists m. cbn [fresh mks].
        rewrite nth_error_app1 by (apply nth_error_Some; congruence). repeat split; assumption.
      - intros b' t' id Hcc. destruct (Hc b' t' id Hcc) as [(-> & -> & ->)|[_ H]].
        + split; [|split; assumption]. eexists. cbn [fresh mks]. rewrite nth_error_app2 by lia. rewrite Nat.sub_diag. cbn. split; reflexivity.
        + destruct (I4 b' t' id H) as ((m & Hm & Ht) & Hb' & Hl'). split; [|split; assumption]. exists m. cbn [fresh mks].
          rewrite nth_error_app1 by (apply nth_error_Some; congruence). split; assumption.
      - intros id m Hm Hnc. destruct (Hn id m Hm) as [[L H]|[_ ->]]; [|reflexivity].
        destruct (Nat.eq_dec (k_target m) t) as [Et|Et].
        + (* same target as the fresh one: the old mocker was current only if it is the cancelled one *)
          destruct (mcache s (owner (k_target m)) (k_target m)) as [j|] eqn:Ej.
          * destruct (Nat.eq_dec j id) as [->|Hne].
            -- destruct Hold as [Hnone|(id' & m' & Hc' & Hm' & Hcn)]; [rewrite Et, <- Hb in Ej; congruence|].
               rewrite Et, <- Hb in Ej. rewrite Ej in Hc'. injection Hc' as <-. rewrite H in Hm'. injection Hm' as <-. exact (I6 id m H Hcn).
            -- apply (I5 id m H). unfold current. rewrite Ej. congruence.
          * apply (I5 id m H). unfold current. rewrite Ej. discriminate.
        + apply (I5 id m H). intros Hcur. apply Hnc. unfold current in *. cbn [fresh mcache]. unfold upd.
          destruct (Nat.eqb (owner (k_target m)) b) eqn:Eb; [|exact Hcur]. apply Nat.eqb_eq in Eb.
          destruct (Nat.eqb (k_target m) t) eqn:E; [apply Nat.eqb_eq in E; congruence|rewrite <- Eb; exact Hcur].
      - intros id m Hm Hcn. destruct (Hn id m Hm) as [[_ H]|[_ ->]]; [exact (I6 id m H Hcn)|reflexivity]. }
    unfold m_lookup. fold fresh. destruct (mcache s b t) as [id|] eqn:Ec; [|apply Hfresh; left; reflexivity].
    destruct (nth_error (mks s) id) as [m|] eqn:Em.
    - destruct (k_canceled m) eqn:Ecn; [apply Hfresh; right; exists id, m; tauto|].
      split; cbn [installed mks mcache]; assumption.
    - destruct (I4 b t id Ec) as ((m & Hm & _) & _). congruence.
  Qed.

  (* one instruction through a handle of the current mocker *)
  Lemma inv_op s last o : Inv s last -> ok s (HOp o) -> Inv (mstep ntargets s o) (ref_step ntargets s last o).
  Proof.
    intros I Hok. destruct o as [b t|h k|h r|h v r|h|b|b p|b|h]; cbn [ok] in Hok; cbn [mstep ref_step].
    - destruct Hok as [Hb Hlt]. apply inv_lookup; assumption.
    - destruct Hok as (id & m & Hh & Hm & Hc). rewrite Hh, Hm.
      apply (inv_update s last id m); try assumption; try reflexivity; try (intros; now apply upd_other).
      rewrite !upd_same. cbn. split; reflexivity.
    - destruct Hok as (id & m & Hh & Hm & Hc). rewrite Hh, Hm. destruct (k_when m) as [w|] eqn:Ew.
      + assert (Hcn : k_canceled m = false) by (destruct (k_canceled m) eqn:E; [rewrite (i_canc s last I id m Hm E) in Ew; discriminate|reflexivity]).
        apply (inv_update s last id m); try assumption; try reflexivity; try (intros; now apply upd_other).
        * cbn. rewrite Hcn. discriminate.
        * rewrite upd_same. cbn. split; [|split; [reflexivity|discriminate]].
          apply (i_when s last I id m Hm). rewrite Ew. discriminate.
      + apply (inv_update s last id m); try assumption; try reflexivity; try (intros; now apply upd_other).
        * cbn. discriminate.
        * rewrite !upd_same. cbn. split; [reflexivity|split; [reflexivity|discriminate]].
    - destruct Hok as (id & m & Hh & Hm & Hc). rewrite Hh, Hm. destruct (k_when m) as [w|] eqn:Ew.
      + assert (Hcn : k_canceled m = false) by (destruct (k_canceled m) eqn:E; [rewrite (i_canc s last I id m Hm E) in Ew; discriminate|reflexivity]).
        apply (inv_update s last id m); try assumption; try reflexivity; try (intros; now apply upd_other).
        * cbn. rewrite Hcn. discriminate.
        * rewrite upd_same. cbn. split; [|split; [reflexivity|discriminate]].
          apply (i_when s last I id m Hm). rewrite Ew. discriminate.
      + apply (inv_update s last id m); try assumption; try reflexivity; try (intros; now apply upd_other).
        * cbn. discriminate.
        * rewrite !upd_same. cbn. split; [reflexivity|split; [reflexivity|discriminate]].
    - destruct Hok as (id & m & Hh & Hm & Hc). rewrite Hh, Hm. apply inv_cancel; assumption.
    - apply inv_reset. exact I.
    - destruct I; split; assumption.
    - exact I.
    - exact I.
  Qed.

  (* a probe call only advances the cursors of the stub it reaches *)
  Lemma inv_probe s last t a : Inv s last -> Inv (fst (probe s t a)) last.
  Proof.
    intros I. unfold probe. destruct (installed s t) as [[k|id]|] eqn:Ei; [exact I| |exact I].
    destruct (i_stub s last I t id Ei) as (m & Hm & Ht & Hw). rewrite Hm.
    destruct (k_when m) as [w|] eqn:Ew; [|congruence]. destruct (invoke w [a]) as [w' o] eqn:Eo. cbn [fst].
    assert (Hcur : current s id m).
    { destruct (mcache s (owner (k_target m)) (k_target m)) as [j|] eqn:Ej.
      - destruct (Nat.eq_dec j id) as [->|Hne]; [exact Ej|]. exfalso.
        assert (k_when m = None) by (apply (i_old s last I id m Hm); unfold current; rewrite Ej; congruence). congruence.
      - exfalso. assert (k_when m = None) by (apply (i_old s last I id m Hm); unfold current; rewrite Ej; discriminate). congruence. }
    apply (inv_update s last id m); try assumption; try reflexivity.
    - cbn. intros Hcn. rewrite (i_canc s last I id m Hm Hcn) in Ew. discriminate.
    - assert (L := i_last s last I (k_target m)). rewrite Ht in *. rewrite Ei in L.
      destruct (last t) as [|k|j]; try discriminate. injection L as <-. cbn. split; [exact Ei|split; [reflexivity|discriminate]].
  Qed.

  Theorem history_inv : forall xs s last, Inv s last -> disciplined (s, last) xs ->
    Inv (fst (hrun (s, last) xs)) (snd (hrun (s, last) xs)).
  Proof.
    induction xs as [|x xs IH]; intros s last I D; [exact I|]. cbn [hrun fold_left]. cbn [disciplined fst] in D. destruct D as [Hok D].
    destruct x as [o|t a]; cbn [hstep fst snd] in *.
    - apply IH; [apply inv_op; assumption|exact D].
    - apply IH; [apply inv_probe; exact I|exact D].
  Qed.

  (* what a call does in a state satisfying the invariant *)
  Lemma inv_behaviour s last t a : Inv s last ->
    match last t with
    | LNone => snd (probe s t a) = POriginal
    | LApply k => snd (probe s t a) = PCallback k
    | LStub id => exists m w, nth_error (mks s) id = Some m /\ k_target m = t /\ k_when m = Some w /\ snd (probe s t a) = PStub (snd (invoke w [a]))
    end.
  Proof.
    intros I. assert (L := i_last s last I t). unfold probe. destruct (last t) as [|k|id]; rewrite L; try reflexivity.
    destruct (i_stub s last I t id L) as (m & Hm & Ht & Hw). rewrite Hm. destruct (k_when m) as [w|] eqn:Ew; [|congruence].
    exists m, w. repeat split; try assumption. destruct (invoke w [a]); reflexivity.
  Qed.

  (* THE WHOLE-HISTORY THEOREM: after any disciplined history (instructions, lookups, resets, Pkg, probe calls in any
     order and number) every target behaves according to the most recent instruction *)
  Theorem last_instruction_wins xs t a :
    disciplined (minit, fun _ => LNone) xs ->
    let s := fst (hrun (minit, fun _ => LNone) xs) in
    match snd (hrun (minit, fun _ => LNone) xs) t with
    | LNone => snd (probe s t a) = POriginal
    | LApply k => snd (probe s t a) = PCallback k
    | LStub id => exists m w, nth_error (mks s) id = Some m /\ k_target m = t /\ k_when m = Some w /\ snd (probe s t a) = PStub (snd (invoke w [a]))
    end.
  Proof. intros D. apply inv_behaviour. apply history_inv; [exact inv_init|exact D]. Qed.
End History.
