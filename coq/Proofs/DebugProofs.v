(* C19 -- proofs about Model/Debug.v *)
From Coq Require Import List ZArith Bool Arith Lia.
From Goom Require Import Model.Debug.
Import ListNotations.
Open Scope Z_scope.

Section Facts.
  Variable fmt_ok : lval -> bool.
  (* fmt renders every valid value without panicking (it contains panics of String/Error methods itself) *)
  Hypothesis fmt_total : forall a, valid a = true -> fmt_ok a = true.

  Lemma sprint_total vs : forallb valid vs = true -> sprint_v fmt_ok vs = true.
  Proof.
    unfold sprint_v. induction vs as [|a vs IH]; simpl; [reflexivity|]. intros H.
    apply andb_true_iff in H. destruct H as [Ha Hv]. rewrite (IH Hv), andb_true_r.
    destruct a; simpl in *; try reflexivity; try discriminate; apply fmt_total; reflexivity.
  Qed.

  Lemma reflect_invoke_chosen {S} variadic (f : callee S) st ps :
    reflect_invoke variadic (choose_form variadic) f st ps = f st ps.
  Proof. destruct variadic; reflexivity. Qed.

  (* one call: same state of the replacement (it ran exactly once, with exactly these parameters), same outcome *)
  Theorem intercept_transparent {S} debug excluded variadic (f : callee S) st ps :
    forallb valid ps = true ->
    (forall st' rs, f st ps = (st', Ret rs) -> forallb valid rs = true) ->
    intercept fmt_ok debug excluded variadic f st ps = f st ps.
  Proof.
    intros Hps Hrs. unfold intercept. destruct debug; [|reflexivity].
    rewrite reflect_invoke_chosen. destruct (f st ps) as [st' [rs|p]] eqn:E; [|reflexivity].
    destruct excluded; [reflexivity|]. rewrite (sprint_total ps Hps), (sprint_total rs (Hrs st' rs eq_refl)). reflexivity.
  Qed.

  Theorem intercept_pfunc_transparent {S} debug excluded (f : callee S) st ps :
    forallb valid ps = true ->
    (forall st' rs, f st ps = (st', Ret rs) -> forallb valid rs = true) ->
    intercept_pfunc fmt_ok debug excluded f st ps = f st ps.
  Proof.
    intros Hps Hrs. unfold intercept_pfunc. destruct debug; [|reflexivity].
    destruct (f st ps) as [st' [rs|p]] eqn:E; [|reflexivity].
    destruct excluded; [reflexivity|]. rewrite (sprint_total ps Hps), (sprint_total rs (Hrs st' rs eq_refl)). reflexivity.
  Qed.

  (* a whole sequence of calls: identical transcript (final state of the replacement and everything the callers saw) *)
  Theorem transcript_transparent {S} debug excluded variadic (f : callee S) :
    (forall st ps st' rs, f st ps = (st', Ret rs) -> forallb valid rs = true) ->
    forall calls st, forallb (forallb valid) calls = true ->
    run_calls (intercept fmt_ok debug excluded variadic f) st calls = run_calls f st calls.
  Proof.
    intros Hrs calls. induction calls as [|ps rest IH]; intros st Hc; simpl; [reflexivity|].
    simpl in Hc. apply andb_true_iff in Hc. destruct Hc as [Hps Hrest].
    rewrite (intercept_transparent debug excluded variadic f st ps Hps (fun st' rs E => Hrs st ps st' rs E)).
    destruct (f st ps) as [st' r]. rewrite (IH st' Hrest). reflexivity.
  Qed.

  (* the choice Call / CallSlice matters: the other form fails on every call *)
  Theorem wrong_form_breaks {S} variadic (f : callee S) st ps :
    reflect_invoke variadic (choose_form (negb variadic)) f st ps = (st, Pan reflect_panic).
  Proof. destruct variadic; reflexivity. Qed.

  (* without the nil guard nothing changes for valid values; the zero Value is the only input SprintV cannot render *)
  Theorem sprint_fails_only_on_invalid vs : sprint_v fmt_ok vs = false -> existsb (fun a => negb (valid a)) vs = true.
  Proof.
    unfold sprint_v. induction vs as [|a vs IH]; simpl; [discriminate|]. intros H.
    apply andb_false_iff in H. destruct H as [H|H].
    - destruct a; simpl in *; try discriminate; try reflexivity; rewrite fmt_total in H; try discriminate; reflexivity.
    - rewrite (IH H). apply orb_true_r.
  Qed.
End Facts.
