(* Properties of the clause-list specification itself: first match wins, else default, else panic;
   the k-th selection of a clause yields its k-th result and sticks at the last; clauses advance independently. *)
From Coq Require Import List ZArith Bool Arith Lia.
From Goom Require Import Model.Stub Model.StubSpec.
Import ListNotations.
Open Scope Z_scope.

(* first registered matching clause: exactly that clause is served and bumped, all others untouched *)
Lemma select_first pre c post args :
  (forall x, In x pre -> cond_match (sc_cond x) args = false) -> cond_match (sc_cond c) args = true ->
  select (pre ++ c :: post) args = Some (seq_result c, pre ++ bump c :: post).
Proof.
  induction pre as [|x pre IH]; intros Hpre Hc; cbn [app select].
  - now rewrite Hc.
  - rewrite (Hpre x (or_introl eq_refl)). rewrite IH; [reflexivity| |exact Hc].
    intros y Hy. apply Hpre. now right.
Qed.

Lemma select_none cs args :
  (forall x, In x cs -> cond_match (sc_cond x) args = false) -> select cs args = None.
Proof.
  induction cs as [|x cs IH]; intros H; cbn [select]; [reflexivity|].
  rewrite (H x (or_introl eq_refl)). rewrite IH; [reflexivity|]. intros y Hy. apply H. now right.
Qed.

(* conversely: whatever select returns is the first matching clause *)
Lemma select_inv cs args o cs' :
  select cs args = Some (o, cs') ->
  exists pre c post, cs = pre ++ c :: post /\ cs' = pre ++ bump c :: post /\ o = seq_result c /\
                     cond_match (sc_cond c) args = true /\
                     (forall x, In x pre -> cond_match (sc_cond x) args = false).
Proof.
  revert o cs'; induction cs as [|x cs IH]; intros o cs' H; cbn [select] in H; [discriminate|].
  destruct (cond_match (sc_cond x) args) eqn:E.
  - inversion H; subst. exists [], x, cs. repeat split; auto. intros y [].
  - destruct (select cs args) as [[o2 r']|] eqn:Es; [|discriminate]. inversion H; subst.
    destruct (IH _ _ eq_refl) as (pre & c & post & -> & -> & -> & Hm & Hpre).
    exists (x :: pre), c, post. repeat split; auto.
    intros y [<-|Hy]; [exact E | now apply Hpre].
Qed.

Theorem spec_first_match s pre c post args :
  ss_clauses s = pre ++ c :: post ->
  (forall x, In x pre -> cond_match (sc_cond x) args = false) -> cond_match (sc_cond c) args = true ->
  spec_invoke s args =
  ({| ss_clauses := pre ++ bump c :: post; ss_default := ss_default s; ss_nout := ss_nout s |}, seq_result c).
Proof. intros E Hpre Hc. unfold spec_invoke. rewrite E, (select_first pre c post args Hpre Hc). reflexivity. Qed.

Theorem spec_else_default s d args :
  (forall x, In x (ss_clauses s) -> cond_match (sc_cond x) args = false) -> ss_default s = Some d ->
  spec_invoke s args =
  ({| ss_clauses := ss_clauses s; ss_default := Some (bump d); ss_nout := ss_nout s |}, seq_result d).
Proof. intros Hn Hd. unfold spec_invoke. rewrite (select_none _ _ Hn), Hd. reflexivity. Qed.

Theorem spec_else_panic s args :
  (forall x, In x (ss_clauses s) -> cond_match (sc_cond x) args = false) -> ss_default s = None ->
  ss_nout s <> 0%nat ->
  spec_invoke s args = (s, ONoSuitable).
Proof.
  intros Hn Hd Hno. unfold spec_invoke. rewrite (select_none _ _ Hn), Hd.
  apply Nat.eqb_neq in Hno. now rewrite Hno.
Qed.

(* the k-th selection (k = sc_pos) returns element min k (n-1): in order, then sticky at the last *)
Theorem seq_kth c :
  sc_cond c <> CEmpty -> sc_results c <> [] ->
  seq_result c = ORet (nth (Nat.min (sc_pos c) (length (sc_results c) - 1)) (sc_results c) 0).
Proof.
  intros Hc Hr. unfold seq_result.
  destruct (sc_cond c); try congruence;
  (destruct (nth_error (sc_results c) (Nat.min (sc_pos c) (length (sc_results c) - 1))) as [r|] eqn:E;
   [ f_equal; symmetry; now apply nth_error_nth
   | exfalso; apply nth_error_None in E; destruct (sc_results c); [congruence | cbn in E; lia] ]).
Qed.

Corollary seq_in_order c k :
  sc_cond c <> CEmpty -> sc_pos c = k -> (k < length (sc_results c))%nat ->
  seq_result c = ORet (nth k (sc_results c) 0).
Proof.
  intros Hc Hp Hk. rewrite seq_kth; auto.
  - f_equal. f_equal. lia.
  - intros E. rewrite E in Hk. cbn in Hk. lia.
Qed.

Corollary seq_sticky c :
  sc_cond c <> CEmpty -> sc_results c <> [] -> (length (sc_results c) - 1 <= sc_pos c)%nat ->
  seq_result c = ORet (last (sc_results c) 0).
Proof.
  intros Hc Hr Hp. rewrite seq_kth; auto. f_equal.
  replace (Nat.min (sc_pos c) (length (sc_results c) - 1)) with (length (sc_results c) - 1)%nat by lia.
  destruct (sc_results c) as [|x l] eqn:E; [congruence|].
  clear. cbn [length]. rewrite Nat.sub_succ, Nat.sub_0_r.
  revert x; induction l as [|y l IH]; intros x; [reflexivity|].
  change (nth (length (y :: l)) (x :: y :: l) 0) with (nth (length l) (y :: l) 0).
  rewrite IH. reflexivity.
Qed.

(* no garbage: a served value is one of the configured results of the clause that was selected *)
Theorem seq_result_configured c r :
  seq_result c = ORet r -> sc_cond c = CEmpty /\ r = EMPTY \/ In r (sc_results c).
Proof.
  unfold seq_result. destruct (sc_cond c);
  try (destruct (nth_error (sc_results c) _) as [x|] eqn:E; [|discriminate];
       intros H; inversion H; subst; right; eapply nth_error_In; eauto).
  intros H; inversion H; subst. now left.
Qed.

(* j consecutive calls that all select clause c (first match each time) walk through its sequence *)
Theorem repeated_selection : forall j s pre c post args,
  ss_clauses s = pre ++ c :: post ->
  (forall x, In x pre -> cond_match (sc_cond x) args = false) -> cond_match (sc_cond c) args = true ->
  sc_cond c <> CEmpty -> sc_results c <> [] ->
  spec_calls s (repeat args j) =
  map (fun i => ORet (nth (Nat.min (sc_pos c + i) (length (sc_results c) - 1)) (sc_results c) 0)) (seq 0 j).
Proof.
  induction j as [|j IH]; intros s pre c post args E Hpre Hc Hne Hr; [reflexivity|].
  cbn [repeat spec_calls]. rewrite (spec_first_match s pre c post args E Hpre Hc).
  cbn [seq map]. rewrite Nat.add_0_r. rewrite <- (seq_kth c Hne Hr). f_equal.
  rewrite (IH _ pre (bump c) post args); auto.
  rewrite <- seq_shift, map_map. apply map_ext. intros i. cbn [bump sc_pos sc_results].
  do 3 f_equal. lia.
Qed.
