(* C07 -- the WHOLE-HISTORY statement: the outcomes of every call in every disciplined history of mocks (fresh handle or
   kept handle), calls, resets, dropped builders and collections equal those of a small reference machine that knows
   nothing about contexts, itabs, caches or the collector: a table variable -> method -> latest replacement.
   Discipline (the property's domain, also the generator's): each variable is mocked through one builder (owner), method
   indices are inside the interface's method set, variables exist. *)
From Coq Require Import List Arith Bool Lia.
From Goom Require Import Model.IfaceMock Proofs.IfaceMockProofs.
Import ListNotations.

Section Hist.
  Variable nmeth : nat -> nat.
  Variable key_of : nat -> nat.
  Variable owner : nat -> nat.
  Variable nvars : nat.
  Variable init0 : nat -> word.            (* what the variables hold before the history *)
  Hypothesis key_inj : forall v w, key_of v = key_of w -> v = w.
  Hypothesis init_real : forall v c, init0 v <> WFake c.

  Local Notation lookup := (lookup nmeth key_of).
  Local Notation lookup_kept := (lookup_kept nmeth key_of).
  Local Notation mock := (mock nmeth key_of).
  Local Notation mock_kept := (mock_kept nmeth key_of).
  Local Notation step := (step nmeth key_of).
  Local Notation run := (run nmeth key_of).

  (* ---- the reference machine *)
  Record rst := { r_mocked : nat -> bool; r_tbl : nat -> nat -> option nat; r_n : nat }.

  Definition rinit : rst := {| r_mocked := fun _ => false; r_tbl := fun _ _ => None; r_n := 0 |}.

  Definition ref_mock (r : rst) (v m : nat) : rst :=
    {| r_mocked := fun w => if Nat.eqb w v then true else r_mocked r w;
       r_tbl := fun w m' => if Nat.eqb w v then (if Nat.eqb m' m then Some (r_n r) else if r_mocked r v then r_tbl r v m' else None)
                            else r_tbl r w m';
       r_n := S (r_n r) |}.

  Definition ref_step (r : rst) (o : op) : rst :=
    match o with
    | OMock _ v m _ | OMockKept _ v m => ref_mock r v m
    | OReset b => {| r_mocked := fun w => if Nat.eqb (owner w) b then false else r_mocked r w; r_tbl := r_tbl r; r_n := r_n r |}
    | _ => r
    end.

  Definition ref_out (r : rst) (o : op) : outcome :=
    match o with
    | OCall v m =>
        if r_mocked r v then match r_tbl r v m with Some k => ORepl k | None => ONotImpl end
        else match init0 v with WNil => ONilPanic | WReal q => OReal q m | WFake _ => OCrash end
    | _ => ONone
    end.

  Fixpoint ref_run (r : rst) (ops : list op) : list outcome :=
    match ops with [] => [] | o :: rest => ref_out r o :: ref_run (ref_step r o) rest end.

  Definition ok (o : op) : Prop :=
    match o with
    | OMock b v m _ | OMockKept b v m => b = owner v /\ v < nvars /\ m < nmeth v
    | OCall v _ => v < nvars
    | _ => True
    end.

  (* ---- the invariant tying a model state to a reference state *)
  Definition mocked_ok (s : st) (r : rst) (v : nat) : Prop :=
    exists c x, get_var s v = WFake c /\ get_ctx s c = Some x /\ c_var x = v /\ c_canceled x = false /\
                c_backup x = Some (init0 v) /\ slots_retained x /\
                (forall m, nth m (c_slots x) None = r_tbl r v m) /\
                (forall m k, r_tbl r v m = Some k -> k < length (live s) /\ nth k (live s) false = true) /\
                cache_lookup (cache s) (owner v) (key_of v) = Some c /\
                (forall c' x', c' <> c -> get_ctx s c' = Some x' -> c_var x' = v -> c_canceled x' = true).

  Definition unmocked_ok (s : st) (v : nat) : Prop :=
    get_var s v = init0 v /\ (forall c x, get_ctx s c = Some x -> c_var x = v -> c_canceled x = true).

  Record Inv (s : st) (r : rst) : Prop := {
    i_len : length (vars s) = nvars;
    i_n : r_n r = length (live s);
    i_cache : forall b k c, In (b, k, c) (cache s) -> exists x, get_ctx s c = Some x /\ k = key_of (c_var x) /\ b = owner (c_var x);
    i_ctx : forall c x, get_ctx s c = Some x ->
              c_var x < nvars /\ In (owner (c_var x), key_of (c_var x), c) (cache s) /\ length (c_slots x) = nmeth (c_var x);
    i_var : forall v, v < nvars -> if r_mocked r v then mocked_ok s r v else unmocked_ok s v;
    i_dom : forall v, nvars <= v -> r_mocked r v = false
  }.

  Lemma inv_ext s r r' : Inv s r -> (forall v, r_mocked r v = r_mocked r' v) -> (forall v m, r_tbl r v m = r_tbl r' v m) -> r_n r = r_n r' -> Inv s r'.
  Proof.
    intros [I1 I2 I3 I4 I5 I6] Em Et En. split; try assumption; [congruence| |intros v Hv; rewrite <- Em; apply I6; exact Hv].
    intros v Hv. specialize (I5 v Hv). rewrite <- Em. destruct (r_mocked r v); [|exact I5].
    destruct I5 as (c & x & H1 & H2 & H3 & H4 & H5 & H6 & H7 & H8 & H9 & H10). exists c, x. repeat split; try assumption.
    - intros m. rewrite <- Et. apply H7.
    - apply (H8 m k). rewrite Et. assumption.
    - apply (H8 m k). rewrite Et. assumption.
  Qed.

  (* ---- a call *)
  Lemma call_spec s r v m : Inv s r -> v < nvars -> call s v m = ref_out r (OCall v m).
  Proof.
    intros I Hv. assert (B := i_var s r I v Hv). cbn [ref_out]. unfold call. destruct (r_mocked r v).
    - destruct B as (c & x & H1 & H2 & H3 & H4 & H5 & H6 & H7 & H8 & H9 & H10). rewrite H1, H2, H7.
      destruct (r_tbl r v m) as [k|] eqn:E; [|reflexivity]. destruct (H8 m k E) as [_ Hl]. rewrite Hl. reflexivity.
    - destruct B as [H1 _]. rewrite H1. destruct (init0 v) as [|q|c] eqn:E; try reflexivity. exfalso. exact (init_real v c E).
  Qed.

  (* ---- dropping a builder *)
  Lemma inv_drop s r b : Inv s r ->
    Inv {| vars := vars s; ctxs := ctxs s; cache := cache s; mimp := mimp s; alive := upd (alive s) b false; live := live s |} r.
  Proof. intros [I1 I2 I3 I4 I5 I6]. split; assumption. Qed.

  (* ---- a collection: whatever a variable dispatches to stays alive *)
  Lemma inv_gc s r : Inv s r -> Inv (gc s) r.
  Proof.
    intros I. assert (I0 := I). destruct I as [I1 I2 I3 I4 I5 I6].
    assert (Hlen : length (live (gc s)) = length (live s)) by (unfold gc; cbn; rewrite map_length, seq_length; reflexivity).
    split; try assumption; [rewrite Hlen; exact I2|].
    intros v Hv. specialize (I5 v Hv). destruct (r_mocked r v); [|exact I5].
    destruct I5 as (c & x & H1 & H2 & H3 & H4 & H5 & H6 & H7 & H8 & H9 & H10). exists c, x. repeat split; try assumption.
    - rewrite Hlen. exact (proj1 (H8 m k H)).
    - destruct (H8 m k H) as [Hk Hl].
      assert (Hs : nth m (c_slots x) None = Some k) by (rewrite H7; exact H).
      assert (Hreach : closure_reachable s k = true).
      { unfold closure_reachable. apply orb_true_iff. right. apply existsb_exists. exists c. split.
        - apply in_seq. split; [lia|]. cbn. apply nth_error_Some. unfold get_ctx in H2. congruence.
        - apply andb_true_iff. split.
          + apply ctx_reachable_of_direct. unfold ctx_reachable_direct. apply orb_true_iff. left. apply existsb_exists. exists (WFake c). split.
            * rewrite <- H1. apply nth_In. rewrite I1. exact Hv.
            * apply Nat.eqb_refl.
          + rewrite H2. apply existsb_eqb_in. apply (H6 m k Hs). }
      unfold gc. cbn [live]. rewrite (nth_map_seq (fun k0 => nth k0 (live s) false && closure_reachable s k0)) by exact Hk.
      rewrite Hl, Hreach. reflexivity.
  Qed.

  (* ---- installing a replacement on the context the cache holds for the variable *)
  Lemma inv_install s r b v m c x :
    Inv s r -> v < nvars -> m < nmeth v ->
    get_ctx s c = Some x -> c_var x = v -> cache_lookup (cache s) (owner v) (key_of v) = Some c ->
    (r_mocked r v = false -> c_canceled x = true) ->
    Inv (mock_on s b c m) (ref_mock r v m).
  Proof.
    intros I Hv Hm Hx Hxv Hcl Hdead. assert (I0 := I). destruct I as [I1 I2 I3 I4 I5 I6].
    assert (Hc : c < length (ctxs s)) by (apply nth_error_Some; unfold get_ctx in Hx; congruence).
    assert (Hvl : v < length (vars s)) by (rewrite I1; exact Hv).
    destruct (I4 c x Hx) as (_ & Hin & Hslen). rewrite Hxv in Hin, Hslen.
    assert (Bv := I5 v Hv).
    (* what we know of x, by cases *)
    assert (Hx_facts : (r_mocked r v = true /\ c_canceled x = false /\ c_backup x = Some (init0 v) /\ slots_retained x /\
                        (forall m', nth m' (c_slots x) None = r_tbl r v m') /\ get_var s v = WFake c) \/
                       (r_mocked r v = false /\ c_canceled x = true /\ get_var s v = init0 v)).
    { destruct (r_mocked r v) eqn:Em.
      - left. destruct Bv as (c0 & x0 & H1 & H2 & H3 & H4 & H5 & H6 & H7 & H8 & H9 & H10).
        assert (c0 = c) by congruence. subst c0. assert (x0 = x) by congruence. subst x0. tauto.
      - right. destruct Bv as [H1 _]. split; [reflexivity|]. split; [apply Hdead; reflexivity|exact H1]. }
    unfold mock_on. rewrite Hx. cbn zeta. rewrite Hxv.
    set (k := length (live s)).
    set (x' := {| c_var := v;
                  c_backup := if c_canceled x then Some (get_var s v) else match c_backup x with Some w => Some w | None => Some (get_var s v) end;
                  c_canceled := false;
                  c_slots := upd (if c_canceled x then repeat None (length (c_slots x)) else c_slots x) m (Some k);
                  c_retained := k :: c_retained x |}).
    set (s' := {| vars := upd (vars s) v (WFake c); ctxs := upd (ctxs s) c x'; cache := cache s;
                  mimp := set_mimp (mimp s) b c m k; alive := alive s; live := live s ++ [true] |}).
    assert (Hget : forall c0, get_ctx s' c0 = if Nat.eqb c0 c then Some x' else get_ctx s c0).
    { intros c0. unfold get_ctx. cbn [s' ctxs]. destruct (Nat.eqb c0 c) eqn:E.
      - apply Nat.eqb_eq in E. subst c0. apply nth_error_upd_same. exact Hc.
      - apply Nat.eqb_neq in E. apply nth_error_upd_other. congruence. }
    assert (Hgv : forall w, get_var s' w = if Nat.eqb w v then WFake c else get_var s w).
    { intros w. unfold get_var. cbn [s' vars]. destruct (Nat.eqb w v) eqn:E.
      - apply Nat.eqb_eq in E. subst w. apply nth_upd_same. exact Hvl.
      - apply Nat.eqb_neq in E. apply nth_upd_other. congruence. }
    assert (Hlv : forall j, j < length (live s) -> nth j (live s') false = nth j (live s) false)
      by (intros j Hj; cbn [s' live]; apply app_nth1; exact Hj).
    assert (Hlk : nth k (live s') false = true) by (cbn [s' live]; unfold k; rewrite app_nth2 by lia; rewrite Nat.sub_diag; reflexivity).
    assert (Hll : length (live s') = S (length (live s))) by (cbn [s' live]; rewrite app_length; cbn; lia).
    assert (Hsl : length (c_slots x') = nmeth v).
    { cbn [x' c_slots]. rewrite upd_length. destruct (c_canceled x); [rewrite repeat_length|]; exact Hslen. }
    assert (Hslot : forall m', nth m' (c_slots x') None = r_tbl (ref_mock r v m) v m').
    { intros m'. cbn [x' c_slots ref_mock r_tbl]. rewrite Nat.eqb_refl. rewrite I2. fold k.
      destruct (Nat.eqb m' m) eqn:E.
      - apply Nat.eqb_eq in E. subst m'. apply nth_upd_same. destruct (c_canceled x); [rewrite repeat_length|]; rewrite Hslen; exact Hm.
      - apply Nat.eqb_neq in E. rewrite nth_upd_other by congruence.
        destruct Hx_facts as [(Em & Ec & _ & _ & Ht & _)|(Em & Ec & _)]; rewrite Em, Ec; [apply Ht|apply nth_repeat]. }
    split.
    - cbn [s' vars]. rewrite upd_length. exact I1.
    - cbn [ref_mock r_n]. rewrite Hll, I2. reflexivity.
    - intros b0 k0 c0 Hin0. cbn [s' cache] in Hin0. destruct (I3 b0 k0 c0 Hin0) as (x0 & Hx0 & Hk0 & Hb0). rewrite Hget.
      destruct (Nat.eqb c0 c) eqn:E; [|exists x0; tauto]. apply Nat.eqb_eq in E. subst c0.
      assert (x0 = x) by congruence. subst x0. exists x'. cbn [x' c_var]. rewrite Hxv in Hk0, Hb0. tauto.
    - intros c0 x0. rewrite Hget. destruct (Nat.eqb c0 c) eqn:E.
      + apply Nat.eqb_eq in E. subst c0. intros [= <-]. cbn [c_var x']. split; [exact Hv|]. split; [exact Hin|exact Hsl].
      + intros H0. exact (I4 c0 x0 H0).
    - intros w Hw. cbn [ref_mock r_mocked]. destruct (Nat.eqb w v) eqn:Ewv.
      + apply Nat.eqb_eq in Ewv. subst w. exists c, x'. rewrite Hgv, Hget, !Nat.eqb_refl.
        split; [reflexivity|]. split; [reflexivity|]. split; [reflexivity|]. split; [reflexivity|]. split.
        { cbn [x' c_backup]. destruct Hx_facts as [(_ & Ec & Eb & _)|(_ & Ec & Eg)]; rewrite Ec; [rewrite Eb; reflexivity|rewrite Eg; reflexivity]. }
        split.
        { intros m' k' Hs. rewrite Hslot in Hs. cbn [ref_mock r_tbl] in Hs. rewrite Nat.eqb_refl in Hs. cbn [x' c_retained].
          destruct (Nat.eqb m' m); [injection Hs as <-; left; rewrite I2; reflexivity|].
          destruct Hx_facts as [(Em & _ & _ & Hret & Ht & _)|(Em & _)]; rewrite Em in Hs; [|discriminate].
          right. apply (Hret m' k'). rewrite Ht. exact Hs. }
        split; [exact Hslot|]. split.
        { intros m' k' Hs. cbn [ref_mock r_tbl] in Hs. rewrite Nat.eqb_refl in Hs. rewrite Hll. destruct (Nat.eqb m' m).
          - injection Hs as <-. rewrite I2. fold k. split; [lia|exact Hlk].
          - destruct (r_mocked r v) eqn:Em; [|discriminate]. destruct Bv as (c0 & x0 & _ & _ & _ & _ & _ & _ & _ & H8 & _).
            destruct (H8 m' k' Hs) as [Hk' Hl']. split; [lia|]. rewrite Hlv by exact Hk'. exact Hl'. }
        split; [exact Hcl|].
        intros c' x0 Hne. rewrite Hget. apply Nat.eqb_neq in Hne. rewrite Hne. intros H0 Hv0.
        destruct (r_mocked r v) eqn:Em.
        * destruct Bv as (c0 & x1 & _ & _ & _ & _ & _ & _ & _ & _ & H9 & H10). assert (c0 = c) by congruence. subst c0.
          apply (H10 c' x0); [apply Nat.eqb_neq; exact Hne|exact H0|exact Hv0].
        * destruct Bv as [_ Hall]. exact (Hall c' x0 H0 Hv0).
      + apply Nat.eqb_neq in Ewv. specialize (I5 w Hw). destruct (r_mocked r w).
        * destruct I5 as (cw & xw & H1 & H2 & H3 & H4 & H5 & H6 & H7 & H8 & H9 & H10).
          assert (Hcw : cw <> c) by (intros ->; assert (xw = x) by congruence; subst xw; congruence).
          exists cw, xw. rewrite Hgv, Hget. apply Nat.eqb_neq in Ewv. rewrite Ewv. apply Nat.eqb_neq in Hcw. rewrite Hcw.
          repeat split; try assumption.
          -- intros m'. cbn [ref_mock r_tbl]. rewrite Ewv. apply H7.
          -- cbn [ref_mock r_tbl] in H. rewrite Ewv in H. rewrite Hll. destruct (H8 m0 k0 H). lia.
          -- cbn [ref_mock r_tbl] in H. rewrite Ewv in H. destruct (H8 m0 k0 H) as [Hk0 Hl0]. rewrite Hlv by exact Hk0. exact Hl0.
          -- intros c' x0 Hne. rewrite Hget. destruct (Nat.eqb c' c) eqn:E.
             ++ intros [= <-]. cbn [x' c_var]. intros ->. apply Nat.eqb_neq in Ewv. congruence.
             ++ intros H0 Hv0. apply (H10 c' x0 Hne H0 Hv0).
        * destruct I5 as [H1 Hall]. split.
          -- rewrite Hgv. apply Nat.eqb_neq in Ewv. rewrite Ewv. exact H1.
          -- intros c' x0. rewrite Hget. destruct (Nat.eqb c' c) eqn:E.
             ++ intros [= <-]. cbn [x' c_var]. intros ->. congruence.
             ++ intros H0 Hv0. exact (Hall c' x0 H0 Hv0).
    - intros w Hw. cbn [ref_mock r_mocked]. destruct (Nat.eqb w v) eqn:E; [apply Nat.eqb_eq in E; lia|apply I6; exact Hw].
  Qed.

  (* ---- a fresh context: installing on it is the same as installing on a cancelled one *)
  Definition dead_ctx (v : nat) : ctx :=
    {| c_var := v; c_backup := None; c_canceled := true; c_slots := repeat None (nmeth v); c_retained := [] |}.

  Definition with_new (s : st) (b v : nat) (x : ctx) : st :=
    {| vars := vars s; ctxs := ctxs s ++ [x]; cache := (b, key_of v, length (ctxs s)) :: cache s;
       mimp := mimp s; alive := alive s; live := live s |}.

  Lemma upd_app_last {A} (l : list A) (a x : A) : upd (l ++ [a]) (length l) x = l ++ [x].
  Proof. induction l as [|h t IH]; cbn; [reflexivity|]. rewrite IH. reflexivity. Qed.

  Lemma mock_on_new_eq s b v m :
    mock_on (with_new s b v (fresh_ctx nmeth v)) b (length (ctxs s)) m = mock_on (with_new s b v (dead_ctx v)) b (length (ctxs s)) m.
  Proof.
    unfold mock_on, get_ctx, with_new. cbn [ctxs]. rewrite !nth_error_app2 by lia. rewrite Nat.sub_diag. cbn [nth_error].
    cbn [fresh_ctx dead_ctx c_var c_backup c_canceled c_slots c_retained vars live mimp alive cache ctxs].
    rewrite !upd_app_last. rewrite repeat_length. reflexivity.
  Qed.

  Lemma inv_with_dead s r b v : Inv s r -> v < nvars -> b = owner v -> r_mocked r v = false -> Inv (with_new s b v (dead_ctx v)) r.
  Proof.
    intros I Hv Hb Hun. destruct I as [I1 I2 I3 I4 I5 I6]. set (s1 := with_new s b v (dead_ctx v)).
    assert (Hget : forall c0, get_ctx s1 c0 = if Nat.eqb c0 (length (ctxs s)) then Some (dead_ctx v) else get_ctx s c0).
    { intros c0. unfold get_ctx. cbn [s1 with_new ctxs]. destruct (Nat.eqb c0 (length (ctxs s))) eqn:E.
      - apply Nat.eqb_eq in E. subst c0. rewrite nth_error_app2 by lia. rewrite Nat.sub_diag. reflexivity.
      - apply Nat.eqb_neq in E. destruct (lt_dec c0 (length (ctxs s))) as [L|L].
        + apply nth_error_app1. exact L.
        + rewrite (proj2 (nth_error_None (ctxs s) c0)) by lia. apply nth_error_None. rewrite app_length. cbn. lia. }
    assert (Hold : forall c0 x0, get_ctx s c0 = Some x0 -> Nat.eqb c0 (length (ctxs s)) = false).
    { intros c0 x0 H0. apply Nat.eqb_neq. assert (c0 < length (ctxs s)) by (apply nth_error_Some; unfold get_ctx in H0; congruence). lia. }
    split; try assumption.
    - intros b0 k0 c0 [E|Hin].
      + injection E as <- <- <-. rewrite Hget, Nat.eqb_refl. exists (dead_ctx v). cbn. tauto.
      + destruct (I3 b0 k0 c0 Hin) as (x0 & Hx0 & Hk & Hbb). exists x0. rewrite Hget, (Hold c0 x0 Hx0). tauto.
    - intros c0 x0. rewrite Hget. destruct (Nat.eqb c0 (length (ctxs s))) eqn:E.
      + apply Nat.eqb_eq in E. subst c0. intros [= <-]. cbn [dead_ctx c_var c_slots]. split; [exact Hv|]. split; [left; rewrite Hb; reflexivity|apply repeat_length].
      + intros H0. destruct (I4 c0 x0 H0) as (A1 & A2 & A3). split; [exact A1|]. split; [right; exact A2|exact A3].
    - intros w Hw. specialize (I5 w Hw). destruct (r_mocked r w) eqn:Ew.
      + assert (Hwv : w <> v) by (intros ->; congruence).
        destruct I5 as (cw & xw & H1 & H2 & H3 & H4 & H5 & H6 & H7 & H8 & H9 & H10). exists cw, xw.
        rewrite Hget, (Hold cw xw H2). repeat split; try assumption.
        * exact (proj1 (H8 m k H)).
        * exact (proj2 (H8 m k H)).
        * cbn [s1 with_new cache cache_lookup].
          assert (E : Nat.eqb (key_of w) (key_of v) = false) by (apply Nat.eqb_neq; intros E; apply Hwv; apply key_inj; exact E).
          rewrite E, andb_false_r. exact H9.
        * intros c' x0 Hne. rewrite Hget. destruct (Nat.eqb c' (length (ctxs s))); [intros [= <-]; reflexivity|]. apply H10. exact Hne.
      + destruct I5 as [H1 Hall]. split; [exact H1|]. intros c0 x0. rewrite Hget. destruct (Nat.eqb c0 (length (ctxs s))); [intros [= <-]; reflexivity|apply Hall].
  Qed.

  Lemma cache_head_lookup s b v x : b = owner v -> cache_lookup (cache (with_new s b v x)) (owner v) (key_of v) = Some (length (ctxs s)).
  Proof. intros ->. cbn. rewrite !Nat.eqb_refl. reflexivity. Qed.

  (* ---- mock through a fresh handle and through a kept handle *)
  Lemma inv_mock_fresh s r b v m : Inv s r -> v < nvars -> m < nmeth v -> b = owner v -> r_mocked r v = false ->
    Inv (mock_on (with_new s b v (fresh_ctx nmeth v)) b (length (ctxs s)) m) (ref_mock r v m).
  Proof.
    intros I Hv Hm Hb Hun. rewrite mock_on_new_eq. assert (I1 := inv_with_dead s r b v I Hv Hb Hun).
    apply (inv_install _ r b v m (length (ctxs s)) (dead_ctx v) I1 Hv Hm); [|reflexivity|apply cache_head_lookup; exact Hb|reflexivity].
    unfold get_ctx, with_new. cbn [ctxs]. rewrite nth_error_app2 by lia. rewrite Nat.sub_diag. reflexivity.
  Qed.

  Lemma lookup_cases s r b v : Inv s r -> v < nvars -> b = owner v ->
    (r_mocked r v = true /\ exists c x, lookup s b v = (s, c) /\ lookup_kept s b v = (s, c) /\ get_ctx s c = Some x /\ c_var x = v /\
                                         cache_lookup (cache s) (owner v) (key_of v) = Some c) \/
    (r_mocked r v = false /\ lookup s b v = (with_new s b v (fresh_ctx nmeth v), length (ctxs s)) /\
       (lookup_kept s b v = lookup s b v \/
        exists c x, lookup_kept s b v = (s, c) /\ get_ctx s c = Some x /\ c_var x = v /\ c_canceled x = true /\
                    cache_lookup (cache s) (owner v) (key_of v) = Some c)).
  Proof.
    intros I Hv Hb. assert (B := i_var s r I v Hv). unfold IfaceMock.lookup_kept, IfaceMock.lookup. subst b. destruct (r_mocked r v) eqn:Em.
    - left. split; [reflexivity|]. destruct B as (c & x & H1 & H2 & H3 & H4 & H5 & H6 & H7 & H8 & H9 & H10).
      exists c, x. rewrite H9, H2, H4. tauto.
    - right. split; [reflexivity|]. destruct B as [H1 Hall].
      destruct (cache_lookup (cache s) (owner v) (key_of v)) as [c0|] eqn:El.
      + destruct (i_cache s r I _ _ _ (cache_lookup_in _ _ _ _ El)) as (x0 & Hx0 & Hk & _). apply key_inj in Hk.
        rewrite Hx0. rewrite (Hall c0 x0 Hx0 (eq_sym Hk)). split; [reflexivity|]. right. exists c0, x0.
        split; [reflexivity|]. split; [exact Hx0|]. split; [symmetry; exact Hk|]. split; [exact (Hall c0 x0 Hx0 (eq_sym Hk))|reflexivity].
      + split; [reflexivity|]. left. reflexivity.
  Qed.

  Lemma inv_mock s r b v m : Inv s r -> v < nvars -> m < nmeth v -> b = owner v -> Inv (mock s b v m) (ref_mock r v m).
  Proof.
    intros I Hv Hm Hb. unfold IfaceMock.mock. destruct (lookup_cases s r b v I Hv Hb) as [(Em & c & x & Hl & _ & Hx & Hxv & Hc)|(Em & Hl & _)]; rewrite Hl.
    - apply (inv_install s r b v m c x I Hv Hm Hx Hxv Hc). congruence.
    - apply inv_mock_fresh; assumption.
  Qed.

  Lemma inv_mock_kept s r b v m : Inv s r -> v < nvars -> m < nmeth v -> b = owner v -> Inv (mock_kept s b v m) (ref_mock r v m).
  Proof.
    intros I Hv Hm Hb. unfold IfaceMock.mock_kept.
    destruct (lookup_cases s r b v I Hv Hb) as [(Em & c & x & _ & Hl & Hx & Hxv & Hc)|(Em & Hl & [Hk|(c & x & Hk & Hx & Hxv & Hcan & Hc)])].
    - rewrite Hl. apply (inv_install s r b v m c x I Hv Hm Hx Hxv Hc). congruence.
    - rewrite Hk, Hl. apply inv_mock_fresh; assumption.
    - rewrite Hk. apply (inv_install s r b v m c x I Hv Hm Hx Hxv Hc). intros _. exact Hcan.
  Qed.

  (* ---- cancelling the live context of a mocked variable *)
  Definition r_unmock (r : rst) (v : nat) : rst :=
    {| r_mocked := fun w => if Nat.eqb w v then false else r_mocked r w; r_tbl := r_tbl r; r_n := r_n r |}.

  Lemma inv_cancel s r c x : Inv s r -> get_ctx s c = Some x -> c_canceled x = false -> Inv (cancel_ctx s c) (r_unmock r (c_var x)).
  Proof.
    intros I Hx Hlive. assert (I0 := I). destruct I as [I1 I2 I3 I4 I5 I6]. destruct (I4 c x Hx) as (Hv & Hin & Hsl).
    set (v := c_var x) in *. assert (Bv := I5 v Hv).
    assert (Em : r_mocked r v = true).
    { destruct (r_mocked r v) eqn:E; [reflexivity|]. destruct Bv as [_ Hall]. rewrite (Hall c x Hx eq_refl) in Hlive. discriminate. }
    rewrite Em in Bv. destruct Bv as (c0 & x0 & H1 & H2 & H3 & H4 & H5 & H6 & H7 & H8 & H9 & H10).
    assert (c0 = c). { destruct (Nat.eq_dec c c0) as [E|E]; [symmetry; exact E|]. rewrite (H10 c x E Hx eq_refl) in Hlive. discriminate. }
    subst c0. assert (x0 = x) by congruence. subst x0.
    assert (Hc : c < length (ctxs s)) by (apply nth_error_Some; unfold get_ctx in Hx; congruence).
    assert (Hvl : v < length (vars s)) by (rewrite I1; exact Hv).
    unfold cancel_ctx. rewrite Hx, H5. fold v.
    set (xc := {| c_var := v; c_backup := Some (init0 v); c_canceled := true; c_slots := c_slots x; c_retained := c_retained x |}).
    set (s' := {| vars := upd (vars s) v (init0 v); ctxs := upd (ctxs s) c xc; cache := cache s; mimp := mimp s; alive := alive s; live := live s |}).
    assert (Hget : forall c1, get_ctx s' c1 = if Nat.eqb c1 c then Some xc else get_ctx s c1).
    { intros c1. unfold get_ctx. cbn [s' ctxs]. destruct (Nat.eqb c1 c) eqn:E.
      - apply Nat.eqb_eq in E. subst c1. apply nth_error_upd_same. exact Hc.
      - apply Nat.eqb_neq in E. apply nth_error_upd_other. congruence. }
    assert (Hgv : forall w, get_var s' w = if Nat.eqb w v then init0 v else get_var s w).
    { intros w. unfold get_var. cbn [s' vars]. destruct (Nat.eqb w v) eqn:E.
      - apply Nat.eqb_eq in E. subst w. apply nth_upd_same. exact Hvl.
      - apply Nat.eqb_neq in E. apply nth_upd_other. congruence. }
    split.
    - cbn [s' vars]. rewrite upd_length. exact I1.
    - exact I2.
    - intros b0 k0 c1 Hin0. destruct (I3 b0 k0 c1 Hin0) as (x1 & Hx1 & Hk & Hb). rewrite Hget. destruct (Nat.eqb c1 c) eqn:E; [|exists x1; tauto].
      apply Nat.eqb_eq in E. subst c1. assert (x1 = x) by congruence. subst x1. exists xc. cbn [xc c_var]. tauto.
    - intros c1 x1. rewrite Hget. destruct (Nat.eqb c1 c) eqn:E.
      + intros [= <-]. cbn [xc c_var c_slots]. apply Nat.eqb_eq in E. subst c1. tauto.
      + apply I4.
    - intros w Hw. cbn [r_unmock r_mocked]. destruct (Nat.eqb w v) eqn:Ewv.
      + apply Nat.eqb_eq in Ewv. subst w. split; [rewrite Hgv, Nat.eqb_refl; reflexivity|].
        intros c1 x1. rewrite Hget. destruct (Nat.eqb c1 c) eqn:E; [intros [= <-]; reflexivity|].
        intros Hx1 Hv1. apply (H10 c1 x1); [apply Nat.eqb_neq; exact E|exact Hx1|exact Hv1].
      + specialize (I5 w Hw). apply Nat.eqb_neq in Ewv. destruct (r_mocked r w).
        * destruct I5 as (cw & xw & G1 & G2 & G3 & G4 & G5 & G6 & G7 & G8 & G9 & G10).
          assert (Hcw : Nat.eqb cw c = false) by (apply Nat.eqb_neq; intros ->; assert (xw = x) by congruence; subst xw; unfold v in Ewv; congruence).
          exists cw, xw. rewrite Hgv, Hget, Hcw. apply Nat.eqb_neq in Ewv. rewrite Ewv. repeat split; try assumption.
          -- exact (proj1 (G8 m k H)).
          -- exact (proj2 (G8 m k H)).
          -- intros c1 x1 Hne. rewrite Hget. destruct (Nat.eqb c1 c); [intros [= <-]; reflexivity|]. apply G10. exact Hne.
        * destruct I5 as [G1 Gall]. split.
          -- rewrite Hgv. apply Nat.eqb_neq in Ewv. rewrite Ewv. exact G1.
          -- intros c1 x1. rewrite Hget. destruct (Nat.eqb c1 c); [intros [= <-]; reflexivity|apply Gall].
    - intros w Hw. cbn [r_unmock r_mocked]. destruct (Nat.eqb w v); [reflexivity|apply I6; exact Hw].
  Qed.

  Lemma cancel_keeps_cache s c : cache (cancel_ctx s c) = cache s.
  Proof. unfold cancel_ctx. destruct (get_ctx s c) as [x|]; [destruct (c_backup x)|]; reflexivity. Qed.

  (* ---- Reset: every live context of the builder is cancelled *)
  Definition reset_f (b : nat) (acc : st) (e : nat * nat * nat) : st :=
    let '(b', _, c) := e in
    if Nat.eqb b b' then match get_ctx acc c with
                         | Some x => if c_canceled x then acc else cancel_ctx acc c
                         | None => acc end
    else acc.

  Lemma reset_fold b (l : list (nat * nat * nat)) : forall acc r,
    Inv acc r -> (forall e, In e l -> In e (cache acc)) ->
    exists r', Inv (fold_left (reset_f b) l acc) r' /\ cache (fold_left (reset_f b) l acc) = cache acc /\
               (forall w m, r_tbl r' w m = r_tbl r w m) /\ r_n r' = r_n r /\
               (forall w, r_mocked r' w = true -> r_mocked r w = true) /\
               (forall w, owner w <> b -> r_mocked r' w = r_mocked r w) /\
               (forall w c, w < nvars -> r_mocked r' w = true -> cache_lookup (cache acc) (owner w) (key_of w) = Some c ->
                            ~ In (b, key_of w, c) l).
  Proof.
    induction l as [|[[b' k] c] l IH]; intros acc r I Hl; cbn [fold_left].
    - exists r. split; [exact I|]. split; [reflexivity|]. split; [reflexivity|]. split; [reflexivity|]. split; [tauto|]. split; [reflexivity|].
      intros w c _ _ _ H; exact H.
    - assert (Hsame : forall acc1, acc1 = acc ->
                exists r', Inv (fold_left (reset_f b) l acc1) r' /\ cache (fold_left (reset_f b) l acc1) = cache acc /\
                  (forall w m, r_tbl r' w m = r_tbl r w m) /\ r_n r' = r_n r /\
                  (forall w, r_mocked r' w = true -> r_mocked r w = true) /\ (forall w, owner w <> b -> r_mocked r' w = r_mocked r w) /\
                  (forall w c0, w < nvars -> r_mocked r' w = true -> cache_lookup (cache acc) (owner w) (key_of w) = Some c0 -> ~ In (b, key_of w, c0) l)).
      { intros acc1 ->. exact (IH acc r I (fun e H => Hl e (or_intror H))). }
      remember (reset_f b acc (b', k, c)) as acc1 eqn:Ea. unfold reset_f in Ea. destruct (Nat.eqb b b') eqn:Eb.
      2:{ destruct (Hsame acc1 Ea) as (r' & A1 & A2 & A3 & A4 & A5 & A6 & A7).
          refine (ex_intro _ r' (conj A1 (conj A2 (conj A3 (conj A4 (conj A5 (conj A6 _))))))).
          intros w c0 Hw Hm Hc [E|Hin]; [injection E as E1 _ _; apply Nat.eqb_neq in Eb; congruence|exact (A7 w c0 Hw Hm Hc Hin)]. }
      apply Nat.eqb_eq in Eb. subst b'.
      assert (Hskip : forall acc2, acc2 = acc -> (get_ctx acc c = None \/ exists x, get_ctx acc c = Some x /\ c_canceled x = true) ->
                exists r', Inv (fold_left (reset_f b) l acc2) r' /\ cache (fold_left (reset_f b) l acc2) = cache acc /\
                  (forall w m, r_tbl r' w m = r_tbl r w m) /\ r_n r' = r_n r /\
                  (forall w, r_mocked r' w = true -> r_mocked r w = true) /\ (forall w, owner w <> b -> r_mocked r' w = r_mocked r w) /\
                  (forall w c0, w < nvars -> r_mocked r' w = true -> cache_lookup (cache acc) (owner w) (key_of w) = Some c0 -> ~ In (b, key_of w, c0) ((b, k, c) :: l))).
      { intros acc2 -> Hdead. destruct (Hsame acc eq_refl) as (r' & A1 & A2 & A3 & A4 & A5 & A6 & A7).
        refine (ex_intro _ r' (conj A1 (conj A2 (conj A3 (conj A4 (conj A5 (conj A6 _))))))).
        intros w c0 Hw Hm Hc [E|Hin]; [|exact (A7 w c0 Hw Hm Hc Hin)]. injection E as _ <-.
        assert (B := i_var acc r I w Hw). rewrite (A5 w Hm) in B. destruct B as (c1 & x1 & _ & G2 & _ & G4 & _ & _ & _ & _ & G9 & _).
        assert (c1 = c) by congruence. subst c1. destruct Hdead as [Hn|(x & Hx & Hcn)]; congruence. }
      destruct (get_ctx acc c) as [x|] eqn:Hx; [|apply (Hskip acc1 Ea); left; reflexivity].
      destruct (c_canceled x) eqn:Hcn; [apply (Hskip acc1 Ea); right; exists x; tauto|]. subst acc1.
      assert (I' := inv_cancel acc r c x I Hx Hcn).
      assert (Hl' : forall e, In e l -> In e (cache (cancel_ctx acc c))) by (intros e H; rewrite cancel_keeps_cache; exact (Hl e (or_intror H))).
      destruct (IH (cancel_ctx acc c) _ I' Hl') as (r' & A1 & A2 & A3 & A4 & A5 & A6 & A7). rewrite cancel_keeps_cache in A2, A7.
      destruct (i_cache acc r I b k c (Hl _ (or_introl eq_refl))) as (x0 & Hx0 & Hk & Hb).
      refine (ex_intro _ r' (conj A1 (conj A2 (conj A3 (conj A4 (conj _ (conj _ _))))))).
      + intros w Hm. specialize (A5 w Hm). cbn [r_unmock r_mocked] in A5. destruct (Nat.eqb w (c_var x)); [discriminate|exact A5].
      + intros w Hne. rewrite (A6 w Hne). cbn [r_unmock r_mocked]. destruct (Nat.eqb w (c_var x)) eqn:E; [|reflexivity].
        apply Nat.eqb_eq in E. subst w. exfalso. apply Hne. assert (x0 = x) by congruence. subst x0. symmetry. exact Hb.
      + intros w c0 Hw Hm Hc [E|Hin]; [|exact (A7 w c0 Hw Hm Hc Hin)]. injection E as Ek <-.
        assert (x0 = x) by congruence. subst x0. rewrite Hk in Ek. apply key_inj in Ek. subst w.
        specialize (A5 (c_var x) Hm). cbn [r_unmock r_mocked] in A5. rewrite Nat.eqb_refl in A5. discriminate.
  Qed.

  Lemma reset_is_fold s b : reset s b = fold_left (reset_f b) (rev (cache s)) s.
  Proof. unfold reset, reset_f. reflexivity. Qed.

  Lemma inv_reset s r b : Inv s r -> Inv (reset s b) (ref_step r (OReset b)).
  Proof.
    intros I. rewrite reset_is_fold.
    destruct (reset_fold b (rev (cache s)) s r I (fun e H => proj2 (in_rev (cache s) e) H)) as (r' & A1 & A2 & A3 & A4 & A5 & A6 & A7).
    apply (inv_ext _ r' _ A1); [|exact A3|exact A4].
    intros w. cbn [ref_step r_mocked]. destruct (Nat.eqb (owner w) b) eqn:E.
    - apply Nat.eqb_eq in E. destruct (r_mocked r' w) eqn:Em; [|reflexivity]. exfalso.
      destruct (le_lt_dec nvars w) as [Hge|Hw]; [rewrite (i_dom _ _ A1 w Hge) in Em; discriminate|].
      assert (B := i_var _ _ I w Hw). rewrite (A5 w Em) in B. destruct B as (c & x & _ & _ & _ & _ & _ & _ & _ & _ & G9 & _).
      apply (A7 w c Hw Em G9). apply in_rev. rewrite rev_involutive. rewrite <- E. apply cache_lookup_in. exact G9.
    - apply Nat.eqb_neq in E. apply A6. exact E.
  Qed.

  (* ---- one step *)
  Lemma inv_step s r o : Inv s r -> ok o -> Inv (fst (step s o)) (ref_step r o) /\ snd (step s o) = ref_out r o.
  Proof.
    intros I Hok. destruct o as [b v m pf|b v m|v m|b|b|]; cbn [step fst snd ref_step ref_out ok] in *.
    - destruct Hok as (Hb & Hv & Hm). split; [apply inv_mock; assumption|reflexivity].
    - destruct Hok as (Hb & Hv & Hm). split; [apply inv_mock_kept; assumption|reflexivity].
    - split; [exact I|apply call_spec; assumption].
    - split; [apply inv_reset; exact I|reflexivity].
    - split; [apply inv_drop; exact I|reflexivity].
    - split; [apply inv_gc; exact I|reflexivity].
  Qed.

  Lemma inv_init ws nb : length ws = nvars -> (forall v, v < nvars -> nth v ws WNil = init0 v) -> Inv (init ws nb) rinit.
  Proof.
    intros Hl Hi. split; cbn; try reflexivity; try tauto.
    - intros c x. unfold get_ctx. cbn. destruct c; discriminate.
    - intros v Hv. split; [apply Hi; exact Hv|]. intros c x. unfold get_ctx. cbn. destruct c; discriminate.
  Qed.

  (* THE WHOLE-HISTORY THEOREM: the outcomes of the model on any disciplined history are those of the reference *)
  Theorem run_refines : forall ops s r, Inv s r -> Forall ok ops -> snd (run s ops) = ref_run r ops.
  Proof.
    induction ops as [|o ops IH]; intros s r I Hok; [reflexivity|]. cbn [IfaceMock.run ref_run].
    inversion Hok as [|o' ops' Ho Hops]; subst. destruct (inv_step s r o I Ho) as [I' Hout].
    destruct (step s o) as [s1 out] eqn:Es. cbn [fst snd] in I', Hout. specialize (IH s1 (ref_step r o) I' Hops).
    destruct (run s1 ops) as [s2 outs] eqn:Er. cbn [snd] in *. rewrite Hout, IH. reflexivity.
  Qed.

  Corollary history_refines ws nb ops :
    length ws = nvars -> (forall v, v < nvars -> nth v ws WNil = init0 v) -> Forall ok ops ->
    snd (run (init ws nb) ops) = ref_run rinit ops.
  Proof. intros Hl Hi Hok. apply run_refines; [apply inv_init; assumption|exact Hok]. Qed.

  (* consequences read off the reference: a call never crashes, and is never answered by a collected closure *)
  Lemma ref_out_no_crash r o : ok o -> ref_out r o <> OCrash.
  Proof.
    destruct o as [b v m pf|b v m|v m|b|b|]; cbn [ref_out]; try discriminate. intros _.
    destruct (r_mocked r v); [destruct (r_tbl r v m); discriminate|]. destruct (init0 v) as [|q|c] eqn:E; try discriminate.
    exfalso. exact (init_real v c E).
  Qed.

  Corollary never_crashes ops : forall r, Forall ok ops -> ~ In OCrash (ref_run r ops).
  Proof.
    induction ops as [|o ops IH]; intros r Hok; cbn [ref_run]; [intros []|]. inversion Hok as [|o' ops' Ho Hops]; subst.
    intros [E|Hin]; [exact (ref_out_no_crash r o Ho E)|exact (IH _ Hops Hin)].
  Qed.
End Hist.
