(* C07 -- proofs about Model/IfaceMock.v *)
From Coq Require Import List Arith Bool Lia.
From Goom Require Import Model.IfaceMock.
Import ListNotations.

Lemma nth_upd_same {A} (l : list A) i x d : i < length l -> nth i (upd l i x) d = x.
Proof. revert i; induction l as [|h t IH]; intros [|i] H; simpl in *; try lia; [reflexivity|apply IH; lia]. Qed.

Lemma nth_upd_other {A} (l : list A) i j x d : i <> j -> nth j (upd l i x) d = nth j l d.
Proof. revert i j; induction l as [|h t IH]; intros [|i] [|j] H; simpl; try reflexivity; try lia. apply IH. lia. Qed.

Lemma nth_error_upd_same {A} (l : list A) i x : i < length l -> nth_error (upd l i x) i = Some x.
Proof. revert i; induction l as [|h t IH]; intros [|i] H; simpl in *; try lia; [reflexivity|apply IH; lia]. Qed.

Lemma nth_error_upd_other {A} (l : list A) i j x : i <> j -> nth_error (upd l i x) j = nth_error l j.
Proof. revert i j; induction l as [|h t IH]; intros [|i] [|j] H; simpl; try reflexivity; try lia. apply IH. lia. Qed.

Lemma upd_length {A} (l : list A) i x : length (upd l i x) = length l.
Proof. revert i; induction l as [|h t IH]; intros [|i]; simpl; auto. Qed.

Lemma nth_map_seq (f : nat -> bool) n k : k < n -> nth k (map f (seq 0 n)) false = f k.
Proof.
  intros H. rewrite nth_indep with (d' := f 0) by (rewrite map_length, seq_length; exact H).
  rewrite map_nth. rewrite seq_nth by exact H. reflexivity.
Qed.

Lemma ctx_reachable_of_direct s c : ctx_reachable_direct s c = true -> ctx_reachable s c = true.
Proof. intros H. unfold ctx_reachable. destruct (length (ctxs s)); cbn [ctx_reach]; rewrite H; reflexivity. Qed.

Section Facts.
  Variable nmeth : nat -> nat.
  Variable key_of : nat -> nat.
  Hypothesis key_inj : forall v w, key_of v = key_of w -> v = w.   (* the builder's key distinguishes variables *)

  Local Notation lookup := (lookup nmeth key_of).
  Local Notation mock := (mock nmeth key_of).
  Local Notation reset := (reset).
  Local Notation gc := (gc).

  (* well-formed states: cache entries point at contexts created for a variable with that key; context ids are in range;
     contexts only ever write to variables that exist *)
  Definition wf (s : st) : Prop :=
    (forall b k c, In (b, k, c) (cache s) -> exists x, get_ctx s c = Some x /\ key_of (c_var x) = k) /\
    (forall c x, get_ctx s c = Some x -> c_var x < length (vars s)).

  Lemma cache_lookup_in l b k c : cache_lookup l b k = Some c -> In (b, k, c) l.
  Proof.
    induction l as [|[[b' k'] c'] r IH]; simpl; [discriminate|].
    destruct (Nat.eqb b b' && Nat.eqb k k') eqn:E.
    - intros [= <-]. apply andb_true_iff in E. destruct E as [E1 E2]. apply Nat.eqb_eq in E1, E2. subst. left. reflexivity.
    - intros H. right. apply IH. exact H.
  Qed.

  (* the looked-up context belongs to the named variable, is live (not cancelled), and nothing else changed *)
  Lemma lookup_spec s b v s1 c : wf s -> v < length (vars s) -> lookup s b v = (s1, c) ->
    vars s1 = vars s /\ live s1 = live s /\
    exists x, get_ctx s1 c = Some x /\ c_var x = v /\ c_canceled x = false /\
              (forall c', c' <> c -> get_ctx s1 c' = get_ctx s c' \/ get_ctx s c' = None) /\
              (get_ctx s c = Some x \/ (get_ctx s c = None /\ x = fresh_ctx nmeth v)).
  Proof.
    intros (Hc & Hv) Hlt. unfold IfaceMock.lookup.
    assert (Hfresh : forall st0, st0 = {| vars := vars s; ctxs := ctxs s ++ [fresh_ctx nmeth v];
                                          cache := (b, key_of v, length (ctxs s)) :: cache s; mimp := mimp s; alive := alive s; live := live s |} ->
              vars st0 = vars s /\ live st0 = live s /\
              exists x, get_ctx st0 (length (ctxs s)) = Some x /\ c_var x = v /\ c_canceled x = false /\
                (forall c', c' <> length (ctxs s) -> get_ctx st0 c' = get_ctx s c' \/ get_ctx s c' = None) /\
                (get_ctx s (length (ctxs s)) = Some x \/ (get_ctx s (length (ctxs s)) = None /\ x = fresh_ctx nmeth v))).
    { intros st0 ->. simpl. split; [reflexivity|]. split; [reflexivity|]. exists (fresh_ctx nmeth v).
      unfold get_ctx; simpl. rewrite nth_error_app2 by lia. rewrite Nat.sub_diag. simpl.
      split; [reflexivity|]. split; [reflexivity|]. split; [reflexivity|]. split.
      - intros c' Hne. destruct (lt_dec c' (length (ctxs s))) as [Hl|Hl].
        + left. rewrite nth_error_app1 by exact Hl. reflexivity.
        + right. apply nth_error_None. lia.
      - right. split; [apply nth_error_None; lia|reflexivity]. }
    destruct (cache_lookup (cache s) b (key_of v)) as [c0|] eqn:El.
    - apply cache_lookup_in in El. destruct (Hc _ _ _ El) as (x & Hx & Hk). apply key_inj in Hk.
      rewrite Hx. destruct (c_canceled x) eqn:Ecan.
      + intros [= <- <-]. apply Hfresh. reflexivity.
      + intros [= <- <-]. split; [reflexivity|]. split; [reflexivity|]. exists x.
        split; [exact Hx|]. split; [exact Hk|]. split; [exact Ecan|]. split; [intros; left; reflexivity|left; exact Hx].
    - intros [= <- <-]. apply Hfresh. reflexivity.
  Qed.

  (* ---- mocking method m of variable v ---- *)
  Theorem mock_dispatch s b v m : wf s -> v < length (vars s) -> m < nmeth v ->
    (forall c x, get_ctx s c = Some x -> length (c_slots x) = nmeth (c_var x)) ->
    let s' := mock s b v m in
    (* the variable is non-nil and calling m reaches the new replacement *)
    get_var s' v <> WNil /\ call s' v m = ORepl (length (live s)) /\
    (* no other variable changes *)
    (forall w, w <> v -> get_var s' w = get_var s w).
  Proof.
    intros Hwf Hlt Hm Hslots. unfold IfaceMock.mock, mock_on.
    destruct (lookup s b v) as [s1 c] eqn:El.
    destruct (lookup_spec s b v s1 c Hwf Hlt El) as (Hv1 & Hl1 & x & Hx & Hxv & Hcan & Hoth & Hwas).
    rewrite Hx. cbn zeta. subst v. rewrite Hcan.
    assert (Hlen : length (c_slots x) = nmeth (c_var x)).
    { destruct Hwas as [Hw|[_ ->]]; [apply (Hslots _ _ Hw)|simpl; apply repeat_length]. }
    assert (Hcl : c < length (ctxs s1)) by (apply nth_error_Some; unfold get_ctx in Hx; congruence).
    split; [|split].
    - unfold get_var; simpl. rewrite nth_upd_same by (rewrite Hv1; exact Hlt). discriminate.
    - unfold call, get_var; simpl. rewrite nth_upd_same by (rewrite Hv1; exact Hlt).
      unfold get_ctx; simpl. rewrite nth_error_upd_same by exact Hcl. simpl.
      rewrite nth_upd_same by (rewrite Hlen; exact Hm).
      rewrite Hl1, app_nth2 by lia. rewrite Nat.sub_diag. reflexivity.
    - intros w Hw. unfold get_var; simpl. rewrite nth_upd_other by congruence. rewrite Hv1. reflexivity.
  Qed.

  (* exactly slot m of exactly that context changes *)
  Theorem mock_slot_exact s b v m s1 c x : wf s -> v < length (vars s) ->
    lookup s b v = (s1, c) -> get_ctx s1 c = Some x -> c_canceled x = false ->
    let s' := mock s b v m in
    (exists x', get_ctx s' c = Some x' /\ forall m', m' <> m -> nth m' (c_slots x') None = nth m' (c_slots x) None) /\
    (forall c', c' <> c -> get_ctx s' c' = get_ctx s1 c').
  Proof.
    intros Hwf Hlt El Hx Hlive. unfold IfaceMock.mock, mock_on. rewrite El, Hx, Hlive. cbn zeta.
    assert (Hcl : c < length (ctxs s1)) by (apply nth_error_Some; unfold get_ctx in Hx; congruence).
    split.
    - eexists. unfold get_ctx; simpl. rewrite nth_error_upd_same by exact Hcl. split; [reflexivity|].
      intros m' Hne. simpl. apply nth_upd_other. congruence.
    - intros c' Hne. unfold get_ctx; simpl. apply nth_error_upd_other. congruence.
  Qed.

  (* ---- calls that were not mocked ---- *)
  Theorem unmocked_not_implemented s v c x m :
    get_var s v = WFake c -> get_ctx s c = Some x -> nth m (c_slots x) None = None -> call s v m = ONotImpl.
  Proof. intros Hv Hx Hs. unfold call. rewrite Hv, Hx, Hs. reflexivity. Qed.

  (* ---- Cancel / Reset ---- *)
  Theorem cancel_restores s c x w : get_ctx s c = Some x -> c_backup x = Some w -> c_var x < length (vars s) ->
    get_var (cancel_ctx s c) (c_var x) = w /\
    (forall v, v <> c_var x -> get_var (cancel_ctx s c) v = get_var s v) /\
    (exists x', get_ctx (cancel_ctx s c) c = Some x' /\ c_canceled x' = true).
  Proof.
    intros Hx Hb Hlt. unfold cancel_ctx. rewrite Hx, Hb.
    assert (Hcl : c < length (ctxs s)) by (apply nth_error_Some; unfold get_ctx in Hx; congruence).
    split; [|split].
    - unfold get_var; simpl. apply nth_upd_same. exact Hlt.
    - intros v Hv. unfold get_var; simpl. apply nth_upd_other. congruence.
    - eexists. unfold get_ctx; simpl. rewrite nth_error_upd_same by exact Hcl. split; reflexivity.
  Qed.

  (* ---- collection ---- *)
  (* retention invariant of one context: every closure a slot dispatches to is retained by the context *)
  Definition slots_retained (x : ctx) : Prop :=
    forall m k, nth m (c_slots x) None = Some k -> In k (c_retained x).

  Lemma existsb_eqb_in k l : In k l -> existsb (Nat.eqb k) l = true.
  Proof. intros H. apply existsb_exists. exists k. split; [exact H|apply Nat.eqb_refl]. Qed.

  (* after a collection, every replacement that a call through some variable can reach is still alive --
     whatever happened to the builders *)
  Theorem gc_no_dangling s v c x m k :
    get_var s v = WFake c -> v < length (vars s) -> get_ctx s c = Some x -> slots_retained x ->
    nth m (c_slots x) None = Some k -> k < length (live s) -> nth k (live s) false = true ->
    call (gc s) v m = ORepl k.
  Proof.
    intros Hv Hlt Hx Hret Hs Hk Hlive. unfold call, gc, get_var, get_ctx in *; simpl.
    rewrite Hv, Hx, Hs.
    assert (Hreach : closure_reachable s k = true).
    { unfold closure_reachable. apply orb_true_iff. right. apply existsb_exists. exists c. split.
      - apply in_seq. split; [lia|]. simpl. apply nth_error_Some. congruence.
      - apply andb_true_iff. split.
        + apply ctx_reachable_of_direct. unfold ctx_reachable_direct. apply orb_true_iff. left. apply existsb_exists. exists (WFake c). split.
          * rewrite <- Hv. apply nth_In. exact Hlt.
          * apply Nat.eqb_refl.
        + unfold get_ctx. rewrite Hx. apply existsb_eqb_in. apply (Hret m k Hs). }
    rewrite (nth_map_seq (fun k0 => nth k0 (live s) false && closure_reachable s k0)) by exact Hk.
    rewrite Hlive, Hreach. reflexivity.
  Qed.

  (* mocking keeps the retention invariant of the context it touches *)
  Theorem mock_keeps_retention s b c m x : get_ctx s c = Some x -> slots_retained x ->
    exists x', get_ctx (mock_on s b c m) c = Some x' /\ slots_retained x'.
  Proof.
    intros Hx Hret. unfold mock_on. rewrite Hx. cbn zeta. rename s into s1.
    assert (Hcl : c < length (ctxs s1)) by (apply nth_error_Some; unfold get_ctx in Hx; congruence).
    eexists. unfold get_ctx; simpl. rewrite nth_error_upd_same by exact Hcl. split; [reflexivity|].
    intros m' k' Hs. simpl in *. destruct (Nat.eq_dec m m') as [->|Hne].
    - destruct (c_canceled x).
      + destruct (lt_dec m' (length (c_slots x))) as [Hl|Hl].
        * rewrite nth_upd_same in Hs by (rewrite repeat_length; exact Hl). inversion Hs. left. reflexivity.
        * rewrite nth_overflow in Hs by (rewrite upd_length, repeat_length; lia). discriminate.
      + destruct (lt_dec m' (length (c_slots x))) as [Hl|Hl].
        * rewrite nth_upd_same in Hs by exact Hl. inversion Hs. left. reflexivity.
        * rewrite nth_overflow in Hs by (rewrite upd_length; lia). discriminate.
    - rewrite nth_upd_other in Hs by exact Hne. right. destruct (c_canceled x).
      + rewrite nth_repeat in Hs. discriminate.
      + apply (Hret m' k' Hs).
  Qed.

  Lemma fresh_ctx_retention v : slots_retained (fresh_ctx nmeth v).
  Proof. intros m k. simpl. rewrite nth_repeat. discriminate. Qed.
End Facts.
